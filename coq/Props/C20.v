(* C20 - property theorems only.  [pipeline], [worker_full] are REGENERATED from /repo (Gen/GenStatus.v):
   pipeline = run_multiome_tagging with tag_multiome_single_thread, tag_multiome_multi_processing, the
   --cluster branch, sorted_bam_file (code before / after its yield), sort_and_index and merge_bams inlined;
   every result of the worker pool is a [Spawn worker_full]: worker_full = the whole body of
   run_tagging_tasks (temp BAM naming, task loop with its TimeoutError handler, sort + index, removal of an
   empty temp BAM, both returns) with run_tagging_task inlined, run on a world of its own.
   Quantifiers: [cnt] = number of iterations of every loop at each of its entries (jobs, tasks per job,
   molecules per task, fragments, temp files ...), [ch] = outcome of every run-time test at each evaluation,
   [f] = what happens to the i-th executed step, in the parent or in a worker (works / raises before /
   raises half way, and with which exception class: RuntimeError, ValueError, OSError, TimeoutError,
   MemoryError, another Exception, or a non-Exception such as KeyboardInterrupt - the except clauses of the
   source decide per class), so every crash point and every sequence of faults is covered; [crash_at e k] is
   the single fault of the statement.  [aux_clear w0]: the ghost / data fields of the initial world are in
   their initial state (nothing lost, nothing reported, counters zero, no path in hand).
   TimeoutError: run_tagging_tasks swallows it on purpose (-max_time_per_segment: the task is put in
   timeout_tasks, the parent blacklists the region in the output header).  The full-strength statement
   ("success => every record") is therefore proved for every class except TimeoutError, REFUTED with it
   (C20_every_record_refuted), and the exact guarantee that remains is proved for all classes
   (..._timeouts: nothing is dropped without a report). *)
From Coq Require Import List Bool Arith.
Import ListNotations.
From SCMO Require Import Lib.StatusLang Gen.GenStatus Model.C20 Proofs.C20 Proofs.C20_inst.

(* whenever the status file reports success, the output BAM exists, is complete, sorted, indexed:
   at the end of every run, however and wherever it was interrupted (parent or worker side), in both pipelines *)
Theorem C20_never_ok_early : forall cnt ch f w0 r s,
  no_timeout f ->
  aux_clear w0 = true -> invb w0 = true ->
  run_prog pipeline cnt ch f w0 = (r, s) ->
  st (wd s) = SOk -> ex (wd s) = true /\ co (wd s) = true /\ so (wd s) = true /\ ix (wd s) = true.
Proof. exact never_ok_early. Qed.
Print Assumptions C20_never_ok_early.

(* the same in the words of the statement: crash point k, exception class e *)
Theorem C20_never_ok_early_crash_at : forall cnt ch e k w0 r s,
  e <> KTimeout ->
  aux_clear w0 = true -> invb w0 = true ->
  run_prog pipeline cnt ch (crash_at e k) w0 = (r, s) ->
  st (wd s) = SOk -> ex (wd s) = true /\ co (wd s) = true /\ so (wd s) = true /\ ix (wd s) = true.
Proof. exact never_ok_early_crash_at. Qed.
Print Assumptions C20_never_ok_early_crash_at.

(* every class, TimeoutError included: success => the output exists, is sorted and indexed, NOTHING was
   dropped without a report (no failed worker, no half-merged job, no forgotten temp BAM), and it is complete
   unless a segment was given up and reported in timeout_tasks *)
Theorem C20_never_ok_early_timeouts : forall cnt ch f w0 r s,
  aux_clear w0 = true -> invb w0 = true ->
  run_prog pipeline cnt ch f w0 = (r, s) ->
  st (wd s) = SOk ->
  ex (wd s) = true /\ so (wd s) = true /\ ix (wd s) = true /\ lost (wd s) = false /\ (co (wd s) = true \/ rep (wd s) = true).
Proof. exact never_ok_early_timeouts. Qed.
Print Assumptions C20_never_ok_early_timeouts.

(* the full-strength statement with TimeoutError admitted is refuted by the faithful model (by design of
   -max_time_per_segment): a standard multiprocess run over 3 jobs x 3 tasks x 3 molecules in which one step
   of a worker raises TimeoutError returns, says success, and lacks records (reported, not lost) *)
Theorem C20_every_record_refuted : exists k s,
  run_prog pipeline cnt3 (ch_of ch_true_multi) (crash_at KTimeout k) w_fresh = (RNormal, s) /\
  st (wd s) = SOk /\ co (wd s) = false /\ rep (wd s) = true /\ lost (wd s) = false.
Proof. exact every_record_refuted. Qed.
Print Assumptions C20_every_record_refuted.

(* a run that returns (possibly after swallowed failures such as a sort retry or a failed temp folder
   removal) ends with status Ok and a complete, sorted, indexed output *)
Theorem C20_ok_at_end : forall cnt ch f w0 s,
  no_timeout f ->
  aux_clear w0 = true ->
  run_prog pipeline cnt ch f w0 = (RNormal, s) ->
  st (wd s) = SOk /\ ex (wd s) = true /\ co (wd s) = true /\ so (wd s) = true /\ ix (wd s) = true.
Proof. exact ok_at_end. Qed.
Print Assumptions C20_ok_at_end.

Theorem C20_ok_at_end_timeouts : forall cnt ch f w0 s,
  aux_clear w0 = true ->
  run_prog pipeline cnt ch f w0 = (RNormal, s) ->
  st (wd s) = SOk /\ ex (wd s) = true /\ so (wd s) = true /\ ix (wd s) = true /\ lost (wd s) = false /\
  (co (wd s) = true \/ rep (wd s) = true).
Proof. exact ok_at_end_timeouts. Qed.
Print Assumptions C20_ok_at_end_timeouts.

(* a run that does not return never says success (it did not start with a stale success marker; no blacklist
   temp files to clean after the pipeline) - whichever step failed, in the parent or in any worker of any job *)
Theorem C20_fail_not_ok : forall cnt ch f w0 r s,
  (forall n, ch id_ch_tempfiles n = false) ->
  aux_clear w0 = true -> st w0 <> SOk ->
  run_prog pipeline cnt ch f w0 = (r, s) ->
  r <> RNormal -> st (wd s) <> SOk.
Proof. exact fail_not_ok. Qed.
Print Assumptions C20_fail_not_ok.

(* the parent never reports success when a worker failed, in three steps:
   (a) a worker that raises (or returns nothing usable) makes next(job_generator) raise in the parent and
       marks the parent's world [lost], for every worker program;
   (b) the mark stays for the rest of every run of every program;
   (c) a run of the pipeline that ends with the mark does not say success (also when something in the parent
       swallowed the exception). *)
Theorem C20_worker_failure_marks_parent : forall cnt ch f l p s k s',
  exec cnt ch f (Spawn l p) s = (RRaised k, s') -> lost (wd s') = true.
Proof. exact spawn_failure_lost. Qed.
Print Assumptions C20_worker_failure_marks_parent.

Theorem C20_lost_is_sticky : forall cnt ch f p s r s',
  exec cnt ch f p s = (r, s') -> lost (wd s) = true -> lost (wd s') = true.
Proof. exact lost_sticky. Qed.
Print Assumptions C20_lost_is_sticky.

Theorem C20_lost_never_ok : forall cnt ch f w0 r s,
  aux_clear w0 = true -> invb w0 = true ->
  run_prog pipeline cnt ch f w0 = (r, s) ->
  lost (wd s) = true -> st (wd s) <> SOk.
Proof. exact lost_never_ok. Qed.
Print Assumptions C20_lost_never_ok.

(* ---- the worker (whole body of run_tagging_tasks), started on its fresh temp path *)

(* a worker that returns a path has written a complete, sorted, indexed temp BAM, whatever failed inside it
   with whatever exception class other than TimeoutError *)
Theorem C20_worker_path_complete : forall cnt ch f s,
  no_timeout f ->
  run_prog worker_full cnt ch f w_spawn0 = (RReturn VPath, s) ->
  ex (wd s) = true /\ co (wd s) = true /\ so (wd s) = true /\ ix (wd s) = true.
Proof. exact worker_path_complete. Qed.
Print Assumptions C20_worker_path_complete.

(* -max_time_per_segment: with TimeoutError admitted, the returned temp BAM is sorted and indexed and every
   segment is either fully written or reported in timeout_tasks (a half-written segment is never returned
   silently) *)
Theorem C20_worker_path_timeouts : forall cnt ch f s,
  run_prog worker_full cnt ch f w_spawn0 = (RReturn VPath, s) ->
  ex (wd s) = true /\ so (wd s) = true /\ ix (wd s) = true /\ lost (wd s) = false /\ (co (wd s) = true \/ rep (wd s) = true).
Proof. exact worker_path_timeouts. Qed.
Print Assumptions C20_worker_path_timeouts.

(* a worker that returns None (and removes its temp BAM) throws away no unit of a task it does not report:
   the test on total_molecules is only false when no finished task wrote a molecule *)
Theorem C20_worker_none_drops_nothing : forall cnt ch f s,
  run_prog worker_full cnt ch f w_spawn0 = (RReturn VNone, s) ->
  lost (wd s) = false /\ gm (wd s) = false /\ gu (wd s) = false.
Proof. exact worker_none_drops_nothing. Qed.
Print Assumptions C20_worker_none_drops_nothing.

Theorem C20_worker_none_wrote_nothing : forall cnt ch f s,
  no_timeout f ->
  run_prog worker_full cnt ch f w_spawn0 = (RReturn VNone, s) ->
  rep (wd s) = false /\ lost (wd s) = false /\ gm (wd s) = false /\ gu (wd s) = false.
Proof. exact worker_none_wrote_nothing. Qed.
Print Assumptions C20_worker_none_wrote_nothing.

(* the worker either returns (path | None, meta) or raises: it never falls off its end *)
Theorem C20_worker_returns_or_raises : forall cnt ch f r s,
  run_prog worker_full cnt ch f w_spawn0 = (r, s) ->
  (exists v, r = RReturn v) \/ (exists k, r = RRaised k).
Proof. exact worker_returns_or_raises. Qed.
Print Assumptions C20_worker_returns_or_raises.

(* what exactly a timeout leaves: (1) a task that times out after writing part of its molecules, next to a
   task that completed: the worker returns its temp BAM, which holds the half-written segment; the segment is
   reported.  (2) the only task of a worker times out after writing: the temp BAM is removed, None is
   returned, the segment is reported.  ([k] is the next() of the molecule loop, right after a molecule was
   counted.) *)
Theorem C20_timeout_half_written_segment_is_reported : exists k s,
  run_prog worker_full cnt3 (ch_of ch_true_multi) (crash_at KTimeout k) w_spawn0 = (RReturn VPath, s) /\
  nth k (rev (tr s)) 0 = lbl_task_next /\ nth (k - 1) (rev (tr s)) 0 = lbl_task_inc /\
  ex (wd s) = true /\ co (wd s) = false /\ rep (wd s) = true /\ gm (wd s) = true /\ lost (wd s) = false.
Proof. exact timeout_half_written_reported. Qed.
Print Assumptions C20_timeout_half_written_segment_is_reported.

Theorem C20_timeout_only_segment_removed_and_reported : exists k s,
  run_prog worker_full cnt_one_task (ch_of ch_true_multi) (crash_at KTimeout k) w_spawn0 = (RReturn VNone, s) /\
  nth k (rev (tr s)) 0 = lbl_task_next /\ nth (k - 1) (rev (tr s)) 0 = lbl_task_inc /\
  rep (wd s) = true /\ ex (wd s) = false /\ lost (wd s) = false.
Proof. exact timeout_only_segment_removed. Qed.
Print Assumptions C20_timeout_only_segment_removed_and_reported.

(* ---- --cluster without -contig: jobs are submitted and the process ends by exit(); this process never
   writes the success marker and never returns *)
Theorem C20_cluster_never_ok : forall cnt ch f w0 r s,
  (forall n, ch id_ch_cluster n = true) -> (forall n, ch id_ch_cluster_contig_none n = true) ->
  aux_clear w0 = true -> st w0 <> SOk ->
  run_prog pipeline cnt ch f w0 = (r, s) ->
  r <> RNormal /\ st (wd s) <> SOk.
Proof. exact cluster_never_ok. Qed.
Print Assumptions C20_cluster_never_ok.

(* non-vacuity: standard runs of both pipelines (3 jobs x 3 tasks x 3 molecules) and of a worker complete;
   some crash point among the first 200 steps of the single-process run over a previous successful output
   raises and does not leave the success marker; some OSError crash point inside a worker makes the
   multiprocess run fail without the marker and with the parent's world marked; a worker whose tasks write
   nothing returns None; the --cluster run ends by SystemExit with a status that is not the success marker *)
Example C20_runs :
  (let '(r, s) := run_prog pipeline cnt3 (ch_of ch_true_single) no_fault w_fresh in
   (r, st (wd s), all_four (wd s))) = (RNormal, SOk, true) /\
  (let '(r, s) := run_prog pipeline cnt3 (ch_of ch_true_multi) no_fault w_fresh in
   (r, st (wd s), all_four (wd s), lost (wd s))) = (RNormal, SOk, true, false) /\
  existsb (fun k => let '(r, s) := run_prog pipeline cnt3 (ch_of ch_true_single) (crash_at KOS k) w_prev_ok in
                    match r with RRaised KOS => negb (status_eqb (st (wd s)) SOk) | _ => false end) (seq 0 200) = true /\
  existsb (fun k => let '(r, s) := run_prog pipeline cnt3 (ch_of ch_true_multi) (crash_at KOS k) w_fresh in
                    match r with RRaised KOS => negb (status_eqb (st (wd s)) SOk) && lost (wd s) | _ => false end) (seq 60 200) = true /\
  (let '(r, s) := run_prog worker_full cnt3 (ch_of ch_true_multi) no_fault w_spawn0 in
   (r, all_four (wd s))) = (RReturn VPath, true) /\
  (let '(r, s) := run_prog worker_full (fun id _ => if Nat.eqb id id_loop_tasks then 2 else 0) (ch_of ch_true_multi) no_fault w_spawn0 in
   (r, ex (wd s), lost (wd s))) = (RReturn VNone, false, false) /\
  (let '(r, s) := run_prog pipeline cnt3 (ch_of (id_ch_cluster :: id_ch_cluster_contig_none :: ch_true_single)) no_fault w_fresh in
   (r, st (wd s))) = (RRaised KBase, SOther) /\
  ch_of ch_true_single id_ch_tempfiles 0 = false /\
  invb w_prev_ok = true /\ invb w_fresh = true /\ aux_clear w_prev_ok = true /\ aux_clear w_fresh = true /\ aux_clear w_spawn0 = true.
Proof. vm_compute. repeat split. Qed.
Print Assumptions C20_runs.

Example C20_no_timeout_inhabited : no_timeout (crash_at KOS 7) /\ no_timeout no_fault.
Proof. split; [apply crash_at_no_timeout; discriminate | intros i; split; discriminate]. Qed.
Print Assumptions C20_no_timeout_inhabited.
