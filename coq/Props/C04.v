(* C04 - property theorems only.  Each is closed by [exact lemma]; Print Assumptions beneath.
   Model: coq/Model/C04.v (strings = lists of character codes, Python exceptions = Raise).
   enc_table/enc_lo/enc_hi/enc_off, dec_table/dec_off, header_limit, the separators, fqsafe_ranges,
   tag_table, name_keys, mol_tags and py_space are REGENERATED from the tree under check (Gen/GenCodec.v).
   Vocabulary (defined in Proofs/C04*.v):
     saturate c      = min (max 33 c) 84
     dnw k           = the doNotWrite flag of tag k;   wr t = the entries of store t that asFastq writes
     dec_view w      = w with every value v replaced by TS (fqSafe v)      (what the tagger decodes)
     wf_store t      = t is a dict (unique keys), every key is defined in tags.py, no value contains
                       the two separators or whitespace
     wv k v          = the value set_tag receives for stored v (phred tags decoded to the original characters)
     writable k v    = phred tags hold letters of the table, other tags have 2-character names
     derived_key k   = k is SM, MI or ah *)
From Coq Require Import ZArith List Bool String.
Import ListNotations.
From SCMO Require Import Gen.GenCodec Model.C04 Proofs.C04 Proofs.C04_b Proofs.C04_c Proofs.C04_d.
Open Scope Z_scope.

(* -------- quality codec: total for EVERY character code (so in particular 33..126), saturating *)
Theorem C04_phred_total : forall c : Z, exists e,
  phred_enc_char c = Some e /\ nth_error enc_table (Z.to_nat (clamp_index c)) = Some e.
Proof. exact phred_enc_char_total. Qed.
Print Assumptions C04_phred_total.

(* decode (encode q) = saturate q, same length, never an exception *)
Theorem C04_phred_roundtrip : forall s : str, exists e,
  phred_enc s = Ok e /\ List.length e = List.length s /\ Forall (fun x => In x enc_table) e /\
  phred_dec e = Ok (map saturate s).
Proof. exact phred_roundtrip. Qed.
Print Assumptions C04_phred_roundtrip.

(* identity on the representable range '!'..'T' *)
Theorem C04_phred_identity : forall s : str, Forall (fun c => 33 <= c <= 84) s -> map saturate s = s.
Proof. exact map_saturate_id. Qed.
Print Assumptions C04_phred_identity.

(* -------- fqSafe *)
Theorem C04_fqsafe_idem : forall s, fqSafe (fqSafe s) = fqSafe s.
Proof. exact fqSafe_idem. Qed.
Print Assumptions C04_fqsafe_idem.

(* the header-safe alphabet of the property statement: exactly [A-Za-z0-9_-] *)
Theorem C04_safe_alphabet : forall c, fq_keep c = true <->
  (c = 45 \/ 48 <= c <= 57 \/ 65 <= c <= 90 \/ c = 95 \/ 97 <= c <= 122).
Proof. exact safe_alphabet. Qed.
Print Assumptions C04_safe_alphabet.

Theorem C04_fqsafe_fixed : forall s, safe s = true -> fqSafe s = s.
Proof. exact fqSafe_fixed. Qed.
Print Assumptions C04_fqsafe_fixed.

(* -------- header round trip (the core): every written tag comes back, in order, value = fqSafe value *)
Theorem C04_roundtrip : forall t, wf_store t = true ->
  let w := filter (fun kv => negb (dnw (fst kv))) t in
  written t = Ok w /\
  (w <> [] -> len (header_of w) <= header_limit ->
   encode t = Ok (header_of w) /\ decode (header_of w) = Ok (dec_view w)).
Proof. exact roundtrip. Qed.
Print Assumptions C04_roundtrip.

(* values over the header-safe alphabet come back unchanged *)
Theorem C04_roundtrip_safe : forall w, Forall (fun kv => safe (snd kv) = true) w ->
  dec_view w = map (fun kv => (fst kv, TS (snd kv))) w.
Proof. exact dec_view_safe. Qed.
Print Assumptions C04_roundtrip_safe.

Theorem C04_roundtrip_field : forall t k v, wf_store t = true -> In (k, v) t -> dnw k = false ->
  get k (dec_view (filter (fun kv => negb (dnw (fst kv))) t)) = Some (TS (fqSafe v)).
Proof. exact roundtrip_get. Qed.
Print Assumptions C04_roundtrip_field.

(* -------- a header that cannot be stored is refused, never truncated; the limit fits the BAM capacity (254) *)
Theorem C04_refuse_long : forall t w, written t = Ok w ->
  (encode t = Raise ETooLong <-> header_limit < len (header_of w)) /\
  (forall h, encode t = Ok h -> h = header_of w /\ len h <= 254).
Proof. exact refuse_long. Qed.
Print Assumptions C04_refuse_long.

(* -------- demultiplexer and tagger agree on which tags carry encoded qualities; every written tag is defined *)
Theorem C04_quality_tags_consistent :
  forallb is_phred encoded_tags && forallb (fun k => negb (is_phred k)) plain_tags
  && forallb (fun k => match tagdef k with Some _ => true | None => false end) (encoded_tags ++ plain_tags) = true.
Proof. exact gen_written_tags. Qed.
Print Assumptions C04_quality_tags_consistent.

(* -------- tagger: derived tags of a cell read (any decoded store with barcode, index, library, cell index) *)
Theorem C04_tag_read_cell : forall d bc ia ly bi, all_str d ->
  (forall k v, In (k, v) d -> writable k v) ->
  get k_BC d = Some (TS bc) -> get k_QT d = None -> get k_aA d = Some (TS ia) ->
  get k_LY d = Some (TS ly) -> get k_bi d = Some (TS bi) ->
  exists out, tag_read d = Ok out /\
    get k_SM out = Some (TS (fqSafe (ly ++ 95 :: bi))) /\
    get k_MI out = Some (TS (fqSafe (bc ++ gets k_RX d ++ ia))) /\
    (forall raw, get k_aa d = Some (TS raw) -> get k_ah out = Some (TI (hamming raw ia))) /\
    (forall k, derived_key k = false -> get k out = option_map (wv k) (get k d)).
Proof. exact tag_read_cell. Qed.
Print Assumptions C04_tag_read_cell.

Theorem C04_tag_read_bulk : forall d ly, all_str d -> (forall k v, In (k, v) d -> writable k v) ->
  get k_aA d = None -> get k_BC d = None -> get k_RX d = None -> get k_QM d = None ->
  get k_LY d = Some (TS ly) -> get k_bi d = None -> get k_BI d = None ->
  exists out, tag_read d = Ok out /\ get k_BK out = Some (TI 1) /\
    get k_SM out = Some (TS (fqSafe (ly ++ 95 :: s_BULK))) /\
    (forall k, str_eqb k k_SM || str_eqb k k_BK = false -> get k out = option_map (wv k) (get k d)).
Proof. exact tag_read_bulk. Qed.
Print Assumptions C04_tag_read_bulk.

(* -------- end to end: asFastq header of ANY well-formed tag store of a cell read -> digest -> tags.
   name = original Illumina coordinates, SM = LY_bi, MI = BC+RX+aA, RG = Fc.La.SM, every other written tag
   returns as fqSafe(value) (= value over the safe alphabet), quality tags as the characters phred_dec gives. *)
Theorem C04_end_to_end : forall t bc ia ly bi vis vrn vfc vla vti vcx vcy,
  wf_store t = true ->
  let w := wr t in
  len (header_of w) <= header_limit ->
  get k_BC w = Some bc -> get k_QT w = None -> get k_aA w = Some ia -> get k_LY w = Some ly -> get k_bi w = Some bi ->
  get k_Is w = Some vis -> get k_RN w = Some vrn -> get k_Fc w = Some vfc -> get k_La w = Some vla ->
  get k_Ti w = Some vti -> get k_CX w = Some vcx -> get k_CY w = Some vcy ->
  (forall k v, In (k, v) w -> is_phred k = true -> Forall (fun x => In x dec_table) v) ->
  let name := join 58 (map fqSafe [vis; vrn; vfc; vla; vti; vcx; vcy]) in
  exists out, chain t = Ok (name, out) /\
    get k_SM out = Some (TS (fqSafe ly ++ 95 :: fqSafe bi)) /\
    get k_MI out = Some (TS (fqSafe bc ++ ovalue (get k_RX w) ++ fqSafe ia)) /\
    (forall raw, get k_aa w = Some raw -> get k_ah out = Some (TI (hamming (fqSafe raw) (fqSafe ia)))) /\
    get k_RG out = Some (TS (fqSafe vfc ++ 46 :: fqSafe vla ++ 46 :: fqSafe ly ++ 95 :: fqSafe bi)) /\
    (forall k v, In (k, v) w -> derived_key k = false -> k <> k_RG -> is_phred k = false ->
                 get k out = Some (TS (fqSafe v))) /\
    (forall k v, In (k, v) w -> derived_key k = false -> is_phred k = true ->
                 exists p, phred_dec v = Ok p /\ get k out = Some (TS p)) /\
    (* a quality tag the strategy wrote as phred_enc q returns as the original characters, saturated *)
    (forall k q e, In (k, e) w -> derived_key k = false -> is_phred k = true -> phred_enc q = Ok e ->
                 get k out = Some (TS (map saturate q))).
Proof. exact chain_cell. Qed.
Print Assumptions C04_end_to_end.

(* -------- the tagger keeps no state between reads: digest of a list = the single-read digest of each read *)
Theorem C04_digest_stateless : forall qs, (forall q, In q qs -> exists x, digest_read q = Ok x) ->
  digest (map (fun q => Some (q, false)) qs) = (map standalone qs, None).
Proof. exact digest_stateless. Qed.
Print Assumptions C04_digest_stateless.

(* for ANY list (None entries, already tagged or failing reads in between): a read that ends up tagged carries
   exactly the name and tags of its own stand-alone digest *)
Theorem C04_digest_pointwise : forall reads o e, digest reads = (o, e) ->
  Forall2 (fun r x => match x with
                      | Tagged n t => exists q sm, r = Some (q, sm) /\ digest_read q = Ok (n, t)
                      | _ => True
                      end) reads o.
Proof. exact digest_pointwise. Qed.   (* tagged_alone unfolds to the predicate written out above *)
Print Assumptions C04_digest_pointwise.

(* -------- non-vacuity: a store as NLAIII384C8U3 writes it (instrument still carries the '@' of the FASTQ line,
   UMI qualities 'A~#' encoded by phred_enc) satisfies the hypotheses; the chain computes the expected tags *)
Definition ex_store : store :=
  [ (k_Is, s2z "@NS500414"); (k_RN, s2z "628"); (k_Fc, s2z "H7YVNBGXC"); (k_La, s2z "1"); (k_Ti, s2z "11101");
    (k_CX, s2z "15963"); (k_CY, s2z "1046"); (k_RP, s2z "1"); (k_Fi, s2z "N"); (k_CN, s2z "0");
    (k_aa, s2z "GTGAAT"); (k_aA, s2z "GTGAAA"); (k_aI, s2z "19"); (k_LY, s2z "LIB_1-x");
    (k_RX, s2z "ATC"); (k_RQ, s2z "GZc"); (k_bi, s2z "1"); (k_bc, s2z "ACACACTA");
    (k_MX, s2z "NLAIII384C8U3"); (k_BC, s2z "ACACACTA") ]%string.

Example C04_example :
  wf_store ex_store = true /\ phred_enc (s2z "A~#"%string) = Ok (s2z "GZc"%string) /\
  encode ex_store = Ok (s2z "Is:@NS500414;RN:628;Fc:H7YVNBGXC;La:1;Ti:11101;CX:15963;CY:1046;Fi:N;CN:0;aa:GTGAAT;aA:GTGAAA;aI:19;LY:LIB_1-x;RX:ATC;RQ:GZc;bi:1;bc:ACACACTA;MX:NLAIII384C8U3;BC:ACACACTA"%string) /\
  exists out, chain ex_store = Ok (s2z "NS500414:628:H7YVNBGXC:1:11101:15963:1046"%string, out) /\
    get k_SM out = Some (TS (s2z "LIB_1-x_1"%string)) /\ get k_MI out = Some (TS (s2z "ACACACTAATCGTGAAA"%string)) /\
    get k_RQ out = Some (TS (s2z "AT#"%string)) /\ get k_ah out = Some (TI 1) /\ get k_Is out = Some (TS (s2z "NS500414"%string)).
Proof. vm_compute. repeat split. eexists. repeat split. Qed.
Print Assumptions C04_example.

(* outside the header-safe alphabet (reported, D7): the '+' of a dual sequencing index is deleted by the decoder *)
Example C04_plus_is_filtered : fqSafe (s2z "ACGT+TTGA"%string) = s2z "ACGTTTGA"%string /\ safe (s2z "ACGT+TTGA"%string) = false.
Proof. vm_compute. split; reflexivity. Qed.
Print Assumptions C04_plus_is_filtered.
