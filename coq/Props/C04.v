(* C04 - property theorems only.  Each is closed by [exact lemma]; Print Assumptions beneath.
   Model: coq/Model/C04.v (strings = lists of character codes, Python exceptions = Raise).
   enc_table/enc_lo/enc_hi/enc_off, dec_table/dec_off, header_limit, the separators, fqsafe_ranges,
   tag_table, name_keys, mol_tags and py_space are REGENERATED from the tree under check (Gen/GenCodec.v), and so are
   the CONTROL-FLOW TABLES the model interprets (Model/C04x.v): illumina_forms (per header form: deleted substring,
   separator set, number of pieces, which piece goes to which tag), index tags, scmo / 3-DEC parsers, decoder flags
   (strip, maxsplit, fqSafe on store), sample-name chain, ah/MI/QM/BK tags, read-group recipe, guards of digest.
   The second half of this file (C04_*_tables) holds for EVERY table satisfying the stated well-formedness predicate.
   Vocabulary (defined in Proofs/C04*.v):
     saturate c      = min (max 33 c) 84
     dnw k           = the doNotWrite flag of tag k;   wr t = the entries of store t that asFastq writes
     dec_view w      = w with every value v replaced by TS (fqSafe v)      (what the tagger decodes)
     wf_store t      = t is a dict (unique keys), every key is defined in tags.py, no value contains
                       the two separators or whitespace
     wv k v          = the value set_tag receives for stored v (phred tags decoded to the original characters)
     writable k v    = phred tags hold letters of the table, other tags have 2-character names
     derived_key k   = k is SM, MI or ah *)
From Coq Require Import ZArith List Bool String.
Import ListNotations.
From SCMO Require Import Gen.GenCodec Model.C04 Proofs.C04 Proofs.C04_b Proofs.C04_c Proofs.C04_d Proofs.C04_e Proofs.C04_f Proofs.C04_g.
Open Scope Z_scope.

(* -------- quality codec: total for EVERY character code (so in particular 33..126), saturating *)
Theorem C04_phred_total : forall c : Z, exists e,
  phred_enc_char c = Some e /\ nth_error enc_table (Z.to_nat (clamp_index c)) = Some e.
Proof. exact phred_enc_char_total. Qed.
Print Assumptions C04_phred_total.

(* decode (encode q) = saturate q, same length, never an exception *)
Theorem C04_phred_roundtrip : forall s : str, exists e,
  phred_enc s = Ok e /\ List.length e = List.length s /\ Forall (fun x => In x enc_table) e /\
  phred_dec e = Ok (map saturate s).
Proof. exact phred_roundtrip. Qed.
Print Assumptions C04_phred_roundtrip.

(* identity on the representable range '!'..'T' *)
Theorem C04_phred_identity : forall s : str, Forall (fun c => 33 <= c <= 84) s -> map saturate s = s.
Proof. exact map_saturate_id. Qed.
Print Assumptions C04_phred_identity.

(* -------- fqSafe *)
Theorem C04_fqsafe_idem : forall s, fqSafe (fqSafe s) = fqSafe s.
Proof. exact fqSafe_idem. Qed.
Print Assumptions C04_fqsafe_idem.

(* the header-safe alphabet of the property statement: exactly [A-Za-z0-9_-] *)
Theorem C04_safe_alphabet : forall c, fq_keep c = true <->
  (c = 45 \/ 48 <= c <= 57 \/ 65 <= c <= 90 \/ c = 95 \/ 97 <= c <= 122).
Proof. exact safe_alphabet. Qed.
Print Assumptions C04_safe_alphabet.

Theorem C04_fqsafe_fixed : forall s, safe s = true -> fqSafe s = s.
Proof. exact fqSafe_fixed. Qed.
Print Assumptions C04_fqsafe_fixed.

(* -------- header round trip (the core): every written tag comes back, in order, value = fqSafe value *)
Theorem C04_roundtrip : forall t, wf_store t = true ->
  let w := filter (fun kv => negb (dnw (fst kv))) t in
  written t = Ok w /\
  (w <> [] -> len (header_of w) <= header_limit ->
   encode t = Ok (header_of w) /\ decode (header_of w) = Ok (dec_view w)).
Proof. exact roundtrip. Qed.
Print Assumptions C04_roundtrip.

(* values over the header-safe alphabet come back unchanged *)
Theorem C04_roundtrip_safe : forall w, Forall (fun kv => safe (snd kv) = true) w ->
  dec_view w = map (fun kv => (fst kv, TS (snd kv))) w.
Proof. exact dec_view_safe. Qed.
Print Assumptions C04_roundtrip_safe.

Theorem C04_roundtrip_field : forall t k v, wf_store t = true -> In (k, v) t -> dnw k = false ->
  get k (dec_view (filter (fun kv => negb (dnw (fst kv))) t)) = Some (TS (fqSafe v)).
Proof. exact roundtrip_get. Qed.
Print Assumptions C04_roundtrip_field.

(* -------- a header that cannot be stored is refused, never truncated; the limit fits the BAM capacity (254) *)
Theorem C04_refuse_long : forall t w, written t = Ok w ->
  (encode t = Raise ETooLong <-> header_limit < len (header_of w)) /\
  (forall h, encode t = Ok h -> h = header_of w /\ len h <= 254).
Proof. exact refuse_long. Qed.
Print Assumptions C04_refuse_long.

(* -------- demultiplexer and tagger agree on which tags carry encoded qualities; every written tag is defined *)
Theorem C04_quality_tags_consistent :
  forallb is_phred encoded_tags && forallb (fun k => negb (is_phred k)) plain_tags
  && forallb (fun k => match tagdef k with Some _ => true | None => false end) (encoded_tags ++ plain_tags) = true.
Proof. exact gen_written_tags. Qed.
Print Assumptions C04_quality_tags_consistent.

(* -------- tagger: derived tags of a cell read (any decoded store with barcode, index, library, cell index) *)
Theorem C04_tag_read_cell : forall d bc ia ly bi, all_str d ->
  (forall k v, In (k, v) d -> writable k v) ->
  get k_BC d = Some (TS bc) -> get k_QT d = None -> get k_aA d = Some (TS ia) ->
  get k_LY d = Some (TS ly) -> get k_bi d = Some (TS bi) ->
  exists out, tag_read d = Ok out /\
    get k_SM out = Some (TS (fqSafe (ly ++ 95 :: bi))) /\
    get k_MI out = Some (TS (fqSafe (bc ++ gets k_RX d ++ ia))) /\
    (forall raw, get k_aa d = Some (TS raw) -> get k_ah out = Some (TI (hamming raw ia))) /\
    (forall k, derived_key k = false -> get k out = option_map (wv k) (get k d)).
Proof. exact tag_read_cell. Qed.
Print Assumptions C04_tag_read_cell.

Theorem C04_tag_read_bulk : forall d ly, all_str d -> (forall k v, In (k, v) d -> writable k v) ->
  get k_aA d = None -> get k_BC d = None -> get k_RX d = None -> get k_QM d = None ->
  get k_LY d = Some (TS ly) -> get k_bi d = None -> get k_BI d = None ->
  exists out, tag_read d = Ok out /\ get k_BK out = Some (TI 1) /\
    get k_SM out = Some (TS (fqSafe (ly ++ 95 :: s_BULK))) /\
    (forall k, str_eqb k k_SM || str_eqb k k_BK = false -> get k out = option_map (wv k) (get k d)).
Proof. exact tag_read_bulk. Qed.
Print Assumptions C04_tag_read_bulk.

(* -------- end to end: asFastq header of ANY well-formed tag store of a cell read -> digest -> tags.
   name = original Illumina coordinates, SM = LY_bi, MI = BC+RX+aA, RG = Fc.La.SM, every other written tag
   returns as fqSafe(value) (= value over the safe alphabet), quality tags as the characters phred_dec gives. *)
Theorem C04_end_to_end : forall t bc ia ly bi vis vrn vfc vla vti vcx vcy,
  wf_store t = true ->
  let w := wr t in
  len (header_of w) <= header_limit ->
  get k_BC w = Some bc -> get k_QT w = None -> get k_aA w = Some ia -> get k_LY w = Some ly -> get k_bi w = Some bi ->
  get k_Is w = Some vis -> get k_RN w = Some vrn -> get k_Fc w = Some vfc -> get k_La w = Some vla ->
  get k_Ti w = Some vti -> get k_CX w = Some vcx -> get k_CY w = Some vcy ->
  (forall k v, In (k, v) w -> is_phred k = true -> Forall (fun x => In x dec_table) v) ->
  let name := join 58 (map fqSafe [vis; vrn; vfc; vla; vti; vcx; vcy]) in
  exists out, chain t = Ok (name, out) /\
    get k_SM out = Some (TS (fqSafe ly ++ 95 :: fqSafe bi)) /\
    get k_MI out = Some (TS (fqSafe bc ++ ovalue (get k_RX w) ++ fqSafe ia)) /\
    (forall raw, get k_aa w = Some raw -> get k_ah out = Some (TI (hamming (fqSafe raw) (fqSafe ia)))) /\
    get k_RG out = Some (TS (fqSafe vfc ++ 46 :: fqSafe vla ++ 46 :: fqSafe ly ++ 95 :: fqSafe bi)) /\
    (forall k v, In (k, v) w -> derived_key k = false -> k <> k_RG -> is_phred k = false ->
                 get k out = Some (TS (fqSafe v))) /\
    (forall k v, In (k, v) w -> derived_key k = false -> is_phred k = true ->
                 exists p, phred_dec v = Ok p /\ get k out = Some (TS p)) /\
    (* a quality tag the strategy wrote as phred_enc q returns as the original characters, saturated *)
    (forall k q e, In (k, e) w -> derived_key k = false -> is_phred k = true -> phred_enc q = Ok e ->
                 get k out = Some (TS (map saturate q))).
Proof. exact chain_cell. Qed.
Print Assumptions C04_end_to_end.

(* -------- the tagger keeps no state between reads: digest of a list = the single-read digest of each read *)
Theorem C04_digest_stateless : forall qs, (forall q, In q qs -> exists x, digest_read q = Ok x) ->
  digest (map (fun q => Some (q, false)) qs) = (map standalone qs, None).
Proof. exact digest_stateless. Qed.
Print Assumptions C04_digest_stateless.

(* for ANY list (None entries, already tagged or failing reads in between): a read that ends up tagged carries
   exactly the name and tags of its own stand-alone digest *)
Theorem C04_digest_pointwise : forall reads o e, digest reads = (o, e) ->
  Forall2 (fun r x => match x with
                      | Tagged n t => exists q sm, r = Some (q, sm) /\ digest_read q = Ok (n, t)
                      | _ => True
                      end) reads o.
Proof. exact digest_pointwise. Qed.   (* tagged_alone unfolds to the predicate written out above *)
Print Assumptions C04_digest_pointwise.

(* -------- non-vacuity: a store as NLAIII384C8U3 writes it (instrument still carries the '@' of the FASTQ line,
   UMI qualities 'A~#' encoded by phred_enc) satisfies the hypotheses; the chain computes the expected tags *)
Definition ex_store : store :=
  [ (k_Is, s2z "@NS500414"); (k_RN, s2z "628"); (k_Fc, s2z "H7YVNBGXC"); (k_La, s2z "1"); (k_Ti, s2z "11101");
    (k_CX, s2z "15963"); (k_CY, s2z "1046"); (k_RP, s2z "1"); (k_Fi, s2z "N"); (k_CN, s2z "0");
    (k_aa, s2z "GTGAAT"); (k_aA, s2z "GTGAAA"); (k_aI, s2z "19"); (k_LY, s2z "LIB_1-x");
    (k_RX, s2z "ATC"); (k_RQ, s2z "GZc"); (k_bi, s2z "1"); (k_bc, s2z "ACACACTA");
    (k_MX, s2z "NLAIII384C8U3"); (k_BC, s2z "ACACACTA") ]%string.

Example C04_example :
  wf_store ex_store = true /\ phred_enc (s2z "A~#"%string) = Ok (s2z "GZc"%string) /\
  encode ex_store = Ok (s2z "Is:@NS500414;RN:628;Fc:H7YVNBGXC;La:1;Ti:11101;CX:15963;CY:1046;Fi:N;CN:0;aa:GTGAAT;aA:GTGAAA;aI:19;LY:LIB_1-x;RX:ATC;RQ:GZc;bi:1;bc:ACACACTA;MX:NLAIII384C8U3;BC:ACACACTA"%string) /\
  exists out, chain ex_store = Ok (s2z "NS500414:628:H7YVNBGXC:1:11101:15963:1046"%string, out) /\
    get k_SM out = Some (TS (s2z "LIB_1-x_1"%string)) /\ get k_MI out = Some (TS (s2z "ACACACTAATCGTGAAA"%string)) /\
    get k_RQ out = Some (TS (s2z "AT#"%string)) /\ get k_ah out = Some (TI 1) /\ get k_Is out = Some (TS (s2z "NS500414"%string)).
Proof. vm_compute. repeat split. eexists. repeat split. Qed.
Print Assumptions C04_example.

(* outside the header-safe alphabet (reported, D7): the '+' of a dual sequencing index is deleted by the decoder *)
Example C04_plus_is_filtered : fqSafe (s2z "ACGT+TTGA"%string) = s2z "ACGTTTGA"%string /\ safe (s2z "ACGT+TTGA"%string) = false.
Proof. vm_compute. split; reflexivity. Qed.
Print Assumptions C04_plus_is_filtered.

(* =====================================================================================================================
   TABLES.  The model is an interpreter of tables regenerated from the source; the theorems below are for EVERY table
   that satisfies the well-formedness predicates of Model/C04x.v, and the regenerated tables satisfy them (computed).
   wf_codec C : both sides use the same two separators, which differ, lie outside the value alphabet (the class fqSafe
                keeps) and are not blanks; no blank is in the value alphabet; every tag name is two characters of the
                value alphabet; the key/value split is the plain one or split(sep, 1)
   wf_form    : no tag twice in the assignment table of the form; the k-th key of the tagger's name format is assigned
                from piece k (the decode table inverts the encode table); there are at least that many pieces; the
                separators of the form lie outside the value alphabet; no name key is an index tag
   ===================================================================================================================== *)
Theorem C04_generated_tables_wf : wf_tables = true.
Proof. exact gen_tables_wf. Qed.
Print Assumptions C04_generated_tables_wf.

(* -------- header round trip for every well-formed codec table (any fallback parser pi) *)
Theorem C04_roundtrip_tables : forall C, wf_codec C = true -> forall pi t, wf_store_g C t = true ->
  let w := wr_g C t in
  written_g C t = Ok w /\
  (w <> [] -> len (header_of_g C w) <= k_limit C ->
   encode_g C t = Ok (header_of_g C w) /\ decode_g C pi (header_of_g C w) = Ok (dec_view_g C w)).
Proof. exact roundtrip_g. Qed.
Print Assumptions C04_roundtrip_tables.

Theorem C04_roundtrip_field_tables : forall C t k v, wf_store_g C t = true -> In (k, v) t -> dnw_g C k = false ->
  get k (dec_view_g C (wr_g C t)) = Some (dec_val_g C v).
Proof. exact roundtrip_get_g. Qed.
Print Assumptions C04_roundtrip_field_tables.

Theorem C04_roundtrip_safe_tables : forall C w, Forall (fun kv => safe_g C (snd kv) = true) w ->
  dec_view_g C w = map (fun kv => (fst kv, TS (snd kv))) w.
Proof. exact dec_view_g_safe. Qed.
Print Assumptions C04_roundtrip_safe_tables.

(* refusal needs no hypothesis on the tables: refused iff longer than the limit, never truncated *)
Theorem C04_refuse_long_tables : forall C t w, written_g C t = Ok w ->
  (encode_g C t = Raise ETooLong <-> k_limit C < len (header_of_g C w)) /\
  (forall h, encode_g C t = Ok h -> h = header_of_g C w /\ len h <= k_limit C).
Proof. exact refuse_long_g. Qed.
Print Assumptions C04_refuse_long_tables.

(* a different well-formed codec (separators '|' '=', limit 40, no strip, split(sep, 1), no fqSafe on store): the
   theorem is not about one table *)
Definition ex_codec : codec := {|
  k_isep := 124; k_kvsep := 61; k_disep := 124; k_dkvsep := 61; k_limit := 40;
  k_tags := [(s2z "BC", (false, false)); (s2z "RP", (false, true)); (s2z "RX", (false, false))]%string;
  k_keep := [(43, 43); (48, 57); (65, 90)]; k_space := [32; 9]; k_strip := false; k_maxsplit := 1; k_safe := false |}.
Example C04_tables_example :
  wf_codec ex_codec = true /\
  let t := [(s2z "BC", s2z "ACGT+TT"); (s2z "RP", s2z "1"); (s2z "RX", s2z "a.b")]%string in
  wf_store_g ex_codec t = true /\ encode_g ex_codec t = Ok (s2z "BC=ACGT+TT|RX=a.b"%string) /\
  decode_g ex_codec (fun _ d => (d, Some EValue)) (s2z "BC=ACGT+TT|RX=a.b"%string) =
    Ok [(s2z "BC", TS (s2z "ACGT+TT")); (s2z "RX", TS (s2z "a.b"))]%string.
Proof. vm_compute. repeat split. Qed.
Print Assumptions C04_tables_example.

(* -------- header forms as tables *)
(* a form accepts exactly the headers with n-1 separator characters (after its deletion): fewer or more fields -> not this form *)
Theorem C04_form_accepts_iff_tables : forall F h,
  (exists p, form_pieces F h = Some p) <-> 1 + count_in (f_seps F) (remove_sub (f_del F) h) = f_n F.
Proof. exact form_pieces_iff. Qed.
Print Assumptions C04_form_accepts_iff_tables.

(* separator-free pieces glued by separators of the form are given back unchanged *)
Theorem C04_form_pieces_tables : forall F h ps ss, remove_sub (f_del F) h = glue ps ss -> ps <> [] -> S (List.length ss) = List.length ps ->
  Forall (fun p => forall c, In c p -> in_chars (f_seps F) c = false) ps -> Forall (fun x => in_chars (f_seps F) x = true) ss ->
  len ps = f_n F -> form_pieces F h = Some ps.
Proof. exact form_pieces_glue. Qed.
Print Assumptions C04_form_pieces_tables.

(* which piece goes to which tag: every entry of the assignment table of the accepting form, whatever the index part does *)
Theorem C04_form_assign_tables : forall V forms raw found (inj : tval -> V) h ix d F ps k s,
  first_form forms h = Some (F, ps) -> nodup_strs (map fst (f_assign F)) = true -> In (k, s) (f_assign F) ->
  k <> raw -> ~ In k (map fst found) ->
  get k (fst (parse_illumina_g forms raw found inj h ix d)) = Some (inj (eval_src ps s)).
Proof. intros V. exact (@parse_assign V). Qed.
Print Assumptions C04_form_assign_tables.

(* the decode table inverts the encode table: the j-th key of the name format holds the j-th piece of the header *)
Theorem C04_name_inverts_tables : forall V forms raw found (inj : tval -> V) keep nk h ix d F ps,
  first_form forms h = Some (F, ps) -> wf_form keep nk (raw :: map fst found) F = true ->
  forall j k, nth_error nk j = Some k ->
  get k (fst (parse_illumina_g forms raw found inj h ix d)) = Some (inj (TS (nth j ps []))).
Proof. exact name_keys_hold_pieces. Qed.
Print Assumptions C04_name_inverts_tables.

(* no form accepts: ValueError and the store is untouched *)
Theorem C04_no_form_tables : forall V forms raw found (inj : tval -> V) h ix d, first_form forms h = None ->
  parse_illumina_g forms raw found inj h ix d = (d, Some EValue).
Proof. intros V. exact (@parse_none V). Qed.
Print Assumptions C04_no_form_tables.

Example C04_forms_example :
  first_form forms0 (s2z "@NS500414:628:H7YVNBGXC:1:11101:15963:1046 1:N:0:GTGAAA"%string) =
    Some (form1, map s2z ["@NS500414"; "628"; "H7YVNBGXC"; "1"; "11101"; "15963"; "1046"; "1"; "N"; "0"; "GTGAAA"]%string) /\
  first_form forms0 (s2z "@NS500413:32:H14TKBGXX:2:11101:16448:1664 1:N:0::"%string) =
    Some (form2, map s2z ["@NS500413"; "32"; "H14TKBGXX"; "2"; "11101"; "16448"; "1664"; "1"; "N"; "0"]%string) /\
  first_form forms0 (s2z "@M0-1_x:7:000000000-ABCDE:1:1101:2:3"%string) =
    Some (form3, map s2z ["@M0-1_x"; "7"; "000000000-ABCDE"; "1"; "1101"; "2"; "3"]%string) /\
  first_form forms0 (s2z "@a:b:c:d:e"%string) = None.
Proof. vm_compute. repeat split. Qed.
Print Assumptions C04_forms_example.

(* -------- the regenerated forms on the Illumina header shapes (coords_of: '@' + 7 non-empty header-safe fields joined by
   ':', then nothing | ' ' RP:Fi:CN | ' ' RP:Fi:CN:: | ' ' RP:Fi:CN:index) *)
(* every such header is accepted *)
Theorem C04_shapes_accepted : forall h c, coords_of h = Some c -> exists F ps, first_form forms0 h = Some (F, ps).
Proof. exact shape_accepted. Qed.
Print Assumptions C04_shapes_accepted.

(* the seven coordinates reach the seven keys of the name format, on either side, whatever the index lookup answers *)
Theorem C04_coordinates_parse : forall f0 f1 f2 f3 f4 f5 f6 tl V (inj : tval -> V) ix d,
  field_ok f0 = true -> field_ok f1 = true -> field_ok f2 = true -> field_ok f3 = true -> field_ok f4 = true ->
  field_ok f5 = true -> field_ok f6 = true -> tail_wf tl ->
  let d' := fst (parse_illumina inj (header_of_shape f0 f1 f2 f3 f4 f5 f6 tl) ix d) in
  get k_Is d' = Some (inj (TS (64 :: f0))) /\ get k_RN d' = Some (inj (TS f1)) /\ get k_Fc d' = Some (inj (TS f2)) /\
  get k_La d' = Some (inj (TS f3)) /\ get k_Ti d' = Some (inj (TS f4)) /\ get k_CX d' = Some (inj (TS f5)) /\
  get k_CY d' = Some (inj (TS f6)).
Proof. exact coordinates_parse. Qed.
Print Assumptions C04_coordinates_parse.

(* END TO END FROM THE ORIGINAL HEADER: a cell read whose coordinate tags are those _parse_illumina_header made from an
   Illumina-shaped header gets, as query name after digest, exactly the text between '@' and the first blank *)
Theorem C04_coordinates_restored : forall h c ix t bc ia ly bi,
  coords_of h = Some c ->
  let d0 := fst (parse_illumina fmt h ix []) in
  wf_store t = true ->
  let w := wr t in
  (forall k, In k name_keys -> get k w = get k d0) ->
  len (header_of w) <= header_limit ->
  get k_BC w = Some bc -> get k_QT w = None -> get k_aA w = Some ia -> get k_LY w = Some ly -> get k_bi w = Some bi ->
  (forall k v, In (k, v) w -> is_phred k = true -> Forall (fun x => In x dec_table) v) ->
  exists out, chain t = Ok (c, out) /\ spec_coords h c = true /\
    get k_SM out = Some (TS (fqSafe ly ++ 95 :: fqSafe bi)) /\
    get k_MI out = Some (TS (fqSafe bc ++ ovalue (get k_RX w) ++ fqSafe ia)).
Proof. exact coordinates_spec. Qed.
Print Assumptions C04_coordinates_restored.

Example C04_coordinates_example :
  let h := s2z "@NS500414:628:H7YVNBGXC:1:11101:15963:1046 1:N:0:GTGAAT"%string in
  coords_of h = Some (s2z "NS500414:628:H7YVNBGXC:1:11101:15963:1046"%string) /\
  (forall k, In k name_keys -> get k (wr ex_store) = get k (fst (parse_illumina fmt h None []))) /\
  exists out, chain ex_store = Ok (s2z "NS500414:628:H7YVNBGXC:1:11101:15963:1046"%string, out).
Proof.
  cbv zeta. split; [vm_compute; reflexivity|]. split.
  - intros k HI. rewrite gen_name_keys7 in HI. cbn [In] in HI.
    destruct HI as [E|[E|[E|[E|[E|[E|[E|[]]]]]]]]; subst k; vm_compute; reflexivity.
  - vm_compute. eexists. reflexivity.
Qed.
Print Assumptions C04_coordinates_example.

(* -------- headers with fewer or more fields *)
(* accepted iff exactly 10 characters of ": ", or exactly 9 once every "::" is deleted, or exactly 6 ':' *)
Theorem C04_header_accept_iff : forall h,
  (exists F ps, first_form forms0 h = Some (F, ps)) <->
  (count_in [58; 32] h = 10 \/ count_in [58; 32] (remove_sub [58; 58] h) = 9 \/ count_in [58] h = 6).
Proof. exact accept_iff. Qed.
Print Assumptions C04_header_accept_iff.

(* every other header (not scmo, not 3-DEC) makes the TaggedRecord constructor raise ValueError: refused loudly *)
Theorem C04_malformed_header_raises : forall h ix library reason,
  first_form forms0 h = None -> starts_with scmo_prefix h = false -> count 95 h <> 4 ->
  tagged_record h ix library reason = Raise EValue.
Proof. exact malformed_header_raises. Qed.
Print Assumptions C04_malformed_header_raises.

(* the tagger: an item that is not key:value, and no Illumina header before the first ';' -> ValueError *)
Theorem C04_malformed_name_raises : forall q d,
  add_items (split dec_item_sep (strip q)) [] = (d, false) ->
  (forall ih attrs, split1 dec_item_sep (strip q) = Some (ih, attrs) -> first_form forms0 ih = None) ->
  decode q = Raise EValue.
Proof. exact malformed_name_raises. Qed.
Print Assumptions C04_malformed_name_raises.

Example C04_malformed_example :
  tagged_record (s2z "@a:b:c:d:e"%string) None (Some (s2z "LIB"%string)) None = Raise EValue /\
  tagged_record (s2z "@a:b:c:d:e:f:g:h 1:N:0:ACGT"%string) None None None = Raise EValue /\
  tagged_record (s2z "@SRR001666.1 071112_SLXA-EAS1_s_7:5:1:817:345 length=36"%string) None None None = Raise EValue /\
  decode (s2z "Is:a:b;RN:1"%string) = Raise EValue /\ decode (s2z "Is:NS500414;RN:628;broken"%string) = Raise EValue.
Proof. vm_compute. repeat split. Qed.
Print Assumptions C04_malformed_example.

(* ACCEPTANCE IS BY COUNTING SEPARATORS, NOT BY SHAPE (recorded observations, reproduced on the real code; the inputs are
   outside the quantifier of the property - they are not Illumina headers):
   - a blank in the wrong place: 11 pieces, assigned by position; the restored name is not the text before the blank;
   - a 7-field header followed by a comment: form 3 keeps the blank inside CY; the decoder deletes it;
   - a form-1 header that LOST one coordinate has 10 pieces and is taken for form 2: CY := read number, the index is lost *)
Theorem C04_accepted_by_count_refuted :
  exists h n out, coords_of h = None /\ chain_raw h None (Some (s2z "LIB"%string)) = Ok (n, out) /\
    n = s2z "a:b:c:d:e:f:g"%string /\ h = s2z "@a b:c:d:e:f:g:h:i:j:k"%string.
Proof. eexists. eexists. eexists. split; [|split; [|split; reflexivity]]; vm_compute; reflexivity. Qed.
Print Assumptions C04_accepted_by_count_refuted.

Theorem C04_comment_in_coordinate_refuted :
  exists h n out, h = s2z "@M0:7:FC:1:1101:2:3 extra"%string /\ coords_of h = None /\
    chain_raw h None (Some (s2z "LIB"%string)) = Ok (n, out) /\ n = s2z "M0:7:FC:1:1101:2:3extra"%string /\
    get k_CY out = Some (TS (s2z "3extra"%string)).
Proof. eexists. eexists. eexists. split; [reflexivity|]. split; [vm_compute; reflexivity|]. split; [vm_compute; reflexivity|]. split; reflexivity. Qed.
Print Assumptions C04_comment_in_coordinate_refuted.

Theorem C04_short_header_misassigned_refuted :
  exists h d, h = s2z "@NS500414:628:H7YVNBGXC:1:11101:15963 1:N:0:ACGT"%string /\ coords_of h = None /\
    tagged_record h None None None = Ok d /\
    get k_CY d = Some (s2z "1"%string) /\ get k_CN d = Some (s2z "ACGT"%string) /\ get k_aa d = Some (s2z "N"%string).
Proof. eexists. eexists. split; [reflexivity|]. split; [vm_compute; reflexivity|]. split; [vm_compute; reflexivity|]. repeat split. Qed.
Print Assumptions C04_short_header_misassigned_refuted.

(* -------- which values come back exactly: those over the header-safe alphabet and no others *)
Theorem C04_field_exact_iff : forall t k v, wf_store t = true -> In (k, v) t -> dnw k = false ->
  (get k (dec_view (wr t)) = Some (TS v) <-> safe v = true).
Proof. exact field_exact_iff. Qed.
Print Assumptions C04_field_exact_iff.

Theorem C04_value_exact_iff : forall v, fqSafe v = v <-> safe v = true.
Proof. exact fqSafe_fixed_iff. Qed.
Print Assumptions C04_value_exact_iff.

(* what is lost is exactly the characters outside the alphabet (nothing reordered, nothing added) *)
Theorem C04_field_loss : forall v, len (fqSafe v) = len v - len (filter (fun c => negb (fq_keep c)) v).
Proof. exact field_loss. Qed.
Print Assumptions C04_field_loss.

Theorem C04_plus_value_changes : forall v, In 43 v -> fqSafe v <> v.
Proof. exact plus_value_changes. Qed.
Print Assumptions C04_plus_value_changes.

(* D7: a dual sequencing index "ACGT+TTGA" is an index the parser accepts (the header has an Illumina shape), the
   coordinates come back, the index does not: aa returns without its '+' *)
Theorem C04_dual_index_refuted :
  exists h c n out, h = s2z "@NS500414:628:H7YVNBGXC:1:11101:15963:1046 1:N:0:ACGT+TTGA"%string /\
    coords_of h = Some c /\ chain_raw h None (Some (s2z "LIB"%string)) = Ok (n, out) /\ n = c /\
    get k_aa out = Some (TS (s2z "ACGTTTGA"%string)) /\ get k_aa out <> Some (TS (s2z "ACGT+TTGA"%string)).
Proof.
  eexists. eexists. eexists. eexists. split; [reflexivity|]. split; [vm_compute; reflexivity|]. split; [vm_compute; reflexivity|].
  split; [reflexivity|]. split; [reflexivity|]. discriminate.
Qed.
Print Assumptions C04_dual_index_refuted.

(* -------- the sample-name chain as a table: the first recipe whose guard tag is present names the sample *)
Theorem C04_sample_chain_skip_tables : forall keep smtag g parts ren rest r, get g r = None ->
  sm_apply keep smtag ((g, (parts, ren)) :: rest) r = sm_apply keep smtag rest r.
Proof. exact sm_apply_skip. Qed.
Print Assumptions C04_sample_chain_skip_tables.

Theorem C04_sample_chain_hit_tables : forall keep smtag g parts rest r gv s, get g r = Some gv -> eval_parts parts r = Ok s ->
  sm_apply keep smtag ((g, (parts, [])) :: rest) r = Ok (dset smtag (TS (fqSafe_g keep s)) r).
Proof. exact sm_apply_hit. Qed.
Print Assumptions C04_sample_chain_hit_tables.

(* the legacy BI tag: sample = LY_BI, BI is renamed to bi *)
Theorem C04_sample_legacy_BI : forall r ly bI, get k_bi r = None -> get k_BI r = Some (TS bI) -> get k_LY r = Some (TS ly) ->
  sm_apply fqsafe_ranges sm_tag sm_recipes r =
  Ok (ddel k_BI (dset k_bi (TS bI) (dset k_SM (TS (fqSafe (ly ++ 95 :: bI))) r))).
Proof. exact sm_legacy. Qed.
Print Assumptions C04_sample_legacy_BI.

Example C04_sample_example :
  sm_apply fqsafe_ranges sm_tag sm_recipes [(k_LY, TS (s2z "L-1"%string)); (k_BI, TS (s2z "7"%string))] =
    Ok [(k_LY, TS (s2z "L-1"%string)); (k_SM, TS (s2z "L-1_7"%string)); (k_bi, TS (s2z "7"%string))] /\
  sm_apply fqsafe_ranges sm_tag sm_recipes [(k_LY, TS (s2z "L"%string))] =
    Ok [(k_LY, TS (s2z "L"%string)); (k_SM, TS (s2z "L_BULK"%string))] /\
  sm_apply fqsafe_ranges sm_tag sm_recipes [(k_bi, TS (s2z "3"%string))] = Raise EKey.
Proof. vm_compute. repeat split. Qed.
Print Assumptions C04_sample_example.

(* -------- the demultiplexer reads its own header back (a demultiplexed FASTQ demultiplexed again): fromRawFastq takes the
   scmo branch and parse_scmo_header returns exactly the written tags in order - provided _parse_illumina_header, which is
   tried FIRST, does not take the line for an Illumina header *)
Theorem C04_scmo_redemultiplex : forall w ix, w <> [] -> Forall entry_ok w -> NoDup (map fst w) ->
  first_form forms0 (fastq_prefix ++ header_of w) = None -> starts_with scmo_prefix (fastq_prefix ++ header_of w) = true ->
  from_raw (fastq_prefix ++ header_of w) ix [] = Ok w.
Proof. exact scmo_redemultiplex. Qed.
Print Assumptions C04_scmo_redemultiplex.

Example C04_scmo_example :
  exists h, fastq_line ex_store = Ok h /\ first_form forms0 h = None /\ starts_with scmo_prefix h = true /\
    from_raw h None [] = Ok (wr ex_store).
Proof. eexists. split; [vm_compute; reflexivity|]. vm_compute. repeat split. Qed.
Print Assumptions C04_scmo_example.

(* the proviso is needed (recorded observation D36, reproduced on the real code; reachable only without a library name and
   without an index parser): a record holding just the ten written tags of _parse_illumina_header gives a header with
   exactly ten ':' - demultiplexed again it IS taken for an Illumina header and torn apart at the ':' *)
Theorem C04_bare_record_redemultiplexed_refuted :
  exists d h d', tagged_record (s2z "@NS500414:628:H7YVNBGXC:1:11101:15963:1046 1:N:0:GTGAAA"%string) None None None = Ok d /\
    fastq_line d = Ok h /\ starts_with scmo_prefix h = true /\ first_form forms0 h <> None /\
    tagged_record h None None None = Ok d' /\ get k_RN d' = Some (s2z "@NS500414;RN"%string) /\ d' <> d.
Proof.
  eexists. eexists. eexists. split; [vm_compute; reflexivity|]. split; [vm_compute; reflexivity|]. split; [vm_compute; reflexivity|].
  split; [vm_compute; discriminate|]. split; [vm_compute; reflexivity|]. split; [reflexivity|]. discriminate.
Qed.
Print Assumptions C04_bare_record_redemultiplexed_refuted.
