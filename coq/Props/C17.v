(* C17 - property theorems only.  Each is closed by [exact lemma]; Print Assumptions beneath.
   Model.C17 transcribes fill_range / trim_rangelist / range_contains_overlap / _merge_overlapping_ranges /
   merge_overlapping_ranges / blacklisted_binning (bamBinCounts.py, with fixes C17-D21 and C17-D23) and
   bp_chunked (utils/binning.py); the comparisons / clip / merge / step expressions, call arguments and the sentinel inside the
   model are the g_* definitions REGENERATED from the source on every run (Gen/GenTiling.v); Proofs.C17_shape connects them to
   the arithmetic the proofs use, so these theorems are re-proved about what the source says now.  Shapes (chain, ordered, dchain, sdisj, covers, inside) are in Lib.Tiling;
   [spec] and [window_ok] are defined at the top of Proofs.C17. *)
From Coq Require Import ZArith List Bool.
Import ListNotations.
From SCMO Require Import Lib.Tiling Lib.TilingFacts Gen.GenTiling Model.C17 Proofs.C17_shape Proofs.C17.
Open Scope Z_scope.

(* fill_range(s, e, step) with step > 0: consecutive non-empty pieces from s to e, each at most step long,
   covering [s,e) exactly *)
Theorem C17_fill_range : forall s e step, 0 < step -> s <= e ->
  exists l, fill_range s e step = Ok l /\ chain step s e l /\ forall p, covers l p <-> s <= p < e.
Proof. exact fill_range_full. Qed.
Print Assumptions C17_fill_range.

Example C17_fill_range_ex : fill_range 0 10 4 = Ok [(0, 4); (4, 8); (8, 10)] /\ fill_range 3 3 4 = Ok [] /\ fill_range 0 10 0 = Raise 1.
Proof. vm_compute. repeat split. Qed.
Print Assumptions C17_fill_range_ex.

(* the while loop of merge_overlapping_ranges always terminates (no hypothesis on the intervals) *)
Theorem C17_merge_terminates : forall l, exists m, merge_overlapping_ranges l = Some m.
Proof. exact merge_total. Qed.
Print Assumptions C17_merge_terminates.

(* merge_overlapping_ranges: increasing, pairwise disjoint, same set of bases *)
Theorem C17_merge_disjoint_sorted : forall l, Forall wf l ->
  exists m, merge_overlapping_ranges l = Some m /\ sdisj (first_start m) m /\ forall p, covers m p <-> covers l p.
Proof. exact merge_spec. Qed.
Print Assumptions C17_merge_disjoint_sorted.

Example C17_merge_ex : merge_overlapping_ranges [(0, 5); (5, 8); (4, 6); (7, 7); (20, 30); (1, 2)] = Some [(0, 8); (20, 30)]
  /\ Forall wf [(0, 5); (5, 8); (4, 6); (7, 7); (20, 30); (1, 2)].
Proof. split; [vm_compute; reflexivity | repeat constructor; unfold wf; cbn; discriminate]. Qed.
Print Assumptions C17_merge_ex.

(* trim_rangelist on an increasing disjoint list: clipped to [sc,ec], still increasing and disjoint,
   and exactly the listed bases that lie in the region (a covering interval is not lost - D23) *)
Theorem C17_trim : forall l lo sc ec, sdisj lo l -> sc <= ec ->
  dchain sc ec (trim_rangelist l sc ec) /\
  forall p, covers (trim_rangelist l sc ec) p <-> covers l p /\ sc <= p < ec.
Proof. exact trim_spec. Qed.
Print Assumptions C17_trim.

Example C17_trim_ex : trim_rangelist [(-5, 20)] 0 10 = [(0, 10)] /\ trim_rangelist [(-5, 10)] 0 10 = [(0, 10)]
  /\ trim_rangelist [(-5, 3); (4, 4); (8, 12); (12, 13)] 0 10 = [(0, 3); (4, 4); (8, 10)].
Proof. vm_compute. repeat split. Qed.
Print Assumptions C17_trim_ex.

(* MAIN: for every region, bin size > 0, blacklist of well-formed intervals (overlapping, adjacent, empty,
   unsorted, outside the region ...) and fragment size >= 0 the call returns (no exception) bins that are
   non-empty, increasing, pairwise disjoint, inside the region, at most bin_size long; a base of the region is
   in a bin iff it is not blacklisted; every fetch window contains its bin, extends it by at most
   fragment_size, stays inside the region and contains no blacklisted base *)
Theorem C17_tiling : forall sc ec bs bl frag, 0 < bs -> sc <= ec -> Forall wf bl ->
  match frag with Some f => 0 <= f | None => True end ->
  exists out, blacklisted_binning sc ec bs bl frag = Ok out /\ spec sc ec bs bl frag out.
Proof. exact bb_correct. Qed.
Print Assumptions C17_tiling.

Example C17_tiling_ex :
  blacklisted_binning 0 20 4 [(10, 12); (11, 13); (-3, 1)] (Some 2)
  = Ok [((1, 4), Some (1, 6)); ((4, 7), Some (2, 9)); ((7, 10), Some (5, 10));
        ((13, 16), Some (13, 18)); ((16, 19), Some (14, 20)); ((19, 20), Some (17, 20))]
  /\ pre 0 20 4 [(10, 12); (11, 13); (-3, 1)] (Some 2) = true.
Proof. vm_compute. split; reflexivity. Qed.
Print Assumptions C17_tiling_ex.

(* the whole region blacklisted (D23): no bins *)
Example C17_covering_ex : blacklisted_binning 0 10 4 [(-5, 20)] None = Ok [] /\ blacklisted_binning 0 10 4 [(-5, 10)] None = Ok [].
Proof. vm_compute. split; reflexivity. Qed.
Print Assumptions C17_covering_ex.

(* consequences of [spec], stated separately *)
(* no base is in two bins *)
Theorem C17_exactly_once : forall sc ec bs bl frag out, spec sc ec bs bl frag out ->
  forall b1 b2 p, In b1 (map fst out) -> In b2 (map fst out) -> inside p b1 -> inside p b2 -> b1 = b2.
Proof. exact spec_exactly_once. Qed.
Print Assumptions C17_exactly_once.

(* every bin is non-empty, inside the region and at most bin_size long *)
Theorem C17_bins_inside_region : forall sc ec bs bl frag out, spec sc ec bs bl frag out ->
  forall b, In b (map fst out) -> sc <= fst b /\ fst b < snd b /\ snd b <= ec /\ snd b - fst b <= bs.
Proof. exact spec_inside_region. Qed.
Print Assumptions C17_bins_inside_region.

(* no bin touches a blacklisted base *)
Theorem C17_no_blacklisted_base : forall sc ec bs bl frag out, spec sc ec bs bl frag out ->
  forall b p, In b (map fst out) -> inside p b -> ~ covers bl p.
Proof. exact spec_no_blacklisted_base. Qed.
Print Assumptions C17_no_blacklisted_base.

(* the boolean specification run on the implementation's output by the search (run_C17 mode 2)
   is exactly [spec]; [pre] (mode 1) is exactly the hypothesis of C17_tiling *)
Theorem C17_specb_iff : forall sc ec bs bl frag out, specb sc ec bs bl frag out = true <-> spec sc ec bs bl frag out.
Proof. exact specb_iff. Qed.
Print Assumptions C17_specb_iff.

Theorem C17_pre_iff : forall sc ec bs bl frag, pre sc ec bs bl frag = true <->
  0 < bs /\ sc <= ec /\ Forall wf bl /\ match frag with Some f => 0 <= f | None => True end.
Proof. exact pre_iff. Qed.
Print Assumptions C17_pre_iff.

(* bp_chunked only groups: concatenating the chunks gives back the job list (any job type, any sizes, any k) *)
Theorem C17_bp_chunked_concat : forall (A : Type) (span : A -> iv) (jobs : list A) (k : Z),
  concat (bp_chunked span jobs k) = jobs.
Proof. exact (@bp_chunked_concat). Qed.
Print Assumptions C17_bp_chunked_concat.

(* every chunk but the last reaches bp_per_job exactly with its last job; the last one stays below it *)
Theorem C17_bp_chunked_chunks : forall (A : Type) (span : A -> iv) (jobs : list A) (k : Z), 0 < k ->
  Forall (closed_chunk span k) (removelast (bp_chunked span jobs k))
  /\ bp_sum span (last (bp_chunked span jobs k) []) < k.
Proof. exact (@bp_chunked_chunks). Qed.
Print Assumptions C17_bp_chunked_chunks.

Example C17_bp_chunked_ex :
  bp_chunked (fun j => j) [(0, 5); (5, 8); (8, 20); (20, 21)] 6 = [[(0, 5); (5, 8)]; [(8, 20)]; [(20, 21)]]
  /\ bp_chunked (fun j => j) [(0, 6)] 6 = [[(0, 6)]; []].
Proof. vm_compute. split; reflexivity. Qed.
Print Assumptions C17_bp_chunked_ex.
