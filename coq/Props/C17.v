(* C17 - property theorems only.  Each is closed by [exact lemma]; Print Assumptions beneath.
   Model.C17 transcribes fill_range / trim_rangelist / range_contains_overlap / _merge_overlapping_ranges /
   merge_overlapping_ranges / blacklisted_binning (bamBinCounts.py, with fixes C17-D21 and C17-D23) and
   bp_chunked (utils/binning.py); the comparisons / clip / merge / step expressions, call arguments and the sentinel inside the
   model are the g_* definitions REGENERATED from the source on every run (Gen/GenTiling.v); Proofs.C17_shape connects them to
   the arithmetic the proofs use, so these theorems are re-proved about what the source says now.  Shapes (chain, ordered, dchain, sdisj, covers, inside) are in Lib.Tiling;
   [spec] and [window_ok] are defined at the top of Proofs.C17. *)
From Coq Require Import ZArith List Bool.
Import ListNotations.
From SCMO Require Import Lib.Tiling Lib.TilingFacts Gen.GenTiling Model.C17 Model.C17bed Model.C17x
     Proofs.C17_shape Proofs.C17 Proofs.C17bed Proofs.C17x.
Open Scope Z_scope.

(* fill_range(s, e, step) with step > 0: consecutive non-empty pieces from s to e, each at most step long,
   covering [s,e) exactly *)
Theorem C17_fill_range : forall s e step, 0 < step -> s <= e ->
  exists l, fill_range s e step = Ok l /\ chain step s e l /\ forall p, covers l p <-> s <= p < e.
Proof. exact fill_range_full. Qed.
Print Assumptions C17_fill_range.

Example C17_fill_range_ex : fill_range 0 10 4 = Ok [(0, 4); (4, 8); (8, 10)] /\ fill_range 3 3 4 = Ok [] /\ fill_range 0 10 0 = Raise 1.
Proof. vm_compute. repeat split. Qed.
Print Assumptions C17_fill_range_ex.

(* the while loop of merge_overlapping_ranges always terminates (no hypothesis on the intervals) *)
Theorem C17_merge_terminates : forall l, exists m, merge_overlapping_ranges l = Some m.
Proof. exact merge_total. Qed.
Print Assumptions C17_merge_terminates.

(* merge_overlapping_ranges: increasing, pairwise disjoint, same set of bases *)
Theorem C17_merge_disjoint_sorted : forall l, Forall wf l ->
  exists m, merge_overlapping_ranges l = Some m /\ sdisj (first_start m) m /\ forall p, covers m p <-> covers l p.
Proof. exact merge_spec. Qed.
Print Assumptions C17_merge_disjoint_sorted.

Example C17_merge_ex : merge_overlapping_ranges [(0, 5); (5, 8); (4, 6); (7, 7); (20, 30); (1, 2)] = Some [(0, 8); (20, 30)]
  /\ Forall wf [(0, 5); (5, 8); (4, 6); (7, 7); (20, 30); (1, 2)].
Proof. split; [vm_compute; reflexivity | repeat constructor; unfold wf; cbn; discriminate]. Qed.
Print Assumptions C17_merge_ex.

(* trim_rangelist on an increasing disjoint list: clipped to [sc,ec], still increasing and disjoint,
   and exactly the listed bases that lie in the region (a covering interval is not lost - D23) *)
Theorem C17_trim : forall l lo sc ec, sdisj lo l -> sc <= ec ->
  dchain sc ec (trim_rangelist l sc ec) /\
  forall p, covers (trim_rangelist l sc ec) p <-> covers l p /\ sc <= p < ec.
Proof. exact trim_spec. Qed.
Print Assumptions C17_trim.

Example C17_trim_ex : trim_rangelist [(-5, 20)] 0 10 = [(0, 10)] /\ trim_rangelist [(-5, 10)] 0 10 = [(0, 10)]
  /\ trim_rangelist [(-5, 3); (4, 4); (8, 12); (12, 13)] 0 10 = [(0, 3); (4, 4); (8, 10)].
Proof. vm_compute. repeat split. Qed.
Print Assumptions C17_trim_ex.

(* MAIN: for every region, bin size > 0, blacklist of well-formed intervals (overlapping, adjacent, empty,
   unsorted, outside the region ...) and fragment size >= 0 the call returns (no exception) bins that are
   non-empty, increasing, pairwise disjoint, inside the region, at most bin_size long; a base of the region is
   in a bin iff it is not blacklisted; every fetch window contains its bin, extends it by at most
   fragment_size, stays inside the region and contains no blacklisted base *)
Theorem C17_tiling : forall sc ec bs bl frag, 0 < bs -> sc <= ec -> Forall wf bl ->
  match frag with Some f => 0 <= f | None => True end ->
  exists out, blacklisted_binning sc ec bs bl frag = Ok out /\ spec sc ec bs bl frag out.
Proof. exact bb_correct. Qed.
Print Assumptions C17_tiling.

Example C17_tiling_ex :
  blacklisted_binning 0 20 4 [(10, 12); (11, 13); (-3, 1)] (Some 2)
  = Ok [((1, 4), Some (1, 6)); ((4, 7), Some (2, 9)); ((7, 10), Some (5, 10));
        ((13, 16), Some (13, 18)); ((16, 19), Some (14, 20)); ((19, 20), Some (17, 20))]
  /\ pre 0 20 4 [(10, 12); (11, 13); (-3, 1)] (Some 2) = true.
Proof. vm_compute. split; reflexivity. Qed.
Print Assumptions C17_tiling_ex.

(* the whole region blacklisted (D23): no bins *)
Example C17_covering_ex : blacklisted_binning 0 10 4 [(-5, 20)] None = Ok [] /\ blacklisted_binning 0 10 4 [(-5, 10)] None = Ok [].
Proof. vm_compute. split; reflexivity. Qed.
Print Assumptions C17_covering_ex.

(* consequences of [spec], stated separately *)
(* no base is in two bins *)
Theorem C17_exactly_once : forall sc ec bs bl frag out, spec sc ec bs bl frag out ->
  forall b1 b2 p, In b1 (map fst out) -> In b2 (map fst out) -> inside p b1 -> inside p b2 -> b1 = b2.
Proof. exact spec_exactly_once. Qed.
Print Assumptions C17_exactly_once.

(* every bin is non-empty, inside the region and at most bin_size long *)
Theorem C17_bins_inside_region : forall sc ec bs bl frag out, spec sc ec bs bl frag out ->
  forall b, In b (map fst out) -> sc <= fst b /\ fst b < snd b /\ snd b <= ec /\ snd b - fst b <= bs.
Proof. exact spec_inside_region. Qed.
Print Assumptions C17_bins_inside_region.

(* no bin touches a blacklisted base *)
Theorem C17_no_blacklisted_base : forall sc ec bs bl frag out, spec sc ec bs bl frag out ->
  forall b p, In b (map fst out) -> inside p b -> ~ covers bl p.
Proof. exact spec_no_blacklisted_base. Qed.
Print Assumptions C17_no_blacklisted_base.

(* the boolean specification run on the implementation's output by the search (run_C17 mode 2)
   is exactly [spec]; [pre] (mode 1) is exactly the hypothesis of C17_tiling *)
Theorem C17_specb_iff : forall sc ec bs bl frag out, specb sc ec bs bl frag out = true <-> spec sc ec bs bl frag out.
Proof. exact specb_iff. Qed.
Print Assumptions C17_specb_iff.

Theorem C17_pre_iff : forall sc ec bs bl frag, pre sc ec bs bl frag = true <->
  0 < bs /\ sc <= ec /\ Forall wf bl /\ match frag with Some f => 0 <= f | None => True end.
Proof. exact pre_iff. Qed.
Print Assumptions C17_pre_iff.

(* bp_chunked only groups: concatenating the chunks gives back the job list (any job type, any sizes, any k) *)
Theorem C17_bp_chunked_concat : forall (A : Type) (span : A -> iv) (jobs : list A) (k : Z),
  concat (bp_chunked span jobs k) = jobs.
Proof. exact (@bp_chunked_concat). Qed.
Print Assumptions C17_bp_chunked_concat.

(* every chunk but the last reaches bp_per_job exactly with its last job; the last one stays below it *)
Theorem C17_bp_chunked_chunks : forall (A : Type) (span : A -> iv) (jobs : list A) (k : Z), 0 < k ->
  Forall (closed_chunk span k) (removelast (bp_chunked span jobs k))
  /\ bp_sum span (last (bp_chunked span jobs k) []) < k.
Proof. exact (@bp_chunked_chunks). Qed.
Print Assumptions C17_bp_chunked_chunks.

Example C17_bp_chunked_ex :
  bp_chunked (fun j => j) [(0, 5); (5, 8); (8, 20); (20, 21)] 6 = [[(0, 5); (5, 8)]; [(8, 20)]; [(20, 21)]]
  /\ bp_chunked (fun j => j) [(0, 6)] 6 = [[(0, 6)]; []].
Proof. vm_compute. split; reflexivity. Qed.
Print Assumptions C17_bp_chunked_ex.

(* ====================================================================================================
   EXTENSION: blacklisted_binning_contigs (Model.C17x: the blacklist dictionary of get_bins_from_bed_dict, the loop
   over the contig-length list, the contig whitelist, with / without fragment_size), the text of the BED file
   (Model.C17bed: lines, tokens, int()), and the bp budget rule of bp_chunked.  Hand transcriptions tied to the
   source by the correspondence check through real BED / BED.gz files, contig lists and BAM headers.
   name = list Z (a str), bedrec = name * (start, end), grow = name * obin (a yielded row);
   [collect], [tag_rows], [contig_tiling], [gtiling]/[gspec], [blacklisted], [gpre_prop], the budget rule
   ([closed_rule], [open_rule], [prefix_of], [proper_prefix]) are defined in Proofs.C17x; [rec_ok], [extra_ok],
   [print_bed_ext] in Proofs.C17bed.
   ==================================================================================================== *)

(* blacklist_dict.get(contig, []) after get_bins_from_bed_dict = the records naming that contig, in file order *)
Theorem C17_bed_dict_get : forall recs c, dict_get (bed_dict recs) c = bed_get recs c.
Proof. exact dict_get_bed_dict. Qed.
Print Assumptions C17_bed_dict_get.

Example C17_bed_dict_ex :
  bed_dict [([98], (2, 3)); ([97], (5, 6)); ([98], (0, 1))] = [([98], [(2, 3); (0, 1)]); ([97], [(5, 6)])]
  /\ dict_get (bed_dict [([98], (2, 3)); ([97], (5, 6)); ([98], (0, 1))]) [99] = [].
Proof. vm_compute. split; reflexivity. Qed.
Print Assumptions C17_bed_dict_ex.

(* STRUCTURE, no hypothesis at all: for every contig list, whitelist, blacklist, bin size and fragment size the
   result is - contig by contig, in input order, over the whitelisted contigs only - the tiling
   blacklisted_binning(0, length, bin_size, sorted(records of that contig), fragment_size) tagged with the contig;
   the exception of one contig's tiling is the exception of the call *)
Theorem C17_contigs_per_contig : forall contigs bs frag bed wl,
  blacklisted_binning_contigs contigs bs frag bed wl =
  collect (map (fun cl => tag_rows (fst cl) (contig_tiling (bed_recs bed) bs frag cl)) (selected wl contigs)).
Proof. exact bbc_per_contig. Qed.
Print Assumptions C17_contigs_per_contig.

(* MAIN (genome level): bin size > 0, every selected contig length >= 0, every blacklist record of a selected
   contig has start <= end, fragment size >= 0: the call returns rows (no exception) that are, per selected
   contig in input order, a block of rows satisfying the per-contig specification [spec] (C17_tiling) for the
   region 0..length and the blacklist records of that contig *)
Theorem C17_contigs_tiling : forall contigs bs frag bed wl, gpre_prop contigs bs frag bed wl ->
  exists rows, blacklisted_binning_contigs contigs bs frag bed wl = Ok rows /\ gspec contigs bs frag bed wl rows.
Proof. exact bbc_correct. Qed.
Print Assumptions C17_contigs_tiling.

Example C17_contigs_ex :
  blacklisted_binning_contigs [([97], 10); ([98], 7); ([99], 5)] 4 (Some 2)
    (Some [([98], (2, 3)); ([97], (5, 6)); ([100], (0, 100)); ([97], (0, 1)); ([99], (4, 1))]) (Some [[98]; [97]])
  = Ok [([97], ((1, 5), Some (1, 5))); ([97], ((6, 10), Some (6, 10)));
        ([98], ((0, 2), Some (0, 2))); ([98], ((3, 7), Some (3, 7)))]
  /\ gpre [([97], 10); ([98], 7); ([99], 5)] 4 (Some 2)
       (Some [([98], (2, 3)); ([97], (5, 6)); ([100], (0, 100)); ([97], (0, 1)); ([99], (4, 1))]) (Some [[98]; [97]]) = true.
Proof. vm_compute. split; reflexivity. Qed.
Print Assumptions C17_contigs_ex.

(* consequences of [gspec], stated separately *)
(* every row belongs to a whitelisted contig of the list; its bin is non-empty, lies inside 0..length of that contig
   (no bin crosses a contig), is at most bin_size long and contains no blacklisted base of that contig *)
Theorem C17_genome_bins : forall contigs bs frag bed wl rows, gspec contigs bs frag bed wl rows ->
  forall r, In r rows -> exists len, In (fst r, len) contigs /\ in_whitelist wl (fst r) = true /\
    0 <= fst (row_span r) /\ fst (row_span r) < snd (row_span r) /\ snd (row_span r) <= len /\
    snd (row_span r) - fst (row_span r) <= bs /\
    forall p, inside p (row_span r) -> ~ blacklisted (bed_recs bed) (fst r) p.
Proof. exact genome_bins. Qed.
Print Assumptions C17_genome_bins.

(* with a fragment size every row has a fetch window: it contains the bin, extends it by at most fragment_size,
   stays inside 0..length of the row's contig and contains no blacklisted base of that contig *)
Theorem C17_genome_windows : forall contigs bs f bed wl rows, gspec contigs bs (Some f) bed wl rows ->
  forall r, In r rows -> exists len w, In (fst r, len) contigs /\ snd (snd r) = Some w /\
    fst w <= fst (row_span r) /\ snd (row_span r) <= snd w /\
    fst (row_span r) - fst w <= f /\ snd w - snd (row_span r) <= f /\
    0 <= fst w /\ snd w <= len /\
    forall p, inside p w -> ~ blacklisted (bed_recs bed) (fst r) p.
Proof. exact genome_windows. Qed.
Print Assumptions C17_genome_windows.

(* every non-blacklisted base of every whitelisted contig of the list lies in a bin of that contig ... *)
Theorem C17_genome_covered : forall contigs bs frag bed wl rows, gspec contigs bs frag bed wl rows ->
  forall c len p, In (c, len) contigs -> in_whitelist wl c = true -> 0 <= p < len -> ~ blacklisted (bed_recs bed) c p ->
  exists r, In r rows /\ fst r = c /\ inside p (row_span r).
Proof. exact genome_covered. Qed.
Print Assumptions C17_genome_covered.

(* ... and, the contig names being pairwise different (a BAM header, a dict), in exactly one row *)
Theorem C17_genome_exactly_once : forall contigs bs frag bed wl rows, gspec contigs bs frag bed wl rows ->
  NoDup (map fst (selected wl contigs)) ->
  forall r1 r2 p, In r1 rows -> In r2 rows -> fst r1 = fst r2 -> inside p (row_span r1) -> inside p (row_span r2) -> r1 = r2.
Proof. exact genome_exactly_once. Qed.
Print Assumptions C17_genome_exactly_once.

(* contigs absent from the whitelist produce nothing *)
Theorem C17_genome_whitelist : forall contigs bs frag bed w rows, gspec contigs bs frag bed (Some w) rows ->
  forall r, In r rows -> In (fst r) w.
Proof. exact genome_whitelist. Qed.
Print Assumptions C17_genome_whitelist.

(* a blacklist entry on another contig has no effect: two blacklists with the same records on every selected
   contig give the same result (for all inputs, exceptions included); in particular every record naming a contig
   that is not selected can be dropped, and no blacklist file is an empty one *)
Theorem C17_other_contigs_no_effect : forall contigs bs frag bed bed' wl,
  (forall cl, In cl (selected wl contigs) -> bed_get (bed_recs bed) (fst cl) = bed_get (bed_recs bed') (fst cl)) ->
  blacklisted_binning_contigs contigs bs frag bed wl = blacklisted_binning_contigs contigs bs frag bed' wl.
Proof. exact bbc_other_contigs. Qed.
Print Assumptions C17_other_contigs_no_effect.

Theorem C17_irrelevant_records_dropped : forall contigs bs frag recs wl,
  blacklisted_binning_contigs contigs bs frag (Some recs) wl =
  blacklisted_binning_contigs contigs bs frag (Some (filter (relevant wl contigs) recs)) wl.
Proof. exact bbc_irrelevant_records. Qed.
Print Assumptions C17_irrelevant_records_dropped.

Example C17_other_contigs_ex :
  blacklisted_binning_contigs [([97], 10)] 4 None (Some [([98], (0, 9)); ([97], (5, 6)); ([98], (3, 1))]) None
  = blacklisted_binning_contigs [([97], 10)] 4 None (Some [([97], (5, 6))]) None
  /\ filter (relevant None [([97], 10)]) [([98], (0, 9)); ([97], (5, 6)); ([98], (3, 1))] = [([97], (5, 6))].
Proof. vm_compute. split; reflexivity. Qed.
Print Assumptions C17_other_contigs_ex.

(* the boolean specification run on the implementation's rows by the search (run_C17x mode 2) holds only if [gspec]
   does, and is exactly [gspec] when the selected contig names are pairwise different (mode 3 = nodupb);
   [gpre] (mode 1) is exactly the hypothesis of C17_contigs_tiling *)
Theorem C17_gspecb_sound : forall contigs bs frag bed wl rows,
  gspecb contigs bs frag bed wl rows = true -> gspec contigs bs frag bed wl rows.
Proof. exact gspecb_sound. Qed.
Print Assumptions C17_gspecb_sound.

Theorem C17_gspecb_iff : forall contigs bs frag bed wl rows, nodupb (map fst (selected wl contigs)) = true ->
  (gspecb contigs bs frag bed wl rows = true <-> gspec contigs bs frag bed wl rows).
Proof. exact gspecb_iffb. Qed.
Print Assumptions C17_gspecb_iff.

Theorem C17_gpre_iff : forall contigs bs frag bed wl, gpre contigs bs frag bed wl = true <-> gpre_prop contigs bs frag bed wl.
Proof. exact gpre_iff. Qed.
Print Assumptions C17_gpre_iff.

(* ---------------------------------------------------------------------------------------------------- BED text *)
(* ROUND TRIP: the records read back from a BED text printed from records ('%s\t%d\t%d\n'; names non-empty and free
   of whitespace, coordinates of at most 4300 digits - int()'s limit) are exactly those records; also with extra
   columns after the third and with '\r\n' line ends *)
Theorem C17_bed_round_trip : forall recs, Forall rec_ok recs -> parse_bed (print_bed recs) = Ok recs.
Proof. exact parse_print_bed. Qed.
Print Assumptions C17_bed_round_trip.

Theorem C17_bed_round_trip_extra_columns : forall l, Forall (fun p => rec_ok (fst p) /\ extra_ok (fst (snd p))) l ->
  parse_bed (print_bed_ext l) = Ok (map fst l).
Proof. exact parse_print_bed_ext. Qed.
Print Assumptions C17_bed_round_trip_extra_columns.

(* hence blacklisted_binning_contigs on the printed file = blacklisted_binning_contigs on the records *)
Theorem C17_contigs_from_bed_text : forall contigs bs frag recs wl, Forall rec_ok recs ->
  blacklisted_binning_contigs_text contigs bs frag (Some (print_bed recs)) wl =
  blacklisted_binning_contigs contigs bs frag (Some recs) wl.
Proof. exact bbc_text. Qed.
Print Assumptions C17_contigs_from_bed_text.

Example C17_bed_text_ex :
  print_bed [([99; 104; 114; 49], (12, -305)); ([88], (0, 7))]
  = [99; 104; 114; 49; 9; 49; 50; 9; 45; 51; 48; 53; 10; 88; 9; 48; 9; 55; 10]
  /\ parse_bed [97; 32; 49; 95; 48; 9; 9; 43; 55; 32; 120; 121; 13; 10; 98; 32; 45; 48; 32; 48; 48; 13] = Ok [([97], (10, 7)); ([98], (0, 0))]
  /\ parse_bed [97; 32; 49; 10; 10] = Raise 2 /\ parse_bed [97; 9; 49; 9; 50; 10; 10] = Raise 2
  /\ parse_bed [97; 9; 49; 95; 9; 50; 10] = Raise 2.
Proof. vm_compute. repeat split. Qed.
Print Assumptions C17_bed_text_ex.

Example C17_bed_rec_ok_ex : rec_ok ([99; 104; 114; 49], (12, -305)).
Proof. exact rec_ok_example. Qed.
Print Assumptions C17_bed_rec_ok_ex.

(* ---------------------------------------------------------------------------------------------------- bp_chunked *)
(* BUDGET RULE as coded, for every job list and EVERY bp_per_job (also <= 0; C17_bp_chunked_chunks needs 0 < k):
   a chunk closed by `bp_current >= bp_per_job` is non-empty, its total |end - start| reaches k and no non-empty
   proper prefix of it does; the chunk yielded after the loop has no non-empty prefix reaching k (it may be empty) *)
Theorem C17_bp_budget_rule : forall (A : Type) (span : A -> iv) (jobs : list A) (k : Z),
  Forall (closed_rule span k) (removelast (bp_chunked span jobs k)) /\ open_rule span k (last (bp_chunked span jobs k) []).
Proof. exact (@bp_chunked_rule). Qed.
Print Assumptions C17_bp_budget_rule.

(* the rule characterises the result: bp_chunked is the only way to cut the job list into chunks obeying it *)
Theorem C17_bp_budget_rule_unique : forall (A : Type) (span : A -> iv) (jobs : list A) (k : Z) (cs : list (list A)),
  cs <> [] -> Forall (closed_rule span k) (removelast cs) -> open_rule span k (last cs []) -> concat cs = jobs ->
  cs = bp_chunked span jobs k.
Proof. exact (@bp_chunked_rule_unique). Qed.
Print Assumptions C17_bp_budget_rule_unique.

Example C17_bp_budget_ex :
  bp_chunked (fun j => j) [(0, 5); (8, 5); (8, 20); (20, 21)] 6 = [[(0, 5); (8, 5)]; [(8, 20)]; [(20, 21)]]
  /\ bp_chunked (fun j => j) [(0, 5); (5, 5); (5, 9)] 0 = [[(0, 5)]; [(5, 5)]; [(5, 9)]; []]
  /\ bp_chunked (fun j => j) [(0, 5); (5, 9)] (-3) = [[(0, 5)]; [(5, 9)]; []].
Proof. vm_compute. repeat split. Qed.
Print Assumptions C17_bp_budget_ex.

(* bp_chunked applied to the rows of blacklisted_binning_contigs with bp_per_job k > 0: the chunks concatenate to
   the rows; every chunk but the last holds at least k and fewer than k + bin_size bases, the last fewer than k *)
Theorem C17_contigs_bp_chunked : forall contigs bs frag bed wl rows k, gspec contigs bs frag bed wl rows -> 0 < k ->
  concat (bp_chunked_rows rows k) = rows /\
  Forall (fun c => k <= bp_sum row_span c < k + bs) (removelast (bp_chunked_rows rows k)) /\
  bp_sum row_span (last (bp_chunked_rows rows k) []) < k.
Proof. exact bp_rows_budget. Qed.
Print Assumptions C17_contigs_bp_chunked.

Example C17_contigs_bp_ex :
  match blacklisted_binning_contigs [([97], 10); ([98], 7)] 4 None (Some [([97], (5, 6))]) None with
  | Ok rows => map (map (fun r => (fst r, row_span r))) (bp_chunked_rows rows 6)
  | Raise _ => []
  end = [[([97], (0, 2)); ([97], (2, 4)); ([97], (4, 5)); ([97], (6, 10))]; [([98], (0, 3)); ([98], (3, 6))]; [([98], (6, 7))]].
Proof. vm_compute. reflexivity. Qed.
Print Assumptions C17_contigs_bp_ex.
