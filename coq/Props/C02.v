(* C02 - property theorems only.  Each is closed by [exact lemma]; Print Assumptions beneath.
   demux_contig / demux_scattered model UmiBarcodeDemuxMethod / ScatteredUmiBarcodeDemuxMethod
   .demultiplex plus the single-protocol subclass overrides (Model/C02Defs.v); gen_table is
   REGENERATED from the live strategy objects (Gen/GenLayouts.v); protocols is the pinned table. *)
From Coq Require Import ZArith List Bool.
Import ListNotations.
From SCMO Require Import Lib.Val Lib.PySlice Lib.PySliceFacts Model.C02Defs Model.C02Protocols
     Gen.GenLayouts Model.C02 Proofs.C02 Proofs.C02_b.
Open Scope Z_scope.

(* ---- core, unbounded: EVERY contiguous layout of the plain shape (non-negative regions on read 1/2,
   capture = slice(a, None), primer at the read start), EVERY whitelist lookup, EVERY input tuple
   (any number of mates, any read lengths incl. shorter than the tag prefix, sequence and quality of
   different length): an accepted input yields exactly the records [expected] prescribes from the
   layout's positions, and the number of mates is within the layout's bounds *)
Theorem C02_contig_spec : forall L W lookup recs out P,
  positions_c L W = Some P ->
  demux_contig L W lookup recs = Accept out ->
  expected P false lookup recs = Some out /\ p_min P <= Z.of_nat (length recs) <= p_max P.
Proof. exact contig_spec. Qed.
Print Assumptions C02_contig_spec.

Theorem C02_scattered_spec : forall L W lookup recs out P,
  positions_s L W = Some P ->
  demux_scattered L W lookup recs = Accept out ->
  expected P true lookup recs = Some out /\ p_min P <= Z.of_nat (length recs) <= p_max P.
Proof. exact scattered_spec. Qed.
Print Assumptions C02_scattered_spec.

(* the same with the boolean well-formedness test (coverage of the prefix, primer disjoint from
   barcode / UMI ...) as the only hypothesis; one record per input mate *)
Theorem C02_contig_wf : forall L W lookup recs out,
  wf_c L W = true -> demux_contig L W lookup recs = Accept out ->
  exists P, positions_c L W = Some P /\ wf_p P = true /\ expected P false lookup recs = Some out /\
            length out = length recs /\ p_min P <= Z.of_nat (length recs) <= p_max P.
Proof. exact contig_wf_full. Qed.
Print Assumptions C02_contig_wf.

Theorem C02_scattered_wf : forall L W lookup recs out,
  wf_s L W = true -> demux_scattered L W lookup recs = Accept out ->
  exists P, positions_s L W = Some P /\ wf_p P = true /\ expected P true lookup recs = Some out /\
            length out = length recs /\ p_min P <= Z.of_nat (length recs) <= p_max P.
Proof. exact scattered_wf_full. Qed.
Print Assumptions C02_scattered_wf.

(* restriction-bisulfite layout (own demultiplex: pairs only, QT / ES / eq / IS tags) *)
Theorem C02_rb_spec : forall L R lookup recs out P X,
  positions_rb L R = Some (P, X) ->
  demux_rb L R lookup recs = Accept out ->
  expected_rb P X lookup recs = Some out /\ length recs = 2%nat.
Proof. exact rb_spec. Qed.
Print Assumptions C02_rb_spec.

(* ---- what [expected] says, record by record: emitted sequence and qualities are the SAME suffix
   [insert start, end) of mate i; bc/RX/RQ/rS/lh/lq are the bases / encoded qualities at the layout's
   regions; BC/bi are what the whitelist returns for the raw barcode *)
Theorem C02_record_meaning : forall P b lookup recs out i r o,
  expected P b lookup recs = Some out -> nth_error recs i = Some r -> nth_error out i = Some o ->
  o_seq o = skipn (ins_of P i) (fst r) /\ o_qual o = skipn (ins_of P i) (snd r) /\
  o_bc o = cat_seq recs (p_bc P) /\
  lookup (o_bc o) = Some (o_bi o, o_BC o) /\
  (o_RX o = None /\ o_RQ o = None \/
   o_RX o = Some (cat_seq recs (p_umi P)) /\ o_RQ o = Some (map enc_total (cat_qual recs (p_umi P)))) /\
  (b = false -> (o_RX o = None <-> p_umi P = [])) /\
  (b = true -> (o_RX o = None <-> cat_seq recs (p_umi P) = [])) /\
  o_rS o = option_map (reg_seq recs) (p_primer P) /\
  o_lh o = option_map (reg_seq recs) (p_lig P) /\
  o_lq o = option_map (fun r => map enc_total (reg_qual recs r)) (p_lig P).
Proof. exact expected_record. Qed.
Print Assumptions C02_record_meaning.

(* base j of a region's tag is base a+j of the stated mate (j < k); nothing else *)
Theorem C02_region_index : forall recs m a k j, 0 <= a -> 0 <= k ->
  nth_error (reg_seq recs (m, a, k)) j
  = (if (j <? Z.to_nat k)%nat then nth_error (mate_seq recs m) (Z.to_nat a + j) else None) /\
  nth_error (reg_qual recs (m, a, k)) j
  = (if (j <? Z.to_nat k)%nat then nth_error (mate_qual recs m) (Z.to_nat a + j) else None).
Proof. intros recs m a k j Ha Hk. exact (conj (reg_seq_nth recs m a k j Ha Hk) (reg_qual_nth recs m a k j Ha Hk)). Qed.
Print Assumptions C02_region_index.

(* emitted base j and emitted quality j both come from position insert_start + j of mate i *)
Theorem C02_emitted_aligned : forall P b lookup recs out i r o,
  expected P b lookup recs = Some out -> nth_error recs i = Some r -> nth_error out i = Some o ->
  (forall j, nth_error (o_seq o) j = nth_error (fst r) (ins_of P i + j)) /\
  (forall j, nth_error (o_qual o) j = nth_error (snd r) (ins_of P i + j)) /\
  (length (fst r) = length (snd r) -> length (o_seq o) = length (o_qual o)).
Proof. exact emitted_aligned. Qed.
Print Assumptions C02_emitted_aligned.

(* every input base is accounted for: in a tag region of its own mate, or emitted *)
Theorem C02_accounted : forall P b lookup recs out i r o p,
  wf_p P = true -> (i < 2)%nat ->
  expected P b lookup recs = Some out -> nth_error recs i = Some r -> nth_error out i = Some o ->
  (p < length (fst r))%nat ->
  (exists reg, In reg (tag_regions P) /\ in_region (Z.of_nat i) (Z.of_nat p) reg = true) \/
  ((ins_of P i <= p)%nat /\ nth_error (o_seq o) (p - ins_of P i) = nth_error (fst r) p).
Proof. exact accounted. Qed.
Print Assumptions C02_accounted.

(* nothing is taken from the wrong mate: record i is a function of mate i and of the bases /
   qualities inside the tag regions only *)
Theorem C02_other_mate_irrelevant : forall P b lookup recs recs' out out' i,
  expected P b lookup recs = Some out -> expected P b lookup recs' = Some out' ->
  nth_error recs i = nth_error recs' i ->
  (forall r, In r (tag_regions P) -> reg_seq recs r = reg_seq recs' r /\ reg_qual recs r = reg_qual recs' r) ->
  nth_error out i = nth_error out' i.
Proof. exact other_mate_irrelevant. Qed.
Print Assumptions C02_other_mate_irrelevant.

(* one record per input mate *)
Theorem C02_arity : forall P b lookup recs out,
  expected P b lookup recs = Some out -> length out = length recs.
Proof. exact expected_arity. Qed.
Print Assumptions C02_arity.

(* header-safe quality encoding: injective on phred 0..51 (characters 33..84) *)
Theorem C02_enc_injective : forall c1 c2, 33 <= c1 < 85 -> 33 <= c2 < 85 -> enc_q c1 = enc_q c2 -> c1 = c2.
Proof. exact enc_q_injective. Qed.
Print Assumptions C02_enc_injective.

(* the encoder is total (never raises) and clamps phred >= 51 to 'Z' *)
Theorem C02_enc_total : forall l, exists r, enc_qs l = Some r.
Proof. exact enc_qs_defined. Qed.
Print Assumptions C02_enc_total.

Theorem C02_enc_clamps : forall c, 84 <= c -> enc_q c = Some 90.
Proof. exact enc_q_clamps. Qed.
Print Assumptions C02_enc_clamps.

(* ---- UmiBarcodeDemuxMethod.__init__ : primer on the other mate -> both capture starts are right *)
Theorem C02_derive_separate : forall a br k,
  a_bcRead a = br -> (br = 0 \/ br = 1) -> a_rpRead a = Some (1 - br) -> a_rpLength a = Some k ->
  a_rpEnd a = false -> a_umiLength a <> 0 -> a_umiRead a = br -> (a_umiStart a = 0 \/ a_bcStart a = 0) ->
  exists cap, derive_capture a = Some (cap, Some (slice_range 0 k)) /\
    pyindex cap br = Some (slice_from (a_bcLength a + a_umiLength a)) /\
    pyindex cap (1 - br) = Some (slice_from k).
Proof. exact derive_capture_separate. Qed.
Print Assumptions C02_derive_separate.

(* ---- defect D5, root cause: primer configured on the barcode mate overwrites that mate's capture *)
Theorem C02_derive_overwrite : forall a br k,
  a_bcRead a = br -> (br = 0 \/ br = 1) -> a_rpRead a = Some br -> a_rpLength a = Some k ->
  a_rpEnd a = false -> a_umiLength a <> 0 -> a_umiRead a = br -> (a_umiStart a = 0 \/ a_bcStart a = 0) ->
  exists cap, derive_capture a = Some (cap, Some (slice_range 0 k)) /\
    pyindex cap br = Some (slice_from k) /\ pyindex cap (1 - br) = Some slice_all.
Proof. exact derive_capture_overwrite. Qed.
Print Assumptions C02_derive_overwrite.

(* ---- the regenerated table: every registered strategy is known to the pinned protocol table under
   the same kind; for the single-protocol ones the positions derived from the object's attributes are
   well formed, EQUAL the pinned protocol's positions and equal the positions observed by tracing.
   (finite table, by vm_compute: the obligation a changed umiStart / barcodeStart / slice breaks) *)
Theorem C02_registered_wf : forallb registered_ok gen_table = true.
Proof. exact registered_wf. Qed.
Print Assumptions C02_registered_wf.

Theorem C02_registered_derive : forallb derive_ok gen_table = true.
Proof. exact registered_derive. Qed.
Print Assumptions C02_registered_derive.

(* ---- hence: a registered single-protocol strategy that accepts an input returns exactly the records
   the PINNED protocol prescribes, the protocol is well formed, the arity is the protocol's *)
Theorem C02_registered_spec : forall g p lookup recs o out,
  In g gen_table -> find_protocol (g_name g) = Some p ->
  g_kind g = 1 \/ g_kind g = 2 ->
  demux_gen g lookup recs = Some o -> o = Accept out ->
  wf_p (pr_layout p) = true /\
  expected (pr_layout p) (pr_kind p =? 2) lookup recs = Some out /\
  p_min (pr_layout p) <= Z.of_nat (length recs) <= p_max (pr_layout p).
Proof. exact registered_spec. Qed.
Print Assumptions C02_registered_spec.

Theorem C02_registered_spec_rb : forall g p lookup recs o out,
  In g gen_table -> find_protocol (g_name g) = Some p -> g_kind g = 4 ->
  demux_gen g lookup recs = Some o -> o = Accept out ->
  expected_rb (pr_layout p) (pr_extra p) lookup recs = Some out /\ length recs = 2%nat.
Proof. exact registered_spec_rb. Qed.
Print Assumptions C02_registered_spec_rb.

(* ---- non-vacuity / refutation on literal layouts (independent of the regenerated table) *)
Definition ex_lookup : lookup_t := fun raw => if Nat.eqb (length raw) 8 then Some (7, raw) else None.
Definition ex_scchic : clayout :=
  mkC 0 0 3 0 3 8 (Some 1) (Some (slice_range 0 6)) [slice_from 12; slice_from 6].
Definition ex_w : wrapper := mkW None (Some (11, 2)) true.
Definition ex_r1 : mate := ([1;2;3; 11;12;13;14;15;16;17;18; 21;22; 31;32;33], [40;41;42; 43;44;45;46;47;48;49;50; 51;52; 53;54;55]).
Definition ex_r2 : mate := ([61;62;63;64;65;66; 71;72], [33;34;35;36;37;38; 39;40]).

(* accepted pair on a scCHIC-like layout: UMI 1,2,3; barcode 11..18; ligation 21,22; insert of read 1
   from 22 on; primer 61..66; insert of read 2 = 71,72; well-formed layout *)
Example C02_ex_accept :
  wf_c ex_scchic ex_w = true /\
  match demux_contig ex_scchic ex_w ex_lookup [ex_r1; ex_r2] with
  | Accept [o1; o2] =>
    o_seq o1 = [22; 31; 32; 33] /\ o_qual o1 = [52; 53; 54; 55] /\ o_seq o2 = [71; 72] /\
    o_bc o1 = [11;12;13;14;15;16;17;18] /\ o_RX o1 = Some [1; 2; 3] /\ o_rS o2 = Some [61;62;63;64;65;66] /\
    o_lh o1 = Some [21; 22] /\ o_lq o2 = Some [115; 116]
  | _ => False
  end.
Proof. vm_compute. repeat split. Qed.
Print Assumptions C02_ex_accept.

(* a read 1 shorter than the tag prefix is still handled positionally (no negative-index wrap-around) *)
Example C02_ex_short :
  match demux_contig ex_scchic ex_w ex_lookup [(firstn 12 (fst ex_r1), firstn 12 (snd ex_r1)); ex_r2] with
  | Accept [o1; o2] => o_seq o1 = [] /\ o_qual o1 = [] /\ o_lh o1 = Some [21]
  | _ => False
  end.
Proof. vm_compute. repeat split. Qed.
Print Assumptions C02_ex_short.

(* D5 as found at the pinned commit (CELSeq2.py, second class CELSeq2_c8_u8, shortName CS2C8U8S:
   umi/barcode on read 2 AND random_primer_read=1): the layout is NOT well formed (primer region
   overlaps the UMI), read 2 is emitted from base 6 - UMI and barcode bases leak into the insert -
   and rS holds UMI bases *)
Definition d5_layout : clayout :=
  mkC 1 0 8 1 8 8 (Some 1) (Some (slice_range 0 6)) [slice_all; slice_from 6].
Example C02_D5_refuted :
  wf_c d5_layout (mkW None None false) = false /\
  exists recs, match demux_contig d5_layout (mkW None None false) ex_lookup recs with
               | Accept [o1; o2] => o_seq o2 = skipn 6 (mate_seq recs 1) /\ o_seq o2 <> skipn 16 (mate_seq recs 1)
                                    /\ o_rS o2 = Some (firstn 6 (mate_seq recs 1)) /\ o_RX o2 = Some (firstn 8 (mate_seq recs 1))
               | _ => False
               end.
Proof.
  split; [vm_compute; reflexivity|].
  exists [([1;2;3], [40;40;40]); ([1;2;3;4;5;6;7;8; 11;12;13;14;15;16;17;18; 21;22;23], [40;40;40;40;40;40;40;40;40;40;40;40;40;40;40;40;40;40;40])].
  vm_compute. repeat split. discriminate.
Qed.
Print Assumptions C02_D5_refuted.
