(* C02 - property theorems only.  Each is closed by [exact lemma]; Print Assumptions beneath.
   demux_contig / demux_scattered model UmiBarcodeDemuxMethod / ScatteredUmiBarcodeDemuxMethod
   .demultiplex plus the single-protocol subclass overrides (Model/C02Defs.v); gen_table is
   REGENERATED from the live strategy objects (Gen/GenLayouts.v); protocols is the pinned table. *)
From Coq Require Import ZArith List Bool.
Import ListNotations.
From SCMO Require Import Lib.Val Lib.PySlice Lib.PySliceFacts Model.C02Defs Model.C02Comp Model.C02Protocols
     Gen.GenLayouts Gen.GenComp Model.C02 Model.C02Fq Proofs.C02 Proofs.C02_b Proofs.C02_comp Proofs.C02_fq Proofs.C02_part.
Open Scope Z_scope.

(* ---- core, unbounded: EVERY contiguous layout of the plain shape (non-negative regions on read 1/2,
   capture = slice(a, None), primer at the read start), EVERY whitelist lookup, EVERY input tuple
   (any number of mates, any read lengths incl. shorter than the tag prefix, sequence and quality of
   different length): an accepted input yields exactly the records [expected] prescribes from the
   layout's positions, and the number of mates is within the layout's bounds *)
Theorem C02_contig_spec : forall L W lookup recs out P,
  positions_c L W = Some P ->
  demux_contig L W lookup recs = Accept out ->
  expected P false lookup recs = Some out /\ p_min P <= Z.of_nat (length recs) <= p_max P.
Proof. exact contig_spec. Qed.
Print Assumptions C02_contig_spec.

Theorem C02_scattered_spec : forall L W lookup recs out P,
  positions_s L W = Some P ->
  demux_scattered L W lookup recs = Accept out ->
  expected P true lookup recs = Some out /\ p_min P <= Z.of_nat (length recs) <= p_max P.
Proof. exact scattered_spec. Qed.
Print Assumptions C02_scattered_spec.

(* the same with the boolean well-formedness test (coverage of the prefix, primer disjoint from
   barcode / UMI ...) as the only hypothesis; one record per input mate *)
Theorem C02_contig_wf : forall L W lookup recs out,
  wf_c L W = true -> demux_contig L W lookup recs = Accept out ->
  exists P, positions_c L W = Some P /\ wf_p P = true /\ expected P false lookup recs = Some out /\
            length out = length recs /\ p_min P <= Z.of_nat (length recs) <= p_max P.
Proof. exact contig_wf_full. Qed.
Print Assumptions C02_contig_wf.

Theorem C02_scattered_wf : forall L W lookup recs out,
  wf_s L W = true -> demux_scattered L W lookup recs = Accept out ->
  exists P, positions_s L W = Some P /\ wf_p P = true /\ expected P true lookup recs = Some out /\
            length out = length recs /\ p_min P <= Z.of_nat (length recs) <= p_max P.
Proof. exact scattered_wf_full. Qed.
Print Assumptions C02_scattered_wf.

(* restriction-bisulfite layout (own demultiplex: pairs only, QT / ES / eq / IS tags) *)
Theorem C02_rb_spec : forall L R lookup recs out P X,
  positions_rb L R = Some (P, X) ->
  demux_rb L R lookup recs = Accept out ->
  expected_rb P X lookup recs = Some out /\ length recs = 2%nat.
Proof. exact rb_spec. Qed.
Print Assumptions C02_rb_spec.

(* ---- what [expected] says, record by record: emitted sequence and qualities are the SAME suffix
   [insert start, end) of mate i; bc/RX/RQ/rS/lh/lq are the bases / encoded qualities at the layout's
   regions; BC/bi are what the whitelist returns for the raw barcode *)
Theorem C02_record_meaning : forall P b lookup recs out i r o,
  expected P b lookup recs = Some out -> nth_error recs i = Some r -> nth_error out i = Some o ->
  o_seq o = skipn (ins_of P i) (fst r) /\ o_qual o = skipn (ins_of P i) (snd r) /\
  o_bc o = cat_seq recs (p_bc P) /\
  lookup (o_bc o) = Some (o_bi o, o_BC o) /\
  (o_RX o = None /\ o_RQ o = None \/
   o_RX o = Some (cat_seq recs (p_umi P)) /\ o_RQ o = Some (map enc_total (cat_qual recs (p_umi P)))) /\
  (b = false -> (o_RX o = None <-> p_umi P = [])) /\
  (b = true -> (o_RX o = None <-> cat_seq recs (p_umi P) = [])) /\
  o_rS o = option_map (reg_seq recs) (p_primer P) /\
  o_lh o = option_map (reg_seq recs) (p_lig P) /\
  o_lq o = option_map (fun r => map enc_total (reg_qual recs r)) (p_lig P).
Proof. exact expected_record. Qed.
Print Assumptions C02_record_meaning.

(* base j of a region's tag is base a+j of the stated mate (j < k); nothing else *)
Theorem C02_region_index : forall recs m a k j, 0 <= a -> 0 <= k ->
  nth_error (reg_seq recs (m, a, k)) j
  = (if (j <? Z.to_nat k)%nat then nth_error (mate_seq recs m) (Z.to_nat a + j) else None) /\
  nth_error (reg_qual recs (m, a, k)) j
  = (if (j <? Z.to_nat k)%nat then nth_error (mate_qual recs m) (Z.to_nat a + j) else None).
Proof. intros recs m a k j Ha Hk. exact (conj (reg_seq_nth recs m a k j Ha Hk) (reg_qual_nth recs m a k j Ha Hk)). Qed.
Print Assumptions C02_region_index.

(* emitted base j and emitted quality j both come from position insert_start + j of mate i *)
Theorem C02_emitted_aligned : forall P b lookup recs out i r o,
  expected P b lookup recs = Some out -> nth_error recs i = Some r -> nth_error out i = Some o ->
  (forall j, nth_error (o_seq o) j = nth_error (fst r) (ins_of P i + j)) /\
  (forall j, nth_error (o_qual o) j = nth_error (snd r) (ins_of P i + j)) /\
  (length (fst r) = length (snd r) -> length (o_seq o) = length (o_qual o)).
Proof. exact emitted_aligned. Qed.
Print Assumptions C02_emitted_aligned.

(* every input base is accounted for: in a tag region of its own mate, or emitted *)
Theorem C02_accounted : forall P b lookup recs out i r o p,
  wf_p P = true -> (i < 2)%nat ->
  expected P b lookup recs = Some out -> nth_error recs i = Some r -> nth_error out i = Some o ->
  (p < length (fst r))%nat ->
  (exists reg, In reg (tag_regions P) /\ in_region (Z.of_nat i) (Z.of_nat p) reg = true) \/
  ((ins_of P i <= p)%nat /\ nth_error (o_seq o) (p - ins_of P i) = nth_error (fst r) p).
Proof. exact accounted. Qed.
Print Assumptions C02_accounted.

(* nothing is taken from the wrong mate: record i is a function of mate i and of the bases /
   qualities inside the tag regions only *)
Theorem C02_other_mate_irrelevant : forall P b lookup recs recs' out out' i,
  expected P b lookup recs = Some out -> expected P b lookup recs' = Some out' ->
  nth_error recs i = nth_error recs' i ->
  (forall r, In r (tag_regions P) -> reg_seq recs r = reg_seq recs' r /\ reg_qual recs r = reg_qual recs' r) ->
  nth_error out i = nth_error out' i.
Proof. exact other_mate_irrelevant. Qed.
Print Assumptions C02_other_mate_irrelevant.

(* one record per input mate *)
Theorem C02_arity : forall P b lookup recs out,
  expected P b lookup recs = Some out -> length out = length recs.
Proof. exact expected_arity. Qed.
Print Assumptions C02_arity.

(* header-safe quality encoding: injective on phred 0..51 (characters 33..84) *)
Theorem C02_enc_injective : forall c1 c2, 33 <= c1 < 85 -> 33 <= c2 < 85 -> enc_q c1 = enc_q c2 -> c1 = c2.
Proof. exact enc_q_injective. Qed.
Print Assumptions C02_enc_injective.

(* the encoder is total (never raises) and clamps phred >= 51 to 'Z' *)
Theorem C02_enc_total : forall l, exists r, enc_qs l = Some r.
Proof. exact enc_qs_defined. Qed.
Print Assumptions C02_enc_total.

Theorem C02_enc_clamps : forall c, 84 <= c -> enc_q c = Some 90.
Proof. exact enc_q_clamps. Qed.
Print Assumptions C02_enc_clamps.

(* ---- UmiBarcodeDemuxMethod.__init__ : primer on the other mate -> both capture starts are right *)
Theorem C02_derive_separate : forall a br k,
  a_bcRead a = br -> (br = 0 \/ br = 1) -> a_rpRead a = Some (1 - br) -> a_rpLength a = Some k ->
  a_rpEnd a = false -> a_umiLength a <> 0 -> a_umiRead a = br -> (a_umiStart a = 0 \/ a_bcStart a = 0) ->
  exists cap, derive_capture a = Some (cap, Some (slice_range 0 k)) /\
    pyindex cap br = Some (slice_from (a_bcLength a + a_umiLength a)) /\
    pyindex cap (1 - br) = Some (slice_from k).
Proof. exact derive_capture_separate. Qed.
Print Assumptions C02_derive_separate.

(* ---- defect D5, root cause: primer configured on the barcode mate overwrites that mate's capture *)
Theorem C02_derive_overwrite : forall a br k,
  a_bcRead a = br -> (br = 0 \/ br = 1) -> a_rpRead a = Some br -> a_rpLength a = Some k ->
  a_rpEnd a = false -> a_umiLength a <> 0 -> a_umiRead a = br -> (a_umiStart a = 0 \/ a_bcStart a = 0) ->
  exists cap, derive_capture a = Some (cap, Some (slice_range 0 k)) /\
    pyindex cap br = Some (slice_from k) /\ pyindex cap (1 - br) = Some slice_all.
Proof. exact derive_capture_overwrite. Qed.
Print Assumptions C02_derive_overwrite.

(* ---- the regenerated table: every registered strategy is known to the pinned protocol table under
   the same kind; for the single-protocol ones the positions derived from the object's attributes are
   well formed, EQUAL the pinned protocol's positions and equal the positions observed by tracing.
   (finite table, by vm_compute: the obligation a changed umiStart / barcodeStart / slice breaks) *)
Theorem C02_registered_wf : forallb registered_ok gen_table = true.
Proof. exact registered_wf. Qed.
Print Assumptions C02_registered_wf.

Theorem C02_registered_derive : forallb derive_ok gen_table = true.
Proof. exact registered_derive. Qed.
Print Assumptions C02_registered_derive.

(* ---- hence: a registered single-protocol strategy that accepts an input returns exactly the records
   the PINNED protocol prescribes, the protocol is well formed, the arity is the protocol's *)
Theorem C02_registered_spec : forall g p lookup recs o out,
  In g gen_table -> find_protocol (g_name g) = Some p ->
  g_kind g = 1 \/ g_kind g = 2 ->
  demux_gen g lookup recs = Some o -> o = Accept out ->
  wf_p (pr_layout p) = true /\
  expected (pr_layout p) (pr_kind p =? 2) lookup recs = Some out /\
  p_min (pr_layout p) <= Z.of_nat (length recs) <= p_max (pr_layout p).
Proof. exact registered_spec. Qed.
Print Assumptions C02_registered_spec.

Theorem C02_registered_spec_rb : forall g p lookup recs o out,
  In g gen_table -> find_protocol (g_name g) = Some p -> g_kind g = 4 ->
  demux_gen g lookup recs = Some o -> o = Accept out ->
  expected_rb (pr_layout p) (pr_extra p) lookup recs = Some out /\ length recs = 2%nat.
Proof. exact registered_spec_rb. Qed.
Print Assumptions C02_registered_spec_rb.

(* =====================================================================================
   composite strategies (TCHIC, CHICTV, DamAndT, DamID2andT_3u4b3u4b, DamID2andT_3u4b3u6b) and ILLU
   ===================================================================================== *)

(* str.find / in : the FIRST occurrence (occ p s j: p occurs in s at position j), or none *)
Theorem C02_find_first : forall p s,
  (forall i, find_sub p s = Some i ->
     (i <= length s)%nat /\ occ p s i = true /\ forall j, (j < i)%nat -> occ p s j = false) /\
  (find_sub p s = None -> forall j, (j <= length s)%nat -> occ p s j = false).
Proof. intros p s. split; [intros i; apply find_sub_some|apply find_sub_none]. Qed.
Print Assumptions C02_find_first.

(* the [GA]*$ trimmer: input = kept ++ dropped, dropped consists of the characters, kept does not end in
   one; and it is the LONGEST such suffix *)
Theorem C02_strip_suffix : forall f l,
  (exists t, l = drop_while_end f l ++ t /\ forallb f t = true /\
             (drop_while_end f l = [] \/ exists a x, drop_while_end f l = a ++ [x] /\ f x = false)) /\
  (forall a t, l = a ++ t -> forallb f t = true -> (length (drop_while_end f l) <= length a)%nat).
Proof. intros f l. split; [apply dwe_spec|apply dwe_longest]. Qed.
Print Assumptions C02_strip_suffix.

(* the poly-T pruning loop: pos = the maximal run of T at the read start, except that a read made of T
   only keeps its last base *)
Theorem C02_prune_rule : forall c s,
  prune_pos c s = Nat.min (run_len c s) (length s - 1) /\
  firstn (run_len c s) s = repeat c (run_len c s) /\
  (forall x, nth_error s (run_len c s) = Some x -> x <> c).
Proof. intros c s. destruct (run_len_spec c s) as (H1 & H2 & _). split; [apply prune_pos_rule|split; assumption]. Qed.
Print Assumptions C02_prune_rule.

(* pruning keeps bases and qualities aligned (same stretch of both, tags untouched): what the seeded
   change C02-7 broke *)
Theorem C02_prune_aligned : forall c e,
  stretch e (prune_rec c e) /\ same_tags e (prune_rec c e) /\
  (length (o_seq e) = length (o_qual e) -> length (o_seq (prune_rec c e)) = length (o_qual (prune_rec c e))).
Proof.
  intros c e. split; [apply stretch_prune|]. split; [unfold prune_rec; apply same_tags_with_sq|].
  intros Hl. apply (stretch_aligned e _ (stretch_prune c e) Hl).
Qed.
Print Assumptions C02_prune_aligned.

Theorem C02_stretch_aligned : forall e o, stretch e o -> length (o_seq e) = length (o_qual e) ->
  length (o_seq o) = length (o_qual o) /\
  exists a, forall j x, nth_error (o_seq o) j = Some x ->
     nth_error (o_seq e) (a + j) = Some x /\ nth_error (o_qual o) j = nth_error (o_qual e) (a + j).
Proof. exact stretch_aligned. Qed.
Print Assumptions C02_stretch_aligned.

(* TCHIC read-2 trimming cuts bases and qualities at the same index m; m is: cut at the first poly-A and
   poly-G run, strip the longest G/A suffix, drop 3 more *)
Theorem C02_trim_r2 : forall T s q,
  (let m := length (fst (trim_r2 T s q)) in trim_r2 T s q = (firstn m s, firstn m q) /\ (m <= length s)%nat) /\
  (0 < t_trim_drop T ->
   let s1 := fst (fold_left (fun acc p => cut_at p acc) (t_cuts T) (s, q)) in
   let s2 := drop_while_end (in_chars (t_trim_chars T)) s1 in
   fst (trim_r2 T s q) = firstn (length s2 - Z.to_nat (t_trim_drop T)) s2).
Proof. intros T s q. split; [apply trim_r2_prefix|apply trim_r2_rule]. Qed.
Print Assumptions C02_trim_r2.

Theorem C02_dual_spec : forall D lkd lkt recs out Pd Pt,
  arm_positions (d_damid D) = Some Pd -> arm_positions (d_tx D) = Some Pt ->
  demux_dual D lkd lkt recs = Accept out ->
  length recs = 2%nat /\
  ((exists d t1 tr,
      expected Pd (arm_rxb (d_damid D)) lkd recs = Some d /\
      expected Pt (arm_rxb (d_tx D)) lkt recs = Some (t1 :: tr) /\
      ((d_merge D = false /\ out = map (lift (d_mx_damid D) (d_dt_both D)) d) \/
       (d_merge D = true /\
        out = map (fun p => lift (d_mx_damid D) None (merge_rec (fst p) (snd p)))
                  (combine (prune_rec (d_prune D) t1 :: tr) d))))
   \/ (exists d, expected Pd (arm_rxb (d_damid D)) lkd recs = Some d /\
                 run_arm (d_tx D) lkt recs = Reject /\
                 out = map (lift (d_mx_damid D) (Some (d_dt_damid D))) d)
   \/ (exists t1 tr, expected Pt (arm_rxb (d_tx D)) lkt recs = Some (t1 :: tr) /\
                     run_arm (d_damid D) lkd recs = Reject /\
                     out = map (lift (d_mx_tx D) (Some (d_dt_tx D))) (prune_rec (d_prune D) t1 :: tr))).
Proof. exact dual_spec. Qed.
Print Assumptions C02_dual_spec.

Theorem C02_tchic_spec : forall T lookup cs2 recs out P,
  positions_c (t_L T) (t_W T) = Some P ->
  demux_tchic T lookup cs2 recs = Accept out ->
  length recs = 2%nat /\
  exists e1 e2 bc0,
    expected P false lookup recs = Some [e1; e2] /\ cs2 (o_bi e1) = Some bc0 /\
    let eb := bc0 ++ t_suffix T in
    let rc2 := revcomp (t_comp T) (o_seq e2) in
    ((contains eb (o_seq e1) || contains eb rc2 = true /\
      let rx := if contains eb (o_seq e1) then extract_umi (t_umi_len T) (o_seq e1) eb
                else extract_umi (t_umi_len T) rc2 eb in
      let m := length (fst (trim_r2 T (o_seq e2) (o_qual e2))) in
      out = [tchic_mk T (t_dt_vasa T) rx None e1;
             tchic_mk T (t_dt_vasa T) rx None (with_sq (firstn m (o_seq e2)) (firstn m (o_qual e2)) e2)])
     \/
     (contains eb (o_seq e1) || contains eb rc2 = false /\
      contains (t_polyT T) (o_seq e1) || contains (t_polyT T) (o_seq e2) = false /\
      ((existsb (fun e => contains (fst e) (match snd e with
                                            | Some w => firstn (Z.to_nat w) (o_seq e1)
                                            | None => o_seq e1 end)) (t_t7 T) = true /\
        out = [tchic_mk T (t_dt_t7 T) None (Some (t_rr T)) e1; tchic_mk T (t_dt_t7 T) None (Some (t_rr T)) e2])
       \/
       (existsb (fun e => contains (fst e) (match snd e with
                                            | Some w => firstn (Z.to_nat w) (o_seq e1)
                                            | None => o_seq e1 end)) (t_t7 T) = false /\
        out = [tchic_mk T (t_dt_chic T) None None e1; tchic_mk T (t_dt_chic T) None None e2])))).
Proof. exact tchic_spec. Qed.
Print Assumptions C02_tchic_spec.

Theorem C02_chictv_spec : forall V lookup recs out P,
  arm_positions (v_arm V) = Some P ->
  demux_chictv V lookup recs = Accept out ->
  length recs = 2%nat /\
  exists e1 er pos,
    expected P (arm_rxb (v_arm V)) lookup recs = Some (e1 :: er) /\
    find_sub (v_oligo V) (o_seq e1) = Some pos /\
    let st := (pos - Z.to_nat (v_umi_len V))%nat in
    let umi := sub st (pos - st) (o_seq e1) in
    out = mkCR (with_sq (firstn pos (o_seq e1)) (firstn pos (o_qual e1)) e1) (v_mx V) None None None (Some umi)
          :: map (fun o => mkCR o (v_mx V) None None None (Some umi)) er.
Proof. exact chictv_spec. Qed.
Print Assumptions C02_chictv_spec.

Theorem C02_bulk_spec : forall recs out, demux_bulk recs = Accept out -> out = recs.
Proof. exact bulk_spec. Qed.
Print Assumptions C02_bulk_spec.

(* ---- the common statement for every composite: an accepted input has 2 mates and yields 2 records; there
   are an arm giving the bases (as_) and an arm giving the tags (at_, the same arm except when both arms
   accept in the merging strategy) such that record i is a stretch (same indices for bases and qualities)
   of the arm's expected record i, with the tags of the tag arm's expected record i *)
Theorem C02_composite_spec : forall c lkA lkB cs2 recs out,
  Forall (fun a => arm_positions a <> None) (comp_arms c) ->
  comp_run c lkA lkB cs2 recs = Accept out ->
  length recs = 2%nat /\ length out = 2%nat /\
  exists as_ lks at_ lkt Ps Pt es et,
    In (as_, lks) (combine (comp_arms c) [lkA; lkB]) /\ In (at_, lkt) (combine (comp_arms c) [lkA; lkB]) /\
    arm_positions as_ = Some Ps /\ arm_positions at_ = Some Pt /\
    expected Ps (arm_rxb as_) lks recs = Some es /\ expected Pt (arm_rxb at_) lkt recs = Some et /\
    all_expl es et out.
Proof. exact composite_spec. Qed.
Print Assumptions C02_composite_spec.

(* ... and in terms of the input mate: a contiguous stretch of THAT mate starting at or after the arm's
   insert start, bases and qualities from the same indices, equally long when the input is *)
Theorem C02_composite_of_mate : forall P b lookup recs es i r s t o,
  expected P b lookup recs = Some es -> nth_error recs i = Some r -> nth_error es i = Some s ->
  expl s t o ->
  exists a k, o_seq o = sub (ins_of P i + a) k (fst r) /\ o_qual o = sub (ins_of P i + a) k (snd r) /\
              (length (fst r) = length (snd r) -> length (o_seq o) = length (o_qual o)).
Proof. exact expl_of_mate. Qed.
Print Assumptions C02_composite_of_mate.

(* ---- the registered composites: their regenerated arms take everything from the pinned positions *)
Theorem C02_registered_composite_spec : forall g c ps lkA lkB cs2 recs out,
  In g gen_table -> g_kind g = 3 ->
  find_comp (g_name g) = Some c -> find_comp_protocol (g_name g) = Some ps ->
  comp_run c lkA lkB cs2 recs = Accept out ->
  Forall2 (fun a p => arm_positions a = Some p /\ wf_p p = true) (comp_arms c) ps /\
  length recs = 2%nat /\ length out = 2%nat /\
  exists as_ lks at_ lkt Ps Pt es et,
    In (as_, lks) (combine (comp_arms c) [lkA; lkB]) /\ In (at_, lkt) (combine (comp_arms c) [lkA; lkB]) /\
    arm_positions as_ = Some Ps /\ arm_positions at_ = Some Pt /\ In Ps ps /\ In Pt ps /\
    expected Ps (arm_rxb as_) lks recs = Some es /\ expected Pt (arm_rxb at_) lkt recs = Some et /\
    all_expl es et out.
Proof. exact registered_composite_spec. Qed.
Print Assumptions C02_registered_composite_spec.

(* ... and every literal (oligos, run lengths, the 3 of [:-3], UMI lengths, dt / MX strings, complement table)
   of the regenerated definition equals the pinned one: the obligation a changed literal breaks *)
Theorem C02_registered_literals : forall g c lits,
  In g gen_table -> g_kind g = 3 \/ g_kind g = 0 ->
  find_comp (g_name g) = Some c -> find_comp_literals (g_name g) = Some lits -> comp_consts c = lits.
Proof. exact registered_comp_literals. Qed.
Print Assumptions C02_registered_literals.

(* trimmers on concrete strings: TTT keeps its last T; TTAT loses TT; GA-suffix + 3; first occurrence *)
Example C02_ex_trimmers :
  prune_pos 84 [84; 84; 84] = 2%nat /\ prune_pos 84 [84; 84; 65; 84] = 2%nat /\ prune_pos 84 [] = 0%nat /\
  drop_while_end (in_chars [71; 65]) [67; 71; 84; 71; 65; 65] = [67; 71; 84] /\
  find_sub [65; 71] [84; 65; 71; 65; 71] = Some 1%nat /\ find_sub [67] [84; 65] = None.
Proof. vm_compute. repeat split. Qed.
Print Assumptions C02_ex_trimmers.

(* a transcriptome read through a DamID+transcriptome strategy: the DamID arm rejects, read 1 insert TTAC
   loses its poly-T prefix together with the two matching qualities, dt = RNA *)
Definition ex_dual : dual :=
  mkDual (ArmC (mkC 0 0 3 0 3 10 None None [slice_from 12; slice_all]) (mkW None (Some (11, 2)) false))
         (ArmC (mkC 0 0 6 0 6 8 (Some 1) (Some (slice_range 0 6)) [slice_from 14; slice_from 6]) (mkW None None false))
         [68] [67] false (Some [65]) [82] [68] 84.
Example C02_ex_dual :
  match demux_dual ex_dual (fun _ => None) (fun raw => Some (7, raw))
          [([1;2;3;4;5;6; 11;12;13;14;15;16;17;18; 84;84;65;67], [40;41;42;43;44;45; 46;47;48;49;50;51;52;53; 60;61;62;63]);
           ([71;72;73;74;75;76; 65;65], [40;40;40;40;40;40; 50;51])] with
  | Accept [c1; c2] =>
    o_seq (cr_o c1) = [65; 67] /\ o_qual (cr_o c1) = [62; 63] /\ cr_dt c1 = Some [82] /\ cr_mx c2 = [67] /\
    o_seq (cr_o c2) = [65; 65] /\ o_rS (cr_o c2) = Some [71;72;73;74;75;76] /\ o_bc (cr_o c1) = [11;12;13;14;15;16;17;18]
  | _ => False
  end.
Proof. vm_compute. repeat split. Qed.
Print Assumptions C02_ex_dual.

(* ---- non-vacuity / refutation on literal layouts (independent of the regenerated table) *)
Definition ex_lookup : lookup_t := fun raw => if Nat.eqb (length raw) 8 then Some (7, raw) else None.
Definition ex_scchic : clayout :=
  mkC 0 0 3 0 3 8 (Some 1) (Some (slice_range 0 6)) [slice_from 12; slice_from 6].
Definition ex_w : wrapper := mkW None (Some (11, 2)) true.
Definition ex_r1 : mate := ([1;2;3; 11;12;13;14;15;16;17;18; 21;22; 31;32;33], [40;41;42; 43;44;45;46;47;48;49;50; 51;52; 53;54;55]).
Definition ex_r2 : mate := ([61;62;63;64;65;66; 71;72], [33;34;35;36;37;38; 39;40]).

(* accepted pair on a scCHIC-like layout: UMI 1,2,3; barcode 11..18; ligation 21,22; insert of read 1
   from 22 on; primer 61..66; insert of read 2 = 71,72; well-formed layout *)
Example C02_ex_accept :
  wf_c ex_scchic ex_w = true /\
  match demux_contig ex_scchic ex_w ex_lookup [ex_r1; ex_r2] with
  | Accept [o1; o2] =>
    o_seq o1 = [22; 31; 32; 33] /\ o_qual o1 = [52; 53; 54; 55] /\ o_seq o2 = [71; 72] /\
    o_bc o1 = [11;12;13;14;15;16;17;18] /\ o_RX o1 = Some [1; 2; 3] /\ o_rS o2 = Some [61;62;63;64;65;66] /\
    o_lh o1 = Some [21; 22] /\ o_lq o2 = Some [115; 116]
  | _ => False
  end.
Proof. vm_compute. repeat split. Qed.
Print Assumptions C02_ex_accept.

(* a read 1 shorter than the tag prefix is still handled positionally (no negative-index wrap-around) *)
Example C02_ex_short :
  match demux_contig ex_scchic ex_w ex_lookup [(firstn 12 (fst ex_r1), firstn 12 (snd ex_r1)); ex_r2] with
  | Accept [o1; o2] => o_seq o1 = [] /\ o_qual o1 = [] /\ o_lh o1 = Some [21]
  | _ => False
  end.
Proof. vm_compute. repeat split. Qed.
Print Assumptions C02_ex_short.

(* D5 as found at the pinned commit (CELSeq2.py, second class CELSeq2_c8_u8, shortName CS2C8U8S:
   umi/barcode on read 2 AND random_primer_read=1): the layout is NOT well formed (primer region
   overlaps the UMI), read 2 is emitted from base 6 - UMI and barcode bases leak into the insert -
   and rS holds UMI bases *)
Definition d5_layout : clayout :=
  mkC 1 0 8 1 8 8 (Some 1) (Some (slice_range 0 6)) [slice_all; slice_from 6].
Example C02_D5_refuted :
  wf_c d5_layout (mkW None None false) = false /\
  exists recs, match demux_contig d5_layout (mkW None None false) ex_lookup recs with
               | Accept [o1; o2] => o_seq o2 = skipn 6 (mate_seq recs 1) /\ o_seq o2 <> skipn 16 (mate_seq recs 1)
                                    /\ o_rS o2 = Some (firstn 6 (mate_seq recs 1)) /\ o_RX o2 = Some (firstn 8 (mate_seq recs 1))
               | _ => False
               end.
Proof.
  split; [vm_compute; reflexivity|].
  exists [([1;2;3], [40;40;40]); ([1;2;3;4;5;6;7;8; 11;12;13;14;15;16;17;18; 21;22;23], [40;40;40;40;40;40;40;40;40;40;40;40;40;40;40;40;40;40;40])].
  vm_compute. repeat split. discriminate.
Qed.
Print Assumptions C02_D5_refuted.

(* ======== the file-level stream: FastqIterator / FastqHandle over lists of lines (Model/C02Fq.v) ======== *)

(* framing: for EVERY list of files (each a list of lines) the k-th tuple holds, for file i, exactly lines
   4k, 4k+1, 4k+2, 4k+3 (right-stripped): no line shared between records, none skipped *)
Theorem C02_fq_framing : forall fuel files k tup i ls r,
  nth_error (fq_iter fuel files) k = Some tup -> nth_error files i = Some ls -> nth_error tup i = Some r ->
  f_header r = rstrip (nth (4 * k) ls []) /\ f_seq r = rstrip (nth (4 * k + 1) ls []) /\
  f_plus r = rstrip (nth (4 * k + 2) ls []) /\ f_qual r = rstrip (nth (4 * k + 3) ls []).
Proof. exact fq_iter_record. Qed.
Print Assumptions C02_fq_framing.

(* count and order: n line groups whose headers are non-blank in every file, group n blank or absent in
   some file (the shortest file ends) -> exactly these n tuples in order *)
Theorem C02_fq_exact : forall fuel files n,
  (forall k, (k < n)%nat -> group_ok files k = true) -> (n < fuel)%nat -> group_ok files n = false ->
  fq_iter fuel files = map (group files) (seq 0 n).
Proof. exact fq_iter_exact. Qed.
Print Assumptions C02_fq_exact.

Theorem C02_fq_count : forall fuel files n,
  (forall k, (k < n)%nat -> group_ok files k = true) -> (n < fuel)%nat -> group_ok files n = false ->
  length (fq_iter fuel files) = n.
Proof. exact fq_iter_count. Qed.
Print Assumptions C02_fq_count.

(* the bound on the number of __next__ calls does not matter once it exceeds the number of records *)
Theorem C02_fq_fuel_irrelevant : forall fuel fuel' files n,
  (forall k, (k < n)%nat -> group_ok files k = true) -> group_ok files n = false ->
  (n < fuel)%nat -> (n < fuel')%nat -> fq_iter fuel files = fq_iter fuel' files.
Proof. exact fq_iter_fuel_irrelevant. Qed.
Print Assumptions C02_fq_fuel_irrelevant.

(* FINDING (as coded): a trailing incomplete group of 1..3 lines is NOT rejected: it is emitted as one more
   record whose missing fields are empty (empty qualities, possibly empty sequence) *)
Theorem C02_fq_truncated_silent : forall fuel ls n j,
  length ls = (4 * n + j)%nat -> (1 <= j <= 3)%nat ->
  (forall k, (k <= n)%nat -> rstrip (nth (4 * k) ls []) <> []) -> (Datatypes.S n < fuel)%nat ->
  length (fq_iter fuel [ls]) = Datatypes.S n /\
  exists r, nth_error (fq_iter fuel [ls]) n = Some [r] /\ f_qual r = [] /\ f_header r <> [].
Proof. exact fq_truncated. Qed.
Print Assumptions C02_fq_truncated_silent.

(* write then read: records written by FastqHandle.write (asFastq: '@header\nseq\nplus\nqual\n') and re-read
   by FastqIterator come back unchanged, for fields without trailing white space *)
Theorem C02_fq_roundtrip : forall recs fuel,
  Forall clean4 recs -> (length recs < fuel)%nat ->
  fq_iter fuel [fq_write recs] = map (fun r => [written r]) recs.
Proof. exact fq_roundtrip. Qed.
Print Assumptions C02_fq_roundtrip.

(* end to end: lines of the input files -> bases of the emitted records.  For every list of input files, the
   k-th tuple read, any layout: base j of emitted record i is character (insert start + j) of line 4k+1 of
   file i, its quality the same character position of line 4k+3 of file i *)
Theorem C02_file_to_record : forall fuel files k tup P b lookup out i ls o,
  nth_error (fq_iter fuel files) k = Some tup ->
  expected P b lookup (map mate_of tup) = Some out ->
  nth_error files i = Some ls -> nth_error out i = Some o ->
  (forall j, nth_error (o_seq o) j = nth_error (rstrip (nth (4 * k + 1) ls [])) (ins_of P i + j)) /\
  (forall j, nth_error (o_qual o) j = nth_error (rstrip (nth (4 * k + 3) ls [])) (ins_of P i + j)).
Proof. exact file_to_record. Qed.
Print Assumptions C02_file_to_record.

(* non-vacuity: two files, the second one record shorter -> one tuple; CRLF and blanks stripped *)
Example C02_ex_fq_pair :
  fq_records [[[64;97;10]; [65;67;13;10]; [43;10]; [73;73;10]; [64;98;10]; [71;10]; [43;10]; [73;10]];
              [[64;97;10]; [84;84;10]; [43;10]; [74;74]]]
  = [[mkF [64;97] [65;67] [43] [73;73]; mkF [64;97] [84;84] [43] [74;74]]].
Proof. vm_compute. reflexivity. Qed.
Print Assumptions C02_ex_fq_pair.
(* a truncated last record (header and sequence only) is emitted with empty plus / qualities *)
Example C02_ex_fq_truncated :
  fq_records [[[64;97;10]; [65;10]; [43;10]; [73;10]; [64;98;10]; [71;10]]]
  = [[mkF [64;97] [65] [43] [73]]; [mkF [64;98] [71] [] []]].
Proof. vm_compute. reflexivity. Qed.
Print Assumptions C02_ex_fq_truncated.
(* a blank line where a header is expected ends the iteration although records follow *)
Example C02_ex_fq_blank_stops :
  fq_records [[[10]; [64;97;10]; [65;10]; [43;10]; [73;10]]] = [].
Proof. vm_compute. reflexivity. Qed.
Print Assumptions C02_ex_fq_blank_stops.
Example C02_ex_fq_roundtrip :
  fq_records [fq_write [([97], [65;67], [43], [73;73]); ([98], [71], [43], [74])]]
  = [[mkF [64;97] [65;67] [43] [73;73]]; [mkF [64;98] [71] [43] [74]]].
Proof. vm_compute. reflexivity. Qed.
Print Assumptions C02_ex_fq_roundtrip.

(* ======== the partition statement (exclusivity), strengthening C02_accounted ======== *)

(* general: for EVERY layout that is well formed and passes partition_ok (tag regions pairwise disjoint, each
   ending at or before the insert start of its mate), every position of mate i of an accepted input is in
   EXACTLY one tag region and not emitted, or emitted and in no tag region *)
Theorem C02_partition : forall P b lookup recs out i r o p,
  wf_p P = true -> partition_ok P = true -> (i < 2)%nat ->
  expected P b lookup recs = Some out -> nth_error recs i = Some r -> nth_error out i = Some o ->
  (p < length (fst r))%nat ->
  ((exists n reg, nth_error (tag_regions P) n = Some reg /\ in_region (Z.of_nat i) (Z.of_nat p) reg = true /\
      (p < ins_of P i)%nat /\
      forall n' reg', nth_error (tag_regions P) n' = Some reg' -> in_region (Z.of_nat i) (Z.of_nat p) reg' = true -> n' = n)
   \/
   ((ins_of P i <= p)%nat /\ nth_error (o_seq o) (p - ins_of P i) = nth_error (fst r) p /\
      forall reg, In reg (tag_regions P) -> in_region (Z.of_nat i) (Z.of_nat p) reg = false)).
Proof. exact partition. Qed.
Print Assumptions C02_partition.

(* the pinned table, by computation: 21 contiguous / scattered single-protocol strategies, all well formed;
   15 satisfy partition_ok, the 6 exceptions are exactly partition_exceptions *)
Theorem C02_partition_table :
  length single_protocols = 21%nat /\
  forallb (fun p => wf_p (pr_layout p) &&
                    (partition_ok (pr_layout p) || existsb (sname_eqb (pr_name p)) partition_exceptions))
          single_protocols = true /\
  length (partition_names true) = 15%nat /\ partition_names false = partition_exceptions.
Proof. exact partition_table. Qed.
Print Assumptions C02_partition_table.

Theorem C02_partition_registered : forall p,
  In p single_protocols -> existsb (sname_eqb (pr_name p)) partition_exceptions = false ->
  wf_p (pr_layout p) = true /\ partition_ok (pr_layout p) = true.
Proof. exact partition_registered. Qed.
Print Assumptions C02_partition_registered.

(* the three scCHIC layouts and DamID2_3u4b3u6b: only the ligation-motif region breaks exclusivity *)
Theorem C02_partition_lig_only_partial : forall p,
  In p single_protocols -> existsb (sname_eqb (pr_name p)) lig_only_exceptions = true ->
  only_lig_offends (pr_layout p) = true.
Proof. exact partition_lig_only. Qed.
Print Assumptions C02_partition_lig_only_partial.

(* exclusivity REFUTED as coded: a ligation-motif base recorded in lh and emitted (scCHIC384C8U3, read 1 pos 12) *)
Theorem C02_partition_lig_refuted :
  exists p reg pos, In p single_protocols /\ p_lig (pr_layout p) = Some reg /\
    in_region 0 pos reg = true /\ nth 0 (p_insert (pr_layout p)) 0 <= pos.
Proof. exact partition_lig_refuted. Qed.
Print Assumptions C02_partition_lig_refuted.

(* exclusivity REFUTED as coded: a BARCODE base that is also emitted (DamID2_8bp_noCA, read 1 pos 10) *)
Theorem C02_partition_barcode_refuted :
  exists p reg pos, In p single_protocols /\ In reg (p_bc (pr_layout p)) /\
    in_region 0 pos reg = true /\ nth 0 (p_insert (pr_layout p)) 0 <= pos.
Proof. exact partition_barcode_refuted. Qed.
Print Assumptions C02_partition_barcode_refuted.

(* exclusivity REFUTED as coded: a base in two tags (DamID2: barcode 3..12 and ligation motif 11..12) *)
Theorem C02_partition_two_tags_refuted :
  exists p r1 r2 pos, In p single_protocols /\ In r1 (p_bc (pr_layout p)) /\ p_lig (pr_layout p) = Some r2 /\
    in_region 0 pos r1 = true /\ in_region 0 pos r2 = true.
Proof. exact partition_two_tags_refuted. Qed.
Print Assumptions C02_partition_two_tags_refuted.

(* non-vacuity: CS2C8U6 satisfies the hypotheses of C02_partition *)
Example C02_ex_partition :
  let P := mkP [(0, 6, 8)] [(0, 0, 6)] (Some (1, 0, 6)) None [14; 6] 2 2 in
  wf_p P = true /\ partition_ok P = true.
Proof. vm_compute. split; reflexivity. Qed.
Print Assumptions C02_ex_partition.
