(* C18 — property theorems only.  Model/C18.v is the (repaired) AlleleResolver: VCF = list of records,
   fetchChromosome's phased/unphased site rules, eager / lazy (clear-on-fetch) / cached loading over a file
   system of cache files with character-level write_cache / read_cached, getAllelesAt / has_location.
   spec_run / spec_answer / informativeb / carriers (Model/C18.v) are loop-free and do not look at the mode flags. *)
From Coq Require Import ZArith List Bool.
Import ListNotations.
From SCMO Require Import Lib.Val Gen.GenAlleles Model.C18 Proofs.C18_s Proofs.C18_a Proofs.C18_b Proofs.C18_c Proofs.C18_d Proofs.C18_e Proofs.C18_f Proofs.C18.
Open Scope Z_scope.

(* ---- T: the machine (informative, cache_name, cacheable, line_of, parse_line, read_lines, self_lazy, step ...) is built from
        Gen/GenAlleles.v, regenerated from the current source on every run.  The current source has the shape the
        reference definitions of Proofs/C18_s.v (used by every proof below) assume: *)
Theorem C18_source_shape :
  (forall cf r, informative cf r = informative_ref cf r) /\
  (forall a, gsingle a = single a /\ gusingle a = single a) /\
  (forall cf s, gselected cf s = selected cf s) /\
  g_missing_break = false /\ gletters = letters /\
  (forall p, g_store_pos p = p - 1) /\
  (g_sentinel_pos = -1 /\ g_sentinel_base = str_N /\ g_sentinel_name = str_Nop) /\
  (forall c, cacheable c = cacheable_ref c) /\
  (forall cf c, cache_name cf c = cache_name_ref cf c) /\
  (forall p kv, line_of p kv = print_int p ++ 9 :: fst kv ++ 9 :: join 44 (snd kv) ++ [10]) /\
  (forall l, parse_line l = parse_line_ref l) /\
  (forall p, g_read_skip false p 0 = false /\ g_read_stop false p 0 = false) /\
  (forall cf, self_lazy cf = is_lazy cf) /\
  g_has_invalid_contig = false /\ g_table_per_instance = true.
Proof.
  exact (conj informative_shape (conj (fun a => conj (gsingle_shape a) (gusingle_shape a)) (conj gselected_shape
        (conj missing_continue_shape (conj gletters_shape (conj store_pos_shape (conj sentinel_shape (conj cacheable_shape
        (conj cache_name_shape (conj line_of_shape (conj parse_line_shape (conj read_filter_shape (conj self_lazy_shape
        (conj has_invalid_contig_shape table_per_instance_shape)))))))))))))).
Qed.
Print Assumptions C18_source_shape.

(* ---- C18_spec: eager loading answers exactly what the VCF says *)
Theorem C18_spec : forall v cf qs fs, vcf_ok v = true -> is_lazy cf = false ->
  (forall q, In q qs -> 0 <= query_pos q) ->
  run_one v fs (cf, qs) = (fs, spec_run v (cf, qs)).
Proof. exact eager_spec. Qed.
Print Assumptions C18_spec.

(* what the specification answers: the record deciding a site is the last informative one in file order ... *)
Theorem C18_spec_deciding_record : forall v cf c p r, spec_rec v cf c p = Some r ->
  exists l1 l2, v_recs v = l1 ++ r :: l2 /\ at_site c p r = true /\ informativeb cf r = true
                /\ forall r', In r' l2 -> at_site c p r' && informativeb cf r' = false.
Proof. exact spec_rec_some. Qed.
Print Assumptions C18_spec_deciding_record.

(* ... nothing is answered when no record at the site is informative (absent or uninformative site) ... *)
Theorem C18_spec_absent : forall v cf c p, spec_rec v cf c p = None ->
  forall r, In r (v_recs v) -> at_site c p r && informativeb cf r = false.
Proof. exact spec_rec_none. Qed.
Print Assumptions C18_spec_absent.

(* ... the answer for base b is exactly the selected samples whose genotype contains b (a sorted set) ... *)
Theorem C18_spec_samples : forall cf r b s, c_phased cf = true ->
  In s (carriers cf r b) <->
  exists al, In (s, al) (r_gts r) /\ selected cf s = true /\ In (Some b) al /\ single b = true.
Proof. exact carriers_phased_In. Qed.
Print Assumptions C18_spec_samples.

Theorem C18_spec_unphased : forall cf r b l, c_phased cf = false ->
  In l (carriers cf r b) <-> In (l, b) (combine letters (alleles r)).
Proof. exact carriers_unphased_In. Qed.
Print Assumptions C18_spec_unphased.

Theorem C18_spec_set : forall cf r b, ssorted (carriers cf r b).
Proof. exact carriers_sorted. Qed.
Print Assumptions C18_spec_set.

(* ... a record involving an ignored conversion is never informative ... *)
Theorem C18_spec_ignored : forall cf r s al b, c_phased cf = true ->
  In (s, al) (r_gts r) -> selected cf s = true -> In (Some b) al -> single b = true ->
  ign_mem cf (r_ref r) b = true -> informativeb cf r = false.
Proof. exact ignored_not_informative. Qed.
Print Assumptions C18_spec_ignored.

Theorem C18_spec_ignored_unphased : forall cf r l b, c_phased cf = false ->
  In (l, b) (combine letters (alleles r)) -> ign_mem cf (r_ref r) b = true -> informativeb cf r = false.
Proof. exact ignored_not_informative_unphased. Qed.
Print Assumptions C18_spec_ignored_unphased.

(* ... and a phased record whose selected genotypes are all called is informative only if every selected allele
   is a single base and two different bases occur.  (With a missing genotype among the selected samples the
   code's "monomorphic" rule re-admits the record whatever else it holds: see C18_multibase_readmitted.) *)
Theorem C18_spec_multibase : forall cf r, c_phased cf = true -> informativeb cf r = true ->
  (forall s al, In (s, al) (r_gts r) -> selected cf s = true -> ~ In None al) ->
  (forall s al x, In (s, al) (r_gts r) -> selected cf s = true -> In (Some x) al -> single x = true)
  /\ (2 <= length (bases_of cf r))%nat.
Proof. exact multibase_not_informative. Qed.
Print Assumptions C18_spec_multibase.

(* ---- C18_cache_roundtrip: reading back what write_cache wrote gives the same dict (lookups and key sets),
        for every table whose sample names are non-empty without blanks/commas and whose bases have no
        tab/newline; every table the loader builds from a vcf_ok file is such a table *)
Theorem C18_cache_roundtrip : forall ct c, ct_wf ct ->
  let t := read_cached (serialise ct) c [] in
  (forall p b, look3 (getd seqb t c) p b = look3 ct p b) /\
  (forall p, amem Z.eqb (getd seqb t c) p = amem Z.eqb ct p) /\
  (forall c', amem seqb t c' = true -> c' = c).
Proof. exact cache_roundtrip. Qed.
Print Assumptions C18_cache_roundtrip.

Theorem C18_loaded_tables_wf : forall v cf c, vcf_ok v = true -> ct_wf (getd seqb (contig_table v cf c) c).
Proof. exact loaded_wf. Qed.
Print Assumptions C18_loaded_tables_wf.

Theorem C18_int_roundtrip : forall z, parse_int (print_int z) = Some z.
Proof. exact parse_print_int. Qed.
Print Assumptions C18_int_roundtrip.

Theorem C18_line_roundtrip : forall p b ss,
  base_ok_P b -> ss <> [] -> (forall s, In s ss -> name_ok_P s) -> ssorted ss ->
  parse_line (body_of p b ss) = Some (p, b, ss).
Proof. exact parse_line_body. Qed.
Print Assumptions C18_line_roundtrip.

(* ---- C18_modes_equal: along ANY history of runs sharing one cache directory - each run with its own settings
        and mode flags (eager / lazy / cache, first run writing, later runs reading), any query sequence and
        contig access order - every answer is the one the specification gives for that run's settings *)
Theorem C18_history_spec : forall v h, vcf_ok v = true -> hist_ok h = true ->
  snd (run_history v [] h) = map (spec_run v) h.
Proof. exact history_spec. Qed.
Print Assumptions C18_history_spec.

Theorem C18_modes_equal : forall v h1 h2, vcf_ok v = true -> hist_ok h1 = true -> hist_ok h2 = true ->
  Forall2 same_request h1 h2 ->
  snd (run_history v [] h1) = snd (run_history v [] h2).
Proof. exact modes_equal. Qed.
Print Assumptions C18_modes_equal.

(* the headline case needs no condition on file names: all runs of the history use the same phased / select_samples /
   ignore_conversions (any mode flags, any chrom argument, any query sequences and contig orders) *)
Theorem C18_modes_equal_one_setting : forall v cf0 h, vcf_ok v = true ->
  (forall run, In run h -> sem_eq (fst run) cf0) ->
  (forall run q, In run h -> In q (snd run) -> 0 <= query_pos q) ->
  snd (run_history v [] h) = map (spec_run v) h.
Proof. exact one_setting_spec. Qed.
Print Assumptions C18_modes_equal_one_setting.

(* cache files of different contigs never collide under one setting *)
Theorem C18_cache_name_contig : forall cf c1 c2, cache_name cf c1 = cache_name cf c2 -> c1 = c2.
Proof. exact cache_name_contig. Qed.
Print Assumptions C18_cache_name_contig.

(* ---- several resolver OBJECTS alive in one process (each with its own settings and mode flags, constructed at first
        use, operations interleaved in any order, one shared cache directory): every answer of an object is the
        specification for that object's own settings - independent of which other objects exist and what they loaded *)
Theorem C18_objects_independent : forall v objs ops, vcf_ok v = true -> sess_ok objs ops = true ->
  snd (run_session v objs ([], []) ops) = map (spec_op v objs) ops.
Proof. exact objects_independent. Qed.
Print Assumptions C18_objects_independent.

Theorem C18_objects_independent_pair : forall v objs1 ops1 objs2 ops2 n1 n2, vcf_ok v = true ->
  sess_ok objs1 ops1 = true -> sess_ok objs2 ops2 = true ->
  (n1 < length ops1)%nat -> (n2 < length ops2)%nat ->
  obj_cfg objs1 (fst (nth n1 ops1 (0%nat, QHas [] 0))) = obj_cfg objs2 (fst (nth n2 ops2 (0%nat, QHas [] 0))) ->
  snd (nth n1 ops1 (0%nat, QHas [] 0)) = snd (nth n2 ops2 (0%nat, QHas [] 0)) ->
  nth n1 (snd (run_session v objs1 ([], []) ops1)) ANone = nth n2 (snd (run_session v objs2 ([], []) ops2)) ANone.
Proof. exact objects_independent_pair. Qed.
Print Assumptions C18_objects_independent_pair.

(* ---- getAllele(reads) is its getAllelesAt calls followed by a pure fold (a fresh set: the table is not touched);
        along any history the sets it returns are those the specification's answers give *)
Theorem C18_getAllele_spec : forall v h, vcf_ok v = true -> hist_ok h = true ->
  map alleles_of (snd (run_history v [] h)) = map (fun run => alleles_of (spec_run v run)) h.
Proof. exact get_allele_spec. Qed.
Print Assumptions C18_getAllele_spec.

Theorem C18_getAllele_keeps_single_sample_answers : forall a, allele_keep a = match a with ASome [s] => [s] | _ => [] end.
Proof. exact allele_keep_shape. Qed.
Print Assumptions C18_getAllele_keeps_single_sample_answers.

(* equal settings (possibly written differently) build the same table: what makes a shared cache file sound *)
Theorem C18_same_settings_same_table : forall cf1 cf2 r, same_sem cf1 cf2 = true -> informative cf1 r = informative cf2 r.
Proof. exact same_sem_informative. Qed.
Print Assumptions C18_same_settings_same_table.

(* ---- non-vacuity *)
Definition ex_S1 : str := [83; 49].
Definition ex_S2 : str := [83; 50].
Definition ex_chr1 : str := [99; 104; 114; 49].
Definition ex_chr2 : str := [99; 104; 114; 50].
Definition ex_A : str := [65].
Definition ex_C : str := [67].
Definition ex_T : str := [84].
Definition ex_AT : str := [65; 84].
Definition ex_vcf : vcf :=
  {| v_contigs := [ex_chr1; ex_chr2];
     v_recs := [ {| r_chrom := ex_chr1; r_pos := 10; r_ref := ex_A; r_alts := [ex_T];
                    r_gts := [(ex_S1, [Some ex_A; Some ex_A]); (ex_S2, [Some ex_T; Some ex_A])] |};
                 {| r_chrom := ex_chr1; r_pos := 20; r_ref := ex_C; r_alts := [ex_T];
                    r_gts := [(ex_S1, [Some ex_C]); (ex_S2, [Some ex_T])] |};
                 {| r_chrom := ex_chr2; r_pos := 5; r_ref := ex_A; r_alts := [ex_AT];
                    r_gts := [(ex_S1, [Some ex_A; Some ex_AT]); (ex_S2, [None; None])] |} ] |}.
Definition ex_cfg (lz ca : bool) (ign : option (list (str * str))) : cfg :=
  {| c_phased := true; c_select := None; c_ignore := ign; c_lazy := lz; c_cache := ca; c_chrom := None |}.
Definition ex_qs : list query :=
  [QGet ex_chr1 9 ex_A; QGet ex_chr2 4 ex_A; QHas ex_chr1 19; QGet ex_chr1 19 ex_T; QHas [90] 3; QGet ex_chr1 9 ex_T].
Definition ex_hist : list (cfg * list query) :=
  [(ex_cfg false true None, ex_qs); (ex_cfg false true (Some [(ex_C, ex_T)]), ex_qs);
   (ex_cfg false false None, ex_qs); (ex_cfg true false None, ex_qs); (ex_cfg true true None, ex_qs)].

Example C18_example :
  vcf_ok ex_vcf = true /\ hist_ok ex_hist = true /\
  nth 0 (snd (run_history ex_vcf [] ex_hist)) []
    = [ASome [ex_S1; ex_S2]; ASome [ex_S1]; ABool true; ASome [ex_S2]; ABool false; ASome [ex_S2]] /\
  nth 1 (snd (run_history ex_vcf [] ex_hist)) []
    = [ASome [ex_S1; ex_S2]; ASome [ex_S1]; ABool false; ANone; ABool false; ASome [ex_S2]] /\
  length (fst (run_history ex_vcf [] ex_hist)) = 4%nat.
Proof. vm_compute. repeat split. Qed.
Print Assumptions C18_example.

(* object 0 eager on all samples, object 1 lazy on S1 only (created after 0 was used), object 2 eager ignoring C>T *)
Example C18_objects_example :
  let objs := [ex_cfg false false None;
               {| c_phased := true; c_select := Some [ex_S1]; c_ignore := None; c_lazy := true; c_cache := false; c_chrom := None |};
               ex_cfg false false (Some [(ex_C, ex_T)])] in
  let ops := [(0%nat, QGet ex_chr1 9 ex_A); (1%nat, QGet ex_chr1 9 ex_A); (0%nat, QGet ex_chr1 19 ex_T);
              (2%nat, QGet ex_chr1 19 ex_T); (1%nat, QHas ex_chr1 19); (0%nat, QHas ex_chr1 19)] in
  sess_ok objs ops = true /\
  snd (run_session ex_vcf objs ([], []) ops) = [ASome [ex_S1; ex_S2]; ANone; ASome [ex_S2]; ANone; ABool false; ABool true].
Proof. vm_compute. split; reflexivity. Qed.
Print Assumptions C18_objects_example.

(* the "monomorphic" rule: a missing genotype re-admits a site that carries a multi-base allele *)
Example C18_multibase_readmitted :
  informativeb (ex_cfg false false None) (nth 2 (v_recs ex_vcf) (nth 0 (v_recs ex_vcf) (nth 0 (v_recs ex_vcf) {| r_chrom := []; r_pos := 0; r_ref := []; r_alts := []; r_gts := [] |}))) = true.
Proof. vm_compute. reflexivity. Qed.
Print Assumptions C18_multibase_readmitted.

Example C18_roundtrip_example :
  serialise (getd seqb (contig_table ex_vcf (ex_cfg true true None) ex_chr1) ex_chr1)
  = [45;49;9;78;9;78;111;112;10; 57;9;65;9;83;49;44;83;50;10; 57;9;84;9;83;50;10; 49;57;9;67;9;83;49;10; 49;57;9;84;9;83;50;10].
Proof. vm_compute. reflexivity. Qed.
Print Assumptions C18_roundtrip_example.
