(* C18 — property theorems only.  Model/C18.v is the (repaired) AlleleResolver: VCF = list of records,
   fetchChromosome's phased/unphased site rules, eager / lazy (clear-on-fetch) / cached loading over a file
   system of cache files with character-level write_cache / read_cached, getAllelesAt / has_location.
   spec_run / spec_answer / informativeb / carriers (Model/C18.v) are loop-free and do not look at the mode flags. *)
From Coq Require Import ZArith List Bool.
Import ListNotations.
From SCMO Require Import Lib.Val Gen.GenAlleles Model.C18 Model.C18x Proofs.C18_s Proofs.C18_a Proofs.C18_b Proofs.C18_c Proofs.C18_d Proofs.C18_e Proofs.C18_f Proofs.C18 Proofs.C18x_a Proofs.C18x_b Proofs.C18x_c.
Open Scope Z_scope.

(* ---- T: the machine (informative, cache_name, cacheable, line_of, parse_line, read_lines, self_lazy, step ...) is built from
        Gen/GenAlleles.v, regenerated from the current source on every run.  The current source has the shape the
        reference definitions of Proofs/C18_s.v (used by every proof below) assume: *)
Theorem C18_source_shape :
  (forall cf r, informative cf r = informative_ref cf r) /\
  (forall a, gsingle a = single a /\ gusingle a = single a) /\
  (forall cf s, gselected cf s = selected cf s) /\
  g_missing_break = false /\ gletters = letters /\
  (forall p, g_store_pos p = p - 1) /\
  (g_sentinel_pos = -1 /\ g_sentinel_base = str_N /\ g_sentinel_name = str_Nop) /\
  (forall c, cacheable c = cacheable_ref c) /\
  (forall cf c, cache_name cf c = cache_name_ref cf c) /\
  (forall p kv, line_of p kv = print_int p ++ 9 :: fst kv ++ 9 :: join 44 (snd kv) ++ [10]) /\
  (forall l, parse_line l = parse_line_ref l) /\
  (forall p, g_read_skip false p 0 = false /\ g_read_stop false p 0 = false) /\
  (forall cf, self_lazy cf = is_lazy cf) /\
  g_has_invalid_contig = false /\ g_table_per_instance = true.
Proof.
  exact (conj informative_shape (conj (fun a => conj (gsingle_shape a) (gusingle_shape a)) (conj gselected_shape
        (conj missing_continue_shape (conj gletters_shape (conj store_pos_shape (conj sentinel_shape (conj cacheable_shape
        (conj cache_name_shape (conj line_of_shape (conj parse_line_shape (conj read_filter_shape (conj self_lazy_shape
        (conj has_invalid_contig_shape table_per_instance_shape)))))))))))))).
Qed.
Print Assumptions C18_source_shape.

(* ---- C18_spec: eager loading answers exactly what the VCF says *)
Theorem C18_spec : forall v cf qs fs, vcf_ok v = true -> is_lazy cf = false ->
  (forall q, In q qs -> 0 <= query_pos q) ->
  run_one v fs (cf, qs) = (fs, spec_run v (cf, qs)).
Proof. exact eager_spec. Qed.
Print Assumptions C18_spec.

(* what the specification answers: the record deciding a site is the last informative one in file order ... *)
Theorem C18_spec_deciding_record : forall v cf c p r, spec_rec v cf c p = Some r ->
  exists l1 l2, v_recs v = l1 ++ r :: l2 /\ at_site c p r = true /\ informativeb cf r = true
                /\ forall r', In r' l2 -> at_site c p r' && informativeb cf r' = false.
Proof. exact spec_rec_some. Qed.
Print Assumptions C18_spec_deciding_record.

(* ... nothing is answered when no record at the site is informative (absent or uninformative site) ... *)
Theorem C18_spec_absent : forall v cf c p, spec_rec v cf c p = None ->
  forall r, In r (v_recs v) -> at_site c p r && informativeb cf r = false.
Proof. exact spec_rec_none. Qed.
Print Assumptions C18_spec_absent.

(* ... the answer for base b is exactly the selected samples whose genotype contains b (a sorted set) ... *)
Theorem C18_spec_samples : forall cf r b s, c_phased cf = true ->
  In s (carriers cf r b) <->
  exists al, In (s, al) (r_gts r) /\ selected cf s = true /\ In (Some b) al /\ single b = true.
Proof. exact carriers_phased_In. Qed.
Print Assumptions C18_spec_samples.

Theorem C18_spec_unphased : forall cf r b l, c_phased cf = false ->
  In l (carriers cf r b) <-> In (l, b) (combine letters (alleles r)).
Proof. exact carriers_unphased_In. Qed.
Print Assumptions C18_spec_unphased.

Theorem C18_spec_set : forall cf r b, ssorted (carriers cf r b).
Proof. exact carriers_sorted. Qed.
Print Assumptions C18_spec_set.

(* ... a record involving an ignored conversion is never informative ... *)
Theorem C18_spec_ignored : forall cf r s al b, c_phased cf = true ->
  In (s, al) (r_gts r) -> selected cf s = true -> In (Some b) al -> single b = true ->
  ign_mem cf (r_ref r) b = true -> informativeb cf r = false.
Proof. exact ignored_not_informative. Qed.
Print Assumptions C18_spec_ignored.

Theorem C18_spec_ignored_unphased : forall cf r l b, c_phased cf = false ->
  In (l, b) (combine letters (alleles r)) -> ign_mem cf (r_ref r) b = true -> informativeb cf r = false.
Proof. exact ignored_not_informative_unphased. Qed.
Print Assumptions C18_spec_ignored_unphased.

(* ... and a phased record whose selected genotypes are all called is informative only if every selected allele
   is a single base and two different bases occur.  (With a missing genotype among the selected samples the
   code's "monomorphic" rule re-admits the record whatever else it holds: see C18_multibase_readmitted.) *)
Theorem C18_spec_multibase : forall cf r, c_phased cf = true -> informativeb cf r = true ->
  (forall s al, In (s, al) (r_gts r) -> selected cf s = true -> ~ In None al) ->
  (forall s al x, In (s, al) (r_gts r) -> selected cf s = true -> In (Some x) al -> single x = true)
  /\ (2 <= length (bases_of cf r))%nat.
Proof. exact multibase_not_informative. Qed.
Print Assumptions C18_spec_multibase.

(* ---- C18_cache_roundtrip: reading back what write_cache wrote gives the same dict (lookups and key sets),
        for every table whose sample names are non-empty without blanks/commas and whose bases have no
        tab/newline; every table the loader builds from a vcf_ok file is such a table *)
Theorem C18_cache_roundtrip : forall ct c, ct_wf ct ->
  let t := read_cached (serialise ct) c [] in
  (forall p b, look3 (getd seqb t c) p b = look3 ct p b) /\
  (forall p, amem Z.eqb (getd seqb t c) p = amem Z.eqb ct p) /\
  (forall c', amem seqb t c' = true -> c' = c).
Proof. exact cache_roundtrip. Qed.
Print Assumptions C18_cache_roundtrip.

Theorem C18_loaded_tables_wf : forall v cf c, vcf_ok v = true -> ct_wf (getd seqb (contig_table v cf c) c).
Proof. exact loaded_wf. Qed.
Print Assumptions C18_loaded_tables_wf.

Theorem C18_int_roundtrip : forall z, parse_int (print_int z) = Some z.
Proof. exact parse_print_int. Qed.
Print Assumptions C18_int_roundtrip.

Theorem C18_line_roundtrip : forall p b ss,
  base_ok_P b -> ss <> [] -> (forall s, In s ss -> name_ok_P s) -> ssorted ss ->
  parse_line (body_of p b ss) = Some (p, b, ss).
Proof. exact parse_line_body. Qed.
Print Assumptions C18_line_roundtrip.

(* ---- C18_modes_equal: along ANY history of runs sharing one cache directory - each run with its own settings
        and mode flags (eager / lazy / cache, first run writing, later runs reading), any query sequence and
        contig access order - every answer is the one the specification gives for that run's settings *)
Theorem C18_history_spec : forall v h, vcf_ok v = true -> hist_ok h = true ->
  snd (run_history v [] h) = map (spec_run v) h.
Proof. exact history_spec. Qed.
Print Assumptions C18_history_spec.

Theorem C18_modes_equal : forall v h1 h2, vcf_ok v = true -> hist_ok h1 = true -> hist_ok h2 = true ->
  Forall2 same_request h1 h2 ->
  snd (run_history v [] h1) = snd (run_history v [] h2).
Proof. exact modes_equal. Qed.
Print Assumptions C18_modes_equal.

(* the headline case needs no condition on file names: all runs of the history use the same phased / select_samples /
   ignore_conversions (any mode flags, any chrom argument, any query sequences and contig orders) *)
Theorem C18_modes_equal_one_setting : forall v cf0 h, vcf_ok v = true ->
  (forall run, In run h -> sem_eq (fst run) cf0) ->
  (forall run q, In run h -> In q (snd run) -> 0 <= query_pos q) ->
  snd (run_history v [] h) = map (spec_run v) h.
Proof. exact one_setting_spec. Qed.
Print Assumptions C18_modes_equal_one_setting.

(* cache files of different contigs never collide under one setting *)
Theorem C18_cache_name_contig : forall cf c1 c2, cache_name cf c1 = cache_name cf c2 -> c1 = c2.
Proof. exact cache_name_contig. Qed.
Print Assumptions C18_cache_name_contig.

(* ---- several resolver OBJECTS alive in one process (each with its own settings and mode flags, constructed at first
        use, operations interleaved in any order, one shared cache directory): every answer of an object is the
        specification for that object's own settings - independent of which other objects exist and what they loaded *)
Theorem C18_objects_independent : forall v objs ops, vcf_ok v = true -> sess_ok objs ops = true ->
  snd (run_session v objs ([], []) ops) = map (spec_op v objs) ops.
Proof. exact objects_independent. Qed.
Print Assumptions C18_objects_independent.

Theorem C18_objects_independent_pair : forall v objs1 ops1 objs2 ops2 n1 n2, vcf_ok v = true ->
  sess_ok objs1 ops1 = true -> sess_ok objs2 ops2 = true ->
  (n1 < length ops1)%nat -> (n2 < length ops2)%nat ->
  obj_cfg objs1 (fst (nth n1 ops1 (0%nat, QHas [] 0))) = obj_cfg objs2 (fst (nth n2 ops2 (0%nat, QHas [] 0))) ->
  snd (nth n1 ops1 (0%nat, QHas [] 0)) = snd (nth n2 ops2 (0%nat, QHas [] 0)) ->
  nth n1 (snd (run_session v objs1 ([], []) ops1)) ANone = nth n2 (snd (run_session v objs2 ([], []) ops2)) ANone.
Proof. exact objects_independent_pair. Qed.
Print Assumptions C18_objects_independent_pair.

(* ---- getAllele(reads) is its getAllelesAt calls followed by a pure fold (a fresh set: the table is not touched);
        along any history the sets it returns are those the specification's answers give *)
Theorem C18_getAllele_spec : forall v h, vcf_ok v = true -> hist_ok h = true ->
  map alleles_of (snd (run_history v [] h)) = map (fun run => alleles_of (spec_run v run)) h.
Proof. exact get_allele_spec. Qed.
Print Assumptions C18_getAllele_spec.

Theorem C18_getAllele_keeps_single_sample_answers : forall a, allele_keep a = match a with ASome [s] => [s] | _ => [] end.
Proof. exact allele_keep_shape. Qed.
Print Assumptions C18_getAllele_keeps_single_sample_answers.

(* equal settings (possibly written differently) build the same table: what makes a shared cache file sound *)
Theorem C18_same_settings_same_table : forall cf1 cf2 r, same_sem cf1 cf2 = true -> informative cf1 r = informative cf2 r.
Proof. exact same_sem_informative. Qed.
Print Assumptions C18_same_settings_same_table.

(* ---- non-vacuity *)
Definition ex_S1 : str := [83; 49].
Definition ex_S2 : str := [83; 50].
Definition ex_chr1 : str := [99; 104; 114; 49].
Definition ex_chr2 : str := [99; 104; 114; 50].
Definition ex_A : str := [65].
Definition ex_C : str := [67].
Definition ex_T : str := [84].
Definition ex_AT : str := [65; 84].
Definition ex_vcf : vcf :=
  {| v_contigs := [ex_chr1; ex_chr2];
     v_recs := [ {| r_chrom := ex_chr1; r_pos := 10; r_ref := ex_A; r_alts := [ex_T];
                    r_gts := [(ex_S1, [Some ex_A; Some ex_A]); (ex_S2, [Some ex_T; Some ex_A])] |};
                 {| r_chrom := ex_chr1; r_pos := 20; r_ref := ex_C; r_alts := [ex_T];
                    r_gts := [(ex_S1, [Some ex_C]); (ex_S2, [Some ex_T])] |};
                 {| r_chrom := ex_chr2; r_pos := 5; r_ref := ex_A; r_alts := [ex_AT];
                    r_gts := [(ex_S1, [Some ex_A; Some ex_AT]); (ex_S2, [None; None])] |} ] |}.
Definition ex_cfg (lz ca : bool) (ign : option (list (str * str))) : cfg :=
  {| c_phased := true; c_select := None; c_ignore := ign; c_lazy := lz; c_cache := ca; c_chrom := None |}.
Definition ex_qs : list query :=
  [QGet ex_chr1 9 ex_A; QGet ex_chr2 4 ex_A; QHas ex_chr1 19; QGet ex_chr1 19 ex_T; QHas [90] 3; QGet ex_chr1 9 ex_T].
Definition ex_hist : list (cfg * list query) :=
  [(ex_cfg false true None, ex_qs); (ex_cfg false true (Some [(ex_C, ex_T)]), ex_qs);
   (ex_cfg false false None, ex_qs); (ex_cfg true false None, ex_qs); (ex_cfg true true None, ex_qs)].

Example C18_example :
  vcf_ok ex_vcf = true /\ hist_ok ex_hist = true /\
  nth 0 (snd (run_history ex_vcf [] ex_hist)) []
    = [ASome [ex_S1; ex_S2]; ASome [ex_S1]; ABool true; ASome [ex_S2]; ABool false; ASome [ex_S2]] /\
  nth 1 (snd (run_history ex_vcf [] ex_hist)) []
    = [ASome [ex_S1; ex_S2]; ASome [ex_S1]; ABool false; ANone; ABool false; ASome [ex_S2]] /\
  length (fst (run_history ex_vcf [] ex_hist)) = 4%nat.
Proof. vm_compute. repeat split. Qed.
Print Assumptions C18_example.

(* object 0 eager on all samples, object 1 lazy on S1 only (created after 0 was used), object 2 eager ignoring C>T *)
Example C18_objects_example :
  let objs := [ex_cfg false false None;
               {| c_phased := true; c_select := Some [ex_S1]; c_ignore := None; c_lazy := true; c_cache := false; c_chrom := None |};
               ex_cfg false false (Some [(ex_C, ex_T)])] in
  let ops := [(0%nat, QGet ex_chr1 9 ex_A); (1%nat, QGet ex_chr1 9 ex_A); (0%nat, QGet ex_chr1 19 ex_T);
              (2%nat, QGet ex_chr1 19 ex_T); (1%nat, QHas ex_chr1 19); (0%nat, QHas ex_chr1 19)] in
  sess_ok objs ops = true /\
  snd (run_session ex_vcf objs ([], []) ops) = [ASome [ex_S1; ex_S2]; ANone; ASome [ex_S2]; ANone; ABool false; ABool true].
Proof. vm_compute. split; reflexivity. Qed.
Print Assumptions C18_objects_example.

(* the "monomorphic" rule: a missing genotype re-admits a site that carries a multi-base allele *)
Example C18_multibase_readmitted :
  informativeb (ex_cfg false false None) (nth 2 (v_recs ex_vcf) (nth 0 (v_recs ex_vcf) (nth 0 (v_recs ex_vcf) {| r_chrom := []; r_pos := 0; r_ref := []; r_alts := []; r_gts := [] |}))) = true.
Proof. vm_compute. reflexivity. Qed.
Print Assumptions C18_multibase_readmitted.

Example C18_roundtrip_example :
  serialise (getd seqb (contig_table ex_vcf (ex_cfg true true None) ex_chr1) ex_chr1)
  = [45;49;9;78;9;78;111;112;10; 57;9;65;9;83;49;44;83;50;10; 57;9;84;9;83;50;10; 49;57;9;67;9;83;49;10; 49;57;9;84;9;83;50;10].
Proof. vm_compute. reflexivity. Qed.
Print Assumptions C18_roundtrip_example.

(* ==================================================================== REGION-RESTRICTED LOADING (region_start / region_end)
   Model/C18x.v: every run carries a window w next to its settings.  v.fetch(c, start, stop) returns the records that
   OVERLAP [start, stop) (vwin); read_cached keeps the lines the regenerated filters g_read_skip / g_read_stop keep; the
   cache file name does not mention the window; unacceptable coordinates make the fetch raise (win_valid); the eager
   load of all contigs ignores the window.  spec_run_x = the specification above (spec_run) on the records the run can
   see (veff): all of them for the eager load of all contigs, those overlapping the window otherwise. *)

(* ---- T: the two region tests of read_cached, as the current source writes them *)
Theorem C18_window_source_shape :
  (forall b p s, g_read_skip b p s = b && (p <? s)) /\ (forall b p e, g_read_stop b p e = b && (p >? e)).
Proof. exact (conj read_skip_shape read_stop_shape). Qed.
Print Assumptions C18_window_source_shape.

(* ---- without a window the extended machine IS the machine of the theorems above *)
Theorem C18_window_conservative : forall v h fs, vcf_ok_x v = true ->
  run_history_x v fs (map lift h) = run_history v fs h.
Proof. exact nowin_conservative. Qed.
Print Assumptions C18_window_conservative.

(* ---- along ANY history of runs sharing one cache directory - each run with its own settings, mode flags and window
        (acceptable or not), any query sequence and contig order - every answer is the specification evaluated on the
        records the run can see; hist_ok_x: two runs that go through the same cache file use the same window, and a run
        through the cache is not asked about positions before its region_start *)
Theorem C18_window_history_spec : forall v h, vcf_ok_x v = true -> hist_ok_x h = true ->
  snd (run_history_x v [] h) = map (spec_run_x v) h.
Proof. exact history_spec_x. Qed.
Print Assumptions C18_window_history_spec.

(* ---- a lookup INSIDE the window answers exactly what the whole VCF says ... *)
Theorem C18_window_inside : forall v w cf q, (forall r, In r (v_recs v) -> pos_rec_ok r = true) ->
  in_win w (query_pos q) = true -> spec_answer (vwin v w) cf q = spec_answer v cf q.
Proof. exact spec_answer_inside. Qed.
Print Assumptions C18_window_inside.

(* ... so a history whose queries all lie inside their run's window answers the specification of the unrestricted VCF,
   in every loading mode *)
Theorem C18_window_inside_history : forall v h, vcf_ok_x v = true -> hist_ok_x h = true -> hist_inside h = true ->
  snd (run_history_x v [] h) = map (spec_run v) (map unlift h).
Proof. exact history_inside_spec. Qed.
Print Assumptions C18_window_inside_history.

Theorem C18_window_modes_equal : forall v h1 h2, vcf_ok_x v = true -> hist_ok_x h1 = true -> hist_ok_x h2 = true ->
  hist_inside h1 = true -> hist_inside h2 = true -> Forall2 same_request_x h1 h2 ->
  snd (run_history_x v [] h1) = snd (run_history_x v [] h2).
Proof. exact modes_equal_x. Qed.
Print Assumptions C18_window_modes_equal.

(* the headline case needs no condition on file names: one setting and one window for all runs (any mode flags, any
   chrom argument), queries inside the window *)
Theorem C18_window_one_setting : forall v cf0 w0 h, vcf_ok_x v = true -> win_valid w0 = true ->
  (forall run, In run h -> sem_eq (x_cf (fst run)) cf0 /\ x_win (fst run) = w0) ->
  (forall run q, In run h -> In q (snd run) -> in_win w0 (query_pos q) = true) ->
  snd (run_history_x v [] h) = map (spec_run v) (map unlift h).
Proof. exact one_setting_one_window_spec. Qed.
Print Assumptions C18_window_one_setting.

(* ---- OUTSIDE the window, as the code defines it: a record decides a site iff the tabix iterator returned it - it
        starts below region_end and its REF reaches beyond region_start ... *)
Theorem C18_window_outside_record : forall v w cf c p r, spec_rec (vwin v w) cf c p = Some r ->
  In r (v_recs v) /\ at_site c p r = true /\ informativeb cf r = true /\ p < win_hi w /\ win_lo w < p + Z.of_nat (length (r_ref r)).
Proof. exact spec_rec_vwin_some. Qed.
Print Assumptions C18_window_outside_record.

(* ... nothing at or beyond region_end, nothing before region_start unless a longer REF reaches into the window ... *)
Theorem C18_window_beyond_end : forall v w cf q, win_hi w <= query_pos q -> spec_answer (vwin v w) cf q = no_answer q.
Proof. exact spec_answer_beyond_end. Qed.
Print Assumptions C18_window_beyond_end.

Theorem C18_window_before_start : forall v w cf q, query_pos q < win_lo w ->
  (forall r, In r (v_recs v) -> r_chrom r = query_contig q -> (length (r_ref r) <= 1)%nat) ->
  spec_answer (vwin v w) cf q = no_answer q.
Proof. exact spec_answer_before_start. Qed.
Print Assumptions C18_window_before_start.

Theorem C18_window_outside_lazy : forall v run, is_lazy (x_cf (fst run)) = true -> win_valid (x_win (fst run)) = true ->
  (forall q, In q (snd run) -> in_win (x_win (fst run)) (query_pos q) = false) ->
  (forall r, In r (v_recs v) -> (length (r_ref r) <= 1)%nat) ->
  spec_run_x v run = map no_answer (snd run).
Proof. exact spec_run_x_outside. Qed.
Print Assumptions C18_window_outside_lazy.

(* ... while the eager load of all contigs answers as if there were no window *)
Theorem C18_window_ignored_by_eager_all : forall v run, eager_all (x_cf (fst run)) = true ->
  spec_run_x v run = spec_run v (unlift run).
Proof. exact spec_run_x_eager_all. Qed.
Print Assumptions C18_window_ignored_by_eager_all.

(* ---- the cache file under a window: a run reads back exactly the entries at positions >= its region_start of a table
        that holds nothing beyond its region_end (every table written under the same window is such a table) *)
Theorem C18_window_cache_roundtrip : forall w ct c, ct_wf ct -> (forall p, amem Z.eqb ct p = true -> stopb w p = false) ->
  let t := read_cached_x w (serialise ct) c [] in
  (forall p b, look3 (getd seqb t c) p b = if skipb w p then None else look3 ct p b) /\
  (forall p, amem Z.eqb (getd seqb t c) p = negb (skipb w p) && amem Z.eqb ct p) /\
  (forall c', amem seqb t c' = true -> c' = c).
Proof. exact read_cached_x_serialise. Qed.
Print Assumptions C18_window_cache_roundtrip.

(* ---- REFUTED on the unchanged tree (all four reproduced on the real class, fixes/C18-D36): the full-strength statement
        "for every window the answers do not depend on the loading mode" fails in four ways.
        FULL STATEMENT (not provable for the code that exists):
          forall v h, vcf_ok_x v = true -> hist_ok (map unlift h) = true ->
            forall i j, same_but_mode (nth i h) (nth j h) -> nth i answers = nth j answers   (and = spec inside the window) *)
Theorem C18_window_cache_shared_refuted : exists v h,
  vcf_ok_x v = true /\ hist_ok (map unlift h) = true /\ hist_inside h = true /\
  (forall r1 r2, In r1 h -> In r2 h -> x_cf (fst r1) = x_cf (fst r2)) /\
  snd (run_history_x v [] h) <> map (spec_run v) (map unlift h).
Proof. exact window_cache_shared_refuted. Qed.
Print Assumptions C18_window_cache_shared_refuted.

Theorem C18_window_end_inclusive_refuted : exists v r0 r1 r2,
  vcf_ok_x v = true /\ hist_ok (map unlift [r0; r1; r2]) = true /\ same_but_mode r1 r2 /\ win_valid (x_win (fst r1)) = true /\
  nth 1 (snd (run_history_x v [] [r0; r1; r2])) [] <> nth 2 (snd (run_history_x v [] [r0; r1; r2])) [].
Proof. exact window_end_inclusive_refuted. Qed.
Print Assumptions C18_window_end_inclusive_refuted.

Theorem C18_window_long_ref_refuted : exists v r1 r2,
  vcf_ok_x v = true /\ hist_ok (map unlift [r1; r2]) = true /\ r1 = r2 /\ win_valid (x_win (fst r1)) = true /\
  nth 0 (snd (run_history_x v [] [r1; r2])) [] <> nth 1 (snd (run_history_x v [] [r1; r2])) [].
Proof. exact window_long_ref_refuted. Qed.
Print Assumptions C18_window_long_ref_refuted.

Theorem C18_window_eager_all_refuted : exists v r1 r2,
  vcf_ok_x v = true /\ hist_ok_x [r1; r2] = true /\ same_but_mode r1 r2 /\ win_valid (x_win (fst r1)) = true /\
  nth 0 (snd (run_history_x v [] [r1; r2])) [] <> nth 1 (snd (run_history_x v [] [r1; r2])) [].
Proof. exact window_eager_all_refuted. Qed.
Print Assumptions C18_window_eager_all_refuted.

(* ---- non-vacuity: one setting, window [5,25), the same five lookups eagerly on chr1, lazily, through a fresh cache,
        through the cache again and lazily through the cache: five times the answers of the VCF, one cache file *)
Example C18_window_example :
  vcf_ok_x w_vcf = true /\ hist_ok_x w_hist = true /\ hist_inside w_hist = true /\
  snd (run_history_x w_vcf [] w_hist)
  = repeat [ASome [w_S1]; ASome [w_S2]; ABool true; ASome [w_S2]; ABool false] 5 /\
  length (fst (run_history_x w_vcf [] w_hist)) = 1%nat.
Proof. exact window_example. Qed.
Print Assumptions C18_window_example.

Example C18_window_outside_example :
  let w := {| w_start := Some 6; w_end := Some 20 |} in
  option_map r_pos (spec_rec (vwin w_vcf w) (w_cfg true false) w_chr1 4) = Some 5 /\
  spec_answer (vwin w_vcf w) (w_cfg true false) (QGet w_chr1 29 w_T) = ANone /\
  spec_answer w_vcf (w_cfg true false) (QGet w_chr1 29 w_T) = ASome [w_S2] /\
  map fst (getd seqb (read_cached_x {| w_start := Some 9; w_end := Some 20 |}
                        (serialise (getd seqb (contig_table w_vcf (w_cfg true true) w_chr1) w_chr1)) w_chr1 []) w_chr1) = [9; 19].
Proof. exact window_outside_example. Qed.
Print Assumptions C18_window_outside_example.
