(* C14 — property theorems only.  Each is closed by [exact lemma]; Print Assumptions beneath.
   ctx_unmeth / ctx_meth are the two context tables REGENERATED from the live TAPS() object of /repo
   (Gen/GenTaps.v).  `calls c ref fs` is the model of TAPSMolecule.obtain_methylation_calls (Model/C14.v):
   c = configuration (reference kind pysam/CachedFasta, molecule strand, taps_strand, allow_unsafe_base_calls,
   dove distances, min phred), ref = contig sequence, fs = the molecule's fragments. *)
From Coq Require Import ZArith List Bool.
Import ListNotations.
From Coq Require Import Permutation.
From SCMO Require Import Lib.Val Gen.GenTaps Model.C14 Proofs.C14_a Proofs.C14.
From SCMO Require Import Model.C14x Proofs.C14x Proofs.C14y Proofs.C14z.
Open Scope Z_scope.

(* FINITE (bound in the statement): over the 5^3 = 125 three-letter contexts on {A,C,G,T,N} both generated
   tables equal the specification  CG* -> z, C[ACT]G -> x, C[ACT][ACT] -> h, nothing else; upper case for
   methylated; and the tables have no key outside those 125 *)
Theorem C14_table_complete :
  length contexts125 = 125%nat /\
  (forall k, In k contexts125 ->
     lookup k ctx_unmeth = spec_ctx k /\ lookup k ctx_meth = option_map upper (spec_ctx k)) /\
  (forall k v, In (k, v) ctx_unmeth \/ In (k, v) ctx_meth -> In k contexts125).
Proof. exact (conj eq_refl (conj table_125 table_keys_125)). Qed.
Print Assumptions C14_table_complete.

(* lifted to ANY key (any length, any characters): truncated or foreign contexts are never in the table *)
Theorem C14_table_total : forall k : list Z,
  lookup k ctx_unmeth = spec_ctx k /\ lookup k ctx_meth = option_map upper (spec_ctx k).
Proof. exact table_total. Qed.
Print Assumptions C14_table_total.

(* TAPS.position_to_context computes the direct specification, for every reference, position, observed base
   and both reference handle kinds *)
Theorem C14_position_to_context : forall cached ref pos base obs,
  base = cC \/ base = cG -> 0 <= pos ->
  symbol cached ref pos base obs = spec_letter ref pos base (upper obs).
Proof. exact symbol_spec. Qed.
Print Assumptions C14_position_to_context.

(* every entry of the call dictionary: its (position, base, coverage) is an entry of the molecule's consensus,
   and its letter is the specified one *)
Theorem C14_call_spec : forall c ref fs cs k, wf fs = true -> calls c ref fs = OK cs -> In k cs ->
  In (k_pos k, k_cons k, k_cov k) (consensus c fs) /\ 0 <= k_pos k /\ is_acgt (k_cons k) = true /\
  k_letter k = spec_letter ref (k_pos k) (expected c) (k_cons k).
Proof. exact call_spec. Qed.
Print Assumptions C14_call_spec.

(* a call (letter other than '.') sits on a reference C (G for the opposite-strand convention); both following
   bases on the cytosine's own strand exist and are ACGT; the letter names their class z/x/h (CpG/CHG/CHH);
   it is upper case exactly when the consensus shows the conversion, lower case exactly when it shows the base *)
Theorem C14_call_on_reference : forall c ref fs cs k,
  wf fs = true -> calls c ref fs = OK cs -> In k cs -> k_letter k <> cDot ->
  let base := expected c in
  up_at ref (k_pos k) = Some base /\
  (exists n1 n2, neighbours ref (k_pos k) base = Some (n1, n2) /\ is_acgt n1 = true /\ is_acgt n2 = true /\
     k_letter k = (let low := if n1 =? cG then c_z else if n2 =? cG then c_x else c_h in
                   if k_cons k =? conv base then upper low else low)) /\
  (is_upper_letter (k_letter k) = true <-> k_cons k = conv base) /\
  (is_lower_letter (k_letter k) = true <-> k_cons k = base).
Proof. exact call_called. Qed.
Print Assumptions C14_call_on_reference.

(* truncated context (contig end), non-ACGT neighbour, other reference base, or a consensus base that is neither
   the base nor its conversion: no letter *)
Theorem C14_no_call : forall c ref fs cs k, wf fs = true -> calls c ref fs = OK cs -> In k cs ->
  let base := expected c in
  (up_at ref (k_pos k) <> Some base \/ neighbours ref (k_pos k) base = None \/
   (exists n1 n2, neighbours ref (k_pos k) base = Some (n1, n2) /\ (is_acgt n1 = false \/ is_acgt n2 = false)) \/
   (k_cons k <> conv base /\ k_cons k <> base)) ->
  k_letter k = cDot.
Proof. exact call_dot. Qed.
Print Assumptions C14_no_call.

(* the consensus base of an entry is the strict majority of the fragment votes at that position *)
Theorem C14_call_majority : forall c ref fs cs k, calls c ref fs = OK cs -> In k cs ->
  let vs := votes c fs in
  k_cov k = count vs (k_pos k) (k_cons k) /\ 0 < k_cov k /\
  forall b', In b' bases -> b' <> k_cons k -> count vs (k_pos k) b' < count vs (k_pos k) (k_cons k).
Proof. exact call_majority. Qed.
Print Assumptions C14_call_majority.

(* bases outside the mate-overlap-safe span are never called (allow_unsafe_base_calls = False): every entry lies
   inside [lo,hi] of an inward facing R1/R2 pair, on an aligned base whose MD reference base is the expected one *)
Theorem C14_dove_safe : forall c ref fs cs k, c_unsafe c = false -> calls c ref fs = OK cs -> In k cs ->
  exists r1 r2 lo hi, In (Some r1, Some r2) fs /\
    ((r_rev r1 = true /\ r_rev r2 = false /\ lo = r_start r2 + c_d2 c /\ hi = r_end r1 - c_d1 c - 1) \/
     (r_rev r1 = false /\ r_rev r2 = true /\ lo = r_start r1 + c_d1 c /\ hi = r_end r2 - c_d2 c - 1)) /\
    lo <= k_pos k <= hi /\
    exists r p, (r = r1 \/ r = r2) /\ In p (r_pairs r) /\ p_pos p = k_pos k /\ p_base p = k_cons k /\
                upper (p_ref p) = expected c /\
                match c_minq c with None => True | Some m => m <= p_qual p end.
Proof. exact call_safe. Qed.
Print Assumptions C14_dove_safe.

(* the dictionary has one entry per position *)
Theorem C14_dict_nodup : forall c ref fs cs, calls c ref fs = OK cs -> NoDup (map k_pos cs).
Proof. exact calls_NoDup. Qed.
Print Assumptions C14_dict_nodup.

(* the only exception: AssertionError exactly when the molecule has no strand and the consensus is not empty *)
Theorem C14_raise_iff : forall c ref fs, calls c ref fs = Raise <-> c_strand c = None /\ consensus c fs <> [].
Proof. exact calls_raise. Qed.
Print Assumptions C14_raise_iff.

(* XM: one character per aligned base ... *)
Theorem C14_xm_length : forall cs r, length (xm cs r) = length (r_pairs r).
Proof. exact xm_length. Qed.
Print Assumptions C14_xm_length.

(* ... the i-th being the letter of the dictionary entry at the i-th aligned position, '.' when there is none *)
Theorem C14_xm_content : forall c ref fs cs r i p, calls c ref fs = OK cs -> nth_error (r_pairs r) i = Some p ->
  (forall k, In k cs -> k_pos k = p_pos p -> nth_error (xm cs r) i = Some (k_letter k)) /\
  ((forall k, In k cs -> k_pos k <> p_pos p) -> nth_error (xm cs r) i = Some cDot).
Proof. exact xm_content. Qed.
Print Assumptions C14_xm_content.

(* totals written to the reads = number of dictionary entries of each kind *)
Theorem C14_totals : forall cs,
  t_sZ (tot cs) = ncalls c_Z cs /\ t_sz (tot cs) = ncalls c_z cs /\
  t_sX (tot cs) = ncalls c_X cs /\ t_sx (tot cs) = ncalls c_x cs /\
  t_sH (tot cs) = ncalls c_H cs /\ t_sh (tot cs) = ncalls c_h cs /\
  t_MC (tot cs) = ncalls c_Z cs + ncalls c_X cs + ncalls c_H cs /\
  t_uC (tot cs) = ncalls c_z cs + ncalls c_x cs + ncalls c_h cs.
Proof. exact tot_spec. Qed.
Print Assumptions C14_totals.

Theorem C14_totals_case : forall cs,
  t_MC (tot cs) = Z.of_nat (length (filter (fun k => is_upper_letter (k_letter k)) cs)) /\
  t_uC (tot cs) = Z.of_nat (length (filter (fun k => is_lower_letter (k_letter k)) cs)).
Proof. exact (fun cs => conj (MC_upper cs) (uC_lower cs)). Qed.
Print Assumptions C14_totals_case.

Theorem C14_totals_partition : forall c ref fs cs, wf fs = true -> calls c ref fs = OK cs ->
  t_MC (tot cs) + t_uC (tot cs) + ncalls cDot cs = Z.of_nat (length cs).
Proof. exact totals_partition. Qed.
Print Assumptions C14_totals_partition.

(* what the model's entry point writes: the same XM/totals record for every read of every fragment *)
Theorem C14_run_tags : forall v cs, wf (dec_frags v) = true ->
  calls (dec_cfg v) (dec_ref v) (dec_frags v) = OK cs ->
  run_C14 0 v = VL [VL (map enc_call cs);
                    VL (map (fun r => VL (ofZs (xm cs r) :: enc_tot (tot cs))) (reads_of (dec_frags v)))].
Proof. exact run_tags. Qed.
Print Assumptions C14_run_tags.

(* HISTORIES: molecules (each with the reference of its own contig) processed one after the other by ONE TAPS
   object.  Every molecule gets exactly the calls it gets alone from a fresh object, whatever came before (other
   contigs, the same coordinates on another contig, the same contig again): all theorems above apply to every
   molecule of every history *)
Theorem C14_history_stateless : forall ms,
  history taps0 ms = map (fun m => calls (m_cfg m) (m_ref m) (m_frags m)) ms.
Proof. exact (fun ms => history_stateless ms taps0). Qed.
Print Assumptions C14_history_stateless.

Theorem C14_history_prefix_irrelevant : forall pre m post,
  nth_error (history taps0 (pre ++ m :: post)) (length pre) = Some (calls (m_cfg m) (m_ref m) (m_frags m)).
Proof. exact history_prefix_irrelevant. Qed.
Print Assumptions C14_history_prefix_irrelevant.

(* the model's history entry point used by the correspondence check = the per-molecule entry point on each *)
Theorem C14_run_history : forall v, forallb (fun m => wf (m_frags m)) (map dec_mol (getL v)) = true ->
  run_C14 4 v = VL (map (run_C14 0) (getL v)).
Proof. exact run_history. Qed.
Print Assumptions C14_run_history.

(* HISTORIES ON ONE MOLECULE OBJECT: grown by add_fragment / add_molecule / _add_fragment and finalised any number of
   times.  The k-th finalise answers with the calls computed from ALL fragments held at that moment (so every theorem
   above applies to every finalise), and methylation_call_dict then holds exactly that answer *)
Theorem C14_molecule_history : forall ref pre st c post,
  nth_error (snd (mol_history ref st (pre ++ MFin c :: post))) (nfin pre) =
  Some (ms_frags st ++ added pre, calls c ref (ms_frags st ++ added pre)).
Proof. exact mol_history_fin. Qed.
Print Assumptions C14_molecule_history.

Theorem C14_molecule_history_dict : forall ref pre st c cs,
  calls c ref (ms_frags st ++ added pre) = OK cs ->
  ms_dict (fst (mol_history ref st (pre ++ [MFin c]))) = Some cs.
Proof. exact mol_history_dict. Qed.
Print Assumptions C14_molecule_history_dict.

Theorem C14_molecule_history_shape : forall ref ops st,
  ms_frags (fst (mol_history ref st ops)) = ms_frags st ++ added ops /\
  length (snd (mol_history ref st ops)) = nfin ops.
Proof. exact (fun ref ops st => conj (mol_history_frags ref ops st) (mol_history_outputs_len ref ops st)). Qed.
Print Assumptions C14_molecule_history_shape.

(* non-vacuity: R1 alone (single-end, unsafe calling) reads C5 unconverted -> z; after add_molecule of two single-end
   fragments that read T there, the second finalise says Z *)
Example C14_molecule_history_example :
  map snd (snd (mol_history ex_ref (mkMS [] None)
     [MAdd [(Some ex_r1, None)]; MFin ex_cfg_u; MMerge [(Some ex_r1t, None); (Some ex_r1t, None)]; MFin ex_cfg_u])) =
    [OK [mkCall 1 cT c_Z 1; mkCall 4 cC c_x 1; mkCall 5 cC c_z 1];
     OK [mkCall 1 cT c_Z 3; mkCall 4 cC c_x 3; mkCall 5 cT c_Z 2]].
Proof. vm_compute. reflexivity. Qed.
Print Assumptions C14_molecule_history_example.

(* non-vacuity of the history theorems: the example molecule after a molecule at the SAME coordinates on another
   contig (TTGACAGGNCA: position 1 is not a C there, C4 is CAG) still gets its own contig's letters *)
Example C14_history_example :
  history taps0 [mkMol (ex_cfg true) ex_ref2 ex_frags; mkMol (ex_cfg true) ex_ref ex_frags] =
    [OK [mkCall 1 cT cDot 1; mkCall 4 cC c_x 1; mkCall 5 cC cDot 1; mkCall 9 cC cDot 1];
     OK [mkCall 1 cT c_Z 1; mkCall 4 cC c_x 1; mkCall 5 cC c_z 1; mkCall 9 cC cDot 1]].
Proof. vm_compute. reflexivity. Qed.
Print Assumptions C14_history_example.

(* non-vacuity: reference TCGACCGGNCG, forward molecule, calls on C; R1 0..9 (C1 read as T), R2 2..11.
   C1 = CpG converted -> Z ; C4 = CCG -> x ; C5 = CGG -> z ; C9 = CG at the contig end (truncated) -> '.' ;
   both reference kinds; XM of R1 and the totals *)
Example C14_example :
  wf ex_frags = true /\
  calls (ex_cfg false) ex_ref ex_frags =
    OK [mkCall 1 cT c_Z 1; mkCall 4 cC c_x 1; mkCall 5 cC c_z 1; mkCall 9 cC cDot 1] /\
  calls (ex_cfg true) ex_ref ex_frags = calls (ex_cfg false) ex_ref ex_frags /\
  (forall cs, calls (ex_cfg false) ex_ref ex_frags = OK cs ->
     xm cs ex_r1 = [cDot; c_Z; cDot; cDot; c_x; c_z; cDot; cDot; cDot] /\
     tot cs = mkTot 1 2 1 1 0 1 0 0) /\
  (* G convention at the contig start: G2 has only ..CG before it: CpG (z) needs pos-2 >= 0 *)
  symbol false [cC; cG; cA] 1 cG cG = cDot /\ symbol true [cC; cG; cA] 1 cG cG = cDot /\
  symbol false [cA; cC; cG] 2 cG cA = c_Z /\ symbol true [cA; cC; cG] 2 cG cG = c_z.
Proof.
  repeat split; try (vm_compute; reflexivity).
  all: match goal with H : _ = OK _ |- _ => vm_compute in H; injection H as <-; vm_compute; reflexivity end.
Qed.
Print Assumptions C14_example.

(* ============================================================================================================
   THE MOLECULE ABSTRACTION (Model/C14x.v).  The molecule as pysam gives it: per mate is_reverse, MD present,
   query_sequence, query_qualities and the entries (query index | None, reference position | None, MD character) of
   get_aligned_pairs(with_seq=True) -- soft clips / insertions have no reference position, deletions / skips no
   query index.  rcalls is obtain_methylation_calls written on these raw entries (read_to_consensus_dict,
   get_consensus_dictionaries with the dove-tail safe span, pick_best_base_call, Fragment.get_consensus,
   Molecule.get_consensus); abs_frag the abstraction (matches_only view, reference_start, reference_end) on which
   `calls` above works.  rwf: what every pysam alignment satisfies (aligned bases ACGTN with phred >= 0 at
   reference positions >= 0, no reference position twice, covered reference positions increasing).
   ============================================================================================================ *)

(* the caller on the raw aligned pairs IS the caller above on the abstraction: every theorem above applies to it *)
Theorem C14_raw_refines : forall c ref fs, rcalls c ref fs = calls c ref (map abs_frag fs).
Proof. exact rcalls_abs. Qed.
Print Assumptions C14_raw_refines.

(* the matches_only view: exactly the entries with a query index and a reference position, carrying
   query_sequence[qpos], query_qualities[qpos] and the MD character *)
Theorem C14_matches_only_view : forall w p, In p (matched w) <->
  exists a q, In a (w_ap w) /\ a_q a = Some q /\ a_r a = Some (p_pos p) /\
              p_base p = nthZ (w_seq w) q /\ p_qual p = nthZ (w_qual w) q /\ p_ref p = a_b a.
Proof. exact matched_spec. Qed.
Print Assumptions C14_matches_only_view.

(* reference_start / reference_end bracket every covered reference position (deletions and skips included) and
   are attained *)
Theorem C14_reference_span : forall w,
  (increasing (rpositions w) = true -> forall r, In r (rpositions w) -> ref_start w <= r < ref_end w) /\
  (rpositions w <> [] -> In (ref_start w) (rpositions w) /\ In (ref_end w - 1) (rpositions w)) /\
  (forall p, In p (matched w) -> In (p_pos p) (rpositions w)).
Proof. exact (fun w => conj (fun Hi r => ref_bounds w r Hi) (conj (ref_start_covered w) (matched_rpositions w))). Qed.
Print Assumptions C14_reference_span.

(* the mate-overlap-safe span AS CODED in get_consensus_dictionaries: none for allow_unsafe_base_calls; otherwise
   both mates, facing inward, [start of the FORWARD mate + its dove distance, end of the REVERSE mate - its dove
   distance - 1] -- the part of the reverse mate left of the forward mate's start and the part of the forward mate
   right of the reverse mate's end (a dove-tail) are outside; the distance goes with the ROLE (R1 / R2) *)
Theorem C14_safe_span_rule : forall c f lo hi, safe_span c f = Some (lo, hi) <->
  (c_unsafe c = true /\ lo = None /\ hi = None) \/
  (c_unsafe c = false /\ exists r1 r2, f = (Some r1, Some r2) /\
     ((r_rev r1 = true /\ r_rev r2 = false /\
       lo = Some (r_start r2 + c_d2 c) /\ hi = Some (r_end r1 - c_d1 c - 1)) \/
      (r_rev r1 = false /\ r_rev r2 = true /\
       lo = Some (r_start r1 + c_d1 c) /\ hi = Some (r_end r2 - c_d2 c - 1)))).
Proof. exact safe_span_rule. Qed.
Print Assumptions C14_safe_span_rule.

(* WHICH FRAGMENT CALLS WHICH BASE WHERE, declaratively (FragCall / Obs in Proofs/C14z.v): b is not N, no mate
   lacks its MD tag, the safe span exists, and one mate observes b at pos inside the span (aligned there, phred >=
   min_phred_score, MD character = the base methylation is called on) while every such observation of the other
   mate there has a lower phred, or the same phred and the same base *)
Theorem C14_fragment_call : forall c f pos b, fragcallb c f pos b = true <-> FragCall c f pos b.
Proof. exact fragcallb_spec. Qed.
Print Assumptions C14_fragment_call.

(* ... and that is exactly when the fragment votes (pos, b) in Molecule.get_consensus, for every fragment of every
   well-formed raw molecule (overlapping, dove-tailed, with indels / clips, single mates, missing MD) *)
Theorem C14_fragment_votes : forall c fs f pos b, rwf fs = true -> In f fs ->
  (In (pos, b) (rfrag_votes c f) <-> FragCall c (abs_frag f) pos b).
Proof. exact raw_frag_votes_iff. Qed.
Print Assumptions C14_fragment_votes.

(* the per-position vote = the number of fragments calling that base at that position inside their own safe span *)
Theorem C14_vote_count : forall c fs pos b, rwf fs = true ->
  count (rvotes c fs) pos b = nfrag c (map abs_frag fs) pos b.
Proof. exact raw_vote_count. Qed.
Print Assumptions C14_vote_count.

(* THE CALL DICTIONARY IS EXACTLY the set of (position, strict-majority base): k is an entry iff its base is one of
   ACGT called by more fragments than any other base (and by at least one), its cov is that number of fragments and
   its letter is the specified one (Entry in Proofs/C14z.v); for any number of fragments *)
Theorem C14_callset_exact : forall c ref fs cs k, rwf fs = true -> rcalls c ref fs = OK cs ->
  (In k cs <-> Entry c ref (map abs_frag fs) k).
Proof. exact raw_callset_exact. Qed.
Print Assumptions C14_callset_exact.

(* ... so the positions carrying a letter are exactly those with a strict-majority base whose specified letter is
   not '.' (by C14_call_on_reference / C14_no_call: reference C / G with a complete ACGT context, read as the base
   or its conversion) *)
Theorem C14_called_positions_exact : forall c ref fs cs pos, rwf fs = true -> rcalls c ref fs = OK cs ->
  ((exists k, In k cs /\ k_pos k = pos /\ k_letter k <> cDot) <->
   (exists b, In b bases /\ majority_at c (map abs_frag fs) pos b = true /\
              spec_letter ref pos (expected c) b <> cDot)).
Proof. exact called_positions_exact. Qed.
Print Assumptions C14_called_positions_exact.

(* the only exception, exactly: no strand and a non-empty call set *)
Theorem C14_raise_exact : forall c ref fs, rwf fs = true ->
  (rcalls c ref fs = Raise <-> c_strand c = None /\ exists k, Entry c ref (map abs_frag fs) k).
Proof. exact raw_raise_exact. Qed.
Print Assumptions C14_raise_exact.

(* the boolean specification evaluated by the check on the implementation's outcomes (mode 2) decides the
   specification Spec (one entry per position, entries = Entry, AssertionError iff no strand and some Entry) ... *)
Theorem C14_specb_iff : forall c ref fs res, specb c ref fs res = true <-> Spec c ref fs res.
Proof. exact specb_iff. Qed.
Print Assumptions C14_specb_iff.

Theorem C14_run_specb : forall i o, rwf (dec_rfrags i) = true ->
  (run_C14x 2 (VL [i; o]) = VZ 1 <-> Spec (dec_cfg i) (dec_ref i) (map abs_frag (dec_rfrags i)) (dec_outcome o)).
Proof. exact run_specb. Qed.
Print Assumptions C14_run_specb.

(* ... and the model meets it *)
Theorem C14_model_meets_spec : forall c ref fs, rwf fs = true ->
  specb c ref (map abs_frag fs) (rcalls c ref fs) = true.
Proof. exact raw_model_meets_spec. Qed.
Print Assumptions C14_model_meets_spec.

(* the raw entry point of the extracted model = the entry point above on the abstraction *)
Theorem C14_run_raw : forall v, rwf (dec_rfrags v) = true ->
  run_C14x 6 v = enc_result (map abs_frag (dec_rfrags v))
                            (calls (dec_cfg v) (dec_ref v) (map abs_frag (dec_rfrags v))).
Proof. exact run_raw. Qed.
Print Assumptions C14_run_raw.

(* XM from the raw entries: one character per aligned base, the same string as on the abstraction *)
Theorem C14_raw_xm : forall cs w,
  rxm cs w = xm cs (abs_read w) /\
  length (rxm cs w) =
    length (filter (fun a => match a_q a, a_r a with Some _, Some _ => true | _, _ => false end) (w_ap w)).
Proof. exact (fun cs w => conj (rxm_abs cs w) (rxm_length cs w)). Qed.
Print Assumptions C14_raw_xm.

(* INVARIANCE.  same_result: both raise, or both dictionaries hold the same entries (the order of a dict is free) *)
Theorem C14_fragment_permutation : forall c ref fs fs', rwf fs = true -> Permutation fs fs' ->
  same_result (rcalls c ref fs) (rcalls c ref fs').
Proof. exact raw_fragment_permutation. Qed.
Print Assumptions C14_fragment_permutation.

(* which mate is listed first (is R1): with equal dove distances (the default 0 / 0) the mates of ANY subset of the
   fragments may be swapped, molecule.strand held fixed ... *)
Theorem C14_mate_order : forall c ref fs fs', rwf fs = true -> c_d1 c = c_d2 c -> Forall2 rmate_variant fs fs' ->
  same_result (rcalls c ref fs') (rcalls c ref fs).
Proof. exact raw_mate_order. Qed.
Print Assumptions C14_mate_order.

(* ... with different distances only when the distances are swapped with the mates ... *)
Theorem C14_mate_swap : forall c ref fs, rwf fs = true ->
  same_result (rcalls (swapc c) ref (map rswapf fs)) (rcalls c ref fs).
Proof. exact raw_mate_swap. Qed.
Print Assumptions C14_mate_swap.

(* ... and NOT otherwise: the code is asymmetric in the dove distances (they belong to the roles R1 / R2).  [Outside
   the model a second asymmetry: Fragment.strand is R1's orientation, so in the pipeline swapping the mates also flips
   molecule.strand, i.e. c_strand and the base methylation is called on.] *)
Theorem C14_mate_swap_asymmetric :
  exists c ref f, wfx [f] = true /\ c_d1 c <> c_d2 c /\
                  ~ same_result (calls c ref [swapf f]) (calls c ref [f]) /\
                  same_result (calls (swapc c) ref [swapf f]) (calls c ref [f]).
Proof. exact mate_swap_asymmetric. Qed.
Print Assumptions C14_mate_swap_asymmetric.

(* non-vacuity: reference TCGACCGGNCG; R1 forward 1S4M1I4M from 0 (C1 read as T), R2 reverse 3M2D4M from 2 (C5 G6
   deleted); ex_rdove: R1 forward 4M from 4, R2 reverse 9M from 0 -- the reverse mate's bases left of 4 are outside the
   safe span [4,8], so C1 is not called by it (it is with allow_unsafe_base_calls) *)
Example C14_raw_example :
  rwf (ex_rdove :: ex_rfrags) = true /\
  ref_start ex_w2 = 2 /\ ref_end ex_w2 = 11 /\ length (matched ex_w2) = 7%nat /\ length (w_ap ex_w2) = 9%nat /\
  rcalls (ex_cfg false) ex_ref ex_rfrags =
    OK [mkCall 1 cT c_Z 1; mkCall 5 cC c_z 1; mkCall 4 cC c_x 1; mkCall 9 cC cDot 1] /\
  rsafe_span (ex_cfg false) ex_rdove = Some (Some 4, Some 8) /\
  fragcallb (ex_cfg false) (abs_frag ex_rdove) 1 cC = false /\ fragcallb ex_cfg_u (abs_frag ex_rdove) 1 cC = true /\
  rcalls (ex_cfg false) ex_ref (ex_rdove :: ex_rfrags) =
    OK [mkCall 1 cT c_Z 1; mkCall 5 cC c_z 2; mkCall 4 cC c_x 2; mkCall 9 cC cDot 1] /\
  nfrag (ex_cfg false) (map abs_frag (ex_rdove :: ex_rfrags)) 4 cC = 2 /\
  same_result (rcalls (ex_cfg false) ex_ref (ex_rfrags ++ [ex_rdove])) (rcalls (ex_cfg false) ex_ref (ex_rdove :: ex_rfrags)) /\
  specb (ex_cfg false) ex_ref (map abs_frag ex_rfrags)
        (OK [mkCall 9 cC cDot 1; mkCall 4 cC c_x 1; mkCall 5 cC c_z 1; mkCall 1 cT c_Z 1]) = true /\
  specb (ex_cfg false) ex_ref (map abs_frag ex_rfrags) (OK [mkCall 4 cC c_x 1; mkCall 5 cC c_z 1; mkCall 1 cT c_Z 1]) = false /\
  (forall cs, rcalls (ex_cfg false) ex_ref ex_rfrags = OK cs ->
     rxm cs ex_w1 = [cDot; c_Z; cDot; cDot; c_x; c_z; cDot; cDot] /\ rxm cs ex_w2 = [cDot; cDot; c_x; cDot; cDot; cDot; cDot]).
Proof.
  repeat split; try (vm_compute; reflexivity).
  - apply raw_fragment_permutation; [vm_compute; reflexivity|]. apply Permutation_sym. apply (Permutation_cons_append ex_rfrags ex_rdove).
  - vm_compute in H. injection H as <-. vm_compute. reflexivity.
  - vm_compute in H. injection H as <-. vm_compute. reflexivity.
Qed.
Print Assumptions C14_raw_example.

(* which part of each mate is used (dove-safe calling): every vote of a fragment lies between the start of its FORWARD
   mate (+ that mate's dove distance) and the last covered position of its REVERSE mate (- that mate's distance); the
   dove-tails (reverse mate left of the forward mate's start, forward mate right of the reverse mate's end) never vote *)
Theorem C14_dove_tail_parts : forall c f pos b, c_unsafe c = false -> In (pos, b) (rfrag_votes c f) ->
  exists w1 w2, f = (Some w1, Some w2) /\
    ((w_rev w1 = true /\ w_rev w2 = false /\ ref_start w2 + c_d2 c <= pos <= ref_end w1 - c_d1 c - 1) \/
     (w_rev w1 = false /\ w_rev w2 = true /\ ref_start w1 + c_d1 c <= pos <= ref_end w2 - c_d2 c - 1)).
Proof. exact raw_vote_in_span. Qed.
Print Assumptions C14_dove_tail_parts.

(* non-vacuity of the declarative predicates and of the mate-order theorem on the same molecule: R1 calls T at C1
   (only mate there), the entry (1, T, Z, 1) meets Entry, and swapping the mates (equal distances) changes nothing *)
Example C14_raw_example_declarative :
  FragCall (ex_cfg false) (abs_frag (Some ex_w1, Some ex_w2)) 1 cT /\
  ~ FragCall (ex_cfg false) (abs_frag ex_rdove) 1 cC /\
  Entry (ex_cfg false) ex_ref (map abs_frag ex_rfrags) (mkCall 1 cT c_Z 1) /\
  ~ Entry (ex_cfg false) ex_ref (map abs_frag ex_rfrags) (mkCall 1 cC c_z 1) /\
  Spec (ex_cfg false) ex_ref (map abs_frag ex_rfrags) (rcalls (ex_cfg false) ex_ref ex_rfrags) /\
  same_result (rcalls (ex_cfg false) ex_ref (map rswapf ex_rfrags)) (rcalls (ex_cfg false) ex_ref ex_rfrags).
Proof.
  split; [apply fragcallb_spec; vm_compute; reflexivity|].
  split; [intros H; apply fragcallb_spec in H; vm_compute in H; discriminate|].
  split; [apply entryb_iff; vm_compute; reflexivity|].
  split; [intros H; apply entryb_iff in H; vm_compute in H; discriminate|].
  split; [apply specb_iff; apply raw_model_meets_spec; vm_compute; reflexivity|].
  apply (raw_mate_order (ex_cfg false) ex_ref ex_rfrags); [vm_compute; reflexivity|reflexivity|].
  constructor; [right; reflexivity|constructor].
Qed.
Print Assumptions C14_raw_example_declarative.
