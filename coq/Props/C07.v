(* C07 - property theorems only.  Each is closed by [exact lemma]; Print Assumptions beneath.
   runC is the model of MoleculeIterator.__iter__ (Model/C07.v) instantiated with the expressions
   REGENERATED from /repo (Gen/GenEject.v): the two pop index expressions, the ejection test,
   Molecule.can_be_yielded, Fragment.__eq__, Fragment.umi_eq. *)
From Coq Require Import ZArith List Bool Permutation.
Import ListNotations.
From SCMO Require Import Gen.GenEject Model.C07 Proofs.C07_a Proofs.C07 Proofs.C07_b Proofs.C07_c.
Open Scope Z_scope.

(* the pop loop `for i, j in enumerate(to_pop): l.pop(j - i)` is exactly `partition` *)
Theorem C07_pop_partition : forall (A : Type) (idx : Z -> Z -> Z) (p : A -> bool) (l : list A),
  (forall i j, idx i j = j - i) ->
  eject_list idx p l = (filter p l, filter (fun x => negb (p x)) l, true).
Proof. exact (fun A idx p l H => eject_list_good idx H p l). Qed.
Print Assumptions C07_pop_partition.

(* ... and j - i is what both pop sites of the source say now *)
Theorem C07_pop_index_source : forall i j, pop_index_flat i j = j - i /\ pop_index_grouped i j = j - i.
Proof. exact (fun i j => conj (pop_index_flat_ok i j) (pop_index_grouped_ok i j)). Qed.
Print Assumptions C07_pop_index_source.

(* with i - j (the expression before the repair, D10) the loop pops the newest element instead *)
Example C07_pop_expr_refuted :
  eject_list (fun i j => i - j) (fun n => Z.eqb n 1) [0; 1; 2] = ([2], [0; 1], true).
Proof. exact pop_expr_refuted. Qed.
Print Assumptions C07_pop_expr_refuted.

(* every fragment is emitted in exactly one molecule: for EVERY schedule (check_eject_every None or any
   integer), both pooling methods, every cache size, radius, UMI distance; invalid fragments are emitted
   (alone) iff yield_invalid *)
Theorem C07_emit_once : forall c fs outs fl,
  runC c fs = (outs, fl, true) ->
  Permutation (members (concat outs ++ fl)) (filter (wantedC c) fs).
Proof. exact emit_once. Qed.
Print Assumptions C07_emit_once.

(* and the run always completes: list.pop never raises IndexError *)
Theorem C07_no_index_error : forall c fs, snd (runC c fs) = true.
Proof. exact no_index_error. Qed.
Print Assumptions C07_no_index_error.

(* no molecule is yielded (before the final flush) while a later fragment could still join it.
   preb L lag: valid fragments have a contig and 0 <= end-start <= L, starts step back at most lag within a
   contig, contigs come in contiguous blocks, 0 <= radius, 2*(L+lag+radius) <= cache_size *)
Theorem C07_no_early_eject : forall L lag c fs outs fl,
  preb L lag c fs = true -> runC c fs = (outs, fl, true) ->
  forall pre g post m h, fs = pre ++ g :: post -> f_valid g = true ->
    In m (nth (length pre) outs []) -> In h post -> f_valid h = true -> matchC c m h = false.
Proof. exact no_early_eject. Qed.
Print Assumptions C07_no_early_eject.

(* the molecules produced (members in order and aggregate state) are the same multiset for every
   check_eject_every as for None (never eject), for both pooling methods, every cache size / radius / UMI
   distance satisfying the inequality *)
Theorem C07_schedule_independent : forall L lag c fs,
  preb L lag c fs = true ->
  Permutation (emitted mol (runC c fs)) (emitted mol (runC (with_every c None) fs)).
Proof. exact schedule_independent. Qed.
Print Assumptions C07_schedule_independent.

(* in particular the partition of the read ids *)
Theorem C07_schedule_independent_partition : forall L lag c fs,
  preb L lag c fs = true -> Permutation (ids_of (runC c fs)) (ids_of (runC (with_every c None) fs)).
Proof. exact schedule_independent_ids. Qed.
Print Assumptions C07_schedule_independent_partition.

(* non-vacuity: the hypotheses hold on an input where a non-prefix set of molecules is ejected before the
   flush and a duplicate arrives afterwards; all schedules give the partition {[0],[1],[2;3]} *)
Example C07_example :
  preb 10 0 (ex_cfg (Some 0)) ex_d10 = true
  /\ map (map mol_ids) (fst (fst (runC (ex_cfg (Some 0)) ex_d10))) = [[]; []; [[1]]; []]
  /\ ids_of (runC (ex_cfg (Some 0)) ex_d10) = [[1]; [0]; [2; 3]]
  /\ ids_of (runC (ex_cfg None) ex_d10) = [[0]; [1]; [2; 3]].
Proof. vm_compute. repeat split. Qed.
Print Assumptions C07_example.

(* D10, before the repair: the same input under the index i - j splits the duplicate pair *)
Example C07_D10_refuted :
  preb 10 0 (ex_cfg (Some 0)) ex_d10 = true
  /\ ids_of (runC_with (fun i j => i - j) (match_flat 0 0) (ex_cfg (Some 0)) ex_d10) = [[2]; [3]; [0]; [1]]
  /\ ids_of (runC_with (fun i j => i - j) (match_flat 0 0) (ex_cfg None) ex_d10) = [[0]; [1]; [2; 3]].
Proof. vm_compute. repeat split. Qed.
Print Assumptions C07_D10_refuted.

(* D31, before the repair: Fragment.__eq__ without the contig comparison merges across contigs unless an
   ejection happens in between *)
Example C07_D31_refuted :
  preb 10 0 (ex_cfg (Some 0)) ex_d31 = true
  /\ ids_of (runC_with (fun i j => j - i) (match_flat_old 0 0) (ex_cfg (Some 0)) ex_d31) = [[0]; [1]; [2]]
  /\ ids_of (runC_with (fun i j => j - i) (match_flat_old 0 0) (ex_cfg None) ex_d31) = [[0; 2]; [1]].
Proof. vm_compute. repeat split. Qed.
Print Assumptions C07_D31_refuted.

(* the inequality cannot be weakened to the property's wording "fragments shorter than the cache radius
   (cache_size)": the margin used by can_be_yielded is cache_size/2, so a start-sorted library whose fragments
   are all shorter than cache_size, one of them longer than cache_size/2, is partitioned differently by an
   ejecting schedule (known finding; the implementation is replayed on this input by replay_known) *)
Example C07_gap_refuted :
  forallb (fun f => f_end f - f_start f <? 40) ex_gap = true
  /\ lag_sortedb 0 ex_gap = true /\ blocksb ex_gap = true
  /\ preb 31 0 (ex_cfg (Some 0)) ex_gap = false
  /\ ids_of (runC (ex_cfg (Some 0)) ex_gap) = [[0]; [1]; [2]]
  /\ ids_of (runC (ex_cfg None) ex_gap) = [[0; 2]; [1]].
Proof. vm_compute. repeat split. Qed.
Print Assumptions C07_gap_refuted.

(* several passes over ONE iterator object: whatever earlier passes (completed, or abandoned after any number of
   yields: `for molecule in it: break`) left in the buffers and the counter, a pass yields exactly what the pass of
   a fresh object yields; iter_clears_at_start is regenerated from the first statements of __iter__ *)
Theorem C07_pass_independent_of_history : forall c buf ctr fs, runC_after c buf ctr fs = runC c fs.
Proof. exact runC_after_fresh. Qed.
Print Assumptions C07_pass_independent_of_history.

Theorem C07_emit_once_any_history : forall c buf ctr fs outs fl,
  runC_after c buf ctr fs = (outs, fl, true) ->
  Permutation (members (concat outs ++ fl)) (filter (wantedC c) fs).
Proof. exact emit_once_any_history. Qed.
Print Assumptions C07_emit_once_any_history.

(* non-vacuity: a pass abandoned at its first yield (inside the flush) leaves three molecules buffered; without the
   clear at the start the next pass would yield every fragment twice *)
Example C07_history_example :
  map (fun st => map mol_ids (concat (map snd (st_groups mol st)))) (historyC (ex_cfg None) [1%nat] ex_d10)
    = [[[0]; [1]; [2; 3]]]
  /\ ids_of (runC_after (ex_cfg None) (st_groups mol (last (historyC (ex_cfg None) [1%nat] ex_d10) (init mol))) 0 ex_d10)
    = [[0]; [1]; [2; 3]]
  /\ ids_of (run_dirty (ex_cfg None) (last (historyC (ex_cfg None) [1%nat] ex_d10) (init mol)) ex_d10)
    = [[0; 0]; [1; 1]; [2; 3; 2; 3]].
Proof. vm_compute. repeat split. Qed.
Print Assumptions C07_history_example.

(* ------------------------------------------------------------------ extension: what every yielded molecule is
   (Proofs/C07_b.v).  For EVERY configuration, schedule and input (no sortedness needed): *)

(* a yielded molecule never mixes two samples *)
Theorem C07_molecule_one_sample : forall c fs outs fl ok, runC c fs = (outs, fl, ok) ->
  forall m, In m (concat outs ++ fl) -> forall g h, In g (m_frags m) -> In h (m_frags m) -> f_sample g = f_sample h.
Proof. exact molecule_one_sample. Qed.
Print Assumptions C07_molecule_one_sample.

(* pooling_method 1: nor two match hashes *)
Theorem C07_molecule_one_hash : forall c fs outs fl ok, c_pooling c =? 0 = false -> runC c fs = (outs, fl, ok) ->
  forall m, In m (concat outs ++ fl) -> forall g h, In g (m_frags m) -> In h (m_frags m) -> f_hash g = f_hash h.
Proof. exact molecule_one_hash. Qed.
Print Assumptions C07_molecule_one_hash.

(* the fragments of a yielded molecule are in arrival order (a subsequence of the input) *)
Theorem C07_molecule_arrival_order : forall c fs outs fl ok, runC c fs = (outs, fl, ok) ->
  forall m, In m (concat outs ++ fl) -> subseq (m_frags m) fs.
Proof. exact molecule_arrival_order. Qed.
Print Assumptions C07_molecule_arrival_order.

(* pooling_method 0: every fragment of a yielded molecule except its first compared equal (Fragment.__eq__: same
   sample / strand / contig, start or end within the radius, UMI within the Hamming distance) to a fragment that was
   already in the molecule: the members are linked by a chain of matches *)
Theorem C07_molecule_chain_flat : forall c fs outs fl ok, c_pooling c =? 0 = true -> runC c fs = (outs, fl, ok) ->
  forall m, In m (concat outs ++ fl) -> forall pre g post, m_frags m = pre ++ g :: post -> pre <> [] ->
  exists g', In g' pre /\ frag_eq_frag (c_radius c) (c_hd c) g' g = true.
Proof. exact molecule_chain_flat. Qed.
Print Assumptions C07_molecule_chain_flat.

(* all of the above as one record (non-empty, one sample, one hash, arrival order, chain) *)
Theorem C07_molecule_sound : forall c fs outs fl ok, runC c fs = (outs, fl, ok) ->
  forall m, In m (concat outs ++ fl) -> exists k, sound_mol c k fs m.
Proof. exact molecule_sound. Qed.
Print Assumptions C07_molecule_sound.

(* non-vacuity: two interleaved cells with identical coordinates and UMI are kept apart by both pooling methods *)
Example C07_molecule_example :
  ids_of (runC (ex_cfg (Some 0)) ex_two) = [[0; 2]; [1; 3]]
  /\ ids_of (runC (ex_cfg1 (Some 0)) ex_two) = [[0; 2]; [1; 3]]
  /\ map (fun m => map f_sample (m_frags m)) (emitted mol (runC (ex_cfg (Some 0)) ex_two)) = [[0; 0]; [1; 1]].
Proof. vm_compute. repeat split. Qed.
Print Assumptions C07_molecule_example.

(* with check_eject_every = None the cache size is never looked at *)
Theorem C07_never_eject_ignores_cache : forall c k fs,
  runC (with_every c None) fs = runC (with_every (with_cache c k) None) fs.
Proof. exact runC_none_cache. Qed.
Print Assumptions C07_never_eject_ignores_cache.

(* monotonicity in cache_size: under the hypotheses the yielded multiset is the same for every larger cache *)
Theorem C07_cache_monotone : forall L lag c k fs, preb L lag c fs = true -> c_cache c <= k ->
  Permutation (emitted mol (runC c fs)) (emitted mol (runC (with_cache c k) fs)).
Proof. exact cache_monotone. Qed.
Print Assumptions C07_cache_monotone.

Example C07_cache_example :
  preb 10 0 (ex_cfg (Some 0)) ex_d10 = true /\ c_cache (ex_cfg (Some 0)) <= 100
  /\ ids_of (runC (ex_cfg (Some 0)) ex_d10) = [[1]; [0]; [2; 3]]
  /\ ids_of (runC (with_cache (ex_cfg (Some 0)) 100) ex_d10) = [[0]; [1]; [2; 3]].
Proof. vm_compute. repeat split; discriminate. Qed.
Print Assumptions C07_cache_example.

(* ------------------------------------------------------------------ none lost, none duplicated (Proofs/C07_c.v):
   with distinguishable reads no molecule is yielded twice and the yielded molecules are pairwise disjoint; together
   with C07_emit_once every wanted read is in exactly one yielded molecule object - every schedule, pooling method,
   cache size, including the final flush *)
Theorem C07_no_molecule_twice : forall c fs outs fl, NoDup (map f_id fs) -> runC c fs = (outs, fl, true) ->
  NoDup (map mol_ids (concat outs ++ fl)) /\ NoDup (concat (map mol_ids (concat outs ++ fl))).
Proof. exact no_molecule_twice. Qed.
Print Assumptions C07_no_molecule_twice.

(* yielded molecules + fragments that joined an existing molecule = wanted fragments *)
Theorem C07_yielded_count : forall c fs outs fl, runC c fs = (outs, fl, true) ->
  length (members (concat outs ++ fl)) = length (filter (wantedC c) fs).
Proof. exact yielded_count. Qed.
Print Assumptions C07_yielded_count.

Example C07_no_twice_example :
  NoDup (map f_id ex_d10) /\ snd (runC (ex_cfg (Some 0)) ex_d10) = true
  /\ map mol_ids (emitted mol (runC (ex_cfg (Some 0)) ex_d10)) = [[1]; [0]; [2; 3]].
Proof. split; [|vm_compute; split; reflexivity]. vm_compute. repeat constructor; cbn; intuition discriminate. Qed.
Print Assumptions C07_no_twice_example.
