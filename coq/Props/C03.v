From Coq Require Import ZArith List Bool Arith.
Import ListNotations.
From SCMO Require Import Lib.Val Model.C03 Proofs.C03.

Example C03_placeholder : hamming [65;67] [65;71] = 1%nat.
Proof. exact placeholder. Qed.
Print Assumptions C03_placeholder.
