(* C03 — property theorems only.  Each is closed by [exact lemma]; Print Assumptions beneath.
   Model: Model/C03.v (hamming_circle, addBarcode, expand, getIndexCorrectedBarcodeAndHammingDistance,
   lazy loading of singlecellmultiomics/barcodeFileParser/barcodeFileParser.py).
   Vocabulary:
     lines                 the (barcode, index) pairs of the barcode file in file order (repeats allowed,
                           lengths may differ)
     eager_tables k lines  the exact + extended tables of an eagerly loaded alias (expand only if k > 0)
     lookup t q            getIndexCorrectedBarcodeAndHammingDistance(q, alias); None = (None, None, None)
     index_of lines b      the index on the LAST line listing barcode b (dict semantics of addBarcode)
     wf_lines / in_alphabet  every character is one of A C G T N *)
From Coq Require Import ZArith List Bool Arith.
Import ListNotations.
From SCMO Require Import Lib.Val Lib.PyInt Gen.GenBarcode Model.C03 Proofs.C03 Proofs.C03_b Proofs.C03_c.
Open Scope Z_scope.

(* ---- T: the kernel REGENERATED from the source (Gen/GenBarcode.v) has the shape every theorem below is
   proved for.  The model is defined with these gen_* definitions, so all theorems are about what the source
   says now; a change of the tie operator, of a range bound, of the compared elements, of the alphabet or of
   the lookup order stops one of these (then the whole development). *)
Theorem C03_T_distance_range : forall k : nat, map Z.to_nat (gen_dist_range (Z.of_nat k)) = seq 0 (S k).
Proof. exact gen_dist_range_shape. Qed.
Print Assumptions C03_T_distance_range.

Theorem C03_T_tie_test : forall len dist,
  gen_tie len dist = ((1 <? len) && (dist 0 =? dist 1)) /\ gen_pick_index len = 0.
Proof. intros len dist. exact (conj (gen_tie_shape len dist) (gen_pick_index_shape len)). Qed.
Print Assumptions C03_T_tie_test.

Theorem C03_T_circle_kernel : forall alen aat cur ar,
  gen_alphabet = [65; 67; 84; 71; 78] /\ gen_repl_range alen = zrange 0 (alen - 1) /\
  gen_replace alen aat cur ar = (if cur =? ar then aat (alen - 1) else ar).
Proof.
  intros alen aat cur ar.
  exact (conj gen_alphabet_shape (conj (gen_repl_range_shape alen) (gen_replace_shape alen aat cur ar))).
Qed.
Print Assumptions C03_T_circle_kernel.

Theorem C03_T_lookup_order : gen_lookup_order = [0; 1; 2].
Proof. exact gen_lookup_order_shape. Qed.
Print Assumptions C03_T_lookup_order.

(* column-order detection with the regenerated character class: a file whose first column holds a whitelist
   barcode over ACGTN is read barcode-first; a file whose first-column tokens all contain a digit is read
   index-first *)
Theorem C03_parse_barcode_first : forall rows,
  (exists r, In r rows /\ in_alphabet (fst r) = true) -> parse_rows rows = rows.
Proof. exact parse_barcode_first. Qed.
Print Assumptions C03_parse_barcode_first.

Theorem C03_parse_index_first : forall rows,
  (forall r, In r rows -> exists c, In c (fst r) /\ 48 <= c <= 57) ->
  parse_rows rows = map (fun r => (snd r, fst r)) rows.
Proof. exact parse_index_first. Qed.
Print Assumptions C03_parse_index_first.

(* hamming_circle(s, n, 'ACTGN') is exactly the Hamming sphere of radius n around s, each string once *)
Theorem C03_circle_spec : forall s n x, Forall alpha s -> Forall alpha x ->
  (In x (circle alphabet s n) <-> length x = length s /\ hamming x s = n).
Proof. exact circle_spec. Qed.
Print Assumptions C03_circle_spec.

Theorem C03_circle_NoDup : forall s n, NoDup (circle alphabet s n).
Proof. exact circle_nodup. Qed.
Print Assumptions C03_circle_NoDup.

(* expand never raises (no KeyError / IndexError) and leaves the exact table as loaded; any whitelist *)
Theorem C03_expand_total : forall lines k, exists t, expand k (load lines) = Ok t /\ bcs t = bcs (load lines).
Proof. exact expand_total. Qed.
Print Assumptions C03_expand_total.

(* MAIN.  For every whitelist over ACGTN (repeated lines and unequal lengths included), every k and every
   observed string over ACGTN: the lookup returns (i, b, d) iff b is whitelisted, d = hamming q b <= k,
   every other whitelisted barcode (of q's length) is strictly farther, and i is b's index. *)
Theorem C03_assign_iff : forall lines k t q,
  eager_tables k lines = Ok t -> wf_lines lines = true -> in_alphabet q = true ->
  forall i b d,
    lookup t q = Some (i, b, d) <->
    (In b (map fst lines) /\ length q = length b /\ d = hamming q b /\ (d <= k)%nat /\
     forall b', In b' (map fst lines) -> b' <> b -> length b' = length q -> (d < hamming q b')%nat)
    /\ index_of lines b = Some i.
Proof. exact eager_assign_iff. Qed.
Print Assumptions C03_assign_iff.

(* the same with all barcodes of the observed length and no barcode listed twice (the usual whitelist):
   "(b, i) is a line of the file", no length side conditions *)
Theorem C03_assign_iff_textbook : forall lines k t q,
  eager_tables k lines = Ok t -> wf_lines lines = true -> in_alphabet q = true ->
  NoDup (map fst lines) -> (forall b, In b (map fst lines) -> length b = length q) ->
  forall i b d,
    lookup t q = Some (i, b, d) <->
    In (b, i) lines /\ d = hamming q b /\ (d <= k)%nat /\
    forall b' i', In (b', i') lines -> b' <> b -> (d < hamming q b')%nat.
Proof. exact assign_iff_textbook. Qed.
Print Assumptions C03_assign_iff_textbook.

(* the boolean predicates K measures imply the hypotheses of the textbook form *)
Theorem C03_nodup_lines_spec : forall lines, nodup_lines lines = true -> NoDup (map fst lines).
Proof. exact nodup_lines_spec. Qed.
Print Assumptions C03_nodup_lines_spec.

(* exact whitelist members map to themselves at distance 0 (any whitelist, any alphabet) *)
Theorem C03_exact_self : forall lines k t b,
  eager_tables k lines = Ok t -> In b (map fst lines) ->
  exists i, index_of lines b = Some i /\ lookup t b = Some (i, b, 0%nat).
Proof. exact exact_self. Qed.
Print Assumptions C03_exact_self.

(* equally close to two whitelist entries, nothing closer: never assigned *)
Theorem C03_tie_none : forall lines k t q b1 b2,
  eager_tables k lines = Ok t -> wf_lines lines = true -> in_alphabet q = true ->
  In b1 (map fst lines) -> In b2 (map fst lines) -> b1 <> b2 ->
  length b1 = length q -> length b2 = length q -> hamming q b1 = hamming q b2 ->
  (forall b, In b (map fst lines) -> length b = length q -> (hamming q b1 <= hamming q b)%nat) ->
  lookup t q = None.
Proof. exact tie_none. Qed.
Print Assumptions C03_tie_none.

(* (None, None, None) iff no whitelisted barcode is the unique nearest one within k *)
Theorem C03_none_iff : forall lines k t q,
  eager_tables k lines = Ok t -> wf_lines lines = true -> in_alphabet q = true ->
  (lookup t q = None <->
   forall b d, ~ (In b (map fst lines) /\ length q = length b /\ d = hamming q b /\ (d <= k)%nat /\
                  forall b', In b' (map fst lines) -> b' <> b -> length b' = length q -> (d < hamming q b')%nat)).
Proof. exact none_iff. Qed.
Print Assumptions C03_none_iff.

(* lazily loaded alias: for every sequence of lookups the answers equal those of the eagerly loaded alias
   (covers k = 0, where only the lazy path runs expand); the eager parser always exists (no exception) *)
Theorem C03_lazy_eq_eager : forall lines k qs,
  exists p, eager_init k lines = Some p /\ answers (lazy_init k lines) qs = answers p qs.
Proof. exact lazy_eq_eager. Qed.
Print Assumptions C03_lazy_eq_eager.

(* the same for every HISTORY of public operations on the alias: lookups interleaved in any order with
   parser[alias] (__getitem__, which also loads a pending alias: parse + expand k) and getTargetCount(alias)
   (which does not load and changes nothing).  All answers coincide with the eager parser's, except the
   counts getTargetCount reports (mask erases them: a pending alias reports (0, 0)). *)
Theorem C03_lazy_eq_eager_ops : forall lines k ops,
  exists p, eager_init k lines = Some p /\
            map mask (run_ops (lazy_init k lines) ops) = map mask (run_ops p ops).
Proof. exact lazy_eq_eager_ops. Qed.
Print Assumptions C03_lazy_eq_eager_ops.

(* the boolean specification evaluated by the check on the implementation's answers (run_C03 mode 2)
   accepts exactly the answer of the lookup *)
Theorem C03_specb_correct : forall lines k t q out,
  eager_tables k lines = Ok t -> wf_lines lines = true -> in_alphabet q = true ->
  (specb lines k q out = true <-> out = lookup t q).
Proof. exact specb_correct. Qed.
Print Assumptions C03_specb_correct.

(* ---- non-vacuity: the whitelist of tests/test_barcodeFileParser.py plus an N-containing entry, a repeated
   line and a shorter barcode; k = 2.  AAA=1 AAT=2 TTT=3 ANA=4 AAT=7 (again) GG=5 *)
Definition ex_lines : list (str * Z) :=
  [([65;65;65], 1); ([65;65;84], 2); ([84;84;84], 3); ([65;78;65], 4); ([65;65;84], 7); ([71;71], 5)].

Example C03_ex_hypotheses :
  wf_lines ex_lines = true /\ in_alphabet [67;84;67] = true /\ nodup_lines ex_lines = false /\
  equal_length ex_lines = false /\ exists t, eager_tables 2 ex_lines = Ok t.
Proof. vm_compute. repeat split; eauto. Qed.
Print Assumptions C03_ex_hypotheses.

Example C03_ex_lookups :
  match eager_tables 2 ex_lines with
  | Ok t =>
      lookup t [67;84;67] = Some (3, [84;84;84], 2%nat)        (* CTC -> TTT at 2 *)
      /\ lookup t [65;65;71] = None                             (* AAG: AAA and AAT tie at 1 *)
      /\ lookup t [65;65;84] = Some (7, [65;65;84], 0%nat)      (* AAT exact, index of the last line *)
      /\ lookup t [78;78;65] = Some (4, [65;78;65], 1%nat)      (* NNA -> ANA at 1 *)
      /\ lookup t [71;78] = Some (5, [71;71], 1%nat)            (* GN -> GG (the only 2-mer) *)
      /\ lookup t [67;67;67] = None                             (* CCC: nothing within 2 ... TTT is at 3 *)
  | _ => False
  end.
Proof. vm_compute. repeat split. Qed.
Print Assumptions C03_ex_lookups.

Example C03_ex_lazy :
  answers (lazy_init 0 ex_lines) [[65;65;71]; [65;65;65]] = [Ans None; Ans (Some (1, [65;65;65], 0%nat))]
  /\ length (circle alphabet [65;78;65] 2) = 48%nat.
Proof. vm_compute. split; reflexivity. Qed.
Print Assumptions C03_ex_lazy.

(* parser[alias] first, then a lookup at distance 1: the expansion must have happened (k = 1) *)
Example C03_ex_getitem_then_lookup :
  run_ops (lazy_init 1 ex_lines) [OTargetCount; OGetItem; OLookup [84;65;65]; OTargetCount] =
  [Counts 0 0;
   Items [([65;65;65], 1); ([65;65;84], 7); ([84;84;84], 3); ([65;78;65], 4); ([71;71], 5)];
   Ans (Some (1, [65;65;65], 1%nat));
   Counts 5 34].
Proof. vm_compute. reflexivity. Qed.
Print Assumptions C03_ex_getitem_then_lookup.

Example C03_ex_parse :
  parse_rows [([49;50], [65;78;84]); ([55], [71;71;71])] = [([65;78;84], [49;50]); ([71;71;71], [55])]
  /\ parse_rows [([65;78;84], [49;50])] = [([65;78;84], [49;50])].
Proof. vm_compute. split; reflexivity. Qed.
Print Assumptions C03_ex_parse.
