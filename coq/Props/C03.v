(* C03 — property theorems only.  Each is closed by [exact lemma]; Print Assumptions beneath.
   Model: Model/C03.v (hamming_circle, addBarcode, expand, getIndexCorrectedBarcodeAndHammingDistance,
   lazy loading of singlecellmultiomics/barcodeFileParser/barcodeFileParser.py).
   Vocabulary:
     lines                 the (barcode, index) pairs of the barcode file in file order (repeats allowed,
                           lengths may differ)
     eager_tables k lines  the exact + extended tables of an eagerly loaded alias (expand only if k > 0)
     lookup t q            getIndexCorrectedBarcodeAndHammingDistance(q, alias); None = (None, None, None)
     index_of lines b      the index on the LAST line listing barcode b (dict semantics of addBarcode)
     wf_lines / in_alphabet  every character is one of A C G T N *)
From Coq Require Import ZArith List Bool Arith.
Import ListNotations.
From SCMO Require Import Lib.Val Lib.PyInt Gen.GenBarcode Model.C03 Proofs.C03 Proofs.C03_b Proofs.C03_c.
Open Scope Z_scope.

(* ---- T: the kernel REGENERATED from the source (Gen/GenBarcode.v) has the shape every theorem below is
   proved for.  The model is defined with these gen_* definitions, so all theorems are about what the source
   says now; a change of the tie operator, of a range bound, of the compared elements, of the alphabet or of
   the lookup order stops one of these (then the whole development). *)
Theorem C03_T_distance_range : forall k : nat, map Z.to_nat (gen_dist_range (Z.of_nat k)) = seq 0 (S k).
Proof. exact gen_dist_range_shape. Qed.
Print Assumptions C03_T_distance_range.

Theorem C03_T_tie_test : forall len dist,
  gen_tie len dist = ((1 <? len) && (dist 0 =? dist 1)) /\ gen_pick_index len = 0.
Proof. intros len dist. exact (conj (gen_tie_shape len dist) (gen_pick_index_shape len)). Qed.
Print Assumptions C03_T_tie_test.

Theorem C03_T_circle_kernel : forall alen aat cur ar,
  gen_alphabet = [65; 67; 84; 71; 78] /\ gen_repl_range alen = zrange 0 (alen - 1) /\
  gen_replace alen aat cur ar = (if cur =? ar then aat (alen - 1) else ar).
Proof.
  intros alen aat cur ar.
  exact (conj gen_alphabet_shape (conj (gen_repl_range_shape alen) (gen_replace_shape alen aat cur ar))).
Qed.
Print Assumptions C03_T_circle_kernel.

Theorem C03_T_lookup_order : gen_lookup_order = [0; 1; 2].
Proof. exact gen_lookup_order_shape. Qed.
Print Assumptions C03_T_lookup_order.

(* column-order detection with the regenerated character class: a file whose first column holds a whitelist
   barcode over ACGTN is read barcode-first; a file whose first-column tokens all contain a digit is read
   index-first *)
Theorem C03_parse_barcode_first : forall rows,
  (exists r, In r rows /\ in_alphabet (fst r) = true) -> parse_rows rows = rows.
Proof. exact parse_barcode_first. Qed.
Print Assumptions C03_parse_barcode_first.

Theorem C03_parse_index_first : forall rows,
  (forall r, In r rows -> exists c, In c (fst r) /\ 48 <= c <= 57) ->
  parse_rows rows = map (fun r => (snd r, fst r)) rows.
Proof. exact parse_index_first. Qed.
Print Assumptions C03_parse_index_first.

(* hamming_circle(s, n, 'ACTGN') is exactly the Hamming sphere of radius n around s, each string once *)
Theorem C03_circle_spec : forall s n x, Forall alpha s -> Forall alpha x ->
  (In x (circle alphabet s n) <-> length x = length s /\ hamming x s = n).
Proof. exact circle_spec. Qed.
Print Assumptions C03_circle_spec.

Theorem C03_circle_NoDup : forall s n, NoDup (circle alphabet s n).
Proof. exact circle_nodup. Qed.
Print Assumptions C03_circle_NoDup.

(* expand never raises (no KeyError / IndexError) and leaves the exact table as loaded; any whitelist *)
Theorem C03_expand_total : forall lines k, exists t, expand k (load lines) = Ok t /\ bcs t = bcs (load lines).
Proof. exact expand_total. Qed.
Print Assumptions C03_expand_total.

(* MAIN.  For every whitelist over ACGTN (repeated lines and unequal lengths included), every k and every
   observed string over ACGTN: the lookup returns (i, b, d) iff b is whitelisted, d = hamming q b <= k,
   every other whitelisted barcode (of q's length) is strictly farther, and i is b's index. *)
Theorem C03_assign_iff : forall lines k t q,
  eager_tables k lines = Ok t -> wf_lines lines = true -> in_alphabet q = true ->
  forall i b d,
    lookup t q = Some (i, b, d) <->
    (In b (map fst lines) /\ length q = length b /\ d = hamming q b /\ (d <= k)%nat /\
     forall b', In b' (map fst lines) -> b' <> b -> length b' = length q -> (d < hamming q b')%nat)
    /\ index_of lines b = Some i.
Proof. exact eager_assign_iff. Qed.
Print Assumptions C03_assign_iff.

(* the same with all barcodes of the observed length and no barcode listed twice (the usual whitelist):
   "(b, i) is a line of the file", no length side conditions *)
Theorem C03_assign_iff_textbook : forall lines k t q,
  eager_tables k lines = Ok t -> wf_lines lines = true -> in_alphabet q = true ->
  NoDup (map fst lines) -> (forall b, In b (map fst lines) -> length b = length q) ->
  forall i b d,
    lookup t q = Some (i, b, d) <->
    In (b, i) lines /\ d = hamming q b /\ (d <= k)%nat /\
    forall b' i', In (b', i') lines -> b' <> b -> (d < hamming q b')%nat.
Proof. exact assign_iff_textbook. Qed.
Print Assumptions C03_assign_iff_textbook.

(* the boolean predicates K measures imply the hypotheses of the textbook form *)
Theorem C03_nodup_lines_spec : forall lines, nodup_lines lines = true -> NoDup (map fst lines).
Proof. exact nodup_lines_spec. Qed.
Print Assumptions C03_nodup_lines_spec.

(* exact whitelist members map to themselves at distance 0 (any whitelist, any alphabet) *)
Theorem C03_exact_self : forall lines k t b,
  eager_tables k lines = Ok t -> In b (map fst lines) ->
  exists i, index_of lines b = Some i /\ lookup t b = Some (i, b, 0%nat).
Proof. exact exact_self. Qed.
Print Assumptions C03_exact_self.

(* equally close to two whitelist entries, nothing closer: never assigned *)
Theorem C03_tie_none : forall lines k t q b1 b2,
  eager_tables k lines = Ok t -> wf_lines lines = true -> in_alphabet q = true ->
  In b1 (map fst lines) -> In b2 (map fst lines) -> b1 <> b2 ->
  length b1 = length q -> length b2 = length q -> hamming q b1 = hamming q b2 ->
  (forall b, In b (map fst lines) -> length b = length q -> (hamming q b1 <= hamming q b)%nat) ->
  lookup t q = None.
Proof. exact tie_none. Qed.
Print Assumptions C03_tie_none.

(* (None, None, None) iff no whitelisted barcode is the unique nearest one within k *)
Theorem C03_none_iff : forall lines k t q,
  eager_tables k lines = Ok t -> wf_lines lines = true -> in_alphabet q = true ->
  (lookup t q = None <->
   forall b d, ~ (In b (map fst lines) /\ length q = length b /\ d = hamming q b /\ (d <= k)%nat /\
                  forall b', In b' (map fst lines) -> b' <> b -> length b' = length q -> (d < hamming q b')%nat)).
Proof. exact none_iff. Qed.
Print Assumptions C03_none_iff.

(* lazily loaded alias: for every sequence of lookups the answers equal those of the eagerly loaded alias
   (covers k = 0, where only the lazy path runs expand); the eager parser always exists (no exception) *)
Theorem C03_lazy_eq_eager : forall lines k qs,
  exists p, eager_init k lines = Some p /\ answers (lazy_init k lines) qs = answers p qs.
Proof. exact lazy_eq_eager. Qed.
Print Assumptions C03_lazy_eq_eager.

(* the same for every HISTORY of public operations on the alias: lookups interleaved in any order with
   parser[alias] (__getitem__, which also loads a pending alias: parse + expand k) and getTargetCount(alias)
   (which does not load and changes nothing).  All answers coincide with the eager parser's, except the
   counts getTargetCount reports (mask erases them: a pending alias reports (0, 0)). *)
Theorem C03_lazy_eq_eager_ops : forall lines k ops,
  exists p, eager_init k lines = Some p /\
            map mask (run_ops (lazy_init k lines) ops) = map mask (run_ops p ops).
Proof. exact lazy_eq_eager_ops. Qed.
Print Assumptions C03_lazy_eq_eager_ops.

(* the boolean specification evaluated by the check on the implementation's answers (run_C03 mode 2)
   accepts exactly the answer of the lookup *)
Theorem C03_specb_correct : forall lines k t q out,
  eager_tables k lines = Ok t -> wf_lines lines = true -> in_alphabet q = true ->
  (specb lines k q out = true <-> out = lookup t q).
Proof. exact specb_correct. Qed.
Print Assumptions C03_specb_correct.

(* ---- non-vacuity: the whitelist of tests/test_barcodeFileParser.py plus an N-containing entry, a repeated
   line and a shorter barcode; k = 2.  AAA=1 AAT=2 TTT=3 ANA=4 AAT=7 (again) GG=5 *)
Definition ex_lines : list (str * Z) :=
  [([65;65;65], 1); ([65;65;84], 2); ([84;84;84], 3); ([65;78;65], 4); ([65;65;84], 7); ([71;71], 5)].

Example C03_ex_hypotheses :
  wf_lines ex_lines = true /\ in_alphabet [67;84;67] = true /\ nodup_lines ex_lines = false /\
  equal_length ex_lines = false /\ exists t, eager_tables 2 ex_lines = Ok t.
Proof. vm_compute. repeat split; eauto. Qed.
Print Assumptions C03_ex_hypotheses.

Example C03_ex_lookups :
  match eager_tables 2 ex_lines with
  | Ok t =>
      lookup t [67;84;67] = Some (3, [84;84;84], 2%nat)        (* CTC -> TTT at 2 *)
      /\ lookup t [65;65;71] = None                             (* AAG: AAA and AAT tie at 1 *)
      /\ lookup t [65;65;84] = Some (7, [65;65;84], 0%nat)      (* AAT exact, index of the last line *)
      /\ lookup t [78;78;65] = Some (4, [65;78;65], 1%nat)      (* NNA -> ANA at 1 *)
      /\ lookup t [71;78] = Some (5, [71;71], 1%nat)            (* GN -> GG (the only 2-mer) *)
      /\ lookup t [67;67;67] = None                             (* CCC: nothing within 2 ... TTT is at 3 *)
  | _ => False
  end.
Proof. vm_compute. repeat split. Qed.
Print Assumptions C03_ex_lookups.

Example C03_ex_lazy :
  answers (lazy_init 0 ex_lines) [[65;65;71]; [65;65;65]] = [Ans None; Ans (Some (1, [65;65;65], 0%nat))]
  /\ length (circle alphabet [65;78;65] 2) = 48%nat.
Proof. vm_compute. split; reflexivity. Qed.
Print Assumptions C03_ex_lazy.

(* parser[alias] first, then a lookup at distance 1: the expansion must have happened (k = 1) *)
Example C03_ex_getitem_then_lookup :
  run_ops (lazy_init 1 ex_lines) [OTargetCount; OGetItem; OLookup [84;65;65]; OTargetCount] =
  [Counts 0 0;
   Items [([65;65;65], 1); ([65;65;84], 7); ([84;84;84], 3); ([65;78;65], 4); ([71;71], 5)];
   Ans (Some (1, [65;65;65], 1%nat));
   Counts 5 34].
Proof. vm_compute. reflexivity. Qed.
Print Assumptions C03_ex_getitem_then_lookup.

Example C03_ex_parse :
  parse_rows [([49;50], [65;78;84]); ([55], [71;71;71])] = [([65;78;84], [49;50]); ([71;71;71], [55])]
  /\ parse_rows [([65;78;84], [49;50])] = [([65;78;84], [49;50])].
Proof. vm_compute. split; reflexivity. Qed.
Print Assumptions C03_ex_parse.

(* ======================================================================================================
   The whitelist FILE reader at character level (Model/C03x.v): BarcodeParser.parse_barcode_file and, composed
   with the tables above, parse_pending_barcode_file_of_alias / __init__.
   Vocabulary:
     text                      the decoded content of the barcode file (code points); plain and .gz files differ
                               only in how the text is obtained
     split_lines text          the lines `for line in f` yields (universal newlines, terminator handed over as \n)
     parts_of line             the columns as coded: line.strip().split() and the `' ' in line` re-split
     parse_file maxd text      the (barcode, index) sequence of addBarcode calls, None = ValueError;
                               maxd = sys.get_int_max_str_digits() (0 = unlimited); index = IInt z | IStr token
     print_rows rows           any lines of tokens: lead ++ tokens joined by sep ++ trail ++ eol per row
     rows_okb rows             lead/sep/trail are white space other than \n \r, sep non-empty, tokens non-empty without
                               white space, eol is \n, \r\n or a lone \r; the last row may end without terminator
     print_wl ly ws            a whitelist ws = [(decoration, (index, barcode))] printed one-column / barcode-first /
                               index-first; wl_okb: rows_okb + barcodes non-empty over ACGTN + printable indices
                               (1 column: the index IS the line number)
     degenerate ws             some index is printed as a token of column-class letters (ATCGNX) only
   ====================================================================================================== *)
From SCMO Require Import Model.C03x Proofs.C03x Proofs.C03x_b.

(* ---- T: the pieces of parse_barcode_file REGENERATED from the source have the shape the proofs use; the
   white-space class (str.isspace, by reflection) contains blank, tab, \n and \r *)
Theorem C03_T_file_kernel : forall n i,
  gen_is_single n = (n =? 1) /\ gen_is_pair n = (n =? 2) /\ gen_lineno_index i = i + 1 /\
  gen_resplit_char = 32 /\ gen_column_class = [65; 84; 67; 71; 78; 88] /\
  is_space 32 = true /\ is_space 9 = true /\ is_space 10 = true /\ is_space 13 = true.
Proof.
  intros n i.
  exact (conj (gen_is_single_shape n) (conj (gen_is_pair_shape n) (conj (gen_lineno_index_shape i)
        (conj gen_resplit_char_shape (conj eq_refl space_facts))))).
Qed.
Print Assumptions C03_T_file_kernel.

(* the `if len(parts) == 1 and ' ' in line: parts = line.strip().split(' ')` fallback is dead code and strip()
   before split() changes nothing: for EVERY line the columns are line.split() *)
Theorem C03_file_parts_are_split : forall line, parts_of line = split_ws line.
Proof. exact parts_of_eq. Qed.
Print Assumptions C03_file_parts_are_split.

(* tokenisation round trip, by induction over lines and characters: printing any rows of tokens with admissible
   white space / line ends and reading them as parse_barcode_file does gives back the tokens of every row
   (blank rows, rows of 3+ tokens, trailing white space, \r\n and \r line ends, no final newline included) *)
Theorem C03_file_tokenise_printed : forall rows,
  rows_okb rows = true -> file_parts (print_rows rows) = map r_toks rows.
Proof. exact tokenise_printed. Qed.
Print Assumptions C03_file_tokenise_printed.

(* ValueError exactly when some line has no column (blank line) or more than two *)
Theorem C03_file_raises_iff : forall maxd rows, rows_okb rows = true ->
  (parse_file maxd (print_rows rows) = None <->
   exists r, In r rows /\ length (r_toks r) <> 1%nat /\ length (r_toks r) <> 2%nat).
Proof. exact file_raises_iff. Qed.
Print Assumptions C03_file_raises_iff.

(* EVERY two-column file of admissible tokens, exactly: it is read barcode-first iff SOME first-column token
   consists of column-class characters only; the index is int(token) when int() accepts the token *)
Theorem C03_file_two_column_exact : forall maxd (drows : list (row * (str * str))),
  let rows := map (fun dr => mkRow (r_lead (fst dr)) [fst (snd dr); snd (snd dr)] (r_sep (fst dr))
                                   (r_trail (fst dr)) (r_eol (fst dr))) drows in
  let pairs := map snd drows in
  rows_okb rows = true ->
  parse_file maxd (print_rows rows) =
  Some (if existsb (fun p => is_barcode_token (fst p)) pairs
        then map (fun p => (fst p, index_rule maxd (snd p))) pairs
        else map (fun p => (snd p, index_rule maxd (fst p))) pairs).
Proof. exact two_column_exact. Qed.
Print Assumptions C03_file_two_column_exact.

(* the index rule of the code (int(token) when int() accepts the token, else the token) is inverted by printing:
   int(str(z)) = z for every integer z whose decimal form is within the interpreter's digit limit, and a name
   int() refuses stays itself *)
Theorem C03_index_rule_print : forall maxd ix, idx_okb maxd ix = true -> index_rule maxd (print_index ix) = ix.
Proof. exact index_rule_print. Qed.
Print Assumptions C03_index_rule_print.

(* PRINT / PARSE ROUND TRIP, all three layouts: the addBarcode sequence is exactly the whitelist, in file order
   (repeated lines included).  Index-first needs the file not to be degenerate. *)
Theorem C03_file_roundtrip : forall maxd ly ws,
  wl_okb maxd ly ws = true -> (ly = LIndexFirst -> degenerate ws = false) ->
  parse_file maxd (print_wl ly ws) = Some (map swap_w ws).
Proof. exact file_roundtrip. Qed.
Print Assumptions C03_file_roundtrip.

(* index-first files exactly, degenerate or not: a degenerate file is read with the columns exchanged - the
   index names become the barcodes and the barcodes become (string) indices *)
Theorem C03_file_index_first_exact : forall maxd ws, wl_okb maxd LIndexFirst ws = true ->
  parse_file maxd (print_wl LIndexFirst ws) =
  Some (if degenerate ws then map (fun w => (print_index (wix w), IStr (wbc w))) ws else map swap_w ws).
Proof. exact file_index_first_exact. Qed.
Print Assumptions C03_file_index_first_exact.

(* the detected column order (indexNotFirst) of a printed whitelist *)
Theorem C03_file_detect : forall maxd ly ws, wl_okb maxd ly ws = true ->
  file_index_not_first (file_parts (print_wl ly ws)) =
  match ly with LOne => false | LBarcodeFirst => negb (is_nil ws) | LIndexFirst => degenerate ws end.
Proof. exact file_detect. Qed.
Print Assumptions C03_file_detect.

(* the degenerate files characterised: some index is a STRING of column-class letters; an integer index never is
   (and a barcode column made of digits cannot be mistaken either: C03_parse_index_first above) *)
Theorem C03_file_degenerate_iff : forall ws,
  degenerate ws = true <-> exists w s, In w ws /\ wix w = IStr s /\ is_barcode_token s = true.
Proof. exact degenerate_iff. Qed.
Print Assumptions C03_file_degenerate_iff.

(* REFUTED without the hypothesis: the round trip and "exact members map to themselves" fail for the index-first
   file  "1\tCC\nN\tAA\n"  - the index name N flips the whole file, AA is not found any more *)
Theorem C03_file_index_first_degenerate_refuted :
  wl_okb 4300 LIndexFirst ws_degenerate = true /\
  parse_file 4300 (print_wl LIndexFirst ws_degenerate) <> Some (map swap_w ws_degenerate) /\
  parse_file 4300 (print_wl LIndexFirst ws_degenerate) = Some [([49], IStr [67; 67]); ([78], IStr [65; 65])] /\
  exists t, file_tables (num_of_table [([65; 65], 7); ([67; 67], 8)]) 4300 1 (print_wl LIndexFirst ws_degenerate) = Some (Ok t) /\
            In [65; 65] (map wbc ws_degenerate) /\ lookup t [65; 65] = None.
Proof. exact file_index_first_degenerate_refuted. Qed.
Print Assumptions C03_file_index_first_degenerate_refuted.

(* END TO END, file -> lookup: for every printed whitelist file (any layout, any admissible white space and line
   ends), every numbering num of the indices, every k and every observed string over ACGTN, reading the file,
   expanding and looking up returns (i, b, d) iff b is the unique nearest listed barcode within k, d its distance
   and i the (number of the) index on the LAST line that lists b *)
Theorem C03_file_lookup_iff : forall num maxd k ly ws q,
  wl_okb maxd ly ws = true -> (ly = LIndexFirst -> degenerate ws = false) -> in_alphabet q = true ->
  exists t, file_tables num maxd k (print_wl ly ws) = Some (Ok t) /\
  forall i b d,
    lookup t q = Some (i, b, d) <->
    (In b (map wbc ws) /\ length q = length b /\ d = hamming q b /\ (d <= k)%nat /\
     forall b', In b' (map wbc ws) -> b' <> b -> length b' = length q -> (d < hamming q b')%nat)
    /\ exists ix, index_ofx (map swap_w ws) b = Some ix /\ i = num ix.
Proof. exact file_lookup_iff. Qed.
Print Assumptions C03_file_lookup_iff.

Theorem C03_file_exact_self : forall num maxd k ly ws b,
  wl_okb maxd ly ws = true -> (ly = LIndexFirst -> degenerate ws = false) -> In b (map wbc ws) ->
  exists t ix, file_tables num maxd k (print_wl ly ws) = Some (Ok t) /\
               index_ofx (map swap_w ws) b = Some ix /\ lookup t b = Some (num ix, b, 0%nat).
Proof. exact file_exact_self. Qed.
Print Assumptions C03_file_exact_self.

(* ANY file text: the lazily loaded alias (pending file, parsed + expanded at the first touch) answers every
   history of operations like the eagerly loaded one (counts masked); both refuse exactly the files parse refuses *)
Theorem C03_file_lazy_eq_eager : forall num maxd k text ops,
  match file_run num maxd k true text ops, file_run num maxd k false text ops with
  | Some a, Some b => map mask a = map mask b
  | None, None => parse_file maxd text = None
  | _, _ => False
  end.
Proof. exact file_lazy_eq_eager. Qed.
Print Assumptions C03_file_lazy_eq_eager.

(* ---- non-vacuity.  An index-first file with every kind of decoration:
     "1\tAAA\n" ; " 12  AAT \t\r\n" ; "c3\tTTT\r" ; "-4 ANA" (no final newline) ; AAT listed again with index 007? no:
   indices 1, 12, c3 (a name), -4;  barcodes AAA AAT TTT ANA *)
Definition ex_ws : list wrow :=
  [(mkDeco [] [9] [] [10], (IInt 1, [65;65;65]));
   (mkDeco [32] [32;32] [32;9] [13;10], (IInt 12, [65;65;84]));
   (mkDeco [] [9] [] [13], (IStr [99;51], [84;84;84]));
   (mkDeco [160] [32] [] [], (IInt (-4), [65;78;65]))].

Example C03_ex_file_index_first :
  wl_okb 4300 LIndexFirst ex_ws = true /\ degenerate ex_ws = false /\
  print_wl LIndexFirst ex_ws =
    [49;9;65;65;65;10; 32;49;50;32;32;65;65;84;32;9;13;10; 99;51;9;84;84;84;13; 160;45;52;32;65;78;65] /\
  parse_file 4300 (print_wl LIndexFirst ex_ws) =
    Some [([65;65;65], IInt 1); ([65;65;84], IInt 12); ([84;84;84], IStr [99;51]); ([65;78;65], IInt (-4))].
Proof. vm_compute. repeat split; reflexivity. Qed.
Print Assumptions C03_ex_file_index_first.

(* the same whitelist barcode-first; one column (indices = line numbers 1..3); a blank line and a 3-column line
   are refused; 007, +7 and 1_0 are read as integers; with a digit limit of 5 a 6-digit token (zeros and all) stays a string, without limit it is an integer *)
Example C03_ex_file_other_layouts :
  wl_okb 4300 LBarcodeFirst ex_ws = true /\
  parse_file 4300 (print_wl LBarcodeFirst ex_ws) = Some (map swap_w ex_ws) /\
  (let one := [(mkDeco [] [] [] [10], (IInt 1, [65;67])); (mkDeco [9] [] [32] [13;10], (IInt 2, [71;71]));
               (mkDeco [] [] [] [], (IInt 3, [65;67]))] in
   wl_okb 0 LOne one = true /\ parse_file 0 (print_wl LOne one) = Some [([65;67], IInt 1); ([71;71], IInt 2); ([65;67], IInt 3)]) /\
  parse_file 0 [65;67;10;10;71;71;10] = None /\
  parse_file 0 [49;32;65;67;32;120;10] = None /\
  index_rule 4300 [48;48;55] = IInt 7 /\ index_rule 4300 [43;55] = IInt 7 /\ index_rule 4300 [49;95;48] = IInt 10 /\
  index_rule 4300 [49;95;95;48] = IStr [49;95;95;48] /\
  index_rule 5 [49;50;51;52;53] = IInt 12345 /\ index_rule 5 [49;50;51;52;53;54] = IStr [49;50;51;52;53;54] /\
  index_rule 5 [48;95;48;48;48;48;49] = IStr [48;95;48;48;48;48;49] /\ index_rule 0 [49;50;51;52;53;54] = IInt 123456.
Proof. vm_compute. repeat split; reflexivity. Qed.
Print Assumptions C03_ex_file_other_layouts.

(* file -> lookup: k = 1 on the index-first example file; AAG ties (AAA, AAT), TTA -> TTT with the index NAME c3
   (numbered 1000003 by this num), NNA -> ANA with index -4 *)
Example C03_ex_file_lookup :
  match file_tables (num_of_table [([99;51], 1000003)]) 4300 1 (print_wl LIndexFirst ex_ws) with
  | Some (Ok t) =>
      lookup t [65;65;71] = None /\ lookup t [84;84;65] = Some (1000003, [84;84;84], 1%nat) /\
      lookup t [78;78;65] = Some (-4, [65;78;65], 1%nat) /\ lookup t [65;65;84] = Some (12, [65;65;84], 0%nat)
  | _ => False
  end.
Proof. vm_compute. repeat split; reflexivity. Qed.
Print Assumptions C03_ex_file_lookup.
