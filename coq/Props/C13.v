From Coq Require Import ZArith List Bool.
Import ListNotations.
From SCMO Require Import Model.C13 Proofs.C13.
Open Scope Z_scope.
Theorem C13_pick_higher : forall b1 q1 b2 q2, 0 <= q2 < q1 -> pick_best [Some (b1, q1); Some (b2, q2)] = (b1, q1).
Proof. exact pick2_hi. Qed.
Print Assumptions C13_pick_higher.
