(* C13 - property theorems only.  Each is closed by [exact lemma]; Print Assumptions beneath.
   Model (coq/Model/C13.v): mol_consensus = Molecule.get_consensus, frag_consensus = Fragment.get_consensus,
   pick_best = sequtils.pick_best_base_call, window/read_dict = get_consensus_dictionaries/read_to_consensus_dict.
   [skip] is the molecule's skip test: skip_fixed = repaired rule (fixes/C13-D16.patch), skip_head = /repo HEAD rule.
   frag_call skip ds f k = the one call fragment f contributes at key k = (contig, refpos) (None = no vote: skipped,
   ValueError, not covered, or 'N'); votes skip ds fs k b = number of fragments of fs whose call at k is b.
   pre fs = every fragment has the two-slot reads list and every query base is one of ACGTN.
   [ds : opts] is the whole keyword-option record of the query (dove_safe, only_include_refbase, min_phred_score,
   skip_first/last_n_cycles_R1/R2, dove_R1/R2_distance); every theorem quantifies over it. *)
From Coq Require Import ZArith List Bool Permutation.
Import ListNotations.
From SCMO Require Import Lib.Val Gen.GenConsensus Model.C13 Model.C13x Proofs.C13 Proofs.C13x.
Open Scope Z_scope.

(* the consensus base at k is b iff b is called by strictly more fragments than every other base (and is not N) *)
Theorem C13_majority : forall skip ds fs out k b, pre fs = true -> mol_consensus skip ds fs = Ok out ->
  (dget k out = Some b <->
   In b acgt /\ forall b', In b' acgt -> b' <> b -> votes skip ds fs k b' < votes skip ds fs k b).
Proof. exact majority_pre. Qed.
Print Assumptions C13_majority.

(* same statement as one equation with the brute-force vote [majority] (find over ACGT of the strict maximum) *)
Theorem C13_consensus_is_majority : forall skip ds fs out k, bases_ok fs -> mol_consensus skip ds fs = Ok out ->
  dget k out = majority skip ds fs k.
Proof. exact consensus_is_majority. Qed.
Print Assumptions C13_consensus_is_majority.

(* under the precondition the call returns (no exception) *)
Theorem C13_total : forall skip ds fs, pre fs = true -> exists out, mol_consensus skip ds fs = Ok out.
Proof. exact total_pre. Qed.
Print Assumptions C13_total.

(* outcome without any precondition: IndexError exactly when a fragment that is not skipped has a reads list
   shorter than two; ValueError never escapes *)
Theorem C13_outcome : forall skip ds fs,
  (mol_consensus skip ds fs = IndexError <->
   exists f, In f fs /\ skip ds f = false /\ frag_consensus ds f = IndexError) /\
  mol_consensus skip ds fs <> ValueError.
Proof. exact outcome_iff. Qed.
Print Assumptions C13_outcome.
Theorem C13_index_error_iff_short : forall ds f, frag_consensus ds f = IndexError <-> (length f < 2)%nat.
Proof. exact frag_index_error. Qed.
Print Assumptions C13_index_error_iff_short.

(* a tie for the highest count is absent from the consensus *)
Theorem C13_tie_absent : forall skip ds fs out k b1 b2, bases_ok fs -> mol_consensus skip ds fs = Ok out ->
  In b1 acgt -> In b2 acgt -> b1 <> b2 -> votes skip ds fs k b1 = votes skip ds fs k b2 ->
  (forall b, In b acgt -> votes skip ds fs k b <= votes skip ds fs k b1) ->
  dget k out = None.
Proof. exact tie_absent. Qed.
Print Assumptions C13_tie_absent.

(* a position where no fragment has a non-N call (covered only by N, or not covered) is absent *)
Theorem C13_onlyN_absent : forall skip ds fs out k, bases_ok fs -> mol_consensus skip ds fs = Ok out ->
  (forall f, In f fs -> frag_call skip ds f k = None) -> dget k out = None.
Proof. exact no_votes_absent. Qed.
Print Assumptions C13_onlyN_absent.
Theorem C13_N_is_no_call : forall skip ds f k, frag_call skip ds f k <> Some bN.
Proof. exact frag_call_not_N. Qed.
Print Assumptions C13_N_is_no_call.

(* the vote table the code accumulates (consensii) holds exactly the declarative votes; the N slot stays 0 *)
Theorem C13_table_is_votes : forall skip ds fs t k j, pre fs = true -> mol_table skip ds fs [] = Ok t -> (j < 5)%nat ->
  vnth j (tget k t) = votes skip ds fs k (index_base j) /\ vnth 4 (tget k t) = 0.
Proof. exact table_is_votes. Qed.
Print Assumptions C13_table_is_votes.

(* each fragment contributes exactly one call per position it has a call at, none elsewhere:
   the total of the vote vector at k is the number of fragments with a call at k *)
Theorem C13_one_call_per_fragment : forall skip ds fs t k, bases_ok fs -> mol_table skip ds fs [] = Ok t ->
  vsum (tget k t) = Z.of_nat (length (filter (has_call skip ds k) fs)).
Proof. exact one_call_per_fragment. Qed.
Print Assumptions C13_one_call_per_fragment.

(* insertion order is irrelevant (no precondition: also the exception outcome is order independent).
   res_equiv (Ok x) (Ok y) = forall k, dget k x = dget k y *)
Theorem C13_perm : forall skip ds fs fs', Permutation fs fs' ->
  res_equiv (mol_consensus skip ds fs) (mol_consensus skip ds fs').
Proof. exact perm_invariant. Qed.
Print Assumptions C13_perm.

(* duplicating every fragment (in any interleaving) leaves the consensus unchanged *)
Theorem C13_double : forall skip ds fs fs2, Permutation fs2 (fs ++ fs) ->
  res_equiv (mol_consensus skip ds fs2) (mol_consensus skip ds fs).
Proof. exact double_invariant. Qed.
Print Assumptions C13_double.

(* pick_best_base_call: highest quality wins; equal best quality with different bases is ('N', 0); no calls is ('N', 0) *)
Theorem C13_pick_unique : forall cs b q, calls_nonneg cs -> In (Some (b, q)) cs ->
  (forall b' q', In (Some (b', q')) cs -> q' <= q /\ (q' = q -> b' = b)) -> pick_best cs = (b, q).
Proof. exact pick_unique. Qed.
Print Assumptions C13_pick_unique.
Theorem C13_pick_tie : forall cs b1 b2 q, calls_nonneg cs -> In (Some (b1, q)) cs -> In (Some (b2, q)) cs -> b1 <> b2 ->
  (forall b' q', In (Some (b', q')) cs -> q' <= q) -> pick_best cs = (bN, 0).
Proof. exact pick_tie. Qed.
Print Assumptions C13_pick_tie.
Theorem C13_pick_none : forall cs, (forall c, In c cs -> c = None) -> pick_best cs = (bN, 0).
Proof. exact pick_none. Qed.
Print Assumptions C13_pick_none.
Theorem C13_pick_comm : forall c1 c2, calls_nonneg [c1; c2] -> pick_best [c1; c2] = pick_best [c2; c1].
Proof. exact pick2_comm. Qed.
Print Assumptions C13_pick_comm.
Theorem C13_pick_higher : forall b1 q1 b2 q2, 0 <= q2 < q1 ->
  pick_best [Some (b1, q1); Some (b2, q2)] = (b1, q1) /\ pick_best [Some (b2, q2); Some (b1, q1)] = (b1, q1).
Proof. exact pick2_hi_both. Qed.
Print Assumptions C13_pick_higher.

(* what a mate contributes to a fragment's call: its aligned (refpos, base, quality) triples inside the dove-safe window *)
Theorem C13_read_call : forall w fl r d c p b q, read_dict w fl (Some r) = Ok d -> NoDup (map call_pos (r_calls r)) ->
  (dget (c, p) d = Some (b, q) <->
   c = r_contig r /\ exists qp rb, In (p, b, q, qp, rb) (r_calls r) /\ keep_call w fl r (p, b, q, qp, rb) = true).
Proof. exact read_dict_get. Qed.
Print Assumptions C13_read_call.

(* the boolean specification evaluated by the correspondence check on implementation outputs is implied by the model *)
Theorem C13_specb_sound : forall skip ds fs out, bases_ok fs -> mol_consensus skip ds fs = Ok out -> specb skip ds fs out = true.
Proof. exact specb_sound. Qed.
Print Assumptions C13_specb_sound.

(* the repaired skip rule never drops a fragment unless dove_safe is requested, and then exactly the unpaired ones *)
Theorem C13_skip_rule : forall ds f,
  (o_ds ds = false -> skip_fixed ds f = false) /\ (o_ds ds = true -> skip_fixed ds f = negb (has_R1 f && has_R2 f)).
Proof. exact skip_rule. Qed.
Print Assumptions C13_skip_rule.

(* D16: with /repo HEAD's rule (dove_safe and not R2 or not R1) an R2-only fragment never has a call, and the
   consensus differs from the strict majority of all fragments' calls *)
Theorem C13_head_r2_only_no_call : forall ds r k, frag_call skip_head ds [None; Some r] k = None.
Proof. exact head_r2_only_no_call. Qed.
Print Assumptions C13_head_r2_only_no_call.
Theorem C13_head_refuted :
  exists fs out, pre fs = true /\ mol_consensus skip_head (dflt false) fs = Ok out /\
                 majority skip_fixed (dflt false) fs (0, 20) = Some bC /\ dget (0, 20) out = Some bA.
Proof. exact head_refuted. Qed.
Print Assumptions C13_head_refuted.

(* non-vacuity: a molecule satisfying [pre] with a tie (absent), a 2:1 majority, an N-only position, a mate
   quality tie, a dove-safe run, and a one-slot fragment raising IndexError *)
Example C13_example :
  pre ex_mol = true /\ mol_consensus skip_fixed (dflt false) ex_mol = Ok [((0, 21), bG)] /\
  mol_consensus skip_fixed (dflt true) ex_mol = Ok [((0, 21), bT)] /\
  votes skip_fixed (dflt false) ex_mol (0, 20) bA = 1 /\ votes skip_fixed (dflt false) ex_mol (0, 20) bC = 1 /\
  votes skip_fixed (dflt false) ex_mol (0, 21) bG = 2 /\ votes skip_fixed (dflt false) ex_mol (0, 21) bT = 1 /\
  mol_consensus skip_fixed (dflt false) (ex_mol ++ [[ex_rd false []]]) = IndexError.
Proof. exact ex_mol_facts. Qed.
Print Assumptions C13_example.

Example C13_example_tie_and_N :
  votes skip_fixed (dflt false) ex_mol (0, 20) bA = votes skip_fixed (dflt false) ex_mol (0, 20) bC /\
  forallb (fun b => votes skip_fixed (dflt false) ex_mol (0, 20) b <=? votes skip_fixed (dflt false) ex_mol (0, 20) bA) acgt = true /\
  frag_call skip_fixed (dflt false) (nth 2 ex_mol []) (0, 20) = None /\
  forallb (fun f => match frag_call skip_fixed (dflt false) f (0, 22) with None => true | Some _ => false end) ex_mol = true /\
  majority skip_fixed (dflt false) ex_mol (0, 20) = None /\ majority skip_fixed (dflt false) ex_mol (0, 21) = Some bG /\
  specb skip_fixed (dflt false) ex_mol [((0, 21), bG)] = true /\ specb skip_fixed (dflt false) ex_mol [((0, 21), bG); ((0, 20), bA)] = false.
Proof. exact ex_tie_facts. Qed.
Print Assumptions C13_example_tie_and_N.
Example C13_example_perm_double :
  Permutation (rev ex_mol) ex_mol /\ mol_consensus skip_fixed (dflt false) (rev ex_mol) = mol_consensus skip_fixed (dflt false) ex_mol /\
  mol_consensus skip_fixed (dflt false) (ex_mol ++ rev ex_mol) = mol_consensus skip_fixed (dflt false) ex_mol /\
  mol_table skip_fixed (dflt false) ex_mol [] = Ok [((0, 20), (1, 1, 0, 0, 0)); ((0, 21), (0, 0, 2, 1, 0))].
Proof. exact ex_perm_facts. Qed.
Print Assumptions C13_example_perm_double.
Example C13_example_pick :
  pick_best [Some (bA, 30); Some (bC, 30); Some (bA, 30)] = (bN, 0) /\
  pick_best [Some (bA, 30); None; Some (bC, 37)] = (bC, 37) /\
  pick_best [Some (bA, 0); Some (bA, 0)] = (bA, 0) /\ pick_best [None; None] = (bN, 0) /\
  calls_nonneg [Some (bA, 30); None; Some (bC, 37)].
Proof. exact ex_pick_facts. Qed.
Print Assumptions C13_example_pick.

(* ---- histories.  The molecule is a state machine over operations OpAdd (add_fragment, with the accept verdict),
   OpRaw (_add_fragment), OpMol (add_molecule), OpGet (get_consensus [dove_safe] [with_probs_and_obs]); run_ops returns
   one answer per OpGet.  held p = all fragments added by the operation sequence p. *)
(* for EVERY operation sequence p, a query issued after p answers for exactly the fragments held - no matter which
   routes added them and which queries were made in between (statelessness of get_consensus) *)
Theorem C13_history_query : forall skip p st ds pr,
  run_ops skip st (p ++ [OpGet ds pr]) = run_ops skip st p ++ [answer_of skip ds pr (st ++ held p)].
Proof. exact history_query. Qed.
Print Assumptions C13_history_query.
Theorem C13_history_split : forall skip p st q,
  run_ops skip st (p ++ q) = run_ops skip st p ++ run_ops skip (st ++ held p) q.
Proof. exact run_ops_app. Qed.
Print Assumptions C13_history_split.
(* two histories holding the same multiset of fragments give equivalent consensus answers *)
Theorem C13_history_route_independent : forall skip p1 p2 ds, Permutation (held p1) (held p2) ->
  exists r1 r2, run_ops skip [] (p1 ++ [OpGet ds false]) = run_ops skip [] p1 ++ [AnsCons r1] /\
                run_ops skip [] (p2 ++ [OpGet ds false]) = run_ops skip [] p2 ++ [AnsCons r2] /\
                r1 = mol_consensus skip ds (held p1) /\ r2 = mol_consensus skip ds (held p2) /\ res_equiv r1 r2.
Proof. exact history_route_independent. Qed.
Print Assumptions C13_history_route_independent.
Theorem C13_history_query_idempotent : forall skip p ds pr ds' pr',
  run_ops skip [] (p ++ [OpGet ds' pr'; OpGet ds pr]) =
  run_ops skip [] p ++ [answer_of skip ds' pr' (held p); answer_of skip ds pr (held p)].
Proof. exact history_query_idempotent. Qed.
Print Assumptions C13_history_query_idempotent.
Theorem C13_history_one_answer_per_query : forall skip ops st,
  length (run_ops skip st ops) = length (filter (fun o => match o with OpGet _ _ => true | _ => false end) ops).
Proof. exact run_ops_length. Qed.
Print Assumptions C13_history_one_answer_per_query.
Example C13_example_history :
  run_ops skip_fixed [] ex_history =
  [AnsCons (Ok [((0, 20), bA); ((0, 21), bG)]);
   AnsCons (Ok [((0, 21), bG)]);
   AnsProbs (Ok [((0, 21), bT)]) (Ok [((0, 21), (0, 0, 0, 1, 0))]);
   AnsCons (Ok [((0, 20), bC); ((0, 21), bG)])] /\
  held ex_history = ex_mol ++ [nth 1 ex_mol []].
Proof. exact ex_history_facts. Qed.
Print Assumptions C13_example_history.

(* all theorems above quantify over the whole option record [ds : opts] (dove_safe, only_include_refbase, min_phred_score,
   skip_first/last_n_cycles_R1/R2, dove_R1/R2_distance); this instance shows the options change the answer and that a
   history mixing them answers each query for its own options *)
Example C13_example_options :
  mol_consensus skip_fixed ex_minq ex_mol = Ok [] /\
  mol_consensus skip_fixed (dflt false) ex_mol = Ok [((0, 21), bG)] /\
  run_ops skip_fixed [] [OpMol ex_mol; OpGet ex_minq false; OpGet (dflt false) false; OpGet ex_skipc false] =
  [AnsCons (Ok []); AnsCons (Ok [((0, 21), bG)]); AnsCons (Ok [((0, 21), bT)])].
Proof. exact ex_opts_facts. Qed.
Print Assumptions C13_example_options.

(* ================================================================================================================
   TRANSLATOR TIE.  coq/Gen/GenConsensus.v is regenerated from the current source on every run (tools/c13.py
   regen_consensus): the comparisons, constants and argument routing of pick_best_base_call, get_consensus_dictionaries,
   read_to_consensus_dict, Fragment.get_consensus and Molecule.get_consensus.  Model/C13x.v builds the same pipeline from
   those generated definitions (gpick_best, gfrag_consensus, gmol_table, gmol_consensus, get_consensus).  The theorems
   below say that this generated model IS the model the theorems above are about (with the repaired skip rule), and
   restate the property for it; they are re-proved on every run about what the source says now. *)
Theorem C13_gen_pick : forall cs, gpick_best cs = pick_best cs.
Proof. exact gpick_best_eq. Qed.
Print Assumptions C13_gen_pick.
Theorem C13_gen_window : forall o r1 r2, gwindow o r1 r2 = window o r1 r2.
Proof. exact gwindow_eq. Qed.
Print Assumptions C13_gen_window.
Theorem C13_gen_read_filter : forall w fl r c, gkeep_call w fl r c = keep_call w fl r c.
Proof. exact gkeep_call_eq. Qed.
Print Assumptions C13_gen_read_filter.
Theorem C13_gen_fragment : forall ds f, gfrag_consensus ds f = frag_consensus ds f.
Proof. exact gfrag_consensus_eq. Qed.
Print Assumptions C13_gen_fragment.
(* the skip test of the source is the repaired rule: only dove_safe drops fragments, and then exactly the unpaired ones *)
Theorem C13_gen_skip_rule : forall ds f, gskip ds f = skip_fixed ds f.
Proof. exact gskip_eq. Qed.
Print Assumptions C13_gen_skip_rule.
Theorem C13_gen_table : forall ds fs t, gmol_table ds fs t = mol_table skip_fixed ds fs t.
Proof. exact gmol_table_eq. Qed.
Print Assumptions C13_gen_table.
Theorem C13_gen_model : forall ds fs, gmol_consensus ds fs = mol_consensus skip_fixed ds fs.
Proof. exact gmol_consensus_eq. Qed.
Print Assumptions C13_gen_model.
(* every column 'ACGTN'.index can return fits the vote vector np.zeros(n) *)
Theorem C13_gen_vector_fits : g_mol_vector_len = Z.of_nat (length g_mol_columns).
Proof. exact g_mol_vector_fits. Qed.
Print Assumptions C13_gen_vector_fits.

(* the property, for the generated model *)
Theorem C13_gen_majority : forall ds fs out k b, pre fs = true -> gmol_consensus ds fs = Ok out ->
  (dget k out = Some b <->
   In b acgt /\ forall b', In b' acgt -> b' <> b -> votes skip_fixed ds fs k b' < votes skip_fixed ds fs k b).
Proof. exact gen_majority. Qed.
Print Assumptions C13_gen_majority.
Theorem C13_gen_consensus_is_majority : forall ds fs out k, bases_ok fs -> gmol_consensus ds fs = Ok out ->
  dget k out = majority skip_fixed ds fs k.
Proof. exact gen_is_majority. Qed.
Print Assumptions C13_gen_consensus_is_majority.
Theorem C13_gen_total : forall ds fs, pre fs = true -> exists out, gmol_consensus ds fs = Ok out.
Proof. exact gen_total. Qed.
Print Assumptions C13_gen_total.
Theorem C13_gen_tie_absent : forall ds fs out k b1 b2, bases_ok fs -> gmol_consensus ds fs = Ok out ->
  In b1 acgt -> In b2 acgt -> b1 <> b2 -> votes skip_fixed ds fs k b1 = votes skip_fixed ds fs k b2 ->
  (forall b, In b acgt -> votes skip_fixed ds fs k b <= votes skip_fixed ds fs k b1) ->
  dget k out = None.
Proof. exact gen_tie_absent. Qed.
Print Assumptions C13_gen_tie_absent.
Theorem C13_gen_onlyN_absent : forall ds fs out k, bases_ok fs -> gmol_consensus ds fs = Ok out ->
  (forall f, In f fs -> frag_call skip_fixed ds f k = None) -> dget k out = None.
Proof. exact gen_onlyN_absent. Qed.
Print Assumptions C13_gen_onlyN_absent.
Theorem C13_gen_table_is_votes : forall ds fs t k j, pre fs = true -> gmol_table ds fs [] = Ok t -> (j < 5)%nat ->
  vnth j (tget k t) = votes skip_fixed ds fs k (index_base j) /\ vnth 4 (tget k t) = 0.
Proof. exact gen_table_is_votes. Qed.
Print Assumptions C13_gen_table_is_votes.
Theorem C13_gen_perm : forall ds fs fs', Permutation fs fs' -> res_equiv (gmol_consensus ds fs) (gmol_consensus ds fs').
Proof. exact gen_perm. Qed.
Print Assumptions C13_gen_perm.
Theorem C13_gen_double : forall ds fs fs2, Permutation fs2 (fs ++ fs) ->
  res_equiv (gmol_consensus ds fs2) (gmol_consensus ds fs).
Proof. exact gen_double. Qed.
Print Assumptions C13_gen_double.
Theorem C13_gen_specb_sound : forall ds fs out, bases_ok fs -> gmol_consensus ds fs = Ok out -> specb skip_fixed ds fs out = true.
Proof. exact gen_specb_sound. Qed.
Print Assumptions C13_gen_specb_sound.
(* which mate's call a fragment uses where both mates have one: the higher quality; equal quality and the same base:
   that base; equal quality and different bases: ('N', 0), which is no vote.  One mate only: its call *)
Theorem C13_gen_mate_rule : forall b1 q1 b2 q2, 0 <= q1 -> 0 <= q2 ->
  g_frag_pick gpick_best (Some (b1, q1)) (Some (b2, q2)) =
  if q1 >? q2 then (b1, q1) else if q2 >? q1 then (b2, q2) else if b1 =? b2 then (b1, q1) else (bN, 0).
Proof. exact gen_mate_rule. Qed.
Print Assumptions C13_gen_mate_rule.
Theorem C13_gen_single_mate : forall b q, 0 <= q ->
  g_frag_pick gpick_best (Some (b, q)) None = (b, q) /\ g_frag_pick gpick_best None (Some (b, q)) = (b, q).
Proof. exact gen_single_mate. Qed.
Print Assumptions C13_gen_single_mate.
Theorem C13_gen_history_query : forall p st ds pr,
  grun_ops st (p ++ [OpGet ds pr]) = grun_ops st p ++ [ganswer_of ds pr (st ++ held p)].
Proof. exact gen_history_query. Qed.
Print Assumptions C13_gen_history_query.

(* ---- the whole argument record of Molecule.get_consensus(dove_safe, only_include_refbase, allow_N, with_probs_and_obs,
   **kwargs): args = (a_opts : opts, a_allow_N, a_probs).  Which argument changes the statement, and how:
     allow_N = True            no consensus at all: NotImplementedError, before anything is read (C13_args_allow_N)
     with_probs_and_obs        nothing: same dictionary, plus the vote table (C13_args_probs)
     every option in a_opts    only WHICH aligned bases of a mate are calls (C13_opts_keep_iff: the window of dove_safe /
                               dove_R1/R2_distance, min_phred_score, skip_first/last_n_cycles, only_include_refbase) and, for
                               dove_safe, that unpaired fragments do not vote (C13_gen_skip_rule); the votes of the
                               statement are relative to these calls, the majority rule itself is the same for every record
                               (C13_args_majority) *)
Theorem C13_args_allow_N : forall a fs, a_allow_N a = true -> get_consensus a fs = OutNotImplemented.
Proof. exact args_allow_N. Qed.
Print Assumptions C13_args_allow_N.
Theorem C13_args_consensus : forall a fs, a_allow_N a = false ->
  match mol_consensus skip_fixed (a_opts a) fs with
  | Ok d => out_consensus (get_consensus a fs) = Some d
  | ValueError => get_consensus a fs = OutValueError
  | IndexError => get_consensus a fs = OutIndexError
  end.
Proof. exact args_consensus. Qed.
Print Assumptions C13_args_consensus.
Theorem C13_args_majority : forall a fs out k b, pre fs = true -> a_allow_N a = false ->
  out_consensus (get_consensus a fs) = Some out ->
  (dget k out = Some b <->
   In b acgt /\ forall b', In b' acgt -> b' <> b ->
                votes skip_fixed (a_opts a) fs k b' < votes skip_fixed (a_opts a) fs k b).
Proof. exact args_majority. Qed.
Print Assumptions C13_args_majority.
Theorem C13_args_total : forall a fs, pre fs = true -> a_allow_N a = false ->
  exists out, out_consensus (get_consensus a fs) = Some out.
Proof. exact args_total. Qed.
Print Assumptions C13_args_total.
Theorem C13_args_probs : forall o fs, pre fs = true ->
  exists d t, get_consensus {| a_opts := o; a_allow_N := false; a_probs := true |} fs = OutProbs d t /\
              get_consensus {| a_opts := o; a_allow_N := false; a_probs := false |} fs = OutCons d /\
              (t = None -> d = []) /\
              forall tb k j, t = Some tb -> (j < 5)%nat -> vnth j (tget k tb) = votes skip_fixed o fs k (index_base j).
Proof. exact args_probs. Qed.
Print Assumptions C13_args_probs.
(* outcome for every argument record and every input, no precondition *)
Theorem C13_args_outcome : forall a fs,
  get_consensus a fs <> OutValueError /\
  (get_consensus a fs = OutNotImplemented <-> a_allow_N a = true) /\
  (get_consensus a fs = OutIndexError <->
   a_allow_N a = false /\ exists f, In f fs /\ skip_fixed (a_opts a) f = false /\ (length f < 2)%nat).
Proof. exact args_outcome. Qed.
Print Assumptions C13_args_outcome.
(* what the options do to a mate's aligned base (refpos p, query base b, quality q, query position qp, reference base rb) *)
Theorem C13_opts_keep_iff : forall w fl r p b q qp rb, keep_call w fl r (p, b, q, qp, rb) = true <->
  (forall s e, w = Some (s, e) -> s <= p <= e) /\
  (forall m, f_minq fl = Some m -> m <= q) /\
  (forall n, f_sl fl = Some n -> if r_rev r then n < qp else qp < r_qlen r - n) /\
  (forall n, f_sf fl = Some n -> if r_rev r then qp < r_qlen r - n else n < qp) /\
  (forall x, f_refbase fl = Some x -> upper rb = x).
Proof. exact keep_call_iff. Qed.
Print Assumptions C13_opts_keep_iff.
Theorem C13_opts_defaults : forall w d r c,
  keep_call w (flt1 (dflt d)) r c = in_win w (call_pos c) /\ keep_call w (flt2 (dflt d)) r c = in_win w (call_pos c).
Proof. exact keep_call_defaults. Qed.
Print Assumptions C13_opts_defaults.

(* non-vacuity of the generated model, the argument record and the option filters *)
Example C13_example_generated :
  pre ex_mol = true /\ gmol_consensus (dflt false) ex_mol = Ok [((0, 21), bG)] /\
  gmol_consensus (dflt true) ex_mol = Ok [((0, 21), bT)] /\
  gmol_table (dflt false) ex_mol [] = Ok [((0, 20), (1, 1, 0, 0, 0)); ((0, 21), (0, 0, 2, 1, 0))] /\
  gmol_consensus (dflt false) (ex_mol ++ [[ex_rd false []]]) = IndexError /\
  gpick_best [Some (bA, 30); Some (bC, 30); Some (bA, 30)] = (bN, 0) /\
  gpick_best [Some (bA, 30); None; Some (bC, 37)] = (bC, 37) /\
  g_frag_pick gpick_best (Some (bA, 30)) (Some (bC, 30)) = (bN, 0) /\
  grun_ops [] ex_history = run_ops skip_fixed [] ex_history.
Proof. exact ex_gen_facts. Qed.
Print Assumptions C13_example_generated.
Example C13_example_args :
  get_consensus (ex_args true false) ex_mol = OutNotImplemented /\
  get_consensus (ex_args false false) ex_mol = OutCons [] /\
  get_consensus (ex_args false true) ex_mol = OutProbs [] (Some [((0, 20), (1, 1, 0, 0, 0)); ((0, 21), (0, 0, 1, 1, 0))]) /\
  get_consensus (ex_args false true) [] = OutProbs [] None /\
  get_consensus {| a_opts := dflt false; a_allow_N := false; a_probs := true |} ex_mol =
    OutProbs [((0, 21), bG)] (Some [((0, 20), (1, 1, 0, 0, 0)); ((0, 21), (0, 0, 2, 1, 0))]) /\
  get_consensus {| a_opts := ex_skipc; a_allow_N := false; a_probs := false |} ex_mol = OutCons [((0, 21), bT)] /\
  get_consensus {| a_opts := dflt false; a_allow_N := false; a_probs := false |} (ex_mol ++ [[ex_rd false []]]) = OutIndexError.
Proof. exact ex_args_facts. Qed.
Print Assumptions C13_example_args.
Example C13_example_filters :
  let r := {| r_contig := 0; r_start := 20; r_end := 24; r_rev := false; r_md := true; r_calls := []; r_qlen := 4 |} in
  let fl := {| f_refbase := Some bC; f_minq := Some 20; f_sf := Some 0; f_sl := Some 1 |} in
  keep_call (Some (20, 23)) fl r (21, bA, 30, 1, 99) = true /\
  keep_call (Some (20, 23)) fl r (21, bA, 19, 1, 99) = false /\
  keep_call (Some (20, 23)) fl r (20, bA, 30, 0, 99) = false /\
  keep_call (Some (20, 23)) fl r (23, bA, 30, 3, 99) = false /\
  keep_call (Some (20, 23)) fl r (21, bA, 30, 1, 65) = false /\
  keep_call (Some (22, 23)) fl r (21, bA, 30, 1, 99) = false.
Proof. exact ex_keep_facts. Qed.
Print Assumptions C13_example_filters.
