(* C13 - property theorems only.  Each is closed by [exact lemma]; Print Assumptions beneath.
   Model (coq/Model/C13.v): mol_consensus = Molecule.get_consensus, frag_consensus = Fragment.get_consensus,
   pick_best = sequtils.pick_best_base_call, window/read_dict = get_consensus_dictionaries/read_to_consensus_dict.
   [skip] is the molecule's skip test: skip_fixed = repaired rule (fixes/C13-D16.patch), skip_head = /repo HEAD rule.
   frag_call skip ds f k = the one call fragment f contributes at key k = (contig, refpos) (None = no vote: skipped,
   ValueError, not covered, or 'N'); votes skip ds fs k b = number of fragments of fs whose call at k is b.
   pre fs = every fragment has the two-slot reads list and every query base is one of ACGTN.
   [ds : opts] is the whole keyword-option record of the query (dove_safe, only_include_refbase, min_phred_score,
   skip_first/last_n_cycles_R1/R2, dove_R1/R2_distance); every theorem quantifies over it. *)
From Coq Require Import ZArith List Bool Permutation.
Import ListNotations.
From SCMO Require Import Lib.Val Model.C13 Proofs.C13.
Open Scope Z_scope.

(* the consensus base at k is b iff b is called by strictly more fragments than every other base (and is not N) *)
Theorem C13_majority : forall skip ds fs out k b, pre fs = true -> mol_consensus skip ds fs = Ok out ->
  (dget k out = Some b <->
   In b acgt /\ forall b', In b' acgt -> b' <> b -> votes skip ds fs k b' < votes skip ds fs k b).
Proof. exact majority_pre. Qed.
Print Assumptions C13_majority.

(* same statement as one equation with the brute-force vote [majority] (find over ACGT of the strict maximum) *)
Theorem C13_consensus_is_majority : forall skip ds fs out k, bases_ok fs -> mol_consensus skip ds fs = Ok out ->
  dget k out = majority skip ds fs k.
Proof. exact consensus_is_majority. Qed.
Print Assumptions C13_consensus_is_majority.

(* under the precondition the call returns (no exception) *)
Theorem C13_total : forall skip ds fs, pre fs = true -> exists out, mol_consensus skip ds fs = Ok out.
Proof. exact total_pre. Qed.
Print Assumptions C13_total.

(* outcome without any precondition: IndexError exactly when a fragment that is not skipped has a reads list
   shorter than two; ValueError never escapes *)
Theorem C13_outcome : forall skip ds fs,
  (mol_consensus skip ds fs = IndexError <->
   exists f, In f fs /\ skip ds f = false /\ frag_consensus ds f = IndexError) /\
  mol_consensus skip ds fs <> ValueError.
Proof. exact outcome_iff. Qed.
Print Assumptions C13_outcome.
Theorem C13_index_error_iff_short : forall ds f, frag_consensus ds f = IndexError <-> (length f < 2)%nat.
Proof. exact frag_index_error. Qed.
Print Assumptions C13_index_error_iff_short.

(* a tie for the highest count is absent from the consensus *)
Theorem C13_tie_absent : forall skip ds fs out k b1 b2, bases_ok fs -> mol_consensus skip ds fs = Ok out ->
  In b1 acgt -> In b2 acgt -> b1 <> b2 -> votes skip ds fs k b1 = votes skip ds fs k b2 ->
  (forall b, In b acgt -> votes skip ds fs k b <= votes skip ds fs k b1) ->
  dget k out = None.
Proof. exact tie_absent. Qed.
Print Assumptions C13_tie_absent.

(* a position where no fragment has a non-N call (covered only by N, or not covered) is absent *)
Theorem C13_onlyN_absent : forall skip ds fs out k, bases_ok fs -> mol_consensus skip ds fs = Ok out ->
  (forall f, In f fs -> frag_call skip ds f k = None) -> dget k out = None.
Proof. exact no_votes_absent. Qed.
Print Assumptions C13_onlyN_absent.
Theorem C13_N_is_no_call : forall skip ds f k, frag_call skip ds f k <> Some bN.
Proof. exact frag_call_not_N. Qed.
Print Assumptions C13_N_is_no_call.

(* the vote table the code accumulates (consensii) holds exactly the declarative votes; the N slot stays 0 *)
Theorem C13_table_is_votes : forall skip ds fs t k j, pre fs = true -> mol_table skip ds fs [] = Ok t -> (j < 5)%nat ->
  vnth j (tget k t) = votes skip ds fs k (index_base j) /\ vnth 4 (tget k t) = 0.
Proof. exact table_is_votes. Qed.
Print Assumptions C13_table_is_votes.

(* each fragment contributes exactly one call per position it has a call at, none elsewhere:
   the total of the vote vector at k is the number of fragments with a call at k *)
Theorem C13_one_call_per_fragment : forall skip ds fs t k, bases_ok fs -> mol_table skip ds fs [] = Ok t ->
  vsum (tget k t) = Z.of_nat (length (filter (has_call skip ds k) fs)).
Proof. exact one_call_per_fragment. Qed.
Print Assumptions C13_one_call_per_fragment.

(* insertion order is irrelevant (no precondition: also the exception outcome is order independent).
   res_equiv (Ok x) (Ok y) = forall k, dget k x = dget k y *)
Theorem C13_perm : forall skip ds fs fs', Permutation fs fs' ->
  res_equiv (mol_consensus skip ds fs) (mol_consensus skip ds fs').
Proof. exact perm_invariant. Qed.
Print Assumptions C13_perm.

(* duplicating every fragment (in any interleaving) leaves the consensus unchanged *)
Theorem C13_double : forall skip ds fs fs2, Permutation fs2 (fs ++ fs) ->
  res_equiv (mol_consensus skip ds fs2) (mol_consensus skip ds fs).
Proof. exact double_invariant. Qed.
Print Assumptions C13_double.

(* pick_best_base_call: highest quality wins; equal best quality with different bases is ('N', 0); no calls is ('N', 0) *)
Theorem C13_pick_unique : forall cs b q, calls_nonneg cs -> In (Some (b, q)) cs ->
  (forall b' q', In (Some (b', q')) cs -> q' <= q /\ (q' = q -> b' = b)) -> pick_best cs = (b, q).
Proof. exact pick_unique. Qed.
Print Assumptions C13_pick_unique.
Theorem C13_pick_tie : forall cs b1 b2 q, calls_nonneg cs -> In (Some (b1, q)) cs -> In (Some (b2, q)) cs -> b1 <> b2 ->
  (forall b' q', In (Some (b', q')) cs -> q' <= q) -> pick_best cs = (bN, 0).
Proof. exact pick_tie. Qed.
Print Assumptions C13_pick_tie.
Theorem C13_pick_none : forall cs, (forall c, In c cs -> c = None) -> pick_best cs = (bN, 0).
Proof. exact pick_none. Qed.
Print Assumptions C13_pick_none.
Theorem C13_pick_comm : forall c1 c2, calls_nonneg [c1; c2] -> pick_best [c1; c2] = pick_best [c2; c1].
Proof. exact pick2_comm. Qed.
Print Assumptions C13_pick_comm.
Theorem C13_pick_higher : forall b1 q1 b2 q2, 0 <= q2 < q1 ->
  pick_best [Some (b1, q1); Some (b2, q2)] = (b1, q1) /\ pick_best [Some (b2, q2); Some (b1, q1)] = (b1, q1).
Proof. exact pick2_hi_both. Qed.
Print Assumptions C13_pick_higher.

(* what a mate contributes to a fragment's call: its aligned (refpos, base, quality) triples inside the dove-safe window *)
Theorem C13_read_call : forall w fl r d c p b q, read_dict w fl (Some r) = Ok d -> NoDup (map call_pos (r_calls r)) ->
  (dget (c, p) d = Some (b, q) <->
   c = r_contig r /\ exists qp rb, In (p, b, q, qp, rb) (r_calls r) /\ keep_call w fl r (p, b, q, qp, rb) = true).
Proof. exact read_dict_get. Qed.
Print Assumptions C13_read_call.

(* the boolean specification evaluated by the correspondence check on implementation outputs is implied by the model *)
Theorem C13_specb_sound : forall skip ds fs out, bases_ok fs -> mol_consensus skip ds fs = Ok out -> specb skip ds fs out = true.
Proof. exact specb_sound. Qed.
Print Assumptions C13_specb_sound.

(* the repaired skip rule never drops a fragment unless dove_safe is requested, and then exactly the unpaired ones *)
Theorem C13_skip_rule : forall ds f,
  (o_ds ds = false -> skip_fixed ds f = false) /\ (o_ds ds = true -> skip_fixed ds f = negb (has_R1 f && has_R2 f)).
Proof. exact skip_rule. Qed.
Print Assumptions C13_skip_rule.

(* D16: with /repo HEAD's rule (dove_safe and not R2 or not R1) an R2-only fragment never has a call, and the
   consensus differs from the strict majority of all fragments' calls *)
Theorem C13_head_r2_only_no_call : forall ds r k, frag_call skip_head ds [None; Some r] k = None.
Proof. exact head_r2_only_no_call. Qed.
Print Assumptions C13_head_r2_only_no_call.
Theorem C13_head_refuted :
  exists fs out, pre fs = true /\ mol_consensus skip_head (dflt false) fs = Ok out /\
                 majority skip_fixed (dflt false) fs (0, 20) = Some bC /\ dget (0, 20) out = Some bA.
Proof. exact head_refuted. Qed.
Print Assumptions C13_head_refuted.

(* non-vacuity: a molecule satisfying [pre] with a tie (absent), a 2:1 majority, an N-only position, a mate
   quality tie, a dove-safe run, and a one-slot fragment raising IndexError *)
Example C13_example :
  pre ex_mol = true /\ mol_consensus skip_fixed (dflt false) ex_mol = Ok [((0, 21), bG)] /\
  mol_consensus skip_fixed (dflt true) ex_mol = Ok [((0, 21), bT)] /\
  votes skip_fixed (dflt false) ex_mol (0, 20) bA = 1 /\ votes skip_fixed (dflt false) ex_mol (0, 20) bC = 1 /\
  votes skip_fixed (dflt false) ex_mol (0, 21) bG = 2 /\ votes skip_fixed (dflt false) ex_mol (0, 21) bT = 1 /\
  mol_consensus skip_fixed (dflt false) (ex_mol ++ [[ex_rd false []]]) = IndexError.
Proof. exact ex_mol_facts. Qed.
Print Assumptions C13_example.

Example C13_example_tie_and_N :
  votes skip_fixed (dflt false) ex_mol (0, 20) bA = votes skip_fixed (dflt false) ex_mol (0, 20) bC /\
  forallb (fun b => votes skip_fixed (dflt false) ex_mol (0, 20) b <=? votes skip_fixed (dflt false) ex_mol (0, 20) bA) acgt = true /\
  frag_call skip_fixed (dflt false) (nth 2 ex_mol []) (0, 20) = None /\
  forallb (fun f => match frag_call skip_fixed (dflt false) f (0, 22) with None => true | Some _ => false end) ex_mol = true /\
  majority skip_fixed (dflt false) ex_mol (0, 20) = None /\ majority skip_fixed (dflt false) ex_mol (0, 21) = Some bG /\
  specb skip_fixed (dflt false) ex_mol [((0, 21), bG)] = true /\ specb skip_fixed (dflt false) ex_mol [((0, 21), bG); ((0, 20), bA)] = false.
Proof. exact ex_tie_facts. Qed.
Print Assumptions C13_example_tie_and_N.
Example C13_example_perm_double :
  Permutation (rev ex_mol) ex_mol /\ mol_consensus skip_fixed (dflt false) (rev ex_mol) = mol_consensus skip_fixed (dflt false) ex_mol /\
  mol_consensus skip_fixed (dflt false) (ex_mol ++ rev ex_mol) = mol_consensus skip_fixed (dflt false) ex_mol /\
  mol_table skip_fixed (dflt false) ex_mol [] = Ok [((0, 20), (1, 1, 0, 0, 0)); ((0, 21), (0, 0, 2, 1, 0))].
Proof. exact ex_perm_facts. Qed.
Print Assumptions C13_example_perm_double.
Example C13_example_pick :
  pick_best [Some (bA, 30); Some (bC, 30); Some (bA, 30)] = (bN, 0) /\
  pick_best [Some (bA, 30); None; Some (bC, 37)] = (bC, 37) /\
  pick_best [Some (bA, 0); Some (bA, 0)] = (bA, 0) /\ pick_best [None; None] = (bN, 0) /\
  calls_nonneg [Some (bA, 30); None; Some (bC, 37)].
Proof. exact ex_pick_facts. Qed.
Print Assumptions C13_example_pick.

(* ---- histories.  The molecule is a state machine over operations OpAdd (add_fragment, with the accept verdict),
   OpRaw (_add_fragment), OpMol (add_molecule), OpGet (get_consensus [dove_safe] [with_probs_and_obs]); run_ops returns
   one answer per OpGet.  held p = all fragments added by the operation sequence p. *)
(* for EVERY operation sequence p, a query issued after p answers for exactly the fragments held - no matter which
   routes added them and which queries were made in between (statelessness of get_consensus) *)
Theorem C13_history_query : forall skip p st ds pr,
  run_ops skip st (p ++ [OpGet ds pr]) = run_ops skip st p ++ [answer_of skip ds pr (st ++ held p)].
Proof. exact history_query. Qed.
Print Assumptions C13_history_query.
Theorem C13_history_split : forall skip p st q,
  run_ops skip st (p ++ q) = run_ops skip st p ++ run_ops skip (st ++ held p) q.
Proof. exact run_ops_app. Qed.
Print Assumptions C13_history_split.
(* two histories holding the same multiset of fragments give equivalent consensus answers *)
Theorem C13_history_route_independent : forall skip p1 p2 ds, Permutation (held p1) (held p2) ->
  exists r1 r2, run_ops skip [] (p1 ++ [OpGet ds false]) = run_ops skip [] p1 ++ [AnsCons r1] /\
                run_ops skip [] (p2 ++ [OpGet ds false]) = run_ops skip [] p2 ++ [AnsCons r2] /\
                r1 = mol_consensus skip ds (held p1) /\ r2 = mol_consensus skip ds (held p2) /\ res_equiv r1 r2.
Proof. exact history_route_independent. Qed.
Print Assumptions C13_history_route_independent.
Theorem C13_history_query_idempotent : forall skip p ds pr ds' pr',
  run_ops skip [] (p ++ [OpGet ds' pr'; OpGet ds pr]) =
  run_ops skip [] p ++ [answer_of skip ds' pr' (held p); answer_of skip ds pr (held p)].
Proof. exact history_query_idempotent. Qed.
Print Assumptions C13_history_query_idempotent.
Theorem C13_history_one_answer_per_query : forall skip ops st,
  length (run_ops skip st ops) = length (filter (fun o => match o with OpGet _ _ => true | _ => false end) ops).
Proof. exact run_ops_length. Qed.
Print Assumptions C13_history_one_answer_per_query.
Example C13_example_history :
  run_ops skip_fixed [] ex_history =
  [AnsCons (Ok [((0, 20), bA); ((0, 21), bG)]);
   AnsCons (Ok [((0, 21), bG)]);
   AnsProbs (Ok [((0, 21), bT)]) (Ok [((0, 21), (0, 0, 0, 1, 0))]);
   AnsCons (Ok [((0, 20), bC); ((0, 21), bG)])] /\
  held ex_history = ex_mol ++ [nth 1 ex_mol []].
Proof. exact ex_history_facts. Qed.
Print Assumptions C13_example_history.

(* all theorems above quantify over the whole option record [ds : opts] (dove_safe, only_include_refbase, min_phred_score,
   skip_first/last_n_cycles_R1/R2, dove_R1/R2_distance); this instance shows the options change the answer and that a
   history mixing them answers each query for its own options *)
Example C13_example_options :
  mol_consensus skip_fixed ex_minq ex_mol = Ok [] /\
  mol_consensus skip_fixed (dflt false) ex_mol = Ok [((0, 21), bG)] /\
  run_ops skip_fixed [] [OpMol ex_mol; OpGet ex_minq false; OpGet (dflt false) false; OpGet ex_skipc false] =
  [AnsCons (Ok []); AnsCons (Ok [((0, 21), bG)]); AnsCons (Ok [((0, 21), bT)])].
Proof. exact ex_opts_facts. Qed.
Print Assumptions C13_example_options.
