(* C19 - property theorems only.  Each is closed by [exact lemma]; Print Assumptions beneath.
   hl_run_ops / hl_close_all (Model.C19) are HandleLimiter.write/prune/close over an abstract file system,
   DEFINED WITH the decisions regenerated from handlelimiter.py on every run (Gen/GenHandles.v: append test
   and open modes, where seen.add happens, handler class, retry test, placeholder restore, prune trigger /
   count / victim order, what close() clears, initial state, write guard).  [orc i p n] is the operating
   system: does the i-th open() of the run, for path p, with n descriptors open, fail (with any errno)?
   mh / pe are maxHandles / pruneEvery (any integers). *)
From Coq Require Import ZArith List Bool.
Import ListNotations.
From SCMO Require Import Lib.Val Gen.GenHandles Model.C19 Model.C19x Proofs.C19 Proofs.C19_split Proofs.C19_leak Proofs.C19_tie Proofs.C19_main Proofs.C19x.
Open Scope Z_scope.

(* MAIN.  For every write sequence, every maxHandles / pruneEvery and every fault oracle under which an
   open succeeds whenever no other handle is open: no call raises, every handle is closed by close(), and
   every file holds exactly the concatenation of the strings written to it, in order; files never written
   keep their content. (forceAppend not used - as in FastqHandle.) *)
Theorem C19_content : forall mh pe orc init ops,
  (forall o, In o ops -> w_fa o = false) ->
  (forall i o, In o ops -> orc i (w_path o) 0%nat = false) ->
  exists st, hl_run_ops mh pe orc init ops = (length ops, Ok st) /\
             opens (hl_close_all st) = [] /\
             (forall p, In p (map w_path ops) -> fs (hl_close_all st) p = Some (writes_of p ops)) /\
             (forall p, ~ In p (map w_path ops) -> fs (hl_close_all st) p = init p).
Proof. exact hl_content_plain. Qed.
Print Assumptions C19_content.

(* the same with forceAppend used consistently per path: a force-appended file keeps what it held *)
Theorem C19_content_append : forall mh pe orc init ops,
  fa_consistentb ops = true ->
  (forall i o, In o ops -> orc i (w_path o) 0%nat = false) ->
  exists st, hl_run_ops mh pe orc init ops = (length ops, Ok st) /\
             opens (hl_close_all st) = [] /\
             forall p, fs (hl_close_all st) p = expected init ops p.
Proof. exact hl_content_thm. Qed.
Print Assumptions C19_content_append.

(* ANY oracle (no assumption on faults): when the run stops after k completed calls, the files hold
   exactly the first k writes - nothing lost, nothing duplicated, nothing of the failed call. *)
Theorem C19_prefix : forall mh pe orc init ops k r,
  fa_consistentb ops = true ->
  hl_run_ops mh pe orc init ops = (k, r) ->
  (k <= length ops)%nat /\
  (forall p, fs (hl_close_all (state_of r)) p = expected init (firstn k ops) p) /\
  (k = length ops <-> exists st, r = Ok st).
Proof. exact hl_prefix. Qed.
Print Assumptions C19_prefix.

(* ANY oracle: a call raises only the OSError of an open() of its own path that failed while no
   descriptor at all was open (the last open() call made), i.e. after everything else was closed. *)
Theorem C19_raise_only_if_hopeless : forall mh pe orc init ops k e st,
  hl_run_ops mh pe orc init ops = (k, Raise e st) ->
  e = EOS /\ exists o i, nth_error ops k = Some o /\ att st = S i /\
                         orc i (w_path o) 0%nat = true /\ opens st = [].
Proof. exact hl_raise_only_if_hopeless. Qed.
Print Assumptions C19_raise_only_if_hopeless.

(* ANY oracle: between calls at most max(0,maxHandles) + max(0,pruneEvery-1) handles are open
   (every prefix of a write sequence is a write sequence). *)
Theorem C19_handles_bounded : forall mh pe orc init ops k r,
  hl_run_ops mh pe orc init ops = (k, r) ->
  Z.of_nat (length (opens (state_of r))) <= Z.max 0 mh + Z.max 0 (pe - 1).
Proof. exact hl_handles_bounded. Qed.
Print Assumptions C19_handles_bounded.

(* ANY oracle: after close() the writer has closed exactly as many descriptors as it opened - whether the run
   completed or stopped at a raise (n_opened / n_closed count the successful open() and the close() calls
   of the OS-call trace) *)
Theorem C19_no_leak : forall mh pe orc init ops k r,
  hl_run_ops mh pe orc init ops = (k, r) ->
  n_opened (trace (hl_close_all (state_of r))) = n_closed (trace (hl_close_all (state_of r))).
Proof. exact hl_no_leak. Qed.
Print Assumptions C19_no_leak.

(* T: the shape of the regenerated decisions (each conjunct is one shape lemma of Proofs/C19_tie.v) and the
   identity of the model built from them with the reference kernel of the invariant proofs *)
Theorem C19_kernel_shape :
  g_init_ctr = 0 /\ g_init_clean = true /\
  (forall is_open, g_write_guard is_open = negb is_open) /\
  (forall in_seen force, g_append_test in_seen force = in_seen || force) /\
  (forall a gz, g_opens_append a gz = a) /\
  (forall a ok, g_seen_added a ok = negb a && ok) /\
  g_handler_catches true = true /\
  (forall n, g_retry n = (1 <? n)) /\
  g_restores_placeholder = true /\
  (forall c, g_ctr_step c = c + 1) /\
  (forall c pe, g_prune_due c pe = (pe <=? c)) /\
  (forall n mh, g_prune_needed n mh = (mh <? n)) /\
  (forall n mh, g_to_prune n mh = n - mh) /\
  (forall w, g_victim_key w = w) /\ g_sort_descending = false /\
  g_prune_ctr = 0 /\ g_prune_keeps_seen = true /\
  g_close_clears_seen = false /\ g_close_resets_ctr = false.
Proof.
  exact (conj s_init_ctr (conj s_init_clean (conj s_write_guard (conj s_append_test (conj s_opens_append
        (conj s_seen_added (conj s_handler (conj s_retry (conj s_restores (conj s_ctr_step (conj s_prune_due
        (conj s_prune_needed (conj s_to_prune (conj s_victim_key (conj s_sort_descending (conj s_prune_ctr
        (conj s_prune_keeps_seen (conj s_close_clears_seen s_close_resets_ctr)))))))))))))))))).
Qed.
Print Assumptions C19_kernel_shape.

Theorem C19_tie : forall mh pe orc init ops,
  hl_run_ops mh pe orc init ops = run_ops {| maxHandles := mh; pruneEvery := pe; fixed := true |} orc init ops.
Proof. exact tie_run_ops. Qed.
Print Assumptions C19_tie.

(* the concrete fault scripts of the correspondence check: script_goodb (mode 1 of run_C19) implies
   the oracle hypothesis of C19_content *)
Theorem C19_script_good : forall s ops, script_goodb s ops = true ->
  forall i o, In o ops -> script_oracle s i (w_path o) 0%nat = false.
Proof. exact script_good_sound. Qed.
Print Assumptions C19_script_good.

(* D27: the code before the repair (reference kernel with [fixed := false]: no placeholder restore) violates C19_content: EMFILE limit 2, second file's open
   fails, close() drops the placeholder, the retry opens the file and then raises KeyError: the record is
   lost, the file is left empty and its descriptor is not tracked. *)
Theorem C19_unrepaired_refuted :
  fixed d27_cfg = false /\ script_goodb d27_script d27_ops = true /\ fa_consistentb d27_ops = true /\
  fst (run_ops d27_cfg (script_oracle d27_script) (fun _ => None) d27_ops) = 1%nat /\
  match snd (run_ops d27_cfg (script_oracle d27_script) (fun _ => None) d27_ops) with
  | Raise e st => e = EKEY /\ fs st 109 = Some [] /\ opens st = []
  | Ok _ => False
  end.
Proof. exact unrepaired_refuted. Qed.
Print Assumptions C19_unrepaired_refuted.

(* ... and one descriptor is never closed on that input (code as found) *)
Theorem C19_unrepaired_leaks :
  let tr := trace (close_all (state_of (snd (run_ops d27_cfg (script_oracle d27_script) (fun _ => None) d27_ops)))) in
  n_opened tr = S (n_closed tr).
Proof. exact unrepaired_leaks. Qed.
Print Assumptions C19_unrepaired_leaks.

(* non-vacuity: the same input on the repaired model satisfies the hypotheses of C19_content, goes through
   the recovery branch (a failed open with one handle open, close-all, retry) and a re-open in append mode *)
Example C19_recovery_example :
  let ops := d27_ops ++ [ {| w_path := 162; w_str := [50; 59]; w_fa := false |} ] in
  script_goodb d27_script ops = true /\
  (forall o, In o ops -> w_fa o = false) /\
  let '(k, r) := hl_run_ops 1 1 (script_oracle d27_script) (assoc_fs [(109, [111; 108; 100])]) ops in
  k = 3%nat /\
  rev (trace (hl_close_all (state_of r))) =
    [EvOpen 162 false 0 true; EvOpen 109 false 1 false; EvClose 162; EvOpen 109 false 0 true;
     EvOpen 162 true 1 true; EvClose 109; EvClose 162] /\
  fs (state_of r) 162 = Some [48; 59; 50; 59] /\ fs (state_of r) 109 = Some [49; 59].
Proof.
  vm_compute. split; [reflexivity|]. split; [|repeat split; reflexivity].
  intros o [H|[H|[H|[]]]]; subst o; reflexivity.
Qed.
Print Assumptions C19_recovery_example.

(* non-vacuity of C19_raise_only_if_hopeless / C19_prefix: a permanently failing path raises at its call,
   after which the files hold exactly the completed writes *)
Example C19_hopeless_example :
  let s := {| s_limit := 0; s_soft := []; s_hard := []; s_perm := [109] |} in
  let '(k, r) := hl_run_ops 4 2 (script_oracle s) (fun _ => None) d27_ops in
  k = 1%nat /\ (exists st, r = Raise EOS st) /\
  fs (state_of r) 162 = Some [48; 59] /\ fs (state_of r) 109 = None.
Proof. vm_compute. repeat split; try reflexivity. eexists; reflexivity. Qed.
Print Assumptions C19_hopeless_example.

(* ---- bamSplitByTag.py (does not use HandleLimiter: it bounds the open BAM writers by splitting in
   several passes over the input).  For every read list, every max_handles >= 1 and any prior content:
   the __main__ loop ends within |reads|+1 passes, every tag value is reported done, its file holds exactly
   the reads carrying that value, in input order, and no other file is touched. *)
Theorem C19_bamsplit : forall maxh reads init, 1 <= maxh ->
  exists done f n, b_loop (S (length reads)) maxh reads [] init 0 = Some (done, f, n) /\
    (forall v, In (Some v) (map fst reads) -> f v = Some (recs_of v reads) /\ In v done) /\
    (forall v, ~ In (Some v) (map fst reads) -> f v = init v).
Proof. exact bamsplit. Qed.
Print Assumptions C19_bamsplit.

(* never more than max_handles output files are open in a pass *)
Theorem C19_bamsplit_handles : forall maxh skip reads f,
  Z.of_nat (length (fst (fst (b_pass maxh skip reads f)))) <= Z.max 0 maxh.
Proof. exact bamsplit_handles. Qed.
Print Assumptions C19_bamsplit_handles.

(* the hypothesis 1 <= max_handles is needed: with max_handles <= 0 and a tagged read the loop never ends *)
Theorem C19_bamsplit_needs_a_handle : forall fuel maxh reads skip f passes v,
  maxh <= 0 -> In (Some v) (map fst reads) -> ~ In v skip ->
  b_loop fuel maxh reads skip f passes = None.
Proof. exact bamsplit_zero_diverges. Qed.
Print Assumptions C19_bamsplit_needs_a_handle.

Example C19_bamsplit_example :
  let reads := [(Some 7, 0); (Some 8, 1); (None, 2); (Some 7, 3); (Some 9, 4); (Some 8, 5)] in
  match b_loop 7 2 reads [] (fun _ => None) 0 with
  | Some (done, f, n) => done = [7; 8; 9] /\ n = 2%nat /\ f 7 = Some [0; 3] /\ f 8 = Some [1; 5] /\ f 9 = Some [4]
  | None => False
  end.
Proof. vm_compute. repeat split; reflexivity. Qed.
Print Assumptions C19_bamsplit_example.

(* ==================================================================================================
   HISTORIES THAT CONTINUE AFTER A RAISE (Model/C19x.v).  The caller catches what a write() raises and goes on
   writing with the same HandleLimiter.  hl_hist is the list of results of ALL operations (XOk / XRaise, each with
   the state the call left behind), hl_final the state after the last one, x_close is close();
   [completed ops statuses] are the operations whose call returned.  The kernel is the hl_* kernel above plus
   the regenerated decision g_giveup_drops_placeholder (is the empty placeholder entry of the path removed
   before the exception leaves write()); [ghosts] are placeholder entries left behind. *)

(* T: the give-up branch removes the placeholder (fixes/C19-D33.patch) *)
Theorem C19_giveup_shape : g_giveup_drops_placeholder = true.
Proof. exact s_giveup_drops. Qed.
Print Assumptions C19_giveup_shape.

(* MAIN (histories).  ANY oracle, any maxHandles / pruneEvery, any operation list: every operation has a result,
   after close() nothing is open and every file holds exactly the strings of the COMPLETED writes to it, in order
   (nothing of a call that raised, nothing lost after a raise).  forceAppend used consistently per path. *)
Theorem C19_hist_content : forall mh pe orc init ops,
  fa_consistentb ops = true ->
  length (hl_hist mh pe orc init ops) = length ops /\
  opens (base (x_close (hl_final mh pe orc init ops))) = [] /\
  ghosts (x_close (hl_final mh pe orc init ops)) = [] /\
  forall p, fs (base (x_close (hl_final mh pe orc init ops))) p
            = expected init (completed ops (map xstatus (hl_hist mh pe orc init ops))) p.
Proof. exact hl_hist_content. Qed.
Print Assumptions C19_hist_content.

(* the same without forceAppend (as FastqHandle uses it), spelled out per file *)
Theorem C19_hist_content_plain : forall mh pe orc init ops,
  (forall o, In o ops -> w_fa o = false) ->
  let done := completed ops (map xstatus (hl_hist mh pe orc init ops)) in
  let fin := x_close (hl_final mh pe orc init ops) in
  (forall p, In p (map w_path done) -> fs (base fin) p = Some (writes_of p done)) /\
  (forall p, ~ In p (map w_path done) -> fs (base fin) p = init p).
Proof. exact hl_hist_content_plain. Qed.
Print Assumptions C19_hist_content_plain.

(* ANY oracle: whichever operation of the history raises, it raises the OSError of an open() of its own path
   that failed while no descriptor was open (the last open() call made), and it leaves nothing open and no
   placeholder behind *)
Theorem C19_hist_raise_only_if_hopeless : forall mh pe orc init ops j e xs',
  nth_error (hl_hist mh pe orc init ops) j = Some (XRaise e xs') ->
  e = EOS /\ exists o i, nth_error ops j = Some o /\ att (base xs') = S i /\
                         orc i (w_path o) 0%nat = true /\ opens (base xs') = [] /\ ghosts xs' = [].
Proof. exact hl_hist_raise. Qed.
Print Assumptions C19_hist_raise_only_if_hopeless.

(* ANY oracle: a write to a path whose open() cannot fail with nothing else open returns - wherever it stands
   in the history, in particular after any number of raises for other (hopeless) paths *)
Theorem C19_hist_openable_never_raises : forall mh pe orc init ops j o,
  nth_error ops j = Some o -> (forall i, orc i (w_path o) 0%nat = false) ->
  exists xs, nth_error (hl_hist mh pe orc init ops) j = Some (XOk xs).
Proof. exact hl_hist_openable. Qed.
Print Assumptions C19_hist_openable_never_raises.

(* under the hypothesis of C19_content every operation completes *)
Theorem C19_hist_good_oracle_completes : forall mh pe orc init ops,
  (forall i o, In o ops -> orc i (w_path o) 0%nat = false) ->
  completed ops (map xstatus (hl_hist mh pe orc init ops)) = ops.
Proof. exact hl_hist_good_oracle. Qed.
Print Assumptions C19_hist_good_oracle_completes.

(* ANY oracle, any history: close() has closed exactly the descriptors that were opened *)
Theorem C19_hist_no_leak : forall mh pe orc init ops,
  n_opened (trace (base (x_close (hl_final mh pe orc init ops))))
  = n_closed (trace (base (x_close (hl_final mh pe orc init ops)))).
Proof. exact hl_hist_no_leak. Qed.
Print Assumptions C19_hist_no_leak.

(* ANY oracle: the handle bound holds after every operation of the history *)
Theorem C19_hist_handles_bounded : forall mh pe orc init ops j x,
  nth_error (hl_hist mh pe orc init ops) j = Some x ->
  Z.of_nat (length (opens (base (xstate_of x)))) <= Z.max 0 mh + Z.max 0 (pe - 1).
Proof. exact hl_hist_handles_bounded. Qed.
Print Assumptions C19_hist_handles_bounded.

(* a raise leaves a writer with nothing open, the same seen set (hence the same append-vs-truncate decisions),
   the same counter and the same files; the rest of the history is the history of that fresh writer *)
Theorem C19_hist_resume : forall mh pe orc init ops1 o ops2 e xs',
  hl_xwrite mh pe orc (hl_final mh pe orc init ops1) o = XRaise e xs' ->
  let st := base (hl_final mh pe orc init ops1) in
  let fw := fresh_writer (seen st) (ctr st) (clock st) (att (base xs')) (fs st) (trace (base xs')) in
  xs' = fw /\
  hl_hist mh pe orc init (ops1 ++ o :: ops2)
  = hl_hist mh pe orc init ops1
    ++ XRaise e fw :: x_hist_from g_giveup_drops_placeholder mh pe orc ops2 fw.
Proof. exact hl_hist_resume. Qed.
Print Assumptions C19_hist_resume.

(* the run of the theorems above (hl_run_ops: it ends at the first call that raises) is this history cut at its first
   raise: k calls returned, then - unless all returned - operation k is the raise the run reports, with the same state *)
Theorem C19_hist_extends_run : forall mh pe orc init ops k r,
  hl_run_ops mh pe orc init ops = (k, r) ->
  firstn k (map xstatus (hl_hist mh pe orc init ops)) = repeat 0 k /\
  match r with
  | Ok s => k = length ops /\ hl_final mh pe orc init ops = lift s
  | Raise e s => nth_error (hl_hist mh pe orc init ops) k = Some (XRaise e (lift s))
  end.
Proof. exact hl_run_is_hist_prefix. Qed.
Print Assumptions C19_hist_extends_run.

(* the boolean specification K evaluates on the implementation's histories (mode 5 of run_C19x) holds of the model
   for every fault script: one result per operation, a raise only as OSError and only for a path whose open() can
   fail under the script with nothing open, files = completed writes *)
Theorem C19_hist_spec_sound : forall mh pe s init ops univ,
  fa_consistentb ops = true ->
  spec_histb s init ops univ (map xstatus (hl_hist mh pe (script_oracle s) init ops))
             (fs (base (x_close (hl_final mh pe (script_oracle s) init ops)))) = true.
Proof. exact hl_hist_spec_sound. Qed.
Print Assumptions C19_hist_spec_sound.

Theorem C19_script_alone : forall s p, script_can_fail_alone s p = false ->
  forall i, script_oracle s i p 0%nat = false.
Proof. exact script_alone_sound. Qed.
Print Assumptions C19_script_alone.

(* D33: the code before the repair (kernel with [drops := false]: the placeholder stays) violates
   C19_hist_raise_only_if_hopeless / C19_hist_openable_never_raises: after the legitimate raise for the hopeless
   path 109, the write to the openable path 7 raises KeyError (prune() meets the placeholder: maxHandles 1,
   pruneEvery 1); the counter is not reset and two entries stay in openHandles. *)
Theorem C19_D33_unrepaired_refuted :
  let h := x_hist_from false 1 1 (script_oracle d33_script) d33_ops (x_init (fun _ => None)) in
  let xs := x_final_from false 1 1 (script_oracle d33_script) d33_ops (x_init (fun _ => None)) in
  map xstatus h = [0; EOS; EKEY] /\ script_can_fail_alone d33_script 7 = false /\
  ghosts xs = [109] /\ ctr (base xs) = 1 /\ x_entries xs = 2.
Proof. exact d33_unrepaired_refuted. Qed.
Print Assumptions C19_D33_unrepaired_refuted.

(* D33, second face: one transient failure of the only path; the next write to it could open the file
   (oracle false) but raises KeyError and its record is lost; with the placeholder dropped it is written *)
Theorem C19_D33_unrepaired_loses_record :
  let run d := (map xstatus (x_hist_from d 4 100 (script_oracle d33_script2) d33_ops2 (x_init (fun _ => None))),
                fs (base (x_close (x_final_from d 4 100 (script_oracle d33_script2) d33_ops2 (x_init (fun _ => None))))) 109) in
  script_oracle d33_script2 1%nat 109 0%nat = false /\
  run false = ([EOS; EKEY], None) /\ run true = ([EOS; 0], Some [49; 59]).
Proof. exact d33_unrepaired_loses_record. Qed.
Print Assumptions C19_D33_unrepaired_loses_record.

(* non-vacuity: a history that continues after two legitimate raises (path 109 can never be opened), with a
   pre-existing file, re-opens in append mode, prune() after every write and one EMFILE recovery *)
Example C19_hist_example :
  let s := {| s_limit := 2; s_soft := []; s_hard := []; s_perm := [109] |} in
  let w p c := {| w_path := p; w_str := [c; 59]; w_fa := false |} in
  let ops := [w 162 48; w 109 49; w 7 50; w 162 51; w 109 52; w 162 53] in
  let h := hl_hist 2 1 (script_oracle s) (assoc_fs [(162, [111; 108; 100])]) ops in
  let fin := x_close (hl_final 2 1 (script_oracle s) (assoc_fs [(162, [111; 108; 100])]) ops) in
  fa_consistentb ops = true /\
  map xstatus h = [0; EOS; 0; 0; EOS; 0] /\
  completed ops (map xstatus h) = [w 162 48; w 7 50; w 162 51; w 162 53] /\
  rev (trace (base fin)) =
    [EvOpen 162 false 0 true; EvOpen 109 false 1 false; EvClose 162; EvOpen 109 false 0 false;
     EvOpen 7 false 0 true; EvOpen 162 true 1 true; EvOpen 109 false 2 false; EvClose 7; EvClose 162;
     EvOpen 109 false 0 false; EvOpen 162 true 0 true; EvClose 162] /\
  fs (base fin) 162 = Some [48; 59; 51; 59; 53; 59] /\ fs (base fin) 7 = Some [50; 59] /\ fs (base fin) 109 = None /\
  spec_histb s (assoc_fs [(162, [111; 108; 100])]) ops [7; 109; 162] (map xstatus h) (fs (base fin)) = true.
Proof. vm_compute. repeat split; reflexivity. Qed.
Print Assumptions C19_hist_example.

(* non-vacuity of C19_hist_resume: the second operation of that history raises *)
Example C19_hist_resume_example :
  let s := {| s_limit := 2; s_soft := []; s_hard := []; s_perm := [109] |} in
  let w p c := {| w_path := p; w_str := [c; 59]; w_fa := false |} in
  exists e xs', hl_xwrite 2 1 (script_oracle s) (hl_final 2 1 (script_oracle s) (fun _ => None) [w 162 48]) (w 109 49)
                = XRaise e xs' /\ seen (base xs') = [162] /\ opens (base xs') = [].
Proof. vm_compute. eexists. eexists. repeat split; reflexivity. Qed.
Print Assumptions C19_hist_resume_example.
