(* C09 - property theorems only.  Each is closed by [exact lemma]; Print Assumptions beneath.
   nla_fragment / chic_fragment wrap the site arithmetic REGENERATED from /repo (Gen/GenSite.v:
   nla_site_gen, chic_site_gen = the tail of NlaIIIFragment.identify_site / CHICFragment.identify_site).
   simulate_nla / simulate_chic are the ground truth: a read of sequenced cycles [cycles] whose first cycle
   pairs with the first base of the CATG at reference position p (nla) / with the ligated overhang base at
   reference position x (chic), on either strand, first [clip] and last [tail] cycles soft-clipped, any
   clip-free CIGAR [mid] in between, optionally with the first cycle lost. *)
From Coq Require Import ZArith List Bool.
Import ListNotations.
From SCMO Require Import Lib.Val Lib.C09Str Lib.C09Ref Gen.GenSite Model.C09 Model.C09x Proofs.C09 Proofs.C09x.
Open Scope Z_scope.

(* NlaIII: the site tag is the reference coordinate of the recognised CATG - both strands, every clip,
   every tail clip, every aligned CIGAR, every configuration (check_motif, allow_cycle_shift,
   invert_strand); RS is the strand (flipped by invert_strand), RZ the motif. *)
Theorem C09_nla_site : forall c cycles mid p reverse clip tail pre,
  good_mid mid = true -> py_prefix 4 cycles = CATG -> (c_nocigar c = false \/ clip = 0) ->
  nla_fragment c true pre (Some (simulate_nla cycles mid p reverse clip tail false)) =
  Done (site_obs p (xorb reverse (c_invert c)) reverse (Some CATG) pre).
Proof. exact nla_site. Qed.
Print Assumptions C09_nla_site.

Example C09_nla_site_ex :   (* reverse strand, 3 clipped cycles, insertion in the CIGAR, 2 tail-clipped *)
  let r := simulate_nla [67; 65; 84; 71; 65; 65; 67; 71; 84; 84; 71; 65] [(0, 3); (1, 1); (0, 3)] 1000 true 3 2 false in
  good_mid [(0, 3); (1, 1); (0, 3)] = true /\
  r = mkRead 995 [(4, 2); (0, 3); (1, 1); (0, 3); (4, 3)] true [84; 67; 65; 65; 67; 71; 84; 84; 67; 65; 84; 71] false None /\
  nla_fragment (mkCfg false true false false) true false (Some r) =
  Done (mkObs (Some 1000) (Some true) (Some CATG) None false true (Some 1000) (Some true)).
Proof. vm_compute. repeat split. Qed.
Print Assumptions C09_nla_site_ex.

(* NlaIII: ANY mapped read whose first four sequenced cycles are not CATG (any mismatch inside the
   motif) is rejected - no DS, not valid, reads flagged qcfail - unless the cycle-shift rule applies *)
Theorem C09_nla_reject : forall c r pre,
  r_unmapped r = false -> usable (c_nocigar c) r = true -> c_check_motif c = true ->
  start_motif r <> CATG ->
  (c_allow_shift c = false \/ py_startswith ATG (start_motif r) = false) ->
  is_rejected (nla_fragment c true pre (Some r)).
Proof. exact nla_reject. Qed.
Print Assumptions C09_nla_reject.

Theorem C09_nla_reject_simulated : forall c cycles mid p reverse clip tail (lost : bool) pre,
  good_mid mid = true -> c_check_motif c = true ->
  py_prefix 4 (if lost then tl cycles else cycles) <> CATG ->
  (c_allow_shift c = false \/ py_startswith ATG (py_prefix 4 (if lost then tl cycles else cycles)) = false) ->
  is_rejected (nla_fragment c true pre (Some (simulate_nla cycles mid p reverse clip tail lost))).
Proof. exact nla_reject_sim. Qed.
Print Assumptions C09_nla_reject_simulated.

Example C09_nla_reject_ex :   (* CTTG at the start of a reverse read; CATG at the far end must not rescue it *)
  let r := simulate_nla [67; 84; 84; 71; 65; 65; 67; 65; 84; 71] [(0, 9)] 1000 true 1 0 false in
  start_motif r = [67; 84; 84; 71] /\
  nla_fragment (mkCfg false true true false) true false (Some r) =
  Done (mkObs None (Some true) None (Some [102; 111; 117; 110; 100; 32; 67; 65; 84; 71; 32; 82; 49; 32; 82; 69; 86; 32; 101; 120; 112; 32; 70; 87; 68])
              true false (Some 1000) (Some true)).
Proof. vm_compute. repeat split. Qed.
Print Assumptions C09_nla_reject_ex.

(* NlaIII, lost first cycle: with allow_cycle_shift the site is still p on both strands and for every
   clip (RZ = ATG / CAT); without it the fragment is rejected *)
Theorem C09_nla_shift : forall c cycles mid p reverse clip tail pre,
  good_mid mid = true -> c_check_motif c = true -> c_allow_shift c = true ->
  py_prefix 4 cycles = CATG -> (c_nocigar c = false \/ clip = 0) ->
  nla_fragment c true pre (Some (simulate_nla cycles mid p reverse clip tail true)) =
  Done (site_obs p (xorb reverse (c_invert c)) reverse (Some (if reverse then CAT else ATG)) pre).
Proof. exact nla_shift. Qed.
Print Assumptions C09_nla_shift.

Theorem C09_nla_shift_off : forall c cycles mid p reverse clip tail pre,
  good_mid mid = true -> c_check_motif c = true -> c_allow_shift c = false ->
  py_prefix 4 cycles = CATG ->
  is_rejected (nla_fragment c true pre (Some (simulate_nla cycles mid p reverse clip tail true))).
Proof. exact nla_lost_rejected. Qed.
Print Assumptions C09_nla_shift_off.

Example C09_nla_shift_ex :   (* D12: reverse strand, first cycle lost, 2 clipped cycles *)
  let r := simulate_nla [67; 65; 84; 71; 65; 65; 67; 67; 71; 84] [(0, 7)] 1000 true 2 0 true in
  r = mkRead 994 [(0, 7); (4, 2)] true [65; 67; 71; 71; 84; 84; 67; 65; 84] false None /\
  nla_fragment (mkCfg false true true false) true false (Some r) =
  Done (mkObs (Some 1000) (Some true) (Some CAT) None false true (Some 1000) (Some true)) /\
  let f := simulate_nla [67; 65; 84; 71; 65; 65; 67; 67; 71; 84] [(0, 7)] 1000 false 2 0 true in
  nla_fragment (mkCfg false true true false) true false (Some f) =
  Done (mkObs (Some 1000) (Some false) (Some ATG) None false true (Some 1000) (Some false)).
Proof. vm_compute. repeat split. Qed.
Print Assumptions C09_nla_shift_ex.

(* scCHIC: the site is the base adjacent to the ligated overhang (x-1 on the forward strand, x+1 on the
   reverse strand), for the trimmed (MX = scCHIC...) and the untrimmed layout, every clip; invert_strand
   flips the strand only *)
Theorem C09_chic_site : forall c cycles mid x reverse clip tail trimmed mx pre r2,
  good_mid mid = true -> mx_trimmed mx = trimmed -> (c_nocigar c = false \/ clip = 0) ->
  r2_ok reverse r2 = true ->
  chic_fragment c pre (Some (simulate_chic cycles mid x reverse clip tail trimmed mx)) r2 =
  Done (site_obs (if reverse then x + 1 else x - 1) (xorb reverse (c_invert c)) (xorb reverse (c_invert c)) None pre).
Proof. exact chic_site. Qed.
Print Assumptions C09_chic_site.

Example C09_chic_site_ex :   (* trimmed layout, reverse strand, 2 clipped cycles, mate on the forward strand *)
  let mx := Some [115; 99; 67; 72; 73; 67; 51; 56; 52; 67; 56; 85; 51] in
  let r := simulate_chic [65; 67; 71; 84; 84; 71; 67; 65] [(0, 6)] 1000 true 2 0 true mx in
  mx_trimmed mx = true /\ r_start r = 992 /\ r_cigar r = [(0, 6); (4, 2)] /\
  chic_fragment (mkCfg false true false false) false (Some r) (Some (false, false)) =
  Done (mkObs (Some 1001) (Some true) None None false true (Some 1001) (Some true)).
Proof. vm_compute. repeat split. Qed.
Print Assumptions C09_chic_site_ex.

(* mirror symmetry, for EVERY mapped read with a CIGAR (not only simulated ones): seen on the
   reverse-complemented reference of length L the fragment gets the mirrored site - the recognised 4-mer
   [s, s+4) becomes [L-4-s, L-s) for NlaIII, the cut base s becomes L-1-s for scCHIC - the opposite strand,
   the reverse-complemented recognised sequence, the same validity and qcfail verdict *)
Theorem C09_nla_mirror : forall c L r pre, r_unmapped r = false -> r_cigar r <> [] ->
  forget_rr (nla_fragment c true pre (Some (mirror L r))) =
  mirror_result L 4 (nla_fragment c true pre (Some r)).
Proof. exact nla_mirror. Qed.
Print Assumptions C09_nla_mirror.

Theorem C09_chic_mirror : forall c L r pre r2, r_unmapped r = false -> r_cigar r <> [] ->
  forget_rr (chic_fragment c pre (Some (mirror L r)) (mirror_r2 r2)) =
  mirror_result L 1 (chic_fragment c pre (Some r) r2).
Proof. exact chic_mirror. Qed.
Print Assumptions C09_chic_mirror.

Theorem C09_mirror_involutive : forall L r, mirror L (mirror L r) = r.
Proof. exact mirror_invol. Qed.
Print Assumptions C09_mirror_involutive.

(* the ground truth is itself strand-symmetric: mirroring a simulated read = simulating the mirrored cut *)
Theorem C09_simulator_symmetric : forall L cycles mid q reverse clip tail flag mx, good_mid mid = true ->
  mirror L (simulate_nla cycles mid q reverse clip tail flag) =
    simulate_nla cycles (rev mid) (L - 4 - q) (negb reverse) clip tail flag /\
  mirror L (simulate_chic cycles mid q reverse clip tail flag mx) =
    simulate_chic cycles (rev mid) (L - 1 - q) (negb reverse) clip tail flag mx.
Proof.
  intros L cycles mid q reverse clip tail flag mx H.
  exact (conj (sim_nla_mirror L cycles mid q reverse clip tail flag H)
              (sim_chic_mirror L cycles mid q reverse clip tail flag mx H)).
Qed.
Print Assumptions C09_simulator_symmetric.

Example C09_mirror_ex :   (* a clipped forward read with a deletion, mirrored on a reference of length 5000 *)
  let r := mkRead 1002 [(4, 2); (0, 4); (2, 3); (0, 4)] false [67; 65; 84; 71; 65; 67; 71; 84; 65; 67] false None in
  mirror 5000 r = mkRead 3987 [(0, 4); (2, 3); (0, 4); (4, 2)] true [71; 84; 65; 67; 71; 84; 67; 65; 84; 71] false None /\
  nla_fragment (mkCfg false true false false) true false (Some r) =
    Done (mkObs (Some 1000) (Some false) (Some CATG) None false true (Some 1000) (Some false)) /\
  nla_fragment (mkCfg false true false false) true false (Some (mirror 5000 r)) =
    Done (mkObs (Some 3996) (Some true) (Some CATG) None false true (Some 3996) (Some true)).
Proof. vm_compute. repeat split. Qed.
Print Assumptions C09_mirror_ex.

(* molecules (CHICMolecule / NlaIIIMolecule._add_fragment, CHICMolecule.write_tags): the molecule's cut site
   moves to the outermost fragment site - min on the forward strand, max on the reverse strand - and the
   DS tags a CHIC molecule writes (assignment_radius > 0, more than one fragment) are mirror symmetric:
   tagging the mirrored reads gives the mirrored DS for every fragment, for any list of mapped reads,
   any radius, any configuration. *)
Theorem C09_chic_molecule_mirror : forall c L radius rs,
  Forall (fun r => r_unmapped r = false /\ r_cigar r <> []) rs ->
  chic_mol_ds radius (chic_frag_sites c (map (mirror L) rs)) =
  map (fun s => L - 1 - s) (chic_mol_ds radius (chic_frag_sites c rs)).
Proof. exact chic_molecule_mirror. Qed.
Print Assumptions C09_chic_molecule_mirror.

Theorem C09_nla_molecule_mirror : forall c L rs,
  Forall (fun r => r_unmapped r = false /\ r_cigar r <> []) rs ->
  mol_site (nla_frag_sites c (map (mirror L) rs)) =
  option_map (fun s => L - 4 - s) (mol_site (nla_frag_sites c rs)).
Proof. exact nla_molecule_mirror. Qed.
Print Assumptions C09_nla_molecule_mirror.

Theorem C09_molecule_site_outermost : forall f rest,
  (Forall (fun g => fst g = false) rest -> mol_site (f :: rest) = Some (fold_left Z.min (map snd rest) (snd f))) /\
  (Forall (fun g => fst g = true) rest -> mol_site (f :: rest) = Some (fold_left Z.max (map snd rest) (snd f))).
Proof.
  intros f rest. split; intro H; cbn [mol_site]; f_equal;
    [exact (mol_fold_forward rest (snd f) H) | exact (mol_fold_reverse rest (snd f) H)].
Qed.
Print Assumptions C09_molecule_site_outermost.

Example C09_molecule_ex :   (* three reverse-strand MNase fragments of one cut, ragged by 0..2 bases, radius 2 *)
  let rs := [simulate_chic [84; 65; 67; 71; 71; 65] [(0, 6)] 1000 true 0 0 false None;
             simulate_chic [84; 65; 67; 71; 71; 65] [(0, 6)] 998 true 0 0 false None;
             simulate_chic [84; 65; 67; 71; 71; 65] [(0, 5)] 999 true 1 0 false None] in
  let c := mkCfg false true false false in
  chic_frag_sites c rs = [(true, 1001); (true, 999); (true, 1000)] /\
  chic_mol_ds 2 (chic_frag_sites c rs) = [1001; 1001; 1001] /\
  chic_mol_ds 0 (chic_frag_sites c rs) = [1001; 999; 1000] /\
  chic_mol_ds 2 (chic_frag_sites c (map (mirror 5000) rs)) = [3998; 3998; 3998].
Proof. vm_compute. repeat split. Qed.
Print Assumptions C09_molecule_ex.

(* CHICFragment as constructed (chic_fragment_h = homopolymer filter of Fragment.__init__ + identify_site):
   the filter tests the GENERATED nucleotide list nuc_stretch_bases with the GENERATED length
   chic_max_nuc_stretch; it is strand symmetric (a run of X on one strand is a run of comp X on the other),
   so validity and the qcfail verdict mirror together with the site *)
Theorem C09_homopolymer_filter_symmetric : forall n s,
  homopolymer n nuc_stretch_bases (revcomp s) = homopolymer n nuc_stretch_bases s.
Proof. exact (fun n s => homopolymer_revcomp n nuc_stretch_bases s bases_closed). Qed.
Print Assumptions C09_homopolymer_filter_symmetric.

Theorem C09_chic_mirror_filtered : forall c L r pre r2 seqs, r_unmapped r = false -> r_cigar r <> [] ->
  forget_rr (chic_fragment_h c pre (Some (mirror L r)) (mirror_r2 r2) (map revcomp seqs)) =
  mirror_result L 1 (chic_fragment_h c pre (Some r) r2 seqs).
Proof. exact chic_mirror_h. Qed.
Print Assumptions C09_chic_mirror_filtered.

Theorem C09_chic_site_filtered : forall c cycles mid x reverse clip tail trimmed mx pre r2 seqs,
  good_mid mid = true -> mx_trimmed mx = trimmed -> (c_nocigar c = false \/ clip = 0) ->
  r2_ok reverse r2 = true -> any_homopolymer seqs = false ->
  chic_fragment_h c pre (Some (simulate_chic cycles mid x reverse clip tail trimmed mx)) r2 seqs =
  Done (site_obs (if reverse then x + 1 else x - 1) (xorb reverse (c_invert c)) (xorb reverse (c_invert c)) None pre).
Proof. exact chic_site_h. Qed.
Print Assumptions C09_chic_site_filtered.

Theorem C09_chic_homopolymer_rejected : forall c pre r1 r2 seqs o, any_homopolymer seqs = true ->
  chic_fragment_h c pre r1 r2 seqs = Done o -> o_valid o = false /\ o_qcfail o = true.
Proof. exact chic_homopolymer_invalid. Qed.
Print Assumptions C09_chic_homopolymer_rejected.

Example C09_homopolymer_ex :   (* 18 T in the read: rejected, and so is its mirror image (18 A); 17 T pass *)
  let t18 := 71 :: repeat 84 18 ++ [67] in
  let t17 := 71 :: repeat 84 17 ++ [67] in
  any_homopolymer [t18] = true /\ any_homopolymer [revcomp t18] = true /\ any_homopolymer [t17] = false /\
  chic_fragment_h (mkCfg false true false false) false (Some (mkRead 1000 [(0, 20)] false t18 false None)) None [t18] =
  Done (mkObs (Some 999) (Some false) None (Some s_HomoPolymer) true false (Some 999) (Some false)).
Proof. vm_compute. repeat split. Qed.
Print Assumptions C09_homopolymer_ex.

(* every configuration, including no_umi_cigar_processing (which switches the clip correction off by
   design): the site is the cut shifted by clip_shift = 0 with clip processing, +clip (forward) / -clip
   (reverse) without it.  These are the statements the command-line stream is checked against. *)
Theorem C09_nla_site_any_config : forall c cycles mid p reverse clip tail pre,
  good_mid mid = true -> py_prefix 4 cycles = CATG ->
  nla_fragment c true pre (Some (simulate_nla cycles mid p reverse clip tail false)) =
  Done (site_obs (p + clip_shift c reverse clip) (xorb reverse (c_invert c)) reverse (Some CATG) pre).
Proof. exact nla_site_any. Qed.
Print Assumptions C09_nla_site_any_config.

Theorem C09_nla_shift_any_config : forall c cycles mid p reverse clip tail pre,
  good_mid mid = true -> c_check_motif c = true -> c_allow_shift c = true ->
  py_prefix 4 cycles = CATG ->
  nla_fragment c true pre (Some (simulate_nla cycles mid p reverse clip tail true)) =
  Done (site_obs (p + clip_shift c reverse clip) (xorb reverse (c_invert c)) reverse (Some (if reverse then CAT else ATG)) pre).
Proof. exact nla_shift_any. Qed.
Print Assumptions C09_nla_shift_any_config.

Theorem C09_chic_site_any_config : forall c cycles mid x reverse clip tail trimmed mx pre r2 seqs,
  good_mid mid = true -> mx_trimmed mx = trimmed -> r2_ok reverse r2 = true -> any_homopolymer seqs = false ->
  chic_fragment_h c pre (Some (simulate_chic cycles mid x reverse clip tail trimmed mx)) r2 seqs =
  Done (site_obs ((if reverse then x + 1 else x - 1) + clip_shift c reverse clip)
                 (xorb reverse (c_invert c)) (xorb reverse (c_invert c)) None pre).
Proof. exact chic_site_any_h. Qed.
Print Assumptions C09_chic_site_any_config.

Example C09_nocigar_ex :   (* --no_umi_cigar_processing, 2 clipped cycles: the CHIC site moves by 2 *)
  clip_shift (mkCfg true true false false) false 2 = 2 /\
  chic_fragment_h (mkCfg true true false false) false
     (Some (simulate_chic [84; 65; 67; 71; 71; 65; 67; 84] [(0, 6)] 1000 false 2 0 false None)) None [] =
  Done (mkObs (Some 1001) (Some false) None None false true (Some 1001) (Some false)).
Proof. vm_compute. repeat split. Qed.
Print Assumptions C09_nocigar_ex.

(* ============================================================================================================
   EXTENSION: the two modes of the fragment classes the theorems above leave out (Model/C09x.v).
   nla_no_fragment wraps the REGENERATED body of `if self.no_overhang:` (Gen/GenSite.v: nla_no_overhang_gen);
   the reference handle is the one bamtagmultiome builds (CachedFasta: fetch = a Python slice of the contig).
   nla_fragment_x / chic_fragment_x / nla_no_fragment_x add max_fragment_size: Fragment.update_span,
   get_fragment_size and both is_valid functions are REGENERATED (span_*_gen, fragment_size_gen, *_is_valid_gen).
   ============================================================================================================ *)

(* no_overhang: the CATG lies OUTSIDE the read.  For every reference  pre ++ CATG ++ post  (CATG at p = |pre|),
   a read whose first cycle is the base after the motif (forward) / before it (reverse), with up to 3 clipped
   cycles (= the 3 extra bases identify_site scans), any tail clip, any aligned CIGAR, lying on the contig:
   DS = p on both strands, RS the strand, RZ the scanned window.
   FULL statement: the same equation for every placeable read, i.e. without  clip <= 3,  0 < p  and
   (reverse = false -> 3 <= p + clip).  It is REFUTED on the model regenerated from the source:
   C09_nla_no_overhang_clip_refuted (4 clipped cycles), C09_nla_no_overhang_contig_start_refuted (forward read less than
   7 bases from the contig start), C09_nla_no_overhang_site_zero_refuted (site 0) - findings D33 / D34. *)
Theorem C09_nla_no_overhang_site_partial : forall c pre_ post cycles mid reverse clip tail preq,
  let ref := pre_ ++ CATG ++ post in
  let p := Z.of_nat (length pre_) in
  let r := simulate_nla_no cycles mid p reverse clip tail in
  good_mid mid = true -> c_check_motif c = true -> 0 <= clip <= 3 -> 0 < p ->
  0 <= r_start r -> ref_end r <= Z.of_nat (length ref) -> (reverse = false -> 3 <= p + clip) ->
  nla_no_fragment c (-4) (Some ref) true preq (Some r) =
  Done (site_obs p (xorb reverse (c_invert c)) reverse (Some (no_window ref p reverse clip)) preq).
Proof. exact nla_no_site. Qed.
Print Assumptions C09_nla_no_overhang_site_partial.

Example C09_nla_no_overhang_site_ex :   (* CATG at 10; reverse read, 2 clipped cycles, deletion in the CIGAR *)
  let ref := repeat 65 10 ++ CATG ++ repeat 84 20 in
  let r := simulate_nla_no [65; 65; 67; 65; 65; 65; 65] [(0, 2); (2, 1); (0, 3)] 10 true 2 0 in
  r = mkRead 2 [(0, 2); (2, 1); (0, 3); (4, 2)] true [84; 84; 84; 84; 71; 84; 84] false None /\
  nla_no_fragment (mkCfg false true false false) (-4) (Some ref) true false (Some r) =
  Done (mkObs (Some 10) (Some true) (Some [65; 65; 67; 65; 84; 71; 84]) None false true (Some 10) (Some true)).
Proof. vm_compute. repeat split. Qed.
Print Assumptions C09_nla_no_overhang_site_ex.

(* no_overhang: ANY mapped read without a CATG in the 7 reference bases next to it is rejected: no DS, no RS,
   no site, not valid, reads flagged qcfail *)
Theorem C09_nla_no_overhang_reject : forall c ref r preq,
  r_unmapped r = false -> c_check_motif c = true -> r_cigar r <> [] ->
  py_contains CATG (if r_rev r then fetch_slice ref (ref_end r) (ref_end r + 7)
                    else fetch_slice ref (r_start r - 7) (r_start r)) = false ->
  is_rejected (nla_no_fragment c (-4) (Some ref) true preq (Some r)) /\
  exists o, nla_no_fragment c (-4) (Some ref) true preq (Some r) = Done o /\ o_rs o = None /\ o_loc o = None.
Proof. exact nla_no_reject. Qed.
Print Assumptions C09_nla_no_overhang_reject.

(* no_overhang (with or without max_fragment_size): mirror symmetry for EVERY mapped read lying on the contig
   whose forward-strand image starts at least 8 bases into the contig - the fragment seen on the
   reverse-complemented reference gets the mirrored site, the opposite strand, the reverse-complemented window,
   the same validity.
   FULL statement: the same equation without  8 <= fwd_start L a  and without  mate_ok a r2.  REFUTED:
   C09_nla_no_overhang_contig_start_refuted, C09_nla_no_overhang_site_zero_refuted (finding D33) and, for a mapped mate
   on the same strand with max_fragment_size, C09_size_rule_same_orientation_refuted (finding D35). *)
Theorem C09_nla_no_overhang_mirror_partial : forall c ref a r2 pre m,
  let L := Z.of_nat (length ref) in
  r_unmapped a = false -> r_cigar a <> [] -> mate_ok a r2 = true ->
  0 <= r_start a -> r_start a < ref_end a -> ref_end a <= L -> 8 <= fwd_start L a ->
  forget_rr (nla_no_fragment_x c (-4) (Some (revcomp ref)) true pre (Some (mirror L a)) (option_map (mirror L) r2) m) =
  mirror_result L 4 (nla_no_fragment_x c (-4) (Some ref) true pre (Some a) r2 m).
Proof. exact nla_no_x_mirror. Qed.
Print Assumptions C09_nla_no_overhang_mirror_partial.

Theorem C09_no_overhang_simulator_symmetric : forall L cycles mid p reverse clip tail, good_mid mid = true ->
  mirror L (simulate_nla_no cycles mid p reverse clip tail) =
  simulate_nla_no cycles (rev mid) (L - 4 - p) (negb reverse) clip tail.
Proof. exact sim_nla_no_mirror. Qed.
Print Assumptions C09_no_overhang_simulator_symmetric.

Example C09_nla_no_overhang_mirror_ex :   (* CATG at 10 on a 34-base contig; forward read with 1 clipped cycle *)
  let ref := repeat 65 10 ++ CATG ++ repeat 84 20 in
  let r := simulate_nla_no [67; 84; 84; 84; 84; 84] [(0, 5)] 10 false 1 0 in
  8 <= fwd_start 34 r /\
  nla_no_fragment_x (mkCfg false true false false) (-4) (Some ref) true false (Some r) None None =
    Done (mkObs (Some 10) (Some false) (Some [65; 65; 67; 65; 84; 71; 84]) None false true (Some 10) (Some false)) /\
  nla_no_fragment_x (mkCfg false true false false) (-4) (Some (revcomp ref)) true false (Some (mirror 34 r)) None None =
    Done (mkObs (Some 20) (Some true) (Some [65; 67; 65; 84; 71; 84; 84]) None false true (Some 20) (Some true)).
Proof. vm_compute. repeat split; discriminate. Qed.
Print Assumptions C09_nla_no_overhang_mirror_ex.

(* REFUTED (finding): soft clips are not corrected in no_overhang mode - a placeable read with 4 clipped cycles
   is rejected although the CATG is where the simulator put it *)
Theorem C09_nla_no_overhang_clip_refuted :
  exists c pre_ post cycles mid reverse clip tail,
    let ref := pre_ ++ CATG ++ post in
    let p := Z.of_nat (length pre_) in
    let r := simulate_nla_no cycles mid p reverse clip tail in
    good_mid mid = true /\ c_check_motif c = true /\ 0 <= clip /\ 0 < p /\
    0 <= r_start r /\ ref_end r <= Z.of_nat (length ref) /\ 3 <= p + clip /\
    is_rejected (nla_no_fragment c (-4) (Some ref) true false (Some r)).
Proof. exact nla_no_clip_refuted. Qed.
Print Assumptions C09_nla_no_overhang_clip_refuted.

(* REFUTED (finding): mirror symmetry fails at the contig start - the window of a forward read closer than 7
   bases to position 0 is fetched with a negative slice bound and comes back empty *)
Theorem C09_nla_no_overhang_contig_start_refuted :
  exists c ref r,
    let L := Z.of_nat (length ref) in
    r_unmapped r = false /\ r_cigar r <> [] /\ 0 <= r_start r /\ r_start r < ref_end r /\ ref_end r <= L /\
    forget_rr (nla_no_fragment c (-4) (Some (revcomp ref)) true false (Some (mirror L r))) <>
    mirror_result L 4 (nla_no_fragment c (-4) (Some ref) true false (Some r)).
Proof. exact nla_no_contig_start_refuted. Qed.
Print Assumptions C09_nla_no_overhang_contig_start_refuted.

(* REFUTED (finding): a CATG at reference position 0 gets DS = 0 but the fragment is not valid (identify_site
   returns the integer 0, which `if self.identify_site():` reads as False); its mirror image is valid *)
Theorem C09_nla_no_overhang_site_zero_refuted :
  exists c ref r,
    let L := Z.of_nat (length ref) in
    r_unmapped r = false /\ r_cigar r <> [] /\ 7 <= r_start r /\ r_start r < ref_end r /\ ref_end r <= L /\
    forget_rr (nla_no_fragment c (-4) (Some (revcomp ref)) true false (Some (mirror L r))) <>
    mirror_result L 4 (nla_no_fragment c (-4) (Some ref) true false (Some r)).
Proof. exact nla_no_site_zero_refuted. Qed.
Print Assumptions C09_nla_no_overhang_site_zero_refuted.

(* max_fragment_size = None: the extended model is the model the theorems above speak about *)
Theorem C09_size_rule_off : forall c (two : bool) pre r1 (r2 : option read) seqs off ref,
  (span_at_init pre r1 (if two then r2 else None) <> SpanRaise ->
   nla_fragment_x c two pre r1 r2 None = nla_fragment c two pre r1 /\
   nla_no_fragment_x c off ref two pre r1 r2 None = nla_no_fragment c off ref two pre r1) /\
  (span_at_init (pre || any_homopolymer seqs) r1 r2 <> SpanRaise ->
   chic_fragment_x c pre r1 r2 seqs None = chic_fragment_h c pre r1 (r2_summary r2) seqs).
Proof.
  intros c two pre r1 r2 seqs off ref. split.
  - intro H. exact (conj (nla_x_off c two pre r1 r2 H) (nla_no_x_off c off ref two pre r1 r2 H)).
  - exact (chic_x_off c pre r1 r2 seqs).
Qed.
Print Assumptions C09_size_rule_off.

(* the size rule, for EVERY fragment (any reads, any configuration): compared with the same fragment without
   the rule, the fragment is rejected exactly when it was not qcfail on input and its size - |end - start| of the
   span update_span computed - exceeds max_fragment_size; NlaIII then adds the reason FS and flags the reads,
   scCHIC only withdraws validity; site, strand and recognised sequence are untouched *)
Theorem C09_nla_size_rule_any_fragment : forall c (two : bool) pre r1 (r2 : option read) m o,
  nla_fragment_x c two pre r1 r2 None = Done o ->
  nla_fragment_x c two pre r1 r2 (Some m) =
  Done (match (if pre then None else frag_size r1 (if two then r2 else None)) with
        | Some sz => if m <? sz then size_rejected_nla o else o
        | None => o
        end).
Proof. exact nla_size_general. Qed.
Print Assumptions C09_nla_size_rule_any_fragment.

Theorem C09_chic_size_rule_any_fragment : forall c pre r1 r2 seqs m o,
  chic_fragment_x c pre r1 r2 seqs None = Done o ->
  chic_fragment_x c pre r1 r2 seqs (Some m) =
  Done (match (if pre || any_homopolymer seqs then None else frag_size r1 r2) with
        | Some sz => if m <? sz then size_rejected_chic o else o
        | None => o
        end).
Proof. exact chic_size_general. Qed.
Print Assumptions C09_chic_size_rule_any_fragment.

Theorem C09_fragment_size_is_span_length : forall r1 r2 s e,
  frag_span r1 r2 = Span s e -> frag_size r1 r2 = Some (Z.abs (e - s)).
Proof. exact frag_size_is_span. Qed.
Print Assumptions C09_fragment_size_is_span_length.

(* ground truth for the size: a pair placed by the simulator - read 1 first cycle at x1 on strand [reverse], its
   mate first cycle at x2 on the other strand, clip1 / clip2 clipped cycles - has size |pair_extent|, the number of
   reference bases from the first aligned base of one read to the first aligned base of the other: the same
   expression on both strands; a single read has the length of its aligned part *)
Theorem C09_fragment_size_simulated : forall c1 mid1 x1 reverse cl1 t1 mx c2 mid2 x2 cl2 t2,
  good_mid mid1 = true -> good_mid mid2 = true ->
  frag_size (Some (place_read c1 mid1 x1 reverse cl1 t1 mx)) (Some (place_mate c2 mid2 x2 reverse cl2 t2)) =
    Some (Z.abs (pair_extent x1 cl1 x2 cl2 reverse)) /\
  frag_size (Some (place_read c1 mid1 x1 reverse cl1 t1 mx)) None = Some (ref_len mid1).
Proof.
  intros c1 mid1 x1 reverse cl1 t1 mx c2 mid2 x2 cl2 t2 H1 H2.
  exact (conj (frag_size_pair_sim c1 mid1 x1 reverse cl1 t1 mx c2 mid2 x2 cl2 t2 H1 H2)
              (frag_size_single_sim c1 mid1 x1 reverse cl1 t1 mx H1)).
Qed.
Print Assumptions C09_fragment_size_simulated.

(* simulated fragments with max_fragment_size = m: the site is still the simulated truth, and the fragment is
   rejected iff it was not qcfail on input and m < size - on both strands, every clip, every configuration *)
Theorem C09_nla_size_rule : forall c cycles mid p reverse clip tail pre mate m sz,
  good_mid mid = true -> py_prefix 4 cycles = CATG ->
  let r1 := simulate_nla cycles mid p reverse clip tail false in
  frag_size (Some r1) mate = Some sz ->
  nla_fragment_x c true pre (Some r1) mate (Some m) =
  Done (let o := site_obs (p + clip_shift c reverse clip) (xorb reverse (c_invert c)) reverse (Some CATG) pre in
        if negb pre && (m <? sz) then size_rejected_nla o else o).
Proof. exact nla_size_sim. Qed.
Print Assumptions C09_nla_size_rule.

Theorem C09_chic_size_rule : forall c cycles mid x reverse clip tail trimmed mx pre mate seqs m sz,
  good_mid mid = true -> mx_trimmed mx = trimmed -> any_homopolymer seqs = false ->
  let r1 := simulate_chic cycles mid x reverse clip tail trimmed mx in
  r2_ok reverse (r2_summary mate) = true ->
  frag_size (Some r1) mate = Some sz ->
  chic_fragment_x c pre (Some r1) mate seqs (Some m) =
  Done (let o := site_obs ((if reverse then x + 1 else x - 1) + clip_shift c reverse clip)
                          (xorb reverse (c_invert c)) (xorb reverse (c_invert c)) None pre in
        if negb pre && (m <? sz) then size_rejected_chic o else o).
Proof. exact chic_size_sim. Qed.
Print Assumptions C09_chic_size_rule.

Theorem C09_nla_no_overhang_size_rule : forall c pre_ post cycles mid reverse clip tail preq mate m sz,
  let ref := pre_ ++ CATG ++ post in
  let p := Z.of_nat (length pre_) in
  let r := simulate_nla_no cycles mid p reverse clip tail in
  good_mid mid = true -> c_check_motif c = true -> 0 <= clip <= 3 -> 0 < p ->
  0 <= r_start r -> ref_end r <= Z.of_nat (length ref) -> (reverse = false -> 3 <= p + clip) ->
  frag_size (Some r) mate = Some sz ->
  nla_no_fragment_x c (-4) (Some ref) true preq (Some r) mate (Some m) =
  Done (let o := site_obs p (xorb reverse (c_invert c)) reverse (Some (no_window ref p reverse clip)) preq in
        if negb preq && (m <? sz) then size_rejected_nla o else o).
Proof. exact nla_no_size_sim. Qed.
Print Assumptions C09_nla_no_overhang_size_rule.

Example C09_size_rule_ex :   (* reverse read 1 (CATG at 1000, 2 clipped cycles), forward mate 81 bases upstream: size 100 *)
  let r1 := simulate_nla [67; 65; 84; 71; 65; 65; 67; 71; 84; 84] [(0, 8)] 1000 true 2 0 false in
  let r2 := place_mate [65; 67; 71; 84; 65; 67] [(0, 5)] 901 true 1 0 in
  r_start r2 = 902 /\ ref_end r1 = 1002 /\ pair_extent 1003 2 901 1 true = 100 /\
  frag_size (Some r1) (Some r2) = Some 100 /\
  nla_fragment_x (mkCfg false true false false) true false (Some r1) (Some r2) (Some 100) =
    Done (mkObs (Some 1000) (Some true) (Some CATG) None false true (Some 1000) (Some true)) /\
  nla_fragment_x (mkCfg false true false false) true false (Some r1) (Some r2) (Some 99) =
    Done (mkObs (Some 1000) (Some true) (Some CATG) (Some s_FS) true false (Some 1000) (Some true)) /\
  chic_fragment_x (mkCfg false true false false) false (Some r1) (Some r2) [] (Some 99) =
    Done (mkObs (Some 1004) (Some true) None None false false (Some 1004) (Some true)).
Proof. vm_compute. repeat split. Qed.
Print Assumptions C09_size_rule_ex.

(* the size rule is independent of the strand: for every mapped read 1 whose mate is absent, has no reference
   span, or lies on the opposite strand, the mirrored fragment gets the mirrored site and the SAME verdict
   (validity, qcfail), for every max_fragment_size and configuration.
   FULL statement (NlaIII): the same equation without  mate_ok a r2  - REFUTED by
   C09_size_rule_same_orientation_refuted (finding D35).  For scCHIC the full statement holds (a mapped mate on the
   same strand makes the fragment invalid whatever its size): C09_chic_size_rule_mirror has no hypothesis on the mate. *)
Theorem C09_nla_size_rule_mirror_partial : forall c L a r2 pre m,
  r_unmapped a = false -> r_cigar a <> [] -> mate_ok a r2 = true ->
  forget_rr (nla_fragment_x c true pre (Some (mirror L a)) (option_map (mirror L) r2) m) =
  mirror_result L 4 (nla_fragment_x c true pre (Some a) r2 m).
Proof. exact nla_x_mirror. Qed.
Print Assumptions C09_nla_size_rule_mirror_partial.

Theorem C09_chic_size_rule_mirror : forall c L a r2 pre seqs m,
  r_unmapped a = false -> r_cigar a <> [] ->
  forget_rr (chic_fragment_x c pre (Some (mirror L a)) (option_map (mirror L) r2) (map revcomp seqs) m) =
  mirror_result L 1 (chic_fragment_x c pre (Some a) r2 seqs m).
Proof. exact chic_x_mirror_any. Qed.
Print Assumptions C09_chic_size_rule_mirror.

(* REFUTED (finding): for two mates on the SAME strand (NlaIIIFragment accepts them) update_span takes min / max of
   the two start coordinates; that span is not mirror symmetric, so one orientation passes max_fragment_size and
   the other does not *)
Theorem C09_size_rule_same_orientation_refuted :
  exists c L a b m,
    r_unmapped a = false /\ r_cigar a <> [] /\ r_unmapped b = false /\ r_cigar b <> [] /\ r_rev a = r_rev b /\
    forget_rr (nla_fragment_x c true false (Some (mirror L a)) (Some (mirror L b)) (Some m)) <>
    mirror_result L 4 (nla_fragment_x c true false (Some a) (Some b) (Some m)).
Proof. exact size_same_orientation_refuted. Qed.
Print Assumptions C09_size_rule_same_orientation_refuted.

Example C09_size_rule_mirror_ex :   (* the pair of C09_size_rule_ex and its mirror image: both rejected at 99, both pass at 100 *)
  let r1 := simulate_nla [67; 65; 84; 71; 65; 65; 67; 71; 84; 84] [(0, 8)] 1000 true 2 0 false in
  let r2 := place_mate [65; 67; 71; 84; 65; 67] [(0, 5)] 901 true 1 0 in
  mate_ok r1 (Some r2) = true /\
  nla_fragment_x (mkCfg false true false false) true false (Some (mirror 5000 r1)) (Some (mirror 5000 r2)) (Some 99) =
    Done (mkObs (Some 3996) (Some false) (Some CATG) (Some s_FS) true false (Some 3996) (Some false)) /\
  nla_fragment_x (mkCfg false true false false) true false (Some (mirror 5000 r1)) (Some (mirror 5000 r2)) (Some 100) =
    Done (mkObs (Some 3996) (Some false) (Some CATG) None false true (Some 3996) (Some false)).
Proof. vm_compute. repeat split. Qed.
Print Assumptions C09_size_rule_mirror_ex.
