(* C09 - property theorems only.  Each is closed by [exact lemma]; Print Assumptions beneath.
   nla_fragment / chic_fragment wrap the site arithmetic REGENERATED from /repo (Gen/GenSite.v:
   nla_site_gen, chic_site_gen = the tail of NlaIIIFragment.identify_site / CHICFragment.identify_site).
   simulate_nla / simulate_chic are the ground truth: a read of sequenced cycles [cycles] whose first cycle
   pairs with the first base of the CATG at reference position p (nla) / with the ligated overhang base at
   reference position x (chic), on either strand, first [clip] and last [tail] cycles soft-clipped, any
   clip-free CIGAR [mid] in between, optionally with the first cycle lost. *)
From Coq Require Import ZArith List Bool.
Import ListNotations.
From SCMO Require Import Lib.Val Lib.C09Str Gen.GenSite Model.C09 Proofs.C09.
Open Scope Z_scope.

(* NlaIII: the site tag is the reference coordinate of the recognised CATG - both strands, every clip,
   every tail clip, every aligned CIGAR, every configuration (check_motif, allow_cycle_shift,
   invert_strand); RS is the strand (flipped by invert_strand), RZ the motif. *)
Theorem C09_nla_site : forall c cycles mid p reverse clip tail pre,
  good_mid mid = true -> py_prefix 4 cycles = CATG -> (c_nocigar c = false \/ clip = 0) ->
  nla_fragment c true pre (Some (simulate_nla cycles mid p reverse clip tail false)) =
  Done (site_obs p (xorb reverse (c_invert c)) reverse (Some CATG) pre).
Proof. exact nla_site. Qed.
Print Assumptions C09_nla_site.

Example C09_nla_site_ex :   (* reverse strand, 3 clipped cycles, insertion in the CIGAR, 2 tail-clipped *)
  let r := simulate_nla [67; 65; 84; 71; 65; 65; 67; 71; 84; 84; 71; 65] [(0, 3); (1, 1); (0, 3)] 1000 true 3 2 false in
  good_mid [(0, 3); (1, 1); (0, 3)] = true /\
  r = mkRead 995 [(4, 2); (0, 3); (1, 1); (0, 3); (4, 3)] true [84; 67; 65; 65; 67; 71; 84; 84; 67; 65; 84; 71] false None /\
  nla_fragment (mkCfg false true false false) true false (Some r) =
  Done (mkObs (Some 1000) (Some true) (Some CATG) None false true (Some 1000) (Some true)).
Proof. vm_compute. repeat split. Qed.
Print Assumptions C09_nla_site_ex.

(* NlaIII: ANY mapped read whose first four sequenced cycles are not CATG (any mismatch inside the
   motif) is rejected - no DS, not valid, reads flagged qcfail - unless the cycle-shift rule applies *)
Theorem C09_nla_reject : forall c r pre,
  r_unmapped r = false -> usable (c_nocigar c) r = true -> c_check_motif c = true ->
  start_motif r <> CATG ->
  (c_allow_shift c = false \/ py_startswith ATG (start_motif r) = false) ->
  is_rejected (nla_fragment c true pre (Some r)).
Proof. exact nla_reject. Qed.
Print Assumptions C09_nla_reject.

Theorem C09_nla_reject_simulated : forall c cycles mid p reverse clip tail (lost : bool) pre,
  good_mid mid = true -> c_check_motif c = true ->
  py_prefix 4 (if lost then tl cycles else cycles) <> CATG ->
  (c_allow_shift c = false \/ py_startswith ATG (py_prefix 4 (if lost then tl cycles else cycles)) = false) ->
  is_rejected (nla_fragment c true pre (Some (simulate_nla cycles mid p reverse clip tail lost))).
Proof. exact nla_reject_sim. Qed.
Print Assumptions C09_nla_reject_simulated.

Example C09_nla_reject_ex :   (* CTTG at the start of a reverse read; CATG at the far end must not rescue it *)
  let r := simulate_nla [67; 84; 84; 71; 65; 65; 67; 65; 84; 71] [(0, 9)] 1000 true 1 0 false in
  start_motif r = [67; 84; 84; 71] /\
  nla_fragment (mkCfg false true true false) true false (Some r) =
  Done (mkObs None (Some true) None (Some [102; 111; 117; 110; 100; 32; 67; 65; 84; 71; 32; 82; 49; 32; 82; 69; 86; 32; 101; 120; 112; 32; 70; 87; 68])
              true false (Some 1000) (Some true)).
Proof. vm_compute. repeat split. Qed.
Print Assumptions C09_nla_reject_ex.

(* NlaIII, lost first cycle: with allow_cycle_shift the site is still p on both strands and for every
   clip (RZ = ATG / CAT); without it the fragment is rejected *)
Theorem C09_nla_shift : forall c cycles mid p reverse clip tail pre,
  good_mid mid = true -> c_check_motif c = true -> c_allow_shift c = true ->
  py_prefix 4 cycles = CATG -> (c_nocigar c = false \/ clip = 0) ->
  nla_fragment c true pre (Some (simulate_nla cycles mid p reverse clip tail true)) =
  Done (site_obs p (xorb reverse (c_invert c)) reverse (Some (if reverse then CAT else ATG)) pre).
Proof. exact nla_shift. Qed.
Print Assumptions C09_nla_shift.

Theorem C09_nla_shift_off : forall c cycles mid p reverse clip tail pre,
  good_mid mid = true -> c_check_motif c = true -> c_allow_shift c = false ->
  py_prefix 4 cycles = CATG ->
  is_rejected (nla_fragment c true pre (Some (simulate_nla cycles mid p reverse clip tail true))).
Proof. exact nla_lost_rejected. Qed.
Print Assumptions C09_nla_shift_off.

Example C09_nla_shift_ex :   (* D12: reverse strand, first cycle lost, 2 clipped cycles *)
  let r := simulate_nla [67; 65; 84; 71; 65; 65; 67; 67; 71; 84] [(0, 7)] 1000 true 2 0 true in
  r = mkRead 994 [(0, 7); (4, 2)] true [65; 67; 71; 71; 84; 84; 67; 65; 84] false None /\
  nla_fragment (mkCfg false true true false) true false (Some r) =
  Done (mkObs (Some 1000) (Some true) (Some CAT) None false true (Some 1000) (Some true)) /\
  let f := simulate_nla [67; 65; 84; 71; 65; 65; 67; 67; 71; 84] [(0, 7)] 1000 false 2 0 true in
  nla_fragment (mkCfg false true true false) true false (Some f) =
  Done (mkObs (Some 1000) (Some false) (Some ATG) None false true (Some 1000) (Some false)).
Proof. vm_compute. repeat split. Qed.
Print Assumptions C09_nla_shift_ex.

(* scCHIC: the site is the base adjacent to the ligated overhang (x-1 on the forward strand, x+1 on the
   reverse strand), for the trimmed (MX = scCHIC...) and the untrimmed layout, every clip; invert_strand
   flips the strand only *)
Theorem C09_chic_site : forall c cycles mid x reverse clip tail trimmed mx pre r2,
  good_mid mid = true -> mx_trimmed mx = trimmed -> (c_nocigar c = false \/ clip = 0) ->
  r2_ok reverse r2 = true ->
  chic_fragment c pre (Some (simulate_chic cycles mid x reverse clip tail trimmed mx)) r2 =
  Done (site_obs (if reverse then x + 1 else x - 1) (xorb reverse (c_invert c)) (xorb reverse (c_invert c)) None pre).
Proof. exact chic_site. Qed.
Print Assumptions C09_chic_site.

Example C09_chic_site_ex :   (* trimmed layout, reverse strand, 2 clipped cycles, mate on the forward strand *)
  let mx := Some [115; 99; 67; 72; 73; 67; 51; 56; 52; 67; 56; 85; 51] in
  let r := simulate_chic [65; 67; 71; 84; 84; 71; 67; 65] [(0, 6)] 1000 true 2 0 true mx in
  mx_trimmed mx = true /\ r_start r = 992 /\ r_cigar r = [(0, 6); (4, 2)] /\
  chic_fragment (mkCfg false true false false) false (Some r) (Some (false, false)) =
  Done (mkObs (Some 1001) (Some true) None None false true (Some 1001) (Some true)).
Proof. vm_compute. repeat split. Qed.
Print Assumptions C09_chic_site_ex.

(* mirror symmetry, for EVERY mapped read with a CIGAR (not only simulated ones): seen on the
   reverse-complemented reference of length L the fragment gets the mirrored site - the recognised 4-mer
   [s, s+4) becomes [L-4-s, L-s) for NlaIII, the cut base s becomes L-1-s for scCHIC - the opposite strand,
   the reverse-complemented recognised sequence, the same validity and qcfail verdict *)
Theorem C09_nla_mirror : forall c L r pre, r_unmapped r = false -> r_cigar r <> [] ->
  forget_rr (nla_fragment c true pre (Some (mirror L r))) =
  mirror_result L 4 (nla_fragment c true pre (Some r)).
Proof. exact nla_mirror. Qed.
Print Assumptions C09_nla_mirror.

Theorem C09_chic_mirror : forall c L r pre r2, r_unmapped r = false -> r_cigar r <> [] ->
  forget_rr (chic_fragment c pre (Some (mirror L r)) (mirror_r2 r2)) =
  mirror_result L 1 (chic_fragment c pre (Some r) r2).
Proof. exact chic_mirror. Qed.
Print Assumptions C09_chic_mirror.

Theorem C09_mirror_involutive : forall L r, mirror L (mirror L r) = r.
Proof. exact mirror_invol. Qed.
Print Assumptions C09_mirror_involutive.

(* the ground truth is itself strand-symmetric: mirroring a simulated read = simulating the mirrored cut *)
Theorem C09_simulator_symmetric : forall L cycles mid q reverse clip tail flag mx, good_mid mid = true ->
  mirror L (simulate_nla cycles mid q reverse clip tail flag) =
    simulate_nla cycles (rev mid) (L - 4 - q) (negb reverse) clip tail flag /\
  mirror L (simulate_chic cycles mid q reverse clip tail flag mx) =
    simulate_chic cycles (rev mid) (L - 1 - q) (negb reverse) clip tail flag mx.
Proof.
  intros L cycles mid q reverse clip tail flag mx H.
  exact (conj (sim_nla_mirror L cycles mid q reverse clip tail flag H)
              (sim_chic_mirror L cycles mid q reverse clip tail flag mx H)).
Qed.
Print Assumptions C09_simulator_symmetric.

Example C09_mirror_ex :   (* a clipped forward read with a deletion, mirrored on a reference of length 5000 *)
  let r := mkRead 1002 [(4, 2); (0, 4); (2, 3); (0, 4)] false [67; 65; 84; 71; 65; 67; 71; 84; 65; 67] false None in
  mirror 5000 r = mkRead 3987 [(0, 4); (2, 3); (0, 4); (4, 2)] true [71; 84; 65; 67; 71; 84; 67; 65; 84; 71] false None /\
  nla_fragment (mkCfg false true false false) true false (Some r) =
    Done (mkObs (Some 1000) (Some false) (Some CATG) None false true (Some 1000) (Some false)) /\
  nla_fragment (mkCfg false true false false) true false (Some (mirror 5000 r)) =
    Done (mkObs (Some 3996) (Some true) (Some CATG) None false true (Some 3996) (Some true)).
Proof. vm_compute. repeat split. Qed.
Print Assumptions C09_mirror_ex.

(* molecules (CHICMolecule / NlaIIIMolecule._add_fragment, CHICMolecule.write_tags): the molecule's cut site
   moves to the outermost fragment site - min on the forward strand, max on the reverse strand - and the
   DS tags a CHIC molecule writes (assignment_radius > 0, more than one fragment) are mirror symmetric:
   tagging the mirrored reads gives the mirrored DS for every fragment, for any list of mapped reads,
   any radius, any configuration. *)
Theorem C09_chic_molecule_mirror : forall c L radius rs,
  Forall (fun r => r_unmapped r = false /\ r_cigar r <> []) rs ->
  chic_mol_ds radius (chic_frag_sites c (map (mirror L) rs)) =
  map (fun s => L - 1 - s) (chic_mol_ds radius (chic_frag_sites c rs)).
Proof. exact chic_molecule_mirror. Qed.
Print Assumptions C09_chic_molecule_mirror.

Theorem C09_nla_molecule_mirror : forall c L rs,
  Forall (fun r => r_unmapped r = false /\ r_cigar r <> []) rs ->
  mol_site (nla_frag_sites c (map (mirror L) rs)) =
  option_map (fun s => L - 4 - s) (mol_site (nla_frag_sites c rs)).
Proof. exact nla_molecule_mirror. Qed.
Print Assumptions C09_nla_molecule_mirror.

Theorem C09_molecule_site_outermost : forall f rest,
  (Forall (fun g => fst g = false) rest -> mol_site (f :: rest) = Some (fold_left Z.min (map snd rest) (snd f))) /\
  (Forall (fun g => fst g = true) rest -> mol_site (f :: rest) = Some (fold_left Z.max (map snd rest) (snd f))).
Proof.
  intros f rest. split; intro H; cbn [mol_site]; f_equal;
    [exact (mol_fold_forward rest (snd f) H) | exact (mol_fold_reverse rest (snd f) H)].
Qed.
Print Assumptions C09_molecule_site_outermost.

Example C09_molecule_ex :   (* three reverse-strand MNase fragments of one cut, ragged by 0..2 bases, radius 2 *)
  let rs := [simulate_chic [84; 65; 67; 71; 71; 65] [(0, 6)] 1000 true 0 0 false None;
             simulate_chic [84; 65; 67; 71; 71; 65] [(0, 6)] 998 true 0 0 false None;
             simulate_chic [84; 65; 67; 71; 71; 65] [(0, 5)] 999 true 1 0 false None] in
  let c := mkCfg false true false false in
  chic_frag_sites c rs = [(true, 1001); (true, 999); (true, 1000)] /\
  chic_mol_ds 2 (chic_frag_sites c rs) = [1001; 1001; 1001] /\
  chic_mol_ds 0 (chic_frag_sites c rs) = [1001; 999; 1000] /\
  chic_mol_ds 2 (chic_frag_sites c (map (mirror 5000) rs)) = [3998; 3998; 3998].
Proof. vm_compute. repeat split. Qed.
Print Assumptions C09_molecule_ex.

(* CHICFragment as constructed (chic_fragment_h = homopolymer filter of Fragment.__init__ + identify_site):
   the filter tests the GENERATED nucleotide list nuc_stretch_bases with the GENERATED length
   chic_max_nuc_stretch; it is strand symmetric (a run of X on one strand is a run of comp X on the other),
   so validity and the qcfail verdict mirror together with the site *)
Theorem C09_homopolymer_filter_symmetric : forall n s,
  homopolymer n nuc_stretch_bases (revcomp s) = homopolymer n nuc_stretch_bases s.
Proof. exact (fun n s => homopolymer_revcomp n nuc_stretch_bases s bases_closed). Qed.
Print Assumptions C09_homopolymer_filter_symmetric.

Theorem C09_chic_mirror_filtered : forall c L r pre r2 seqs, r_unmapped r = false -> r_cigar r <> [] ->
  forget_rr (chic_fragment_h c pre (Some (mirror L r)) (mirror_r2 r2) (map revcomp seqs)) =
  mirror_result L 1 (chic_fragment_h c pre (Some r) r2 seqs).
Proof. exact chic_mirror_h. Qed.
Print Assumptions C09_chic_mirror_filtered.

Theorem C09_chic_site_filtered : forall c cycles mid x reverse clip tail trimmed mx pre r2 seqs,
  good_mid mid = true -> mx_trimmed mx = trimmed -> (c_nocigar c = false \/ clip = 0) ->
  r2_ok reverse r2 = true -> any_homopolymer seqs = false ->
  chic_fragment_h c pre (Some (simulate_chic cycles mid x reverse clip tail trimmed mx)) r2 seqs =
  Done (site_obs (if reverse then x + 1 else x - 1) (xorb reverse (c_invert c)) (xorb reverse (c_invert c)) None pre).
Proof. exact chic_site_h. Qed.
Print Assumptions C09_chic_site_filtered.

Theorem C09_chic_homopolymer_rejected : forall c pre r1 r2 seqs o, any_homopolymer seqs = true ->
  chic_fragment_h c pre r1 r2 seqs = Done o -> o_valid o = false /\ o_qcfail o = true.
Proof. exact chic_homopolymer_invalid. Qed.
Print Assumptions C09_chic_homopolymer_rejected.

Example C09_homopolymer_ex :   (* 18 T in the read: rejected, and so is its mirror image (18 A); 17 T pass *)
  let t18 := 71 :: repeat 84 18 ++ [67] in
  let t17 := 71 :: repeat 84 17 ++ [67] in
  any_homopolymer [t18] = true /\ any_homopolymer [revcomp t18] = true /\ any_homopolymer [t17] = false /\
  chic_fragment_h (mkCfg false true false false) false (Some (mkRead 1000 [(0, 20)] false t18 false None)) None [t18] =
  Done (mkObs (Some 999) (Some false) None (Some s_HomoPolymer) true false (Some 999) (Some false)).
Proof. vm_compute. repeat split. Qed.
Print Assumptions C09_homopolymer_ex.

(* every configuration, including no_umi_cigar_processing (which switches the clip correction off by
   design): the site is the cut shifted by clip_shift = 0 with clip processing, +clip (forward) / -clip
   (reverse) without it.  These are the statements the command-line stream is checked against. *)
Theorem C09_nla_site_any_config : forall c cycles mid p reverse clip tail pre,
  good_mid mid = true -> py_prefix 4 cycles = CATG ->
  nla_fragment c true pre (Some (simulate_nla cycles mid p reverse clip tail false)) =
  Done (site_obs (p + clip_shift c reverse clip) (xorb reverse (c_invert c)) reverse (Some CATG) pre).
Proof. exact nla_site_any. Qed.
Print Assumptions C09_nla_site_any_config.

Theorem C09_nla_shift_any_config : forall c cycles mid p reverse clip tail pre,
  good_mid mid = true -> c_check_motif c = true -> c_allow_shift c = true ->
  py_prefix 4 cycles = CATG ->
  nla_fragment c true pre (Some (simulate_nla cycles mid p reverse clip tail true)) =
  Done (site_obs (p + clip_shift c reverse clip) (xorb reverse (c_invert c)) reverse (Some (if reverse then CAT else ATG)) pre).
Proof. exact nla_shift_any. Qed.
Print Assumptions C09_nla_shift_any_config.

Theorem C09_chic_site_any_config : forall c cycles mid x reverse clip tail trimmed mx pre r2 seqs,
  good_mid mid = true -> mx_trimmed mx = trimmed -> r2_ok reverse r2 = true -> any_homopolymer seqs = false ->
  chic_fragment_h c pre (Some (simulate_chic cycles mid x reverse clip tail trimmed mx)) r2 seqs =
  Done (site_obs ((if reverse then x + 1 else x - 1) + clip_shift c reverse clip)
                 (xorb reverse (c_invert c)) (xorb reverse (c_invert c)) None pre).
Proof. exact chic_site_any_h. Qed.
Print Assumptions C09_chic_site_any_config.

Example C09_nocigar_ex :   (* --no_umi_cigar_processing, 2 clipped cycles: the CHIC site moves by 2 *)
  clip_shift (mkCfg true true false false) false 2 = 2 /\
  chic_fragment_h (mkCfg true true false false) false
     (Some (simulate_chic [84; 65; 67; 71; 71; 65; 67; 84] [(0, 6)] 1000 false 2 0 false None)) None [] =
  Done (mkObs (Some 1001) (Some false) None None false true (Some 1001) (Some false)).
Proof. vm_compute. repeat split. Qed.
Print Assumptions C09_nocigar_ex.
