(* C16 — property theorems only.  Each is closed by [exact lemma]; Print Assumptions beneath.
   Model/C16.v is the FeatureContainer state machine; [cfg_fixed] = the machine with the kernel and switches of the CURRENT source
   (Gen/GenFeatures.v; = [cfg_ref], the repaired code, by C16_source_kernel), [cfg_head] = the code at HEAD.
   hit x q f = start f <= x <= end f and strand matches; hit_between a b q f = max a (start f) <= min b (end f)
   and strand matches; trace_ok / ans_ok (Proofs/C16_b.v) = every answer of a run is the brute force answer over
   everything added so far (multiset equality for the list valued default lookup, duplicate free set equality for
   the set valued calls). *)
From Coq Require Import ZArith List Bool Permutation.
Import ListNotations.
From SCMO Require Import Gen.GenFeatures Model.C16 Proofs.C16_a Proofs.C16_b Proofs.C16_c.
Open Scope Z_scope.

(* T: the lookup kernel, index construction pieces, block end and switches REGENERATED from the current source
   (Gen/GenFeatures.v: searchsorted sides and keys, scan / overlap / strand conditions, window ends, `end - 1`, which
   lookups re-index first, where cache_clear is called) are the reference kernel the theorems below are proved about *)
Theorem C16_source_kernel :
  (forall r x q o, at_rec r x q o = at_rec_ref r x q o) /\
  (forall r a b q, between_rec r a b q = between_rec_ref r a b q) /\
  (forall fs, pre_rec fs = pre_rec_ref fs) /\ (forall l v, ss g_fastidx_side l v = ss_left l v) /\
  (forall bs be, g_block_start bs be = bs /\ g_block_end bs be = be - 1) /\
  g_autosort_at = true /\ cfg_fixed = cfg_ref.
Proof. exact source_kernel. Qed.
Print Assumptions C16_source_kernel.

(* default lookup ('bdbnb', the fastIndex window) on the index sort() builds from ANY feature list with
   start <= end (nested, identical, zero length): exactly the overlapping features, with multiplicity *)
Theorem C16_fast_exact : forall fs x q, (forall f, In f fs -> f_start f <= f_end f) ->
  at_rec (build_pure fs) x q 0 = filter (hit x q) (sort_feats fs) /\
  Permutation (at_rec (build_pure fs) x q 0) (filter (hit x q) fs).
Proof. exact fast_exact. Qed.
Print Assumptions C16_fast_exact.

(* 'nb' (longest-feature window, the variant sort() itself uses) and 'optim': the set of overlapping features *)
Theorem C16_nb_exact : forall fs x q o, (forall f, In f fs -> f_start f <= f_end f) -> o = 1 \/ o = 2 ->
  NoDup (at_rec (build_pure fs) x q o) /\
  forall f, In f (at_rec (build_pure fs) x q o) <-> In f fs /\ hit x q f = true.
Proof. exact set_exact. Qed.
Print Assumptions C16_nb_exact.

Theorem C16_variants_agree : forall fs x q o f, (forall f, In f fs -> f_start f <= f_end f) -> o = 1 \/ o = 2 ->
  (In f (at_rec (build_pure fs) x q o) <-> In f (at_rec (build_pure fs) x q 0)).
Proof. exact variants_agree. Qed.
Print Assumptions C16_variants_agree.

(* findFeaturesBetween (scan from min(searchsorted(starts,a)-1, searchsorted(ends,b)) plus the two point lookups) *)
Theorem C16_between_exact : forall fs a b q, (forall f, In f fs -> f_start f <= f_end f) -> a <= b ->
  let r := build_pure fs in
  let l := dedup (between_rec r a b q ++ at_rec r a q 0 ++ at_rec r b q 0) in
  NoDup l /\ forall f, In f l <-> In f fs /\ hit_between a b q f = true.
Proof. exact range_exact. Qed.
Print Assumptions C16_between_exact.

(* every operation history (addFeature / sort / findFeaturesAt x3 variants / findFeaturesBetween /
   findFeaturesAtPysamAlign x2 methods, in any order, with or without explicit sort): every answer of the repaired
   machine, cache included, is the specification evaluated on everything added so far *)
Theorem C16_history : forall ops, hist_wfb ops = true -> trace_ok [] ops (run_ops cfg_fixed init ops).
Proof. exact history. Qed.
Print Assumptions C16_history.

(* entries dropped from the shared LRU cache at any moment (other containers, maxsize) change nothing *)
Theorem C16_eviction_harmless : forall ops st all m',
  Inv st all -> all_wf all -> incl m' (st_memo st) -> hist_wf all ops ->
  trace_ok all ops (run_ops cfg_fixed (mkS (st_contigs st) (st_sorted st) m') ops).
Proof. exact eviction_harmless. Qed.
Print Assumptions C16_eviction_harmless.

(* the executable specification (mode 2, compared with the implementation in K) meets the declarative one *)
Theorem C16_spec_run_sound : forall ops all, forallb op_wfb ops = true -> trace_ok all ops (spec_run all ops).
Proof. exact spec_run_ok. Qed.
Print Assumptions C16_spec_run_sound.

(* the code at HEAD does not have the property: D19 (stale lru_cache), D32 (range query on a stale index),
   D20 (base after a half open block) *)
Theorem C16_history_refuted :
  (hist_wfb ops_D19 = true /\ ~ trace_ok [] ops_D19 (run_ops cfg_head init ops_D19)) /\
  (hist_wfb ops_D32 = true /\ ~ trace_ok [] ops_D32 (run_ops cfg_head init ops_D32)) /\
  (hist_wfb ops_D20 = true /\ ~ trace_ok [] ops_D20 (run_ops cfg_head init ops_D20)).
Proof. exact refuted_head. Qed.
Print Assumptions C16_history_refuted.

(* each of the three repairs is needed on its own *)
Theorem C16_D19_refuted :
  hist_wfb ops_D19 = true /\ ~ trace_ok [] ops_D19 (run_ops (mkCfg false true true) init ops_D19).
Proof. exact refuted_D19. Qed.
Print Assumptions C16_D19_refuted.

Theorem C16_D19_sort_refuted :
  hist_wfb ops_D19_sort = true /\ ~ trace_ok [] ops_D19_sort (run_ops (mkCfg false true true) init ops_D19_sort).
Proof. exact refuted_D19_sort. Qed.
Print Assumptions C16_D19_sort_refuted.

Theorem C16_D32_refuted :
  hist_wfb ops_D32 = true /\ ~ trace_ok [] ops_D32 (run_ops (mkCfg true false true) init ops_D32).
Proof. exact refuted_D32. Qed.
Print Assumptions C16_D32_refuted.

Theorem C16_D20_refuted :
  hist_wfb ops_D20 = true /\ ~ trace_ok [] ops_D20 (run_ops (mkCfg true true false) init ops_D20).
Proof. exact refuted_D20. Qed.
Print Assumptions C16_D20_refuted.

(* non-vacuity: nested, identical and zero length features on two contigs and both strands; queries before and
   after a second round of additions, the last one without an explicit sort *)
Example C16_example :
  let a := mkF 10 20 1 1 1 in let b := mkF 12 12 2 2 2 in let c := mkF 5 30 3 1 3 in
  let ops := [Add 0 a; Add 0 b; Add 0 a; Add 1 c; Sort; At 0 12 0 0; At 0 12 2 1; Between 0 0 11 0;
              Add 0 c; At 0 12 0 0; Blocks 0 [(21, 25); (28, 31)] 1 1; Blocks 0 [(21, 25)] 0 0] in
  hist_wfb ops = true /\
  run_ops cfg_fixed init ops =
    [ROk []; ROk []; ROk []; ROk []; ROk []; ROk [a; a; b]; ROk [b]; ROk [a]; ROk []; ROk [c; a; a; b]; ROk [c]; ROk [c]] /\
  run_ops cfg_head init ops =
    [ROk []; ROk []; ROk []; ROk []; ROk []; ROk [a; a; b]; ROk [b]; ROk [a]; ROk []; ROk [a; a; b]; ROk [c]; ROk []].
Proof. vm_compute. repeat split. Qed.
Print Assumptions C16_example.
