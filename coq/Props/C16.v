(* C16 — property theorems only.  Each is closed by [exact lemma]; Print Assumptions beneath.
   Model/C16.v is the FeatureContainer state machine; [cfg_fixed] = the machine with the kernel and switches of the CURRENT source
   (Gen/GenFeatures.v; = [cfg_ref], the repaired code, by C16_source_kernel), [cfg_head] = the code at HEAD.
   hit x q f = start f <= x <= end f and strand matches; hit_between a b q f = max a (start f) <= min b (end f)
   and strand matches; trace_ok / ans_ok (Proofs/C16_b.v) = every answer of a run is the brute force answer over
   everything added so far (multiset equality for the list valued default lookup, duplicate free set equality for
   the set valued calls). *)
From Coq Require Import ZArith List Bool Permutation Lia.
Import ListNotations.
From SCMO Require Import Gen.GenFeatures Model.C16 Model.C16a Model.C16x Proofs.C16_a Proofs.C16_b Proofs.C16_c Proofs.C16_x Proofs.C16_y Proofs.C16_z.
Open Scope Z_scope.

(* T: the lookup kernel, index construction pieces, block end and switches REGENERATED from the current source
   (Gen/GenFeatures.v: searchsorted sides and keys, scan / overlap / strand conditions, window ends, `end - 1`, which
   lookups re-index first, where cache_clear is called) are the reference kernel the theorems below are proved about *)
Theorem C16_source_kernel :
  (forall r x q o, at_rec r x q o = at_rec_ref r x q o) /\
  (forall r a b q, between_rec r a b q = between_rec_ref r a b q) /\
  (forall fs, pre_rec fs = pre_rec_ref fs) /\ (forall l v, ss g_fastidx_side l v = ss_left l v) /\
  (forall bs be, g_block_start bs be = bs /\ g_block_end bs be = be - 1) /\
  g_autosort_at = true /\ cfg_fixed = cfg_ref.
Proof. exact source_kernel. Qed.
Print Assumptions C16_source_kernel.

(* default lookup ('bdbnb', the fastIndex window) on the index sort() builds from ANY feature list with
   start <= end (nested, identical, zero length): exactly the overlapping features, with multiplicity *)
Theorem C16_fast_exact : forall fs x q, (forall f, In f fs -> f_start f <= f_end f) ->
  at_rec (build_pure fs) x q 0 = filter (hit x q) (sort_feats fs) /\
  Permutation (at_rec (build_pure fs) x q 0) (filter (hit x q) fs).
Proof. exact fast_exact. Qed.
Print Assumptions C16_fast_exact.

(* 'nb' (longest-feature window, the variant sort() itself uses) and 'optim': the set of overlapping features *)
Theorem C16_nb_exact : forall fs x q o, (forall f, In f fs -> f_start f <= f_end f) -> o = 1 \/ o = 2 ->
  NoDup (at_rec (build_pure fs) x q o) /\
  forall f, In f (at_rec (build_pure fs) x q o) <-> In f fs /\ hit x q f = true.
Proof. exact set_exact. Qed.
Print Assumptions C16_nb_exact.

Theorem C16_variants_agree : forall fs x q o f, (forall f, In f fs -> f_start f <= f_end f) -> o = 1 \/ o = 2 ->
  (In f (at_rec (build_pure fs) x q o) <-> In f (at_rec (build_pure fs) x q 0)).
Proof. exact variants_agree. Qed.
Print Assumptions C16_variants_agree.

(* findFeaturesBetween (scan from min(searchsorted(starts,a)-1, searchsorted(ends,b)) plus the two point lookups) *)
Theorem C16_between_exact : forall fs a b q, (forall f, In f fs -> f_start f <= f_end f) -> a <= b ->
  let r := build_pure fs in
  let l := dedup (between_rec r a b q ++ at_rec r a q 0 ++ at_rec r b q 0) in
  NoDup l /\ forall f, In f l <-> In f fs /\ hit_between a b q f = true.
Proof. exact range_exact. Qed.
Print Assumptions C16_between_exact.

(* every operation history (addFeature / sort / findFeaturesAt x3 variants / findFeaturesBetween /
   findFeaturesAtPysamAlign x2 methods, in any order, with or without explicit sort): every answer of the repaired
   machine, cache included, is the specification evaluated on everything added so far *)
Theorem C16_history : forall ops, hist_wfb ops = true -> trace_ok [] ops (run_ops cfg_fixed init ops).
Proof. exact history. Qed.
Print Assumptions C16_history.

(* entries dropped from the shared LRU cache at any moment (other containers, maxsize) change nothing *)
Theorem C16_eviction_harmless : forall ops st all m',
  Inv st all -> all_wf all -> incl m' (st_memo st) -> hist_wf all ops ->
  trace_ok all ops (run_ops cfg_fixed (mkS (st_contigs st) (st_sorted st) m') ops).
Proof. exact eviction_harmless. Qed.
Print Assumptions C16_eviction_harmless.

(* the executable specification (mode 2, compared with the implementation in K) meets the declarative one *)
Theorem C16_spec_run_sound : forall ops all, forallb op_wfb ops = true -> trace_ok all ops (spec_run all ops).
Proof. exact spec_run_ok. Qed.
Print Assumptions C16_spec_run_sound.

(* the code at HEAD does not have the property: D19 (stale lru_cache), D32 (range query on a stale index),
   D20 (base after a half open block) *)
Theorem C16_history_refuted :
  (hist_wfb ops_D19 = true /\ ~ trace_ok [] ops_D19 (run_ops cfg_head init ops_D19)) /\
  (hist_wfb ops_D32 = true /\ ~ trace_ok [] ops_D32 (run_ops cfg_head init ops_D32)) /\
  (hist_wfb ops_D20 = true /\ ~ trace_ok [] ops_D20 (run_ops cfg_head init ops_D20)).
Proof. exact refuted_head. Qed.
Print Assumptions C16_history_refuted.

(* each of the three repairs is needed on its own *)
Theorem C16_D19_refuted :
  hist_wfb ops_D19 = true /\ ~ trace_ok [] ops_D19 (run_ops (mkCfg false true true) init ops_D19).
Proof. exact refuted_D19. Qed.
Print Assumptions C16_D19_refuted.

Theorem C16_D19_sort_refuted :
  hist_wfb ops_D19_sort = true /\ ~ trace_ok [] ops_D19_sort (run_ops (mkCfg false true true) init ops_D19_sort).
Proof. exact refuted_D19_sort. Qed.
Print Assumptions C16_D19_sort_refuted.

Theorem C16_D32_refuted :
  hist_wfb ops_D32 = true /\ ~ trace_ok [] ops_D32 (run_ops (mkCfg true false true) init ops_D32).
Proof. exact refuted_D32. Qed.
Print Assumptions C16_D32_refuted.

Theorem C16_D20_refuted :
  hist_wfb ops_D20 = true /\ ~ trace_ok [] ops_D20 (run_ops (mkCfg true true false) init ops_D20).
Proof. exact refuted_D20. Qed.
Print Assumptions C16_D20_refuted.

(* non-vacuity: nested, identical and zero length features on two contigs and both strands; queries before and
   after a second round of additions, the last one without an explicit sort *)
Example C16_example :
  let a := mkF 10 20 1 1 1 in let b := mkF 12 12 2 2 2 in let c := mkF 5 30 3 1 3 in
  let ops := [Add 0 a; Add 0 b; Add 0 a; Add 1 c; Sort; At 0 12 0 0; At 0 12 2 1; Between 0 0 11 0;
              Add 0 c; At 0 12 0 0; Blocks 0 [(21, 25); (28, 31)] 1 1; Blocks 0 [(21, 25)] 0 0] in
  hist_wfb ops = true /\
  run_ops cfg_fixed init ops =
    [ROk []; ROk []; ROk []; ROk []; ROk []; ROk [a; a; b]; ROk [b]; ROk [a]; ROk []; ROk [c; a; a; b]; ROk [c]; ROk [c]] /\
  run_ops cfg_head init ops =
    [ROk []; ROk []; ROk []; ROk []; ROk []; ROk [a; a; b]; ROk [b]; ROk [a]; ROk []; ROk [a; a; b]; ROk [c]; ROk []].
Proof. vm_compute. repeat split. Qed.
Print Assumptions C16_example.

(* ===================================================================== extension (Model/C16x.v): loaders, nearest lookups, BRK
   strings are lists of character codes; [code] is ANY numbering of the strings the container uses as contig / name / data keys.
   xrun = the machine of Model/C16.v extended with findNearestLeftFeature / findNearestRightFeature / findNearestFeature (with its
   own lru_cache) / findFeaturesBetweenBRK / loader calls; xcfg_src = the switches of the CURRENT source (cfg_fixed, g_autosort_brk,
   g_clear_near); xtrace_ok / xans_ok (Proofs/C16_y.v): every answer is the specification over everything added or loaded so far *)

(* list.sort() on feature tuples is canonical: the index depends on the multiset of features only, not on the order of addition *)
Theorem C16_sort_canonical : forall l l', Permutation l l' -> sort_feats l = sort_feats l'.
Proof. exact sort_feats_perm. Qed.
Print Assumptions C16_sort_canonical.

(* loadGTF (default arguments) on the printed records (1 based inclusive coordinates, gene_id last among any other attributes):
   exactly those features, in file order, no exception *)
Theorem C16_gtf_roundtrip : forall code recs added,
  gtf_compile code gpar_default added (map print_gtf recs) = (map (frec_op code) recs, None).
Proof. exact gtf_roundtrip. Qed.
Print Assumptions C16_gtf_roundtrip.

(* select_feature_type: the lines filtered out are exactly those of other types - for every other argument (contig, thirdOnly,
   exon_select, identifierFields, ignChr, offset, region, head, remapKeys) and every file, raising ones included *)
Theorem C16_gtf_select_type : forall code p tys recs added,
  gtf_compile code (set_select p (Some tys)) added recs =
  gtf_compile code (set_select p None) added (filter (fun r => str_in (gr_type r) tys) recs).
Proof. exact gtf_select. Qed.
Print Assumptions C16_gtf_select_type.

(* file records -> loadGTF -> sort -> findFeaturesAt = the records overlapping the point (on the machine of the current source) *)
Theorem C16_gtf_end_to_end : forall code recs c x q, (forall r, In r recs -> frec_wf r) ->
  let loaded := gtf_compile code gpar_default 0 (map print_gtf recs) in
  exists l, xrun xcfg_src xinit [XLoad (fst loaded) (snd loaded); XB (At c x q 0)] = [ROk []; ROk l] /\
            Permutation l (filter (hit x q) (feats_of c (map (frec_feat code) recs))).
Proof. exact gtf_end_to_end. Qed.
Print Assumptions C16_gtf_end_to_end.

(* T: the two switches of the extension read from the current source *)
Theorem C16_x_source_switches : g_clear_near = true /\ xcfg_src = xg_of g_autosort_brk.
Proof. exact (conj clear_near_shape xcfg_src_shape). Qed.
Print Assumptions C16_x_source_switches.

(* every history of addFeature / sort / loader calls / the lookups of Model/C16.v / findNearest{Left,Right,}Feature /
   findFeaturesBetweenBRK on the machine of the CURRENT source, both lru caches included: every answer is the specification over
   everything added so far.  For findNearestRightFeature and BRK that is brute force; for findNearestLeftFeature / findNearestFeature
   it is the answer of a FRESH index over everything added so far (no stale state), see the _refuted theorems for what that answer is.
   Full statement = C16_xhistory_repaired (no guard).  With the code as it is (g_autosort_brk = false) xhist_wfb demands that a
   findFeaturesBetweenBRK call is not the first lookup after an addFeature: PARTIAL in exactly that respect (C16_brk_stale_refuted) *)
Theorem C16_xhistory_partial : forall ops, xhist_wfb g_autosort_brk ops = true -> xtrace_ok [] ops (xrun xcfg_src xinit ops).
Proof. exact xhistory_src. Qed.
Print Assumptions C16_xhistory_partial.

Theorem C16_xhistory_repaired : forall ops, xhist_wfb true ops = true -> xtrace_ok [] ops (xrun xcfg_ref xinit ops).
Proof. exact xhistory_ref. Qed.
Print Assumptions C16_xhistory_repaired.

(* findFeaturesBetweenBRK straight after addFeature on a new contig answers from the previous index (the history clause of C16) *)
Theorem C16_brk_stale_refuted :
  xhist_wfb true xops_brk = true /\ xrun xcfg_brk xinit xops_brk = [ROk []; ROk []] /\
  ~ xtrace_ok [] xops_brk (xrun xcfg_brk xinit xops_brk).
Proof. exact xbrk_refuted. Qed.
Print Assumptions C16_brk_stale_refuted.

(* what the specification of findNearestRightFeature says: the first in tuple order - in particular with the smallest start - of
   the features on the requested strand that start after x; [] iff there is none *)
Theorem C16_near_right_exact : forall all c x q,
  match spec_near_right all c x q with
  | [] => forall f, In f (feats_of c all) -> right_of x q f = false
  | [f] => In f (feats_of c all) /\ right_of x q f = true /\
           forall g, In g (feats_of c all) -> right_of x q g = true -> fle f g /\ f_start f <= f_start g
  | _ => False
  end.
Proof. exact spec_near_right_bf. Qed.
Print Assumptions C16_near_right_exact.

(* findNearestLeftFeature is NOT the nearest feature to the left (index clipped with the number of contigs), does not respect
   the strand (features[0] whatever its strand); findNearestFeature ignores the strand inside a feature *)
Theorem C16_near_left_refuted :
  xhist_wfb true xops_nl = true /\
  xrun xcfg_ref xinit xops_nl = [ROk []; ROk []; ROk []; ROk [nl_b]] /\
  is_nearest_left [nl_a; nl_b; nl_c] 25 nl_b = false /\ is_nearest_left [nl_a; nl_b; nl_c] 25 nl_c = true.
Proof. exact near_left_refuted. Qed.
Print Assumptions C16_near_left_refuted.

Theorem C16_near_left_strand_refuted :
  xhist_wfb true xops_nl_strand = true /\
  xrun xcfg_ref xinit xops_nl_strand = [ROk []; ROk []; ROk [mkF 0 1 1 2 0]].
Proof. exact near_left_strand_refuted. Qed.
Print Assumptions C16_near_left_strand_refuted.

Theorem C16_near_strand_refuted :
  xhist_wfb true xops_near_strand = true /\ xrun xcfg_ref xinit xops_near_strand = [ROk []; ROk [mkF 0 5 1 2 0]].
Proof. exact near_strand_refuted. Qed.
Print Assumptions C16_near_strand_refuted.

(* non-vacuity: a loader call, nearest lookups on both sides of a later addFeature (the second XNear 0 25 0 is answered after a new
   contig appeared, the third after a feature was added under the coordinate), BRK after a lookup re-indexed *)
Example C16_xexample :
  let a := mkF 10 20 1 1 1 in let b := mkF 12 12 2 2 2 in let c := mkF 5 30 3 1 3 in
  let ops := [XLoad [Add 0 a; Add 0 b; Add 0 a] None; XNearR 0 0 2; XNear 0 25 0; XNear 0 12 1; XB (Add 1 c); XNearL 1 100 0;
              XBrk 1 6 7 0; XNear 0 25 0; XB (Add 0 c); XNear 0 25 0; XBrk 0 11 13 0] in
  xhist_wfb g_autosort_brk ops = true /\
  xrun xcfg_src xinit ops = [ROk []; ROk [b]; ROk [a]; ROk [a; a; b]; ROk []; ROk [c]; ROk [c]; ROk [b]; ROk []; ROk [c]; ROk [c; a]].
Proof. vm_compute. repeat split. Qed.
Print Assumptions C16_xexample.

(* non-vacuity: three printed records (one with a further attribute, one on another contig), select_feature_type on two lines,
   and a BED line [5, 10): loadBED stores the exclusive BED end as inclusive end (a lookup at 10 finds it) *)
Example C16_loader_example :
  let code := intern [[99]; [103; 49]; [103; 50]] in
  let recs := [mkR [99] 10 20 true [103; 49] [101] []; mkR [99] 12 12 false [103; 50] [101] [([120], [121])]; mkR [100] 1 2 true [103; 49] [101] []] in
  let g1 := mkG false [99] [101] 11 21 [43] [46] [(s_gene_id, [103; 49])] in
  let g2 := mkG false [99] [102] 13 13 [45] [46] [(s_gene_id, [103; 50])] in
  (forall r, In r recs -> frec_wf r) /\
  gtf_compile code gpar_default 0 (map print_gtf recs) =
    ([Add 1 (mkF 10 20 2 1 (-1)); Add 1 (mkF 12 12 3 2 (-1)); Add (-1) (mkF 1 2 2 1 (-1))], None) /\
  gtf_compile code (set_select gpar_default (Some [[101]])) 0 [g1; g2] = ([Add 1 (mkF 10 20 2 1 (-1))], None) /\
  (let '(o, e) := bed_compile code false [] [mkB false 6 0 [99] 5 10 [103; 49] [43]] in
   xrun xcfg_src xinit [XLoad o e; XB (At 1 10 0 0); XB (At 1 11 0 0)]) = [ROk []; ROk [mkF 5 10 2 1 0]; ROk []].
Proof.
  split; [intros r [<-|[<-|[<-|[]]]]; unfold frec_wf; cbn; lia|]. vm_compute. repeat split.
Qed.
Print Assumptions C16_loader_example.

(* the attribute column at character level (Model/C16a.v: split at the semicolons, whitespace separated tokens, exactly two tokens,
   double quotes removed): parsing the printed pairs - key, blank, quoted value, semicolon, blank - gives back exactly the pairs,
   in order; clean = not empty, no whitespace, no semicolon, no double quote.  With C16_gtf_roundtrip (whose records carry the
   pairs [r_more ++ [(gene_id, g)]]) this is the round trip of a feature record through the text of its GTF line. *)
Theorem C16_gtf_attrs_roundtrip : forall kvs, (forall kv, In kv kvs -> clean (fst kv) = true /\ clean (snd kv) = true) ->
  parse_attrs (print_attrs kvs) = kvs.
Proof. exact attrs_roundtrip. Qed.
Print Assumptions C16_gtf_attrs_roundtrip.

Example C16_attrs_example :
  let kvs := [(s_gene_id, [103; 49]); ([116; 105; 100], [116; 49; 46; 50])] in
  (forall kv, In kv kvs -> clean (fst kv) = true /\ clean (snd kv) = true) /\
  print_attrs kvs = s_gene_id ++ [32; 34; 103; 49; 34; 59; 32; 116; 105; 100; 32; 34; 116; 49; 46; 50; 34; 59; 32] /\
  parse_attrs (s_gene_id ++ [32; 32; 34; 103; 49; 34; 59; 59; 32; 120; 32; 121; 32; 122; 59; 9; 116; 105; 100; 32; 116; 34; 49; 59; 32; 119]) =
    [(s_gene_id, [103; 49]); ([116; 105; 100], [116; 49])].
Proof. split; [intros kv [<-|[<-|[]]]; vm_compute; auto|]. vm_compute. auto. Qed.
Print Assumptions C16_attrs_example.
