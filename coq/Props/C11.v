(* C11 — property theorems only.  Each is closed by [exact lemma]; Print Assumptions beneath.
   Model/C11.v: should_count = read_should_be_counted (repaired, fixes/C11-D14.patch), weight / incs / assign =
   assignReads (non-binned branches), count_table = the accumulation of create_count_table.
   passes / spec_cell are the declarative filter conjunction and the group-by sum (Proofs/C11.v, Model/C11.v).
   Model/C11x.v: xrun = create_count_table around that accumulation (several files, -head loops as coded, --showtags /
   output mode, --bulk); xspec_cell / xspec_bulk the group-by sums over the records the loops hand on. *)
From Coq Require Import ZArith List Bool QArith.
Import ListNotations.
From SCMO Require Import Model.C11 Model.C11x Gen.GenCountFilter Proofs.C11 Proofs.C11_table Proofs.C11_keys Proofs.C11_gen
  Proofs.C11x.
Open Scope Z_scope.

(* a read is counted iff it passes every selected filter; the conjunction [passes] is stated without any order *)
Theorem C11_iff : forall o r b, should_count o r = Ok b -> (b = true <-> passes o r).
Proof. exact should_count_iff. Qed.
Print Assumptions C11_iff.

(* the boolean form of the conjunction (used by the executable specification specb) is the declarative one *)
Theorem C11_passesb : forall o r, passesb o r = true <-> passes o r.
Proof. exact passesb_iff. Qed.
Print Assumptions C11_passesb.

(* it contributes at least one increment iff it passes (plain / -contig mode; in BED mode per fetched region) *)
Theorem C11_contributes_iff : forall o r l,
  is_nil (snd (prep o)) = false -> assign o None r = Ok l -> (l <> [] <-> passes o r).
Proof. exact assign_contributes_iff. Qed.
Print Assumptions C11_contributes_iff.

(* no option combination raises on a well-formed read / library (repaired code) *)
Theorem C11_no_raise_filter : forall o r, wf_read r = true -> exists b, should_count o r = Ok b.
Proof. exact should_count_total. Qed.
Print Assumptions C11_no_raise_filter.

Theorem C11_no_raise : forall o reads, pre o reads = true -> exists t, count_table o reads = Ok t.
Proof. exact count_table_total. Qed.
Print Assumptions C11_no_raise.

(* D14: the code before the repair raises TypeError on a well-formed unmapped record with --no_indels *)
Theorem C11_no_raise_orig_refuted : exists o r,
  wf_read r = true /\ wf_opts o = true /\ should_count_orig o r = Raise 1 /\ should_count o r = Ok false.
Proof. exists d14_opts, d14_read. exact d14_refuted. Qed.
Print Assumptions C11_no_raise_orig_refuted.

(* the repair changes nothing else: same decision on mapped reads, unmapped reads were never counted *)
Theorem C11_repair_conservative : forall o r,
  (unmapped r = false -> should_count_orig o r = should_count o r) /\
  (unmapped r = true -> forall b, should_count_orig o r = Ok b -> b = false).
Proof. intros o r. exact (conj (orig_mapped o r) (fun E b => orig_unmapped o r b E)). Qed.
Print Assumptions C11_repair_conservative.

(* the contribution goes to the read's own sample ... *)
Theorem C11_own_key_sample : forall o reg r l ck w,
  assign o reg r = Ok l -> In (ck, w) l -> fst ck = map (meta r) (o_stags o).
Proof. exact assign_sample. Qed.
Print Assumptions C11_own_key_sample.

(* ... and feature tuple (joined tags: exactly one increment keyed by the read's own tag values) *)
Theorem C11_own_key_joined : forall o r jt l,
  o_jtags o = Some jt -> o_split o = false -> o_byvalue o = None -> assign o None r = Ok l ->
  (l = [] /\ ~ passes o r) \/
  (passes o r /\ exists w, weight o r = Ok w /\ l = [((map (meta r) (o_stags o), map (fun t => KS (feat r t)) jt), w)]).
Proof. exact assign_joined. Qed.
Print Assumptions C11_own_key_joined.

(* every key component of every increment (all modes, BED included) is one of the read's own feature values
   (or a piece of it under --splitFeatures), the by-value tag name or the BED region *)
Theorem C11_own_key : forall o reg r l ck w,
  assign o reg r = Ok l -> In (ck, w) l -> Forall (own_kc o reg r) (snd ck).
Proof. exact assign_own_key. Qed.
Print Assumptions C11_own_key.

(* two mates, both mapped: half each = 1; 1 each when fragments are not divided; 1 for the selected mate *)
Theorem C11_pair_weight : forall o r1 r2 w1 w2,
  paired r1 = true -> paired r2 = true -> mate_unmapped r1 = false -> mate_unmapped r2 = false ->
  o_r1only o = false -> o_r2only o = false -> o_no_divide o = false -> o_div_multi o = false ->
  weight o r1 = Ok w1 -> weight o r2 = Ok w2 -> (w1 + w2 == 1)%Q.
Proof. exact pair_weight_half. Qed.
Print Assumptions C11_pair_weight.

Theorem C11_pair_weight_nodivide : forall o r1 r2 w1 w2,
  o_no_divide o = true -> o_div_multi o = false ->
  weight o r1 = Ok w1 -> weight o r2 = Ok w2 -> (w1 + w2 == 2)%Q.
Proof. exact pair_weight_nodivide. Qed.
Print Assumptions C11_pair_weight_nodivide.

Theorem C11_pair_weight_r1only : forall o r1 r2 w1,
  o_r1only o = true -> o_div_multi o = false -> read2 r2 = true ->
  weight o r1 = Ok w1 -> (w1 == 1)%Q /\ should_count o r2 = Ok false.
Proof. exact pair_weight_r1only. Qed.
Print Assumptions C11_pair_weight_r1only.

Theorem C11_pair_weight_r2only : forall o r1 r2 w2,
  o_r2only o = true -> o_div_multi o = false -> read1 r1 = true ->
  weight o r2 = Ok w2 -> (w2 == 1)%Q /\ (forall b, should_count o r1 = Ok b -> b = false).
Proof. exact pair_weight_r2only. Qed.
Print Assumptions C11_pair_weight_r2only.

(* table level: two counted mates with the same sample and feature values fill their cell with exactly 1 *)
Theorem C11_pair_cell : forall o r1 r2 jt t,
  o_jtags o = Some jt -> jt <> [] -> o_split o = false -> o_byvalue o = None -> o_bed o = None -> o_contig o = None ->
  o_r1only o = false -> o_r2only o = false -> o_no_divide o = false -> o_div_multi o = false ->
  paired r1 = true -> paired r2 = true -> mate_unmapped r1 = false -> mate_unmapped r2 = false ->
  passes o r1 -> passes o r2 ->
  sample_of o r1 = sample_of o r2 -> map (feat r1) jt = map (feat r2) jt ->
  count_table o [r1; r2] = Ok t ->
  (cell (sample_of o r1, map KS (map (feat r1) jt)) t == 1)%Q.
Proof. exact pair_cell_one. Qed.
Print Assumptions C11_pair_cell.

(* multimapping division: weight = base weight / number of reported hits *)
Theorem C11_multimap : forall o r w,
  weight o r = Ok w ->
  (w == base_weight o r / inject_Z (hits o r))%Q /\
  (forall s, o_div_multi o = true -> get_tag r t_XA = Some (TStr s) -> hits o r = Z.of_nat (length (split [59] s))) /\
  (forall n, o_div_multi o = true -> get_tag r t_XA = None -> get_tag r t_NH = Some (TInt n) -> hits o r = n) /\
  (o_div_multi o = false \/ (get_tag r t_XA = None /\ get_tag r t_NH = None) -> hits o r = 1).
Proof.
  intros o r w H. exact (conj (weight_multimap o r w H)
    (conj (fun s => hits_XA o r s) (conj (fun n => hits_NH o r n) (hits_none o r)))).
Qed.
Print Assumptions C11_multimap.

(* by-value counting adds the numeric value of the read's own tag, whatever the pair / multimapping weight *)
Theorem C11_by_value : forall o r jt b l,
  o_jtags o = Some jt -> jt <> [] -> o_split o = false -> o_byvalue o = Some b -> assign o None r = Ok l ->
  passes o r ->
  l = [((map (meta r) (o_stags o), map KS (joined_feature o (snd (prep o)) r)), num_of (meta r b))].
Proof. exact assign_by_value. Qed.
Print Assumptions C11_by_value.

(* ... which for an integer tag is that integer, and for a decimal string tag its value *)
Theorem C11_by_value_int : forall r b z, meta r b = Some (TInt z) -> (num_of (meta r b) == inject_Z z)%Q.
Proof. exact by_value_int. Qed.
Print Assumptions C11_by_value_int.

(* a float-typed tag (BAM types f, d) adds its exact value: float(str(x)) = x; a string tag the value of its decimal
   literal, 0 when it is none (float() raises ValueError, caught) *)
Theorem C11_by_value_float : forall r b q s, meta r b = Some (TFlt q s) -> num_of (meta r b) = q.
Proof. exact by_value_float. Qed.
Print Assumptions C11_by_value_float.

Theorem C11_by_value_str : forall r b s, meta r b = Some (TStr s) ->
  num_of (meta r b) = match parse_decimal s with Some q => q | None => 0%Q end.
Proof. exact by_value_str. Qed.
Print Assumptions C11_by_value_str.

(* table level: with joined tags and -byValue every cell is the exact sum of the by-value tag over the counted records
   of that sample and key (pair / multimapping weights play no part) *)
Theorem C11_by_value_table : forall o reads t jt b,
  o_jtags o = Some jt -> jt <> [] -> o_split o = false -> o_byvalue o = Some b -> o_bed o = None -> o_contig o = None ->
  count_table o reads = Ok t -> forall k, (cell k t == byvalue_sum o b k reads)%Q.
Proof. exact by_value_table. Qed.
Print Assumptions C11_by_value_table.

(* the whole table: every cell holds the group-by sum of the declarative contributions of the presented reads;
   holds for EVERY option record and read list on which the run does not raise (no well-formedness needed) *)
Theorem C11_table_eq_spec : forall o reads t,
  count_table o reads = Ok t -> forall k, (cell k t == spec_cell o k reads)%Q.
Proof. exact count_table_spec. Qed.
Print Assumptions C11_table_eq_spec.

(* the executable specification evaluated by the check on the implementation's output accepts the model's table *)
Theorem C11_specb_sound : forall o reads t,
  count_table o reads = Ok t -> specb o reads (Some (filter nonzero t)) = true.
Proof. exact specb_sound. Qed.
Print Assumptions C11_specb_sound.

(* ---- extension (Model/C11x.v): several alignment files, -head, --showtags / output mode, --bulk ---- *)
(* table statement, extended: for EVERY extended option record (all options of [opts] plus -head, --bulk, --showtags, return_df / -o)
   and every list of files on which the run does not raise, each cell is the group-by sum of the declarative
   contributions of the records the loops hand to assignReads ([xpresented]: per file - and in BED mode per region -
   a prefix of what the iterator yields, see the C11_head theorems) *)
Theorem C11_table_eq_spec_x : forall x files t,
  xcount x files = Ok t -> forall k, (cell k t == xspec_cell x k files)%Q.
Proof. exact xcount_spec. Qed.
Print Assumptions C11_table_eq_spec_x.

Theorem C11_no_raise_x : forall x files, xpre x files = true -> exists t, xcount x files = Ok t.
Proof. exact xcount_total. Qed.
Print Assumptions C11_no_raise_x.

(* conservative: one file without -head is the table of Model/C11.v; several files without BED / -head the table of
   the concatenated stream *)
Theorem C11_x_conservative : forall x reads,
  is_nil (snd (prep (x_o x))) = false -> x_head x = None -> xcount x [reads] = count_table (x_o x) reads.
Proof. exact xcount_conservative. Qed.
Print Assumptions C11_x_conservative.

Theorem C11_x_files_concat : forall x files,
  is_nil (snd (prep (x_o x))) = false -> x_head x = None -> o_bed (x_o x) = None ->
  xcount x files = count_table (x_o x) (concat files).
Proof. exact xcount_concat. Qed.
Print Assumptions C11_x_files_concat.

(* -head N as coded.  Plain / -contig loop (test before the call, `i > N`): exactly the first N + 1 records the
   iterator yields are handed to assignReads (none when N < 0) ... *)
Theorem C11_head_plain : forall o h reads acc,
  loop_plain o h 0 reads acc
  = count_reads o None (match h with None => reads | Some n => firstn (Z.to_nat (n + 1)) reads end) acc.
Proof. exact loop_plain_head. Qed.
Print Assumptions C11_head_plain.

(* ... BED loop (test after the call): the first N + 2 records of every fetched region, at least one *)
Theorem C11_head_bed : forall o reg h reads acc,
  loop_bed o reg h 0 reads acc
  = count_reads o (Some reg) (match h with None => reads | Some n => firstn (Z.to_nat (Z.max 1 (n + 2))) reads end) acc.
Proof. exact loop_bed_head. Qed.
Print Assumptions C11_head_bed.

(* hence: one file, plain mode: the -head N table is the table of the first N + 1 records *)
Theorem C11_head_table : forall x n reads,
  is_nil (snd (prep (x_o x))) = false -> x_head x = Some n -> o_bed (x_o x) = None -> o_contig (x_o x) = None ->
  xcount x [reads] = count_table (x_o x) (firstn (Z.to_nat (n + 1)) reads).
Proof. exact xcount_head_plain. Qed.
Print Assumptions C11_head_table.

(* the documented meaning ("run the algorithm only on the first N reads") does NOT hold: -head 1 on three counted
   records of one cell gives 2, the first 1 record would give 1  (finding D33; BED mode: -head 0 counts 2) *)
Theorem C11_head_documented_refuted : exists x n reads t k,
  x_head x = Some n /\ 0 <= n /\ xpre x [reads] = true /\ o_bed (x_o x) = None /\ o_contig (x_o x) = None /\
  xcount x [reads] = Ok t /\ ~ (cell k t == spec_cell (x_o x) k (firstn (Z.to_nat n) reads))%Q.
Proof.
  exists (hx_x (Some 1)), 1, hx_reads. destruct head_documented_refuted as (Hp & t & Ht & _ & _ & Hne).
  exists t, hx_key. repeat split; try reflexivity; try assumption. discriminate.
Qed.
Print Assumptions C11_head_documented_refuted.

Theorem C11_head_bed_documented_refuted : exists x reads t k,
  x_head x = Some 0 /\ xpre x [reads] = true /\ xcount x [reads] = Ok t /\ (cell k t == 2)%Q.
Proof.
  exists (hx_bed_x (Some 0)), hx_reads. destruct head_bed_documented_refuted as (Hp & t & Ht & Hc).
  exists t, hx_bed_key. repeat split; assumption.
Qed.
Print Assumptions C11_head_bed_documented_refuted.

(* --bulk (file output): on EVERY input the run is the run without --bulk with the table replaced by its row sums ... *)
Theorem C11_bulk_run : forall x files,
  x_return_df x = false ->
  xrun (set_bulk true x) files
  = match xrun (set_bulk false x) files with XTable t => XTable (bulk_of t) | r => r end.
Proof. exact xrun_bulk. Qed.
Print Assumptions C11_bulk_run.

(* ... where the single column holds, per key, the sum of the per-cell table over all samples, and nothing else *)
Theorem C11_bulk_colsum : forall t k, (cell (bulk_sample, k) (bulk_of t) == key_sum k t)%Q.
Proof. exact bulk_colsum. Qed.
Print Assumptions C11_bulk_colsum.

Theorem C11_bulk_one_sample : forall t s k, s <> bulk_sample -> (cell (s, k) (bulk_of t) == 0)%Q.
Proof. exact bulk_other_sample. Qed.
Print Assumptions C11_bulk_one_sample.

(* table statement for --bulk: every Bulkseq cell is the group-by-key sum of the contributions of all presented records *)
Theorem C11_table_bulk_eq_spec : forall x files t,
  xcount x files = Ok t -> forall k, (cell (bulk_sample, k) (bulk_of t) == xspec_bulk x k files)%Q.
Proof. exact xcount_bulk_spec. Qed.
Print Assumptions C11_table_bulk_eq_spec.

(* create_count_table(args, return_df=True) returns before --bulk is looked at *)
Theorem C11_bulk_ignored_return_df : forall x files b,
  x_return_df x = true -> xrun (set_bulk b x) files = xrun x files.
Proof. exact xrun_bulk_ignored. Qed.
Print Assumptions C11_bulk_ignored_return_df.

(* --showtags, or neither -o nor return_df: the tag listing is printed and the process exits; nothing is counted *)
Theorem C11_showtags_exit : forall x files, files <> [] -> exits x = true -> xrun x files = XExit.
Proof. exact xrun_showtags. Qed.
Print Assumptions C11_showtags_exit.

(* a table comes out only otherwise, and it is the accumulated table or its row sums *)
Theorem C11_run_table : forall x files t,
  xrun x files = XTable t ->
  exits x = false /\ exists t0, xcount x files = Ok t0 /\ t = if bulk_mode x then bulk_of t0 else t0.
Proof. exact xrun_table. Qed.
Print Assumptions C11_run_table.

(* the executable specification evaluated on the implementation's outcome accepts every outcome of the model *)
Theorem C11_specb_sound_x : forall x files, xspecb x files (obs_of (xrun x files)) = true.
Proof. exact xspecb_sound. Qed.
Print Assumptions C11_specb_sound_x.

(* non-vacuity: two files, -head 1 (2 + 1 records presented), by-value on a float tag (0.5, 0.25, 0.25), --bulk *)
Example C11_example_x :
  xpre bx_x bx_files = true /\
  exists t, xrun bx_x bx_files = XTable t /\ (cell (bulk_sample, bx_key) t == 1)%Q /\
            length (xpresented bx_x bx_files) = 3%nat.
Proof. exact bx_ok. Qed.
Print Assumptions C11_example_x.

(* ---- T: the definitions regenerated from the CURRENT source on every run (Gen/GenCountFilter.v) ---- *)
(* the ordered guard chain of read_should_be_counted, as the source states it now, is the model's filter ... *)
Theorem C11_source_filter : forall o r, gen_should_count o r = should_count o r.
Proof. exact gen_should_count_eq. Qed.
Print Assumptions C11_source_filter.

(* ... so C11_iff is a statement about that chain *)
Theorem C11_source_iff : forall o r b, gen_should_count o r = Ok b -> (b = true <-> passes o r).
Proof. exact gen_iff. Qed.
Print Assumptions C11_source_iff.

(* countToAdd of assignReads (0.5 condition, r1only/r2only branch, multimapping division) is the model's weight *)
Theorem C11_source_weight : forall o r, gen_weight o r = weight o r.
Proof. exact gen_weight_eq. Qed.
Print Assumptions C11_source_weight.

Theorem C11_source_pair_weight : forall o r1 r2 w1 w2,
  paired r1 = true -> paired r2 = true -> mate_unmapped r1 = false -> mate_unmapped r2 = false ->
  o_r1only o = false -> o_r2only o = false -> o_no_divide o = false -> o_div_multi o = false ->
  gen_weight o r1 = Ok w1 -> gen_weight o r2 = Ok w2 -> (w1 + w2 == 1)%Q.
Proof. exact gen_pair_weight. Qed.
Print Assumptions C11_source_pair_weight.

(* a selected mate weighs 1 whatever doNotDivideFragments says (the option record of THIS call decides) *)
Theorem C11_source_selected_mate : forall o r w,
  o_r1only o = true \/ o_r2only o = true -> o_div_multi o = false -> gen_weight o r = Ok w -> (w == 1)%Q.
Proof. exact gen_selected_mate_weight. Qed.
Print Assumptions C11_source_selected_mate.

(* -head: the two enumerate loops of create_count_table AS THE SOURCE STATES THEM NOW (break test gen_head_stop_plain / _bed,
   placed before / after the assignReads call: gen_head_test_first_plain / _bed) hand exactly the first N + 1 records (plain,
   -contig), resp. the first max 1 (N + 2) records of the region (BED), to assignReads *)
Theorem C11_source_head_plain : forall o h reads acc,
  loop_src gen_head_test_first_plain gen_head_stop_plain o None h 0 reads acc
  = count_reads o None (match h with None => reads | Some n => firstn (Z.to_nat (n + 1)) reads end) acc.
Proof. exact gen_head_plain. Qed.
Print Assumptions C11_source_head_plain.

Theorem C11_source_head_bed : forall o reg h reads acc,
  loop_src gen_head_test_first_bed gen_head_stop_bed o (Some reg) h 0 reads acc
  = count_reads o (Some reg) (match h with None => reads | Some n => firstn (Z.to_nat (Z.max 1 (n + 2))) reads end) acc.
Proof. exact gen_head_bed. Qed.
Print Assumptions C11_source_head_bed.

(* the -byValue auto-append test of create_count_table is a membership test on the parsed tag list *)
Theorem C11_source_autoappend : forall o,
  prep o = match o_jtags o with
           | Some l => (true, if gen_autoappend o l
                              then l ++ match o_byvalue o with Some b => [b] | None => [] end else l)
           | None => (false, match o_ftags o with Some l => l | None => [] end)
           end.
Proof. exact gen_prep. Qed.
Print Assumptions C11_source_autoappend.

(* no state is carried from one call to the next: the module assigns no modelled option attribute of args
   (gen_args_written is collected from the source), and the k-th table of a history of calls on one namespace is
   the table of the options requested for that call alone *)
Theorem C11_stateless :
  forallb (fun n => negb (mem n gen_args_modelled)) gen_args_written = true /\
  forall reads steps ns, history ns steps reads = map (fun o => count_table o reads) (requested ns steps).
Proof. exact (conj args_written_ok history_stateless). Qed.
Print Assumptions C11_stateless.

(* non-vacuity: a proper pair + an unmapped record + a duplicate; --dedup --no_indels, joined tags chrom,RC *)
Example C11_example :
  pre ex_opts ex_reads = true /\
  exists t, count_table ex_opts ex_reads = Ok t /\
    (cell ex_key t == 1)%Q /\
    map (passesb ex_opts) ex_reads = [true; true; false; false].
Proof. exact ex_ok. Qed.
Print Assumptions C11_example.
