(* C09Str: Python string idioms over strings represented as lists of character codes.
   Used by the GENERATED site arithmetic (Gen/GenSite.v) and the C09 model. Definitions only. *)
From Coq Require Import ZArith List Bool.
Import ListNotations.
Open Scope Z_scope.

Definition str := list Z.

Fixpoint str_eqb (a b : str) : bool :=
  match a, b with
  | [], [] => true
  | x :: a', y :: b' => (x =? y) && str_eqb a' b'
  | _, _ => false
  end.

(* s[:n] and s[-n:] for a literal n > 0 (Python clamps to the string) *)
Definition py_prefix (n : nat) (s : str) : str := firstn n s.
Definition py_suffix (n : nat) (s : str) : str := skipn (length s - n) s.

(* s.startswith(p) / s.endswith(p) *)
Definition py_startswith (p s : str) : bool := str_eqb (py_prefix (length p) s) p.
Definition py_endswith (p s : str) : bool := str_eqb (py_suffix (length p) s) p.

(* p in s  (substring test) *)
Fixpoint py_contains (p s : str) : bool :=
  py_startswith p s || match s with [] => false | _ :: s' => py_contains p s' end.

(* Fragment.__init__ homopolymer filter:  n*'X' in seq  for some X of [bases] *)
Definition homopolymer (n : nat) (bases : list Z) (s : str) : bool :=
  existsb (fun b => py_contains (repeat b n) s) bases.
