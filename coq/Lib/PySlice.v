(* Python sequence slicing  s[start:stop]  (step None / 1) and indexing  s[i],
   as CPython computes them (PySlice_AdjustIndices / list_subscript). Definitions only.

   bound b (None | Some i), length n:
     None      -> the default (0 for start, n for stop)
     i < 0     -> max 0 (i + n)
     otherwise -> min i n
   s[lo:hi] then has max 0 (hi - lo) elements starting at lo.                      *)
From Coq Require Import ZArith List Bool.
Import ListNotations.
Open Scope Z_scope.

Record pslice := mkSlice { ps_start : option Z; ps_stop : option Z }.

Definition slice_all : pslice := mkSlice None None.                 (* slice(None) *)
Definition slice_from (a : Z) : pslice := mkSlice (Some a) None.    (* slice(a, None) *)
Definition slice_range (a b : Z) : pslice := mkSlice (Some a) (Some b).

Definition adjust (n : Z) (b : option Z) (default : Z) : Z :=
  match b with
  | None => default
  | Some i => if i <? 0 then Z.max 0 (i + n) else Z.min i n
  end.

Definition slice_lo (n : Z) (s : pslice) : Z := adjust n (ps_start s) 0.
Definition slice_hi (n : Z) (s : pslice) : Z := adjust n (ps_stop s) n.

(* the bases at positions [a, a+k) of l that exist (a, k natural numbers) *)
Definition sub {A} (a k : nat) (l : list A) : list A := firstn k (skipn a l).

Definition pyslice {A} (s : pslice) (l : list A) : list A :=
  let n := Z.of_nat (length l) in
  let lo := slice_lo n s in
  let hi := slice_hi n s in
  sub (Z.to_nat lo) (Z.to_nat (hi - lo)) l.

(* s[i] : None = IndexError *)
Definition pyindex {A} (l : list A) (i : Z) : option A :=
  let n := Z.of_nat (length l) in
  if i <? 0 then (if i + n <? 0 then None else nth_error l (Z.to_nat (i + n)))
  else nth_error l (Z.to_nat i).

Definition opt_eqb (a b : option Z) : bool :=
  match a, b with
  | None, None => true
  | Some x, Some y => x =? y
  | _, _ => false
  end.
Definition pslice_eqb (a b : pslice) : bool :=
  opt_eqb (ps_start a) (ps_start b) && opt_eqb (ps_stop a) (ps_stop b).
