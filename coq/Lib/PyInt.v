(* Python integer idioms used by generated and hand-written models. Definitions only. *)
From Coq Require Import ZArith List Bool.
Import ListNotations.
Open Scope Z_scope.

(* int(np.ceil(a / b)) for integers a, b <> 0 *)
Definition cdiv (a b : Z) : Z := - ((- a) / b).

(* list(range(lo, hi)) *)
Fixpoint zrange_from (lo : Z) (n : nat) : list Z :=
  match n with O => [] | S n' => lo :: zrange_from (lo + 1) n' end.
Definition zrange (lo hi : Z) : list Z := zrange_from lo (Z.to_nat (hi - lo)).
