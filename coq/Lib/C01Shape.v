(* C01: the SHAPE of the loader loop (DemultiplexingStrategyLoader.demultiplex) as a small table.
   tools/c01.py regenerates a value of [shape] from the current source into Gen/GenLoader.v; the model of the
   loop (Model/C01.v) is defined from such a value, the theorems are proved for every value satisfying
   [wf_shape].  Definitions only.

   One arm = one of the three ways the try-statement of one (pair, strategy) step ends:
     accept  : the try body  (strategy.demultiplex returned, its records are written)
     reject  : except NonMultiplexable
     generic : except Exception
   arm_sink    : the handle the arm's write() goes to (none: the arm has no write)
   arm_guarded : the write (for the reject arm: formatting + write) stands under  `if <that handle> is not None:`
   arm_counts  : when the arm completes normally, control reaches  strategyYields[strategy.shortName] += 1
                 (an except arm that ends in `continue`, or an increment inside try/else, gives false for it)
   sh_count_early       : the increment stands in the try body BEFORE the write (so a raising write is counted)
   sh_incr_before_test  : processedReadPairs is incremented before the maxReadPairs test in the body of the pair loop
   sh_strat_before_test : the strategy loop stands before the maxReadPairs test in the body of the pair loop *)
From Coq Require Import Bool.

Inductive sink := SNone | STarget | SReject.

Record arm := mkArm { arm_sink : sink; arm_guarded : bool; arm_counts : bool }.

Record shape := mkShape {
  sh_accept : arm;
  sh_reject : arm;
  sh_generic : arm;
  sh_count_early : bool;
  sh_incr_before_test : bool;
  sh_strat_before_test : bool
}.

Definition sink_eqb (a b : sink) : bool :=
  match a, b with
  | SNone, SNone | STarget, STarget | SReject, SReject => true
  | _, _ => false
  end.

(* well-formed: accepted records go to the demultiplexed output and are counted, after the write; both except arms
   write to the rejects output under the handle guard (the loader must work without a rejects handle) and are not
   counted; the counter of processed pairs and the strategy loop stand on the same side of the maxReadPairs test.
   Left free: whether the target write is guarded (a target handle always exists in the modelled configurations) and
   on which side of the test the two stand (test last: at least one pair is consumed; test first: possibly none). *)
Definition wf_shape (s : shape) : bool :=
  sink_eqb (arm_sink (sh_accept s)) STarget && arm_counts (sh_accept s)
  && sink_eqb (arm_sink (sh_reject s)) SReject && arm_guarded (sh_reject s) && negb (arm_counts (sh_reject s))
  && sink_eqb (arm_sink (sh_generic s)) SReject && arm_guarded (sh_generic s) && negb (arm_counts (sh_generic s))
  && negb (sh_count_early s)
  && Bool.eqb (sh_incr_before_test s) (sh_strat_before_test s).

(* the four well-formed values *)
Definition good_shape (guard_target test_last : bool) : shape :=
  mkShape (mkArm STarget guard_target true) (mkArm SReject true false) (mkArm SReject true false) false test_last test_last.

(* the loop of the repaired tree as it stands (fixes/C01-D1.patch) *)
Definition repaired_shape : shape := good_shape true true.

(* the loop before the repair: the generic arm wrote nothing and fell through to the increment *)
Definition legacy_shape : shape :=
  mkShape (mkArm STarget true true) (mkArm SReject true false) (mkArm SNone false true) false true true.
