(* StatusLang (C20): a small language of side-effecting steps with Python control flow (exceptions with
   try/except with or without re-raise, `except Exception` vs bare except, for loops over an iterator
   with break / continue, run-time branches, branches on tracked data, early return, and a call of a
   pool worker that runs on a world of its own) over an abstract world describing the status file and
   one BAM under construction (the output of the run, or the temporary BAM of one pool worker).
   Gen/GenStatus.v (regenerated from /repo on every run) contains the pipelines as terms of [prog].
   Definitions only; no proofs. *)
From Coq Require Import List Bool Arith.
Import ListNotations.

(* content of <output>.status.txt *)
Inductive status := SNone        (* no status file *)
                  | SUnfinished  (* 'unfinished' *)
                  | SFail        (* 'FAIL...' *)
                  | SOk          (* 'Reached end. All ok!' *)
                  | SOther.      (* anything else, e.g. a truncated file, 'Submitting jobs...' *)

Record world := mkW {
  st : status;   (* status file *)
  ex : bool;     (* the BAM exists *)
  co : bool;     (* the BAM is readable to the end and holds every record *)
  so : bool;     (* the BAM is coordinate sorted *)
  ix : bool;     (* the BAM has an index that belongs to it *)
  lost : bool;   (* ghost: records were dropped WITHOUT a report: an exception raised in a block that writes
                    records was swallowed, a worker failed, a returned temp BAM was never put on the merge
                    list, a temp BAM holding units of unreported tasks was thrown away *)
  rep : bool;    (* ghost: records of a segment were dropped and the segment was REPORTED
                    (run_tagging_tasks: timeout_tasks, blacklisted in the output header by the parent) *)
  tu : bool;     (* data: total_molecules_written > 0 (the counter local to one run_tagging_task call) *)
  tm : bool;     (* data: total_molecules > 0 (the accumulator of one worker) *)
  gu : bool;     (* ghost: units were written since the current segment (a try block whose handler reports)
                    began / outside any segment *)
  gm : bool;     (* ghost: units were written by a segment that then completed normally *)
  got : bool     (* data: the parent holds the path of a temp BAM returned by the last worker (bam is not None)
                    and has not yet put it on the merge list *)
}.

Definition set_st (s : status) (w : world) :=
  mkW s (ex w) (co w) (so w) (ix w) (lost w) (rep w) (tu w) (tm w) (gu w) (gm w) (got w).
Definition set_file (e c s i : bool) (w : world) :=
  mkW (st w) e c s i (lost w) (rep w) (tu w) (tm w) (gu w) (gm w) (got w).
Definition set_lost (b : bool) (w : world) :=
  mkW (st w) (ex w) (co w) (so w) (ix w) b (rep w) (tu w) (tm w) (gu w) (gm w) (got w).
Definition set_rep (b : bool) (w : world) :=
  mkW (st w) (ex w) (co w) (so w) (ix w) (lost w) b (tu w) (tm w) (gu w) (gm w) (got w).
Definition set_tu (b : bool) (w : world) :=
  mkW (st w) (ex w) (co w) (so w) (ix w) (lost w) (rep w) b (tm w) (gu w) (gm w) (got w).
Definition set_tm (b : bool) (w : world) :=
  mkW (st w) (ex w) (co w) (so w) (ix w) (lost w) (rep w) (tu w) b (gu w) (gm w) (got w).
Definition set_gu (b : bool) (w : world) :=
  mkW (st w) (ex w) (co w) (so w) (ix w) (lost w) (rep w) (tu w) (tm w) b (gm w) (got w).
Definition set_gm (b : bool) (w : world) :=
  mkW (st w) (ex w) (co w) (so w) (ix w) (lost w) (rep w) (tu w) (tm w) (gu w) b (got w).
Definition set_got (b : bool) (w : world) :=
  mkW (st w) (ex w) (co w) (so w) (ix w) (lost w) (rep w) (tu w) (tm w) (gu w) (gm w) b.

Inductive eff :=
| EStatus (s : status)   (* write_status(out, msg) *)
| ERemoveOut             (* os.remove(out) *)
| ERemoveIdx             (* os.remove(out.bai) *)
| EUnit                  (* one unit of records handed to the not yet finished BAM (molecule.write_pysam) *)
| EWriteOut              (* the BAM is produced from everything handed over so far
                            (pysam.sort -o out / pysam.merge out / move / rename) *)
| EIndex                 (* pysam.index(out) / move of the .bai *)
| ENop                   (* a call that does not touch status file, BAM or its index *)
| EReport                (* timeout_tasks.append(task): the segment that just failed is recorded in the
                            worker's result (the ghost [rep] is set when the handler is entered, see [mark]) *)
| ECntReset              (* total_molecules_written = 0 *)
| ECntInc                (* total_molecules_written += 1 *)
| EAccum                 (* total_molecules += statistics.get('total_molecules_written', 0) *)
| EKeep.                 (* bam_files_generated.append(bam): the returned temp BAM is put on the merge list *)

Definition apply (e : eff) (w : world) : world :=
  match e with
  | EStatus s => set_st s w
  | ERemoveOut => set_file false false false (ix w) w
  | ERemoveIdx => set_file (ex w) (co w) (so w) false w
  | EUnit => set_gu true (set_file (ex w) false (so w) (ix w) w)
  | EWriteOut => (* a returned path that never reached the merge list is not in the result *)
      let l := lost w || got w in
      set_got false (set_lost l (set_file true (negb l && negb (rep w)) true false w))
  | EIndex => set_file (ex w) (co w) (so w) (ex w) w
  | ENop => w
  | EReport => w
  | ECntReset => set_tu false w
  | ECntInc => set_tu true w
  | EAccum => set_tm (tm w || tu w) w
  | EKeep => set_got false w
  end.

(* the step raised after doing part of its work *)
Definition partial (e : eff) (w : world) : world :=
  match e with
  | EStatus _ => set_st SOther w                                   (* opened for writing, truncated *)
  | EUnit => set_gu true (set_file (ex w) false (so w) (ix w) w)
  | EWriteOut => set_file true false true false w                  (* a well-formed file holding only part of the records *)
  | EIndex => set_file (ex w) (co w) (so w) false w
  | _ => w
  end.

(* exception kinds a failing step can raise, with the part of Python's class hierarchy that the
   handlers of the pipelines distinguish:
     BaseException > Exception > {RuntimeError, ValueError, MemoryError, OSError > TimeoutError, others};
     KeyboardInterrupt / SystemExit are BaseExceptions that are not Exceptions *)
Inductive ekind := KRuntime | KValue | KOS | KTimeout | KMemory | KOther | KBase.
Definition all_kinds : list ekind := [KRuntime; KValue; KOS; KTimeout; KMemory; KOther; KBase].

(* the class named in an except clause *)
Inductive hclass := HBase       (* bare except / BaseException *)
                  | HException | HOS (* OSError, IOError, EnvironmentError *) | HTimeout | HValue
                  | HRuntime | HMemory | HKeyboard.

Definition catches1 (h : hclass) (k : ekind) : bool :=
  match h, k with
  | HBase, _ => true
  | HException, KBase => false
  | HException, _ => true
  | HOS, KOS | HOS, KTimeout => true
  | HTimeout, KTimeout => true
  | HValue, KValue => true
  | HRuntime, KRuntime => true
  | HMemory, KMemory => true
  | HKeyboard, KBase => true
  | _, _ => false
  end.
Definition catches (hs : list hclass) (k : ekind) : bool := existsb (fun h => catches1 h k) hs.

(* fault oracle answer for one executed step: it works, raises before doing anything, or raises after
   doing part of its work; the exception kind is part of the answer *)
Inductive fault := FNone | FBefore (k : ekind) | FPartial (k : ekind).

(* first component of what run_tagging_tasks returns *)
Inductive retv := VPath (* the path of its temp BAM *) | VNone.
Inductive res := RNormal | RRaised (k : ekind) | RBreak | RContinue | RReturn (v : retv).

(* run-time tests on data the world tracks *)
Inductive guard := GTotal   (* total_molecules > 0 *)
                 | GGot.    (* bam is not None *)
Definition guard_holds (g : guard) (w : world) : bool := match g with GTotal => tm w | GGot => got w end.

Inductive prog :=
| Skip
| Step (lbl : nat) (e : eff)
| Raise (lbl : nat) (k : ekind)     (* a raise statement; exit() is Raise _ KBase *)
| Seq (a b : prog)
| Loop (id : nat) (lbl : nat) (hdr : eff) (body : prog)
    (* for x in it: body  --  [cnt id k] times (next(it) with effect hdr; body), then a last next(it);
       k = how often this loop was entered before *)
| Try (body handler : prog) (reraise : bool) (hs : list hclass)
    (* try: body  except (hs): handler [; raise] *)
| Choice (id : nat) (a b : prog)    (* if <run-time condition>: a else: b *)
| Break
| Continue
| Return (v : retv)
| IfW (g : guard) (a b : prog)      (* if <condition on tracked data>: a else: b *)
| Spawn (lbl : nat) (p : prog).     (* one result of the worker pool: p (run_tagging_tasks) runs on a world of its
                                       own (fresh temp BAM); its return value / exception reaches the caller *)

Definition seq_of (l : list prog) : prog := fold_right Seq Skip l.

Fixpoint has_unit (p : prog) : bool :=
  match p with
  | Step _ e => match e with EUnit => true | _ => false end
  | Seq a b => has_unit a || has_unit b
  | Loop _ _ h b => match h with EUnit => true | _ => has_unit b end
  | Try b h _ _ => has_unit b || has_unit h
  | Choice _ a b => has_unit a || has_unit b
  | IfW _ a b => has_unit a || has_unit b
  | Spawn _ _ => true
  | _ => false
  end.

(* the handler certainly records the failed segment (in every run of the handler that ends normally) *)
Fixpoint reports (p : prog) : bool :=
  match p with
  | Step _ e => match e with EReport => true | _ => false end
  | Seq a b => reports a || reports b
  | Choice _ a b => reports a && reports b
  | IfW _ a b => reports a && reports b
  | _ => false
  end.

Record cfg := mkC { cn : nat;          (* steps executed so far *)
                    wd : world;
                    tr : list nat;     (* labels of the executed steps, last first *)
                    en : list nat }.   (* ids of the loops entered so far, last first *)

(* an exception is swallowed by a handler (no re-raise) after a block that writes records: the records of that
   block are incomplete; reported when the handler reports, lost otherwise *)
Definition mark_w (b rp : bool) (w : world) : world :=
  if b then (if rp then set_gu false (set_rep true w) else set_lost true w) else w.
(* a segment (try block whose handler reports) begins / ends without a caught exception: the units written
   before / in it stay *)
Definition commit_w (rp : bool) (w : world) : world :=
  if rp then set_gu false (set_gm (gm w || gu w) w) else w.
Definition on_world (g : world -> world) (s : cfg) : cfg := mkC (cn s) (g (wd s)) (tr s) (en s).
Definition mark (b rp : bool) (s : cfg) : cfg := on_world (mark_w b rp) s.
Definition commit (rp : bool) (s : cfg) : cfg := on_world (commit_w rp) s.

(* the world a pool worker starts in: a fresh temp path (uuid4, collision loop) *)
Definition w_spawn0 : world := mkW SNone false false false false false false false false false false false.

(* the caller's world after one worker result (ww = the worker's world when it returned) *)
Definition join (v : retv) (ww pw : world) : world :=
  let dropped := got pw in     (* an earlier returned path was never put on the merge list *)
  match v with
  | VPath =>
      (* the caller now holds a temp BAM to merge: the output is incomplete until the merge; records are
         lost for good when that file does not exist / is not sorted / lacks units without a report *)
      let l := lost pw || dropped || lost ww || negb (ex ww) || negb (so ww) || (negb (co ww) && negb (rep ww)) in
      set_got true (set_rep (rep pw || rep ww) (set_lost l (set_file (ex pw) false (so pw) (ix pw) pw)))
  | VNone =>
      (* nothing to merge: fine unless the worker had written units of tasks it does not report *)
      let l := lost pw || dropped || lost ww || gm ww || gu ww in
      set_got false (set_rep (rep pw || rep ww) (set_lost l pw))
  end.
(* the worker raised (the pool re-raises in the caller) or returned nothing usable: its records never arrive *)
Definition spawn_fail (pw : world) : world := set_lost true pw.

Fixpoint count (id : nat) (l : list nat) : nat :=
  match l with [] => 0 | x :: l' => (if Nat.eqb x id then 1 else 0) + count id l' end.

Definition cont_to_normal (r : res) : res := match r with RContinue => RNormal | _ => r end.

Section Exec.
  Variable cnt : nat -> nat -> nat.   (* iterations of loop [id] when it is entered for the k-th time (k from 0) *)
  Variable ch : nat -> nat -> bool.   (* outcome of run-time test [id] evaluated after n executed steps *)
  Variable f : nat -> fault.          (* what happens to the i-th executed step *)

  Definition step (l : nat) (e : eff) (s : cfg) : res * cfg :=
    match f (cn s) with
    | FNone => (RNormal, mkC (S (cn s)) (apply e (wd s)) (l :: tr s) (en s))
    | FBefore k => (RRaised k, mkC (S (cn s)) (wd s) (l :: tr s) (en s))
    | FPartial k => (RRaised k, mkC (S (cn s)) (partial e (wd s)) (l :: tr s) (en s))
    end.

  Fixpoint iter (k : nat) (one : cfg -> res * cfg) (s : cfg) : res * cfg :=
    match k with
    | O => (RNormal, s)
    | S k' => let (r, s') := one s in
              match r with RNormal => iter k' one s' | _ => (r, s') end
    end.

  Fixpoint exec (p : prog) (s : cfg) : res * cfg :=
    match p with
    | Skip => (RNormal, s)
    | Step l e => step l e s
    | Raise l k => (RRaised k, mkC (S (cn s)) (wd s) (l :: tr s) (en s))
    | Seq a b => let (r, s1) := exec a s in
                 match r with RNormal => exec b s1 | _ => (r, s1) end
    | Loop id l h body =>
        let (r, s1) := iter (cnt id (count id (en s)))
                            (fun s0 => let (r0, s0') := step l h s0 in
                                       match r0 with
                                       | RNormal => let (rb, sb) := exec body s0' in (cont_to_normal rb, sb)
                                       | _ => (r0, s0')
                                       end)
                            (mkC (cn s) (wd s) (tr s) (id :: en s)) in
        match r with
        | RNormal => step l ENop s1       (* the next() that raises StopIteration *)
        | RBreak => (RNormal, s1)
        | _ => (r, s1)
        end
    | Try body h reraise hs =>
        let rp := reports h in
        let (r, s1) := exec body (commit rp s) in
        match r with
        | RRaised k =>
            if catches hs k then
              let (r2, s2) := exec h (mark (negb reraise && has_unit body) rp s1) in
              match r2 with RNormal => (if reraise then r else RNormal, s2) | _ => (r2, s2) end
            else (r, s1)
        | _ => (r, commit rp s1)
        end
    | Choice id a b => if ch id (cn s) then exec a s else exec b s
    | Break => (RBreak, s)
    | Continue => (RContinue, s)
    | Return v => (RReturn v, s)
    | IfW g a b => if guard_holds g (wd s) then exec a s else exec b s
    | Spawn l p =>
        let (r, s1) := exec p (mkC (cn s) w_spawn0 (tr s) (en s)) in
        let back := fun w => mkC (cn s1) w (tr s1) (en s1) in
        match r with
        | RReturn v => (RNormal, back (join v (wd s1) (wd s)))
        | RRaised k => (RRaised k, back (spawn_fail (wd s)))
        | _ => (RRaised KOther, back (spawn_fail (wd s)))    (* no (path, meta) pair to unpack *)
        end
    end.
End Exec.

Definition status_eqb (a b : status) : bool :=
  match a, b with
  | SNone, SNone | SUnfinished, SUnfinished | SFail, SFail | SOk, SOk | SOther, SOther => true
  | _, _ => false
  end.

(* the invariant of the property: the status file reports success only for an output that exists,
   is complete, sorted and indexed *)
Definition invb (w : world) : bool :=
  if status_eqb (st w) SOk then ex w && co w && so w && ix w else true.

(* the same when segments may be given up on purpose (-max_time_per_segment): complete except for
   segments that were reported, and nothing dropped without a report *)
Definition goodb (w : world) : bool := ex w && so w && ix w && negb (lost w) && (co w || rep w).
Definition invb_rep (w : world) : bool := if status_eqb (st w) SOk then goodb w else true.

(* ghost and data fields in their initial state *)
Definition aux_clear (w : world) : bool :=
  negb (lost w || rep w || tu w || tm w || gu w || gm w || got w).
