(* StatusLang (C20): a small language of side-effecting steps with Python exception semantics
   (try/except with or without re-raise, `except Exception` vs bare except, for loops over an
   iterator, run-time branches) over an abstract world describing the status file and the output BAM.
   Gen/GenStatus.v (regenerated from /repo on every run) contains the pipelines as terms of [prog].
   Definitions only; no proofs. *)
From Coq Require Import List Bool Arith.
Import ListNotations.

(* content of <output>.status.txt *)
Inductive status := SNone        (* no status file *)
                  | SUnfinished  (* 'unfinished' *)
                  | SFail        (* 'FAIL...' *)
                  | SOk          (* 'Reached end. All ok!' *)
                  | SOther.      (* anything else, e.g. a truncated file *)

Record world := mkW {
  st : status;   (* status file *)
  ex : bool;     (* output BAM exists *)
  co : bool;     (* output BAM is readable to the end and holds every record *)
  so : bool;     (* output BAM is coordinate sorted *)
  ix : bool;     (* output BAM has an index that belongs to it *)
  lost : bool    (* ghost: an exception raised in a block that writes records was swallowed *)
}.

Inductive eff :=
| EStatus (s : status)   (* write_status(out, msg) *)
| ERemoveOut             (* os.remove(out) *)
| ERemoveIdx             (* os.remove(out.bai) *)
| EUnit                  (* one unit of records handed to the not yet finished output
                            (molecule.write_pysam / one task of a worker / one worker result) *)
| EWriteOut              (* the output path is produced from everything handed over so far
                            (pysam.sort -o out / pysam.merge out / move / rename) *)
| EIndex                 (* pysam.index(out) / move of the .bai *)
| ENop.                  (* a call that does not touch status file, output BAM or its index *)

Definition apply (e : eff) (w : world) : world :=
  match e with
  | EStatus s => mkW s (ex w) (co w) (so w) (ix w) (lost w)
  | ERemoveOut => mkW (st w) false false false (ix w) (lost w)
  | ERemoveIdx => mkW (st w) (ex w) (co w) (so w) false (lost w)
  | EUnit => mkW (st w) (ex w) false (so w) (ix w) (lost w)
  | EWriteOut => mkW (st w) true (negb (lost w)) true false (lost w)
  | EIndex => mkW (st w) (ex w) (co w) (so w) (ex w) (lost w)
  | ENop => w
  end.

(* the step raised after doing part of its work *)
Definition partial (e : eff) (w : world) : world :=
  match e with
  | EStatus _ => mkW SOther (ex w) (co w) (so w) (ix w) (lost w)      (* opened for writing, truncated *)
  | ERemoveOut => w
  | ERemoveIdx => w
  | EUnit => mkW (st w) (ex w) false (so w) (ix w) (lost w)
  | EWriteOut => mkW (st w) true false true false (lost w)              (* a well-formed file holding only part of the records *)
  | EIndex => mkW (st w) (ex w) (co w) (so w) false (lost w)
  | ENop => w
  end.

(* exception kinds a failing step can raise, with the part of Python's class hierarchy that the
   handlers of the pipelines distinguish:
     BaseException > Exception > {RuntimeError, ValueError, MemoryError, OSError > TimeoutError, others};
     KeyboardInterrupt / SystemExit are BaseExceptions that are not Exceptions *)
Inductive ekind := KRuntime | KValue | KOS | KTimeout | KMemory | KOther | KBase.
Definition all_kinds : list ekind := [KRuntime; KValue; KOS; KTimeout; KMemory; KOther; KBase].

(* the class named in an except clause *)
Inductive hclass := HBase       (* bare except / BaseException *)
                  | HException | HOS (* OSError, IOError, EnvironmentError *) | HTimeout | HValue
                  | HRuntime | HMemory | HKeyboard.

Definition catches1 (h : hclass) (k : ekind) : bool :=
  match h, k with
  | HBase, _ => true
  | HException, KBase => false
  | HException, _ => true
  | HOS, KOS | HOS, KTimeout => true
  | HTimeout, KTimeout => true
  | HValue, KValue => true
  | HRuntime, KRuntime => true
  | HMemory, KMemory => true
  | HKeyboard, KBase => true
  | _, _ => false
  end.
Definition catches (hs : list hclass) (k : ekind) : bool := existsb (fun h => catches1 h k) hs.

(* fault oracle answer for one executed step: it works, raises before doing anything, or raises after
   doing part of its work; the exception kind is part of the answer *)
Inductive fault := FNone | FBefore (k : ekind) | FPartial (k : ekind).
Inductive res := RNormal | RRaised (k : ekind).

Inductive prog :=
| Skip
| Step (lbl : nat) (e : eff)
| Raise (lbl : nat) (k : ekind)     (* a raise statement *)
| Seq (a b : prog)
| Loop (id : nat) (lbl : nat) (hdr : eff) (body : prog)
    (* for x in it: body  --  [cnt id] times (next(it) with effect hdr; body), then a last next(it) *)
| Try (body handler : prog) (reraise : bool) (hs : list hclass)
    (* try: body  except (hs): handler [; raise] *)
| Choice (id : nat) (a b : prog).   (* if <run-time condition>: a else: b *)

Definition seq_of (l : list prog) : prog := fold_right Seq Skip l.

Fixpoint has_unit (p : prog) : bool :=
  match p with
  | Skip => false
  | Step _ e => match e with EUnit => true | _ => false end
  | Raise _ _ => false
  | Seq a b => has_unit a || has_unit b
  | Loop _ _ h b => match h with EUnit => true | _ => has_unit b end
  | Try b h _ _ => has_unit b || has_unit h
  | Choice _ a b => has_unit a || has_unit b
  end.

Record cfg := mkC { cn : nat; wd : world; tr : list nat }.

Definition mark (b : bool) (s : cfg) : cfg :=
  if b then mkC (cn s) (let w := wd s in mkW (st w) (ex w) (co w) (so w) (ix w) true) (tr s) else s.

Section Exec.
  Variable cnt : nat -> nat.     (* iterations of each loop *)
  Variable ch : nat -> bool.     (* outcome of each run-time branch *)
  Variable f : nat -> fault.     (* what happens to the i-th executed step *)

  Definition step (l : nat) (e : eff) (s : cfg) : res * cfg :=
    match f (cn s) with
    | FNone => (RNormal, mkC (S (cn s)) (apply e (wd s)) (l :: tr s))
    | FBefore k => (RRaised k, mkC (S (cn s)) (wd s) (l :: tr s))
    | FPartial k => (RRaised k, mkC (S (cn s)) (partial e (wd s)) (l :: tr s))
    end.

  Fixpoint iter (k : nat) (one : cfg -> res * cfg) (s : cfg) : res * cfg :=
    match k with
    | O => (RNormal, s)
    | S k' => let (r, s') := one s in
              match r with RNormal => iter k' one s' | _ => (r, s') end
    end.

  Fixpoint exec (p : prog) (s : cfg) : res * cfg :=
    match p with
    | Skip => (RNormal, s)
    | Step l e => step l e s
    | Raise l k => (RRaised k, mkC (S (cn s)) (wd s) (l :: tr s))
    | Seq a b => let (r, s1) := exec a s in
                 match r with RNormal => exec b s1 | _ => (r, s1) end
    | Loop id l h body =>
        let (r, s1) := iter (cnt id)
                            (fun s0 => let (r0, s0') := step l h s0 in
                                       match r0 with RNormal => exec body s0' | _ => (r0, s0') end) s in
        match r with RNormal => step l ENop s1 | _ => (r, s1) end
    | Try body h reraise hs =>
        let (r, s1) := exec body s in
        match r with
        | RNormal => (RNormal, s1)
        | RRaised k =>
            if catches hs k then
              let (r2, s2) := exec h (mark (negb reraise && has_unit body) s1) in
              match r2 with RNormal => (if reraise then r else RNormal, s2) | _ => (r2, s2) end
            else (r, s1)
        end
    | Choice id a b => if ch id then exec a s else exec b s
    end.
End Exec.

(* the invariant of the property: the status file reports success only for an output that exists,
   is complete, sorted and indexed *)
Definition status_eqb (a b : status) : bool :=
  match a, b with
  | SNone, SNone | SUnfinished, SUnfinished | SFail, SFail | SOk, SOk | SOther, SOther => true
  | _, _ => false
  end.

Definition invb (w : world) : bool :=
  if status_eqb (st w) SOk then ex w && co w && so w && ix w else true.
