(* Facts about the interval-list shapes of Lib.Tiling (used by C17; reusable by C08/C12). *)
From Coq Require Import ZArith List Bool Lia ZifyBool.
Import ListNotations.
From SCMO Require Import Lib.Tiling.
Open Scope Z_scope.

(* ------------------------------------------------------------------ inside / covers *)
Lemma insideb_iff p b : insideb p b = true <-> inside p b.
Proof. unfold insideb, inside. lia. Qed.

Lemma covers_nil p : ~ covers [] p.
Proof. intros (b & [] & _). Qed.

Lemma covers_cons b l p : covers (b :: l) p <-> inside p b \/ covers l p.
Proof.
  unfold covers. split.
  - intros (x & [Hx | Hx] & Hp); [subst; auto | right; eauto].
  - intros [Hp | (x & Hx & Hp)]; [exists b | exists x]; cbn [In]; auto.
Qed.

Lemma covers_app l1 l2 p : covers (l1 ++ l2) p <-> covers l1 p \/ covers l2 p.
Proof.
  unfold covers. split.
  - intros (x & Hx & Hp). apply in_app_or in Hx. destruct Hx; [left | right]; eauto.
  - intros [(x & Hx & Hp) | (x & Hx & Hp)]; exists x; split; auto; apply in_or_app; auto.
Qed.

Lemma coversb_iff l p : coversb l p = true <-> covers l p.
Proof.
  unfold coversb, covers. rewrite existsb_exists.
  split; intros (b & Hb & Hp); exists b; split; auto; apply insideb_iff; auto.
Qed.

Lemma coversb_false_iff l p : coversb l p = false <-> ~ covers l p.
Proof. rewrite <- coversb_iff. destruct (coversb l p); split; congruence. Qed.

(* covers depends only on the set of intervals *)
Lemma covers_ext l1 l2 p : (forall b, In b l1 <-> In b l2) -> covers l1 p <-> covers l2 p.
Proof. intros H. unfold covers. split; intros (b & Hb & Hp); exists b; split; auto; apply H; auto. Qed.

(* ------------------------------------------------------------------ chain *)
Lemma chain_cons step a b x y l :
  chain step a b ((x, y) :: l) <-> x = a /\ a < y /\ y - a <= step /\ y <= b /\ chain step y b l.
Proof. reflexivity. Qed.

Lemma chain_le step : forall l a b, chain step a b l -> a <= b.
Proof.
  induction l as [| [x y] l IH]; cbn [chain]; intros a b H.
  - lia.
  - destruct H as (_ & H1 & _ & H2 & _). lia.
Qed.

Lemma chain_mono step step' : step <= step' -> forall l a b, chain step a b l -> chain step' a b l.
Proof.
  intros Hs. induction l as [| [x y] l IH]; cbn [chain]; intros a b H; auto.
  destruct H as (H0 & H1 & H2 & H3 & H4). repeat split; auto; lia.
Qed.

Lemma chain_app step : forall l1 a m b l2, chain step a m l1 -> chain step m b l2 -> chain step a b (l1 ++ l2).
Proof.
  induction l1 as [| [x y] l1 IH]; cbn [chain app]; intros a m b l2 H1 H2.
  - subst. assumption.
  - destruct H1 as (H0 & Ha & Hb & Hc & Hd). pose proof (chain_le _ _ _ _ H2).
    repeat split; auto; try lia. eapply IH; eauto.
Qed.

Lemma chain_ordered step : forall l a b, chain step a b l -> ordered a b l.
Proof.
  induction l as [| [x y] l IH]; cbn [chain ordered]; intros a b H.
  - lia.
  - destruct H as (H0 & H1 & H2 & H3 & H4). subst. repeat split; auto; lia.
Qed.

(* the pieces cover exactly [a,b) *)
Lemma chain_covers step : forall l a b, chain step a b l -> forall p, covers l p <-> a <= p < b.
Proof.
  induction l as [| [x y] l IH]; cbn [chain]; intros a b H p.
  - split; [intros Hc; destruct (covers_nil _ Hc) | lia].
  - destruct H as (-> & H1 & H2 & H3 & H4). rewrite covers_cons, (IH _ _ H4). unfold inside; cbn [fst snd].
    pose proof (chain_le _ _ _ _ H4). lia.
Qed.

Lemma chain_Forall step : forall l a b, chain step a b l ->
  Forall (fun x => a <= fst x /\ fst x < snd x /\ snd x <= b /\ snd x - fst x <= step) l.
Proof.
  induction l as [| [x y] l IH]; cbn [chain]; intros a b H; constructor.
  - cbn [fst snd]. lia.
  - destruct H as (-> & H1 & H2 & H3 & H4). eapply Forall_impl; [| apply (IH _ _ H4)].
    cbn beta. intros [u v]; cbn [fst snd]. lia.
Qed.

(* every piece is non-empty: there are at most b - a of them *)
Lemma chain_length_le step : forall l a b, chain step a b l -> Z.of_nat (length l) <= b - a.
Proof.
  induction l as [| [x y] l IH]; cbn [chain length]; intros a b H.
  - lia.
  - destruct H as (-> & H1 & H2 & H3 & H4). specialize (IH _ _ H4). lia.
Qed.

(* every piece is at most step long: there are at least (b - a) / step of them *)
Lemma chain_length_ge step : forall l a b, chain step a b l -> b - a <= Z.of_nat (length l) * step.
Proof.
  induction l as [| [x y] l IH]; cbn [chain length]; intros a b H.
  - lia.
  - destruct H as (-> & H1 & H2 & H3 & H4). specialize (IH _ _ H4). lia.
Qed.

Lemma total_len_cons b l : total_len (b :: l) = snd b - fst b + total_len l.
Proof. reflexivity. Qed.

Lemma chain_total_len step : forall l a b, chain step a b l -> total_len l = b - a.
Proof.
  induction l as [| [x y] l IH]; intros a b H.
  - cbn [chain] in H. cbv [total_len fold_right]. lia.
  - apply chain_cons in H. destruct H as (-> & H1 & H2 & H3 & H4). specialize (IH _ _ H4).
    rewrite total_len_cons. cbn [fst snd]. lia.
Qed.

(* ------------------------------------------------------------------ ordered *)
Lemma ordered_le : forall l lo hi, ordered lo hi l -> lo <= hi.
Proof.
  induction l as [| [x y] l IH]; cbn [ordered]; intros lo hi H; auto.
  destruct H as (H1 & H2 & H3). specialize (IH _ _ H3). lia.
Qed.

Lemma ordered_weaken : forall l lo hi lo' hi', ordered lo hi l -> lo' <= lo -> hi <= hi' -> ordered lo' hi' l.
Proof.
  induction l as [| [x y] l IH]; cbn [ordered]; intros lo hi lo' hi' H Hl Hh.
  - lia.
  - destruct H as (H1 & H2 & H3). repeat split; try lia. eapply IH; eauto; lia.
Qed.

Lemma ordered_app : forall l1 lo m m' hi l2,
  ordered lo m l1 -> ordered m' hi l2 -> m <= m' -> ordered lo hi (l1 ++ l2).
Proof.
  induction l1 as [| [x y] l1 IH]; cbn [ordered app]; intros lo m m' hi l2 H1 H2 Hm.
  - eapply ordered_weaken; eauto; lia.
  - destruct H1 as (Ha & Hb & Hc). repeat split; auto. eapply IH; eauto.
Qed.

Lemma ordered_In : forall l lo hi b, ordered lo hi l -> In b l -> lo <= fst b /\ fst b < snd b /\ snd b <= hi.
Proof.
  induction l as [| [x y] l IH]; cbn [ordered In]; intros lo hi b H Hin.
  - contradiction.
  - destruct H as (H1 & H2 & H3). pose proof (ordered_le _ _ _ H3). destruct Hin as [<- | Hin].
    + cbn [fst snd]. lia.
    + specialize (IH _ _ _ H3 Hin). lia.
Qed.

Lemma ordered_covers_bounds l lo hi p : ordered lo hi l -> covers l p -> lo <= p < hi.
Proof.
  intros H (b & Hb & Hp). pose proof (ordered_In _ _ _ _ H Hb). unfold inside in Hp. lia.
Qed.

(* a point lies in at most one interval of an ordered list *)
Lemma ordered_unique : forall l lo hi b1 b2 p, ordered lo hi l ->
  In b1 l -> In b2 l -> inside p b1 -> inside p b2 -> b1 = b2.
Proof.
  induction l as [| [x y] l IH]; cbn [ordered In]; intros lo hi b1 b2 p H H1 H2 P1 P2.
  - contradiction.
  - destruct H as (Ha & Hb & Hc). unfold inside in *.
    destruct H1 as [<- | H1], H2 as [<- | H2]; auto.
    + pose proof (ordered_In _ _ _ _ Hc H2). cbn [fst snd] in *. lia.
    + pose proof (ordered_In _ _ _ _ Hc H1). cbn [fst snd] in *. lia.
    + eapply IH; eauto.
Qed.

Lemma ordered_NoDup : forall l lo hi, ordered lo hi l -> NoDup l.
Proof.
  induction l as [| [x y] l IH]; cbn [ordered]; intros lo hi H; constructor.
  - destruct H as (Ha & Hb & Hc). intros Hin. pose proof (ordered_In _ _ _ _ Hc Hin). cbn [fst snd] in *. lia.
  - destruct H as (_ & _ & Hc). eapply IH; eauto.
Qed.

Lemma ordered_total_len : forall l lo hi, ordered lo hi l -> total_len l <= hi - lo.
Proof.
  induction l as [| [x y] l IH]; intros lo hi H.
  - cbn [ordered] in H. cbv [total_len fold_right]. lia.
  - cbn [ordered] in H. destruct H as (Ha & Hb & Hc). specialize (IH _ _ Hc).
    rewrite total_len_cons. cbn [fst snd]. lia.
Qed.

(* ------------------------------------------------------------------ dchain / sdisj / gaps *)
Lemma dchain_le : forall l lo hi, dchain lo hi l -> lo <= hi.
Proof.
  induction l as [| [x y] l IH]; cbn [dchain]; intros lo hi H; auto.
  destruct H as (H1 & H2 & H3). specialize (IH _ _ H3). lia.
Qed.

Lemma dchain_snoc : forall l lo hi x y, dchain lo hi l -> hi <= x -> x <= y -> dchain lo y (l ++ [(x, y)]).
Proof.
  induction l as [| [u v] l IH]; cbn [dchain app]; intros lo hi x y H Hx Hy.
  - lia.
  - destruct H as (H1 & H2 & H3). repeat split; auto. eapply IH; eauto.
Qed.

Lemma dchain_covers_bounds : forall l lo hi p, dchain lo hi l -> covers l p -> lo <= p < hi.
Proof.
  induction l as [| [u v] l IH]; cbn [dchain]; intros lo hi p H Hc.
  - destruct (covers_nil _ Hc).
  - destruct H as (H1 & H2 & H3). apply covers_cons in Hc. pose proof (dchain_le _ _ _ H3).
    destruct Hc as [Hc | Hc].
    + unfold inside in Hc; cbn [fst snd] in Hc. lia.
    + specialize (IH _ _ _ H3 Hc). lia.
Qed.

Lemma sdisj_dchain : forall l lo, sdisj lo l -> dchain lo (last_end lo l) l.
Proof.
  induction l as [| [u v] l IH]; cbn [sdisj dchain last_end]; intros lo H.
  - lia.
  - destruct H as (H1 & H2 & H3). auto.
Qed.

Lemma last_end_snoc : forall l cur x y, last_end cur (l ++ [(x, y)]) = y.
Proof. induction l as [| [u v] l IH]; cbn [last_end app]; intros; auto. Qed.

Lemma dchain_last_end : forall l lo hi, dchain lo hi l -> lo <= last_end lo l <= hi.
Proof.
  induction l as [| [u v] l IH]; cbn [dchain last_end]; intros lo hi H.
  - lia.
  - destruct H as (H1 & H2 & H3). specialize (IH _ _ H3). lia.
Qed.

(* the gaps of an increasing disjoint list are exactly the uncovered points up to its end *)
Lemma in_gaps_iff : forall l cur hi p, dchain cur hi l ->
  (in_gaps cur l p <-> cur <= p < last_end cur l /\ ~ covers l p).
Proof.
  induction l as [| [u v] l IH]; cbn [dchain in_gaps last_end]; intros cur hi p H.
  - lia.
  - destruct H as (H1 & H2 & H3). rewrite (IH _ _ p H3), covers_cons.
    pose proof (dchain_last_end _ _ _ H3) as HL. unfold inside; cbn [fst snd]. split.
    + intros [Hg | (Hg & Hn)].
      * split; [lia |]. intros [Hc | Hc]; [lia |]. pose proof (dchain_covers_bounds _ _ _ _ H3 Hc). lia.
      * split; [lia |]. intros [Hc | Hc]; [lia | auto].
    + intros (Hg & Hn). destruct (Z_lt_ge_dec p u) as [Hlt | Hge]; [left; lia |].
      right. split; [| intros Hc; apply Hn; right; exact Hc].
      destruct (Z_lt_ge_dec p v) as [Hlt2 | Hge2]; [exfalso; apply Hn; left; lia | lia].
Qed.
