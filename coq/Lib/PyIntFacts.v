From Coq Require Import ZArith List Bool Lia.
Import ListNotations.
From SCMO Require Import Lib.PyInt.
Open Scope Z_scope.

Lemma zrange_from_In : forall n lo x, In x (zrange_from lo n) <-> lo <= x < lo + Z.of_nat n.
Proof.
  induction n as [|n IH]; intros lo x; cbn [zrange_from In].
  - lia.
  - rewrite IH. lia.
Qed.

Lemma zrange_In lo hi x : In x (zrange lo hi) <-> lo <= x < hi.
Proof. unfold zrange. rewrite zrange_from_In. lia. Qed.

Lemma zrange_from_length n lo : length (zrange_from lo n) = n.
Proof. revert lo; induction n as [|n IH]; intros lo; simpl; auto. Qed.

Lemma zrange_from_NoDup : forall n lo, NoDup (zrange_from lo n).
Proof.
  induction n as [|n IH]; intros lo; cbn [zrange_from]; constructor.
  - rewrite zrange_from_In. lia.
  - apply IH.
Qed.

Lemma zrange_NoDup lo hi : NoDup (zrange lo hi).
Proof. apply zrange_from_NoDup. Qed.

Lemma zrange_single lo : zrange lo (lo + 1) = [lo].
Proof. unfold zrange. replace (lo + 1 - lo) with 1 by lia. reflexivity. Qed.

Lemma zrange_empty lo hi : hi <= lo -> zrange lo hi = [].
Proof. intros H. unfold zrange. replace (Z.to_nat (hi - lo)) with O by lia. reflexivity. Qed.
