(* Facts about Python slicing (Lib/PySlice.v). *)
From Coq Require Import ZArith List Bool Lia PeanoNat.
Import ListNotations.
From SCMO Require Import Lib.PySlice.
Open Scope Z_scope.

Section Sub.
  Context {A : Type}.
  Implicit Types l : list A.

  Lemma sub_length a k l : length (sub a k l) = Nat.min k (length l - a).
  Proof. unfold sub. rewrite firstn_length, skipn_length. reflexivity. Qed.

  Lemma sub_nil a k : sub a k (@nil A) = [].
  Proof. unfold sub. rewrite skipn_nil, firstn_nil. reflexivity. Qed.

  Lemma nth_error_skipn a l i : nth_error (skipn a l) i = nth_error l (a + i).
  Proof.
    revert l. induction a as [|a IH]; intros l; [reflexivity|].
    destruct l as [|x l]; [destruct i; reflexivity|]. cbn [skipn Nat.add nth_error]. apply IH.
  Qed.

  Lemma nth_error_firstn k l i : nth_error (firstn k l) i = if (i <? k)%nat then nth_error l i else None.
  Proof.
    revert l i. induction k as [|k IH]; intros l i.
    - cbn [firstn]. destruct i; reflexivity.
    - destruct l as [|x l]; [cbn [firstn]; destruct i; destruct (_ <? _)%nat; reflexivity|].
      destruct i as [|i]; [reflexivity|]. cbn [firstn nth_error]. rewrite IH.
      change (S i <? S k)%nat with (i <? k)%nat. reflexivity.
  Qed.

  (* pointwise meaning of sub: element i of sub a k l is element a+i of l, for i < k *)
  Lemma sub_nth_error a k l i :
    nth_error (sub a k l) i = if (i <? k)%nat then nth_error l (a + i) else None.
  Proof. unfold sub. rewrite nth_error_firstn, nth_error_skipn. reflexivity. Qed.

  Lemma sub_app_l a k l1 l2 : (a + k <= length l1)%nat -> sub a k (l1 ++ l2) = sub a k l1.
  Proof.
    intros H. unfold sub. rewrite skipn_app, firstn_app, skipn_length.
    replace (k - (length l1 - a))%nat with 0%nat by lia.
    replace (a - length l1)%nat with 0%nat by lia.
    cbn [skipn firstn]. rewrite app_nil_r. reflexivity.
  Qed.

  Lemma sub_app_r a k l1 l2 : (length l1 <= a)%nat -> sub a k (l1 ++ l2) = sub (a - length l1) k l2.
  Proof.
    intros H. unfold sub. rewrite skipn_app. rewrite (skipn_all2 l1) by lia. reflexivity.
  Qed.

  Lemma skipn_add a k l : skipn (a + k) l = skipn k (skipn a l).
  Proof.
    revert l. induction a as [|a IH]; intros l; [reflexivity|].
    destruct l as [|x l]; [cbn [Nat.add skipn]; rewrite skipn_nil; reflexivity|].
    cbn [Nat.add skipn]. apply IH.
  Qed.

  (* a stretch followed by the rest: skipn a l = l[a:a+k] ++ l[a+k:] *)
  Lemma sub_skipn_split a k l : skipn a l = sub a k l ++ skipn (a + k) l.
  Proof.
    unfold sub. rewrite <- (firstn_skipn k (skipn a l)) at 1. f_equal.
    symmetry. apply skipn_add.
  Qed.

  Lemma sub_all_from a l : sub a (length l - a) l = skipn a l.
  Proof. unfold sub. apply firstn_all2. rewrite skipn_length. lia. Qed.

  Lemma sub_ge a k l : (length l <= a)%nat -> sub a k l = [].
  Proof. intros H. unfold sub. rewrite skipn_all2 by lia. apply firstn_nil. Qed.

  Lemma sub_0_k k l : sub 0 k l = firstn k l.
  Proof. reflexivity. Qed.

  Lemma sub_k_0 a l : sub a 0 l = [].
  Proof. reflexivity. Qed.

  (* every element of a sub-stretch is an element of the list: nothing is invented *)
  Lemma sub_incl a k l : incl (sub a k l) l.
  Proof.
    intros x Hx. unfold sub in Hx.
    apply (In_nth_error) in Hx. destruct Hx as [i Hi].
    rewrite nth_error_firstn in Hi. destruct (i <? k)%nat; [|discriminate].
    rewrite nth_error_skipn in Hi. eapply nth_error_In; eassumption.
  Qed.
End Sub.

Lemma sub_map {A B} (f : A -> B) a k l : sub a k (map f l) = map f (sub a k l).
Proof. unfold sub. rewrite skipn_map, firstn_map. reflexivity. Qed.

Section Slice.
  Context {A : Type}.
  Implicit Types l : list A.

  Lemma adjust_range n b d : 0 <= n -> 0 <= d <= n -> 0 <= adjust n b d <= n.
  Proof.
    intros Hn Hd. unfold adjust. destruct b as [i|]; [|lia].
    destruct (i <? 0) eqn:E; lia.
  Qed.

  Lemma slice_lo_range n s : 0 <= n -> 0 <= slice_lo n s <= n.
  Proof. intros H. apply adjust_range; lia. Qed.
  Lemma slice_hi_range n s : 0 <= n -> 0 <= slice_hi n s <= n.
  Proof. intros H. apply adjust_range; lia. Qed.

  (* slice = firstn (hi-lo) (skipn lo l) with CPython's adjusted bounds *)
  Lemma pyslice_firstn_skipn s l :
    let n := Z.of_nat (length l) in
    pyslice s l = firstn (Z.to_nat (slice_hi n s - slice_lo n s)) (skipn (Z.to_nat (slice_lo n s)) l).
  Proof. reflexivity. Qed.

  (* len(s[lo:hi]) = max 0 (hi' - lo') *)
  Lemma pyslice_length s l :
    let n := Z.of_nat (length l) in
    Z.of_nat (length (pyslice s l)) = Z.max 0 (slice_hi n s - slice_lo n s).
  Proof.
    intros n. unfold pyslice. fold n. rewrite sub_length.
    pose proof (slice_lo_range n s ltac:(lia)). pose proof (slice_hi_range n s ltac:(lia)). lia.
  Qed.

  (* pointwise: element i of s[lo:hi] is element lo'+i of s *)
  Lemma pyslice_nth_error s l i :
    let n := Z.of_nat (length l) in
    (Z.of_nat i < slice_hi n s - slice_lo n s) ->
    nth_error (pyslice s l) i = nth_error l (Z.to_nat (slice_lo n s) + i).
  Proof.
    intros n H. unfold pyslice. fold n. rewrite sub_nth_error.
    destruct (i <? _)%nat eqn:E; [reflexivity|]. apply Nat.ltb_ge in E. lia.
  Qed.

  Lemma pyslice_all l : pyslice slice_all l = l.
  Proof.
    unfold pyslice, slice_lo, slice_hi, slice_all, adjust. cbn [ps_start ps_stop].
    rewrite Z.sub_0_r, Nat2Z.id. unfold sub. cbn [Z.to_nat skipn]. apply firstn_all.
  Qed.

  (* s[a:] for a >= 0 *)
  Lemma pyslice_from a l : 0 <= a -> pyslice (slice_from a) l = skipn (Z.to_nat a) l.
  Proof.
    intros Ha. unfold pyslice, slice_lo, slice_hi, slice_from, adjust. cbn [ps_start ps_stop].
    destruct (a <? 0) eqn:E; [lia|].
    destruct (Z_le_gt_dec a (Z.of_nat (length l))) as [H|H].
    - rewrite Z.min_l by lia. rewrite <- sub_all_from. f_equal. lia.
    - rewrite Z.min_r by lia. rewrite Z.sub_diag, Nat2Z.id. unfold sub. cbn [Z.to_nat firstn].
      rewrite skipn_all2 by lia. reflexivity.
  Qed.

  (* s[a:a+k] for a, k >= 0: the bases at positions a .. a+k-1 that exist *)
  Lemma pyslice_range a k l : 0 <= a -> 0 <= k ->
    pyslice (slice_range a (a + k)) l = sub (Z.to_nat a) (Z.to_nat k) l.
  Proof.
    intros Ha Hk. unfold pyslice, slice_lo, slice_hi, slice_range, adjust. cbn [ps_start ps_stop].
    destruct (a <? 0) eqn:E; [lia|]. destruct (a + k <? 0) eqn:E2; [lia|].
    set (n := Z.of_nat (length l)).
    destruct (Z_le_gt_dec (a + k) n) as [H|H].
    - rewrite !Z.min_l by lia. f_equal. lia.
    - destruct (Z_le_gt_dec a n) as [H2|H2].
      + rewrite (Z.min_l a) by lia. rewrite (Z.min_r (a + k)) by lia.
        unfold sub. rewrite !firstn_all2; [reflexivity| |]; rewrite skipn_length; lia.
      + rewrite !Z.min_r by lia. rewrite Z.sub_diag. rewrite sub_ge by lia.
        rewrite sub_ge by lia. reflexivity.
  Qed.

  (* s[:k] *)
  Lemma pyslice_prefix k l : 0 <= k -> pyslice (slice_range 0 k) l = firstn (Z.to_nat k) l.
  Proof. intros Hk. replace k with (0 + k) at 1 by lia. rewrite pyslice_range by lia. reflexivity. Qed.

  (* s[-k:] for k > 0: the last k elements (the whole list when shorter) *)
  Lemma pyslice_last k l : 0 < k ->
    pyslice (mkSlice (Some (- k)) None) l = skipn (length l - Z.to_nat k) l.
  Proof.
    intros Hk. unfold pyslice, slice_lo, slice_hi, adjust. cbn [ps_start ps_stop].
    destruct (- k <? 0) eqn:E; [|lia]. set (n := Z.of_nat (length l)).
    replace (Z.to_nat (Z.max 0 (- k + n))) with (length l - Z.to_nat k)%nat by lia.
    rewrite <- sub_all_from. f_equal. lia.
  Qed.

  (* s[a:-k] for a >= 0, k > 0 *)
  Lemma pyslice_but_last a k l : 0 <= a -> 0 < k ->
    pyslice (mkSlice (Some a) (Some (- k))) l
    = sub (Z.to_nat a) (length l - Z.to_nat k - Z.to_nat a) l.
  Proof.
    intros Ha Hk. unfold pyslice, slice_lo, slice_hi, adjust. cbn [ps_start ps_stop].
    destruct (a <? 0) eqn:E; [lia|]. destruct (- k <? 0) eqn:E2; [|lia].
    set (n := Z.of_nat (length l)).
    destruct (Z_le_gt_dec a n) as [H|H].
    - rewrite Z.min_l by lia. f_equal. lia.
    - rewrite Z.min_r by lia. rewrite !sub_ge by lia. reflexivity.
  Qed.

  (* a primer taken from the end: s[a:-k] ++ s[-k:] = s[a:] when the read holds both *)
  Lemma pyslice_end_partition a k l : 0 <= a -> 0 < k -> a + k <= Z.of_nat (length l) ->
    pyslice (mkSlice (Some a) (Some (- k))) l ++ pyslice (mkSlice (Some (- k)) None) l
    = skipn (Z.to_nat a) l.
  Proof.
    intros Ha Hk H. rewrite pyslice_but_last, pyslice_last by lia.
    rewrite (sub_skipn_split (Z.to_nat a) (length l - Z.to_nat k - Z.to_nat a) l) at 1.
    f_equal. f_equal. lia.
  Qed.

  Lemma pyslice_incl s l : incl (pyslice s l) l.
  Proof. apply sub_incl. Qed.

  (* slicing a concatenation inside the first / the second part *)
  Lemma pyslice_range_app_l a k l1 l2 : 0 <= a -> 0 <= k -> a + k <= Z.of_nat (length l1) ->
    pyslice (slice_range a (a + k)) (l1 ++ l2) = pyslice (slice_range a (a + k)) l1.
  Proof. intros Ha Hk H. rewrite !pyslice_range by lia. apply sub_app_l. lia. Qed.

  Lemma pyslice_from_app a l1 l2 : a = Z.of_nat (length l1) -> pyslice (slice_from a) (l1 ++ l2) = l2.
  Proof.
    intros ->. rewrite pyslice_from by lia. rewrite Nat2Z.id, skipn_app, Nat.sub_diag.
    rewrite skipn_all. reflexivity.
  Qed.
End Slice.

Lemma pyslice_map {A B} (f : A -> B) s l : pyslice s (map f l) = map f (pyslice s l).
Proof. unfold pyslice. rewrite map_length. apply sub_map. Qed.

(* sequence and quality strings of equal length sliced by the same slice stay index-aligned *)
Lemma pyslice_aligned {A B} s (l : list A) (q : list B) : length l = length q ->
  length (pyslice s l) = length (pyslice s q) /\
  forall i x, nth_error (pyslice s l) i = Some x ->
    exists j y, nth_error l j = Some x /\ nth_error q j = Some y /\ nth_error (pyslice s q) i = Some y.
Proof.
  intros H. unfold pyslice. rewrite <- H. set (n := Z.of_nat (length l)).
  set (a := Z.to_nat (slice_lo n s)). set (k := Z.to_nat (slice_hi n s - slice_lo n s)).
  split; [rewrite !sub_length; lia|].
  intros i x Hi. rewrite sub_nth_error in Hi. destruct (i <? k)%nat eqn:E; [|discriminate].
  assert (Hlt : (a + i < length q)%nat) by (rewrite <- H; apply nth_error_Some; congruence).
  destruct (nth_error q (a + i)) as [y|] eqn:Ey; [|apply nth_error_None in Ey; lia].
  exists (a + i)%nat, y. repeat split; try assumption. rewrite sub_nth_error, E. assumption.
Qed.

Lemma pyindex_nonneg {A} (l : list A) i : 0 <= i -> pyindex l i = nth_error l (Z.to_nat i).
Proof. intros H. unfold pyindex. destruct (i <? 0) eqn:E; [lia|reflexivity]. Qed.
