(* Tiling: half-open integer intervals [s,e) and the shapes of interval lists used by the tiling
   properties (C17; reusable by C08/C12).  Definitions only (no proofs) - facts are in TilingFacts. *)
From Coq Require Import ZArith List Bool.
Import ListNotations.
Open Scope Z_scope.

Definition iv := (Z * Z)%type.

(* p lies in the half-open interval b = [fst b, snd b) *)
Definition inside (p : Z) (b : iv) : Prop := fst b <= p < snd b.
Definition insideb (p : Z) (b : iv) : bool := (fst b <=? p) && (p <? snd b).

(* p lies in one of the intervals of l *)
Definition covers (l : list iv) (p : Z) : Prop := exists b, In b l /\ inside p b.
Definition coversb (l : list iv) (p : Z) : bool := existsb (insideb p) l.

Definition wf (b : iv) : Prop := fst b <= snd b.
Definition wfb (b : iv) : bool := fst b <=? snd b.

(* consecutive non-empty pieces leading exactly from a to b, each at most [step] long *)
Fixpoint chain (step a b : Z) (l : list iv) : Prop :=
  match l with
  | [] => a = b
  | (x, y) :: l' => x = a /\ a < y /\ y - a <= step /\ y <= b /\ chain step y b l'
  end.

(* non-empty intervals inside [lo,hi], increasing and pairwise disjoint (gaps allowed) *)
Fixpoint ordered (lo hi : Z) (l : list iv) : Prop :=
  match l with
  | [] => lo <= hi
  | (x, y) :: l' => lo <= x /\ x < y /\ ordered y hi l'
  end.

(* possibly empty intervals inside [lo,hi], increasing and pairwise disjoint (a merged, trimmed blacklist) *)
Fixpoint dchain (lo hi : Z) (l : list iv) : Prop :=
  match l with
  | [] => lo <= hi
  | (x, y) :: l' => lo <= x /\ x <= y /\ dchain y hi l'
  end.

(* the same without an upper bound *)
Fixpoint sdisj (lo : Z) (l : list iv) : Prop :=
  match l with
  | [] => True
  | (x, y) :: l' => lo <= x /\ x <= y /\ sdisj y l'
  end.

(* the points of [cur, ..) left free by an increasing disjoint interval list: the gaps before each interval *)
Fixpoint in_gaps (cur : Z) (l : list iv) (p : Z) : Prop :=
  match l with
  | [] => False
  | (x, y) :: l' => cur <= p < x \/ in_gaps y l' p
  end.

Fixpoint last_end (cur : Z) (l : list iv) : Z :=
  match l with
  | [] => cur
  | (_, y) :: l' => last_end y l'
  end.

(* total length of a list of intervals *)
Definition iv_len (b : iv) : Z := snd b - fst b.
Definition total_len (l : list iv) : Z := fold_right (fun b acc => iv_len b + acc) 0 l.
