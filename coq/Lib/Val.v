(* Val: the S-expression value type used as model I/O format.
   Python side: int <-> VZ, list/tuple <-> VL, str -> VL of character codes,
   None -> VL [] by convention of each run_Cxx. Definitions only; no proofs. *)
From Coq Require Import ZArith List Bool.
Import ListNotations.
Open Scope Z_scope.

Inductive Val : Type :=
| VZ : Z -> Val
| VL : list Val -> Val.

Fixpoint val_eqb (a b : Val) {struct a} : bool :=
  match a, b with
  | VZ x, VZ y => Z.eqb x y
  | VL xs, VL ys =>
      (fix go (xs ys : list Val) {struct xs} : bool :=
         match xs, ys with
         | [], [] => true
         | x :: xs', y :: ys' => val_eqb x y && go xs' ys'
         | _, _ => false
         end) xs ys
  | _, _ => false
  end.

(* decoding helpers; a malformed input decodes to a default and run_Cxx
   reports VL [VZ (-999)] through [bad] where it matters *)
Definition bad : Val := VL [VZ (-999)].
Definition getZ (v : Val) : Z := match v with VZ z => z | VL _ => 0 end.
Definition getL (v : Val) : list Val := match v with VL l => l | VZ _ => [] end.
Definition getZs (v : Val) : list Z := map getZ (getL v).
Definition getB (v : Val) : bool := negb (Z.eqb (getZ v) 0).
Definition nthV (n : nat) (v : Val) : Val := nth n (getL v) (VL []).
Definition ofB (b : bool) : Val := VZ (if b then 1 else 0).
Definition ofZs (l : list Z) : Val := VL (map VZ l).
Definition ofPair (p : Z * Z) : Val := VL [VZ (fst p); VZ (snd p)].
Definition getPair (v : Val) : Z * Z := (getZ (nthV 0 v), getZ (nthV 1 v)).
Definition ofOpt {A} (f : A -> Val) (o : option A) : Val :=
  match o with Some a => VL [f a] | None => VL [] end.
Definition getOptZ (v : Val) : option Z :=
  match v with VL [VZ z] => Some z | _ => None end.

(* count cases where the model output differs from the expected output;
   used by the vm_compute cross-check of the extracted binary *)
Definition mismatches (run : Val -> Val) (cases : list (Val * Val)) : list nat :=
  map fst (filter (fun p => negb (val_eqb (run (fst (snd p))) (snd (snd p))))
                  (combine (seq 0 (length cases)) cases)).
