(* C09Ref: the Python string idioms used by the reference-lookup mode of NlaIIIFragment.identify_site
   (no_overhang=True) and the reference handle the tagger passes to it.  Used by the GENERATED definitions
   in Gen/GenSite.v (nla_no_overhang_gen) and by Model/C09x.v.  Definitions only. *)
From Coq Require Import ZArith List Bool.
Import ListNotations.
From SCMO Require Import Lib.C09Str Lib.PySlice.
Open Scope Z_scope.

(* s.find(p): index of the first occurrence of p in s, -1 when there is none *)
Fixpoint py_find_from (p s : str) (i : Z) : Z :=
  if py_startswith p s then i
  else match s with [] => -1 | _ :: s' => py_find_from p s' (i + 1) end.
Definition py_find (p s : str) : Z := py_find_from p s 0.

(* s[::-1] *)
Definition py_reversed (s : str) : str := rev s.

(* the reference handle bamtagmultiome builds (CachedFastaNoHandle = pysamiterators.CachedFasta):
   fetch(contig, a, b) = contig_sequence[a:b], a Python slice of the whole contig - negative bounds count
   from the contig end, bounds beyond the end are clamped *)
Definition fetch_slice (contig : str) (a b : Z) : str := pyslice (slice_range a b) contig.
