Require Extraction.
Require Import ExtrOcamlBasic.
From SCMO Require Import Lib.Val Model.C15.
Definition run := run_C15.
Extraction "c15_model.ml" run.
