Require Extraction.
Require Import ExtrOcamlBasic.
From SCMO Require Import Lib.Val Model.C10.
Definition run := run_C10.
Extraction "c10_model.ml" run.
