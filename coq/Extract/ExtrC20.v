Require Extraction.
Require Import ExtrOcamlBasic.
From SCMO Require Import Lib.Val Model.C20.
Definition run := run_C20.
Extraction "c20_model.ml" run.
