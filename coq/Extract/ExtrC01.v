Require Extraction.
Require Import ExtrOcamlBasic.
From SCMO Require Import Lib.Val Model.C01x.
Definition run := run_C01.
Extraction "c01_model.ml" run.
