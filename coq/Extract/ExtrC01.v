Require Extraction.
Require Import ExtrOcamlBasic.
From SCMO Require Import Lib.Val Model.C01.
Definition run := run_C01.
Extraction "c01_model.ml" run.
