Require Extraction.
Require Import ExtrOcamlBasic.
From SCMO Require Import Lib.Val Model.C05.
Definition run := run_C05.
Extraction "c05_model.ml" run.
