Require Extraction.
Require Import ExtrOcamlBasic.
From SCMO Require Import Lib.Val Model.C05 Model.C05x.
Definition run := run_C05x.
Extraction "c05_model.ml" run.
