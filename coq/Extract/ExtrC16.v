Require Extraction.
Require Import ExtrOcamlBasic.
From SCMO Require Import Lib.Val Model.C16.
Definition run := run_C16.
Extraction "c16_model.ml" run.
