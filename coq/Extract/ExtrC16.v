Require Extraction.
Require Import ExtrOcamlBasic.
From SCMO Require Import Lib.Val Model.C16 Model.C16x.
Definition run := run_C16x.
Extraction "c16_model.ml" run.
