Require Extraction.
Require Import ExtrOcamlBasic.
From SCMO Require Import Lib.Val Model.C02.
Definition run := run_C02.
Extraction "c02_model.ml" run.
