Require Extraction.
Require Import ExtrOcamlBasic.
From SCMO Require Import Lib.Val Model.C18 Model.C18x.
Definition run := run_C18x.
Extraction "c18_model.ml" run.
