Require Extraction.
Require Import ExtrOcamlBasic.
From SCMO Require Import Lib.Val Model.C18.
Definition run := run_C18.
Extraction "c18_model.ml" run.
