Require Extraction.
Require Import ExtrOcamlBasic.
From SCMO Require Import Lib.Val Model.C19 Model.C19x.
Definition run := run_C19x.
Extraction "c19_model.ml" run.
