Require Extraction.
Require Import ExtrOcamlBasic.
From SCMO Require Import Lib.Val Model.C19.
Definition run := run_C19.
Extraction "c19_model.ml" run.
