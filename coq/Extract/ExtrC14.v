Require Extraction.
Require Import ExtrOcamlBasic.
From SCMO Require Import Lib.Val Model.C14.
Definition run := run_C14.
Extraction "c14_model.ml" run.
