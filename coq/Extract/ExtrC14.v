Require Extraction.
Require Import ExtrOcamlBasic.
From SCMO Require Import Lib.Val Model.C14 Model.C14x.
Definition run := run_C14x.
Extraction "c14_model.ml" run.
