Require Extraction.
Require Import ExtrOcamlBasic.
From SCMO Require Import Lib.Val Model.C12 Model.C12x.
Definition run := run_C12x.
Extraction "c12_model.ml" run.
