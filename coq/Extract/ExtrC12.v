Require Extraction.
Require Import ExtrOcamlBasic.
From SCMO Require Import Lib.Val Model.C12.
Definition run := run_C12.
Extraction "c12_model.ml" run.
