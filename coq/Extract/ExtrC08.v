Require Extraction.
Require Import ExtrOcamlBasic.
From SCMO Require Import Lib.Val Model.C08.
Definition run := run_C08.
Extraction "c08_model.ml" run.
