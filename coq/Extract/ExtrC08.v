Require Extraction.
Require Import ExtrOcamlBasic.
From SCMO Require Import Lib.Val Model.C08 Model.C08x.
Definition run := run_C08x.
Extraction "c08_model.ml" run.
