Require Extraction.
Require Import ExtrOcamlBasic.
From SCMO Require Import Lib.Val Model.C03 Model.C03x.
Definition run := run_C03x.
Extraction "c03_model.ml" run.
