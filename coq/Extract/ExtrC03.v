Require Extraction.
Require Import ExtrOcamlBasic.
From SCMO Require Import Lib.Val Model.C03.
Definition run := run_C03.
Extraction "c03_model.ml" run.
