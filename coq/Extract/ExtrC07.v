Require Extraction.
Require Import ExtrOcamlBasic.
From SCMO Require Import Lib.Val Model.C07.
Definition run := run_C07.
Extraction "c07_model.ml" run.
