Require Extraction.
Require Import ExtrOcamlBasic.
From SCMO Require Import Lib.Val Model.C06 Model.C06x.
Definition run := run_C06x.
Extraction "c06_model.ml" run.
