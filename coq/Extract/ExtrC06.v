Require Extraction.
Require Import ExtrOcamlBasic.
From SCMO Require Import Lib.Val Model.C06.
Definition run := run_C06.
Extraction "c06_model.ml" run.
