Require Extraction.
Require Import ExtrOcamlBasic.
From SCMO Require Import Lib.Val Model.C13.
Definition run := run_C13.
Extraction "c13_model.ml" run.
