Require Extraction.
Require Import ExtrOcamlBasic.
From SCMO Require Import Lib.Val Model.C13 Model.C13x.
Definition run := run_C13x.
Extraction "c13_model.ml" run.
