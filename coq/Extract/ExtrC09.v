Require Extraction.
Require Import ExtrOcamlBasic.
From SCMO Require Import Lib.Val Model.C09.
Definition run := run_C09.
Extraction "c09_model.ml" run.
