Require Extraction.
Require Import ExtrOcamlBasic.
From SCMO Require Import Lib.Val Model.C09 Model.C09x.
Definition run := run_C09x.
Extraction "c09_model.ml" run.
