Require Extraction.
Require Import ExtrOcamlBasic.
From SCMO Require Import Lib.Val Model.C17.
Definition run := run_C17.
Extraction "c17_model.ml" run.
