Require Extraction.
Require Import ExtrOcamlBasic.
From SCMO Require Import Lib.Val Model.C17 Model.C17bed Model.C17x.
Definition run := run_C17x.
Extraction "c17_model.ml" run.
