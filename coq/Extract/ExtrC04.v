Require Extraction.
Require Import ExtrOcamlBasic.
From SCMO Require Import Lib.Val Model.C04.
Definition run := run_C04.
Extraction "c04_model.ml" run.
