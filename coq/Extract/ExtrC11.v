Require Extraction.
Require Import ExtrOcamlBasic.
From SCMO Require Import Lib.Val Model.C11.
Definition run := run_C11.
Extraction "c11_model.ml" run.
