Require Extraction.
Require Import ExtrOcamlBasic.
From SCMO Require Import Lib.Val Model.C11 Model.C11x.
Definition run := run_C11x.
Extraction "c11_model.ml" run.
