#!/bin/sh
# usage: applyfix.sh <patch> "<commit message (must start with fix:)>"
set -e
cd /repo
git apply --check "$1"
git apply "$1"
git add -u singlecellmultiomics
git commit -q -m "$2"
git log --oneline | head -1
