"""C02 - demultiplexed records contain exactly the bases the protocol layout prescribes."""
import json, os, re, itertools
import fw

GEN = os.path.join(fw.COQ, 'Gen', 'GenLayouts.v')
GENC = os.path.join(fw.COQ, 'Gen', 'GenComp.v')
PROTO = os.path.join(fw.COQ, 'Model', 'C02Protocols.v')
ERR = {'IndexError': 1, 'ValueError': 2, 'AttributeError': 3, 'NameError': 4, 'TypeError': 5}
LETTERS = 'abcdefghijklmnopqrstuvwxyzABCDEFGHIJKLMNOPQRSTUVWXYZ'
OBSERVED = ('bc', 'BC', 'bi', 'RX', 'RQ', 'rS', 'lh', 'lq', 'MX')
ALLOWED_EXTRA = ('dt',)           # constant data-type tag some classes add; not a positional tag


# ----------------------------------------------------------------------------- Coq printing
def cz(z):
    return '(%d)' % z if z < 0 else '%d' % z


def coz(z):
    return 'None' if z is None else '(Some %s)' % cz(z)


def cslice(s):
    return '(mkSlice %s %s)' % (coz(s[0]), coz(s[1]))


def clist(xs):
    return '[' + '; '.join(xs) + ']'


def cregion(r):
    return '(%s, %s, %s)' % (cz(r[0]), cz(r[1]), cz(r[2]))


def cplayout(t):
    return '(mkP %s %s %s %s %s %s %s)' % (
        clist(cregion(r) for r in t['bc']), clist(cregion(r) for r in t['umi']),
        'None' if t['primer'] is None else '(Some %s)' % cregion(t['primer']),
        'None' if t['lig'] is None else '(Some %s)' % cregion(t['lig']),
        clist(cz(x) for x in t['insert']), cz(t['min']), cz(t['max']))


def cstr(x):
    return clist(str(ord(ch)) for ch in x)


def c_of(d):
    a = d['args']
    return '(mkC %s %s %s %s %s %s %s %s %s)' % (
        cz(a['umiRead']), cz(a['umiStart']), cz(a['umiLength']), cz(a['barcodeRead']), cz(a['barcodeStart']),
        cz(a['barcodeLength']), coz(a['random_primer_read']),
        'None' if d['rp_slice'] is None else '(Some %s)' % cslice(d['rp_slice']),
        clist(cslice(s) for s in d['capture']))


def s_of(d):
    return '(mkS %s %s %s %s %s)' % (
        clist(clist(cslice(x) for x in per) for per in d['bc_slices']),
        clist(clist(cslice(x) for x in per) for per in d['umi_slices']),
        clist(cslice(x) for x in d['cap_slices']), coz(d['rp_read']),
        'None' if d['rp_slice'] is None else '(Some %s)' % cslice(d['rp_slice']))


def w_of(d):
    w = d.get('wrapper') or {'exact': None, 'lig': None, 'need2': False}
    return '(mkW %s %s %s)' % (coz(w['exact']),
                               'None' if w['lig'] is None else '(Some (%s, %s))' % (cz(w['lig'][0]), cz(w['lig'][1])),
                               'true' if w['need2'] else 'false')


def arm_of(d):
    if d['kind'] == 1:
        return '(ArmC %s %s)' % (c_of(d), w_of(d))
    if d['kind'] == 2:
        return '(ArmS %s %s)' % (s_of(d), w_of(d))
    raise ValueError('arm %s of kind %s' % (d['name'], d['kind']))


def gen_entry(d):
    name = d['name']
    if not re.fullmatch(r'[A-Za-z0-9_ \-]*', name):
        raise ValueError('shortName %r has characters the generator does not print' % name)
    a = d.get('args')
    if a:
        args = '(mkArgs %s %s %s %s %s %s %s %s %s)' % (
            cz(a['umiRead']), cz(a['umiStart']), cz(a['umiLength']), cz(a['barcodeRead']), cz(a['barcodeStart']),
            cz(a['barcodeLength']), coz(a['random_primer_read']), coz(a['random_primer_length']),
            'true' if a['random_primer_end'] else 'false')
        c = c_of(d)
    else:
        args = '(mkArgs 0 0 0 0 0 0 None None false)'
        c = '(mkC 0 0 0 0 0 0 None None [])'
    s = s_of(d) if d['kind'] == 2 else '(mkS [] [] [] None None)'
    wr = w_of(d)
    tr = 'None' if d.get('traced') is None else '(Some %s)' % cplayout(d['traced'])
    rb = d.get('rb')
    rbs = '(mkRB %s)' % ' '.join(cz(rb[k]) for k in ('enzymeRead', 'enzymeStart', 'enzymeLength', 'ispcrRead', 'ispcrStart', 'ispcrLength')) \
        if rb else '(mkRB 0 0 0 0 0 0)'
    return '  (* %s *)\n  mkG "%s" %d %s\n      %s\n      %s\n      %s %s\n      %s' % (d['cls'], name, d['kind'], args, c, s, wr, rbs, tr)


def comp_entry(d):
    c = d.get('comp')
    if d['kind'] == 0:
        return '  ("%s", CBulk)' % d['name']
    if c['type'] == 'tchic':
        me = c['self']
        body = 'CTchic (mkTchic %s %s %s gen_complement %s %s %s %s %s %s %s %s %s %s %s)' % (
            c_of(me), w_of(me), cstr(me['name']), clist(cstr(x) for x in c['cuts']), cz(c['tx_umi_len']),
            cstr(c['trim_chars']), cz(c['trim_drop']), cstr(c['polyT']),
            clist('(%s, %s)' % (cstr(l), coz(w)) for l, w in c['t7']), cstr(c['cs2_suffix']),
            cstr(c['dt'][0]), cstr(c['dt'][1]), cstr(c['dt'][2]), cstr(c['rr']))
    elif c['type'] == 'chictv':
        body = 'CChictv (mkChictv %s %s %s %s)' % (arm_of(c['arm']), cstr(c['oligo']), cz(c['umi_len']), cstr(c['mx']))
    elif c['type'] == 'dual':
        body = 'CDual (mkDual %s %s %s %s %s %s %s %s %s)' % (
            arm_of(c['damid']), arm_of(c['tx']), cstr(c['damid']['name']), cstr(c['tx']['name']),
            'true' if c['merge'] else 'false', 'None' if c['dt_both'] is None else '(Some %s)' % cstr(c['dt_both']),
            cstr(c['dt_tx']), cstr(c['dt_damid']), cz(ord(c['prune'])))
    else:
        raise ValueError('composite type %r' % c['type'])
    return '  (* %s *)\n  ("%s", %s)' % (d['cls'], d['name'], body)


def write_gen_comp(layouts, tables):
    ents = [comp_entry(d) for d in layouts if d['kind'] == 0 or (d['kind'] == 3 and d.get('comp'))]
    body = ['(* GENERATED by tools/c02.py - composite / bulk strategies: arms dumped by reflection + trace, literals',
            '   extracted from the method sources (AST) and the live objects (tools/impl_c02.py dump_comp). Do not edit. *)',
            'From Coq Require Import ZArith List.', 'Import ListNotations.',
            'From SCMO Require Import Lib.PySlice Model.C02Defs Model.C02Comp.', 'Open Scope Z_scope.', 'Open Scope sname_scope.', '',
            'Definition gen_complement : list (Z * Z) := %s.' % clist('(%d, %d)' % (a, b) for a, b in tables['complement']), '',
            'Definition gen_comps : list (sname * compdef) := [', ';\n'.join(ents), '].', '']
    txt = '\n'.join(body)
    old = open(GENC).read() if os.path.exists(GENC) else None
    if old != txt:
        with open(GENC, 'w') as f:
            f.write(txt)


def write_gen(layouts):
    body = ['(* GENERATED by tools/c02.py from %s - the strategies DemultiplexingStrategyLoader registers,' % 'the checked source tree',
            '   dumped by reflection from the live objects (tools/impl_c02.py op layouts). Do not edit. *)',
            'From Coq Require Import ZArith List.', 'Import ListNotations.',
            'From SCMO Require Import Lib.PySlice Model.C02Defs.', 'Open Scope Z_scope.', 'Open Scope sname_scope.', '',
            'Definition gen_table : list gen := [', ';\n'.join(gen_entry(d) for d in layouts), '].', '']
    txt = '\n'.join(body)
    old = open(GEN).read() if os.path.exists(GEN) else None
    if old != txt:
        with open(GEN, 'w') as f:
            f.write(txt)


# ----------------------------------------------------------------------------- pinned protocol table -> python
def parse_protocols():
    """fail-closed reader of the hand-written table coq/Model/C02Protocols.v"""
    txt = fw.strip_comments(open(PROTO).read())
    n_expected = len(re.findall(r'^\s*Pr\s+"', txt, flags=re.M))
    out = {}
    for line in txt.splitlines():
        m = re.match(r'^\s*Pr\s+"([^"]*)"\s+(\d+)\s+(.*?);?\s*$', line)
        if not m:
            continue
        name, kind, rest = m.group(1), int(m.group(2)), m.group(3)
        py = rest.replace(';', ',')
        py = re.sub(r'\(Some\s+(\([^()]*\))\)', r'\1,', py)
        py = re.sub(r'\bNone\b', 'None,', py)
        py = re.sub(r'\]\s*\[', '], [', py)
        py = re.sub(r'\]\s*(\(|None)', r'], \1', py)
        py = re.sub(r'\)\s*\[', '), [', py)
        py = re.sub(r',\s*,', ',', py)
        try:
            vals = eval('[' + py + ']', {'__builtins__': {}}, {})
        except Exception as e:
            raise ValueError('cannot parse protocol line for %s: %r (%s)' % (name, rest, e))
        if len(vals) != 7:
            raise ValueError('protocol line for %s has %d fields' % (name, len(vals)))
        bc, umi, primer, lig, insert, mates, extra = vals
        out[name] = {'name': name, 'kind': kind, 'bc': [list(r) for r in bc], 'umi': [list(r) for r in umi],
                     'primer': list(primer) if primer else None, 'lig': list(lig) if lig else None,
                     'insert': list(insert), 'min': mates[0], 'max': mates[1],
                     'extra': [[t, list(r)] for t, r in extra]}
    if len(out) != n_expected or not out:
        raise ValueError('parsed %d of %d protocol lines' % (len(out), n_expected))
    return out


# ----------------------------------------------------------------------------- the statement, in python
# (used by search() and for the strategies that have no Coq model: composite, restriction-bisulfite, bulk)
def enc(q):
    """phredToFastqHeaderSafeQualities(method=3) as documented: phred 0..51 -> a..zA..Z, clamped"""
    return ''.join(LETTERS[min(max(0, ord(c) - 33), 51)] for c in q)


def reg(recs, r, w):
    m, a, k = r
    return recs[m][w][a:a + k] if 0 <= m < len(recs) else ''


def cat(recs, rs, w):
    return ''.join(reg(recs, r, w) for r in rs)


def expected_py(P, scattered, recs, lk, alias):
    """records the pinned protocol prescribes for an ACCEPTED input; None = must not be accepted"""
    raw = cat(recs, P['bc'], 0)
    hit = lk(alias, raw)
    if hit is None:
        return None, 'the bases at the protocol\'s barcode positions (%r) are not on whitelist %s' % (raw, alias)
    tags = {'bc': raw, 'BC': hit[1], 'bi': str(hit[0]) if P.get('kind') == 4 else hit[0]}
    umi, umiq = cat(recs, P['umi'], 0), cat(recs, P['umi'], 1)
    if (umi != '') if scattered else bool(P['umi']):
        tags['RX'], tags['RQ'] = umi, enc(umiq)
    if P.get('primer'):
        tags['rS'] = reg(recs, P['primer'], 0)
    if P.get('lig'):
        tags['lh'], tags['lq'] = reg(recs, P['lig'], 0), enc(reg(recs, P['lig'], 1))
    for t, r in P.get('extra', []):
        key = {1: 'QT', 2: 'ES', 3: 'eq', 4: 'IS'}[t]
        tags[key] = enc(reg(recs, r, 1)) if key in ('QT', 'eq') else reg(recs, r, 0)
    for k, v in tags.items():
        if v is None:
            return None, 'quality characters at the positions of tag %s cannot be encoded' % k
    out = [{'seq': s[P['insert'][i]:] if i < 2 else s, 'qual': q[P['insert'][i]:] if i < 2 else q, 'tags': tags}
           for i, (s, q) in enumerate(recs)]
    return out, None


def check_single(P, name, recs, res, lk, alias):
    """statement on one implementation result for a single-protocol strategy; None = satisfied"""
    if res.get('st') == 'accept-malformed':
        return 'accepted output is malformed: %s' % res.get('what')
    if res.get('st') != 'accept':
        return None
    if 'recs' not in res:
        return 'accepted output is not a list of tagged records'
    out = res['recs']
    if len(out) != len(recs):
        return 'accepted output has %d records for %d input mates' % (len(out), len(recs))
    if not (P['min'] <= len(recs) <= P['max']):
        return 'accepted an input of %d mates (protocol: %d..%d)' % (len(recs), P['min'], P['max'])
    exp, why = expected_py(P, P['kind'] == 2, recs, lk, alias)
    if exp is None:
        return 'accepted although ' + why
    keys = list(OBSERVED[:-1]) + [{1: 'QT', 2: 'ES', 3: 'eq', 4: 'IS'}[t] for t, _ in P.get('extra', [])]
    for i, (o, e) in enumerate(zip(out, exp)):
        if o['tags'].get('MX') != name:
            return 'record %d: MX=%r' % (i, o['tags'].get('MX'))
        for k in keys:
            if o['tags'].get(k) != e['tags'].get(k):
                return ('record %d: tag %s = %r, bases/qualities at the protocol\'s positions = %r'
                        % (i, k, o['tags'].get(k), e['tags'].get(k)))
        if o['seq'] != e['seq']:
            return ('record %d: emitted sequence is not read %d from position %d on (got %d bases starting %r, expected %d starting %r)'
                    % (i, i + 1, P['insert'][i] if i < 2 else 0, len(o['seq']), o['seq'][:12], len(e['seq']), e['seq'][:12]))
        if o['qual'] != e['qual']:
            return 'record %d: emitted qualities are not the same stretch as the emitted sequence' % i
        extra = set(o['tags']) - set(keys) - {'MX'} - set(ALLOWED_EXTRA)
        if extra:
            return 'record %d: unexpected tags %s' % (i, sorted(extra))
    return None


def check_bulk(recs, res):
    if res.get('st') != 'accept':
        return None
    fqs = res.get('fastq')
    if fqs is None or len(fqs) != len(recs):
        return 'bulk output has not one fastq record per mate'
    for (s, q), f in zip(recs, fqs):
        parts = f.split('\n')
        if len(parts) != 5 or parts[1] != s or parts[3] != q or parts[2] != '+':
            return 'bulk output does not carry the whole read'
    return None


SCA8 = {'bc': [[0, 3, 4], [0, 10, 4]], 'umi': [[0, 0, 3], [0, 7, 3]], 'primer': None, 'lig': [0, 14, 2], 'insert': [14, 0], 'kind': 2}
SCA10 = {'bc': [[0, 3, 4], [0, 10, 6]], 'umi': [[0, 0, 3], [0, 7, 3]], 'primer': None, 'lig': [0, 16, 2], 'insert': [16, 0], 'kind': 2}
CHIC = {'bc': [[0, 3, 8]], 'umi': [[0, 0, 3]], 'primer': None, 'lig': [0, 11, 2], 'insert': [12, 0], 'kind': 1}
# composite strategies: the sub-protocols tried on the same pair (hand-written from the class
# descriptions; positions of the sub-protocols as in the pinned table).  trimT: a poly-T prefix of the
# read-1 insert is discarded (transcriptome arm); cut: the emitted stretch may end early (declared
# oligo / homopolymer clipping).
COMPOSITES = {
    'TCHIC': [dict(CHIC, mx='TCHIC', alias='maya_384NLA', cut=[False, True])],
    'CHICTV': [dict(CHIC, mx='CTV', alias='maya_384NLA', cut=[True, False])],
    'DamAndT': [{'proto': 'DamID2', 'mx': 'DamID2', 'alias': 'DamID2'},
                {'proto': 'CS2C8U6', 'mx': 'CS2C8U6', 'alias': 'celseq2', 'trimT': True}],
    'DamID2andT_3u4b3u4b': [dict(SCA8, mx='DamID2_3u4b3u6b', alias='DamID2_scattered_8bp'),
                            dict(SCA8, mx='DamID2_3u4b3u6b', alias='CS2_scattered_8bp', trimT=True)],
    # both arms accept: the transcriptome records are returned, updated with the DamID arm's tags
    'DamID2andT_3u4b3u6b': [dict(SCA10, mx='DamID2_3u4b3u6b', alias='DamID2_scattered_10bp',
                                 seq_from=dict(SCA8, alias='CS2_scattered_8bp', trimT=True)),
                            dict(SCA10, mx='DamID2_3u4b3u6b', alias='DamID2_scattered_10bp'),
                            dict(SCA8, mx='DamID2_3u4b3u6b', alias='CS2_scattered_8bp', trimT=True)],
}


# ---- full python transcription of the composite strategies from the PINNED literals (used by search and
# as a second oracle in K); returns ('accept', [records]) / ('reject',) / None when it cannot tell
PIN = {'cuts': ['A' * 10, 'G' * 10], 'tx_umi': 6, 'trim_chars': 'GA', 'drop': 3, 'polyT': 'T' * 23,
       't7': [('AGTCCGACGAT', 30), ('GTTCTACAGT', 30), ('TAATACGACTCACTATAGGG', None)], 'suffix': 'TTTTT',
       'oligo': 'AGACTCTTT', 'tv_umi': 6, 'prune': 'T'}
COMPL = str.maketrans('ATCGNatcgn', 'TAGCNtagcn')


def arm_expected(c, protocols, recs, lk):
    if 'proto' in c:
        c = dict(protocols[c['proto']], **c)
    exp, _ = expected_py(c, c.get('kind') == 2, recs, lk, c['alias'])
    if exp is None:
        return None
    return [{'seq': e['seq'], 'qual': e['qual'], 'tags': dict(e['tags'], MX=c['mx'])} for e in exp]


def prune_t(rec):
    s = rec['seq']
    a = len(s) - len(s.lstrip(PIN['prune']))
    a = min(a, max(0, len(s) - 1))                  # a read made of T only keeps its last base
    return dict(rec, seq=s[a:], qual=rec['qual'][a:])


def expected_comp(name, protocols, recs, lk, cs2inv):
    if len(recs) != 2:
        return ('reject',)
    if name in ('DamAndT', 'DamID2andT_3u4b3u4b', 'DamID2andT_3u4b3u6b'):
        cands = [c for c in COMPOSITES[name] if not c.get('seq_from')]
        dam, tx = arm_expected(cands[0], protocols, recs, lk), arm_expected(cands[1], protocols, recs, lk)
        if tx is not None:
            tx = [prune_t(tx[0])] + tx[1:]
        def dt(rs, v):
            return [dict(r, tags=dict(r['tags'], dt=v)) for r in rs]
        if tx is not None and dam is not None:
            if name == 'DamID2andT_3u4b3u6b':
                return ('accept', [dict(t, tags=dict(t['tags'], **d['tags'])) for t, d in zip(tx, dam)])
            return ('accept', dt(dam, 'Ambiguous'))
        if tx is not None:
            return ('accept', dt(tx, 'RNA'))
        if dam is not None:
            return ('accept', dt(dam, 'DamID'))
        return ('reject',)
    if name == 'CHICTV':
        if PIN['oligo'] not in recs[0][0]:
            return ('reject',)
        e = arm_expected(COMPOSITES[name][0], protocols, recs, lk)
        if e is None:
            return ('reject',)
        pos = e[0]['seq'].find(PIN['oligo'])
        if pos < 0:
            return ('reject',)
        umi = e[0]['seq'][max(0, pos - PIN['tv_umi']):pos]
        e[0] = dict(e[0], seq=e[0]['seq'][:pos], qual=e[0]['qual'][:pos])
        return ('accept', [dict(r, tags=dict(r['tags'], tu=umi)) for r in e])
    if name == 'TCHIC':
        e = arm_expected(COMPOSITES[name][0], protocols, recs, lk)
        if e is None:
            return ('reject',)
        bc0 = cs2inv.get(e[0]['tags']['bi'])
        if bc0 is None:
            return None
        eb = bc0 + PIN['suffix']
        s1, s2 = e[0]['seq'], e[1]['seq']
        rc2 = s2.translate(COMPL)[::-1]
        def fin(dt, **kw):
            return ('accept', [dict(r, tags=dict(r['tags'], dt=dt, **kw)) for r in e])
        if eb in s1 or eb in rc2:
            src = s1 if eb in s1 else rc2
            end = src.find(eb)
            umi = src[max(0, end - PIN['tx_umi']):end]
            s, q = s2, e[1]['qual']
            for cut in PIN['cuts']:
                i = s.find(cut)
                if i != -1:
                    s, q = s[:i], q[:i]
            s = s.rstrip(PIN['trim_chars'])
            s = s[:max(0, len(s) - PIN['drop'])]
            e[1] = dict(e[1], seq=s, qual=q[:len(s)])
            return fin('VASA', **({'rx': umi} if umi else {}))
        if PIN['polyT'] in s1 or PIN['polyT'] in s2:
            return ('reject',)
        if any(lit in (s1[:w] if w is not None else s1) for lit, w in PIN['t7']):
            return fin('VASA', RR='T7_found')
        return fin('CHIC')
    return None


def check_comp_exact(name, protocols, recs, res, lk, cs2inv):
    """an ACCEPTED composite result must be exactly what the pinned transcription prescribes"""
    if res.get('st') != 'accept' or 'recs' not in res:
        return None
    exp = expected_comp(name, protocols, recs, lk, cs2inv)
    if exp is None:
        return None
    if exp[0] != 'accept':
        return 'accepted although the composite rule rejects this pair'
    if len(exp[1]) != len(res['recs']):
        return 'accepted output has %d records, expected %d' % (len(res['recs']), len(exp[1]))
    for i, (o, e) in enumerate(zip(res['recs'], exp[1])):
        for k in sorted(set(o['tags']) | set(e['tags'])):
            if o['tags'].get(k) != e['tags'].get(k):
                return 'record %d: tag %s = %r, declared rule gives %r' % (i, k, o['tags'].get(k), e['tags'].get(k))
        if o['seq'] != e['seq'] or o['qual'] != e['qual']:
            return ('record %d: emitted stretch differs from the declared trim (got %d bases / %d qualities, rule gives %d / %d)'
                    % (i, len(o['seq']), len(o['qual']), len(e['seq']), len(e['qual'])))
    return None


def match_cand(c, recs, out, lk):
    exp, why = expected_py(c, c.get('kind') == 2, recs, lk, c['alias'])
    if exp is None:
        return why
    if c.get('seq_from'):
        sf = c['seq_from']
        e2, why = expected_py(sf, sf.get('kind') == 2, recs, lk, sf['alias'])
        if e2 is None:
            return 'other arm: ' + why
        c = dict(c, insert=sf['insert'], trimT=sf.get('trimT'))
    for i, (o, e) in enumerate(zip(out, exp)):
        if o['tags'].get('MX') != c['mx']:
            return 'MX=%r' % o['tags'].get('MX')
        for k in OBSERVED[:-1]:
            if o['tags'].get(k) != e['tags'].get(k):
                return 'record %d: tag %s = %r, at the sub-protocol\'s positions: %r' % (i, k, o['tags'].get(k), e['tags'].get(k))
        s, q = recs[i]
        ins = c['insert'][i]
        starts = [ins]
        if c.get('trimT') and i == 0:
            a = ins
            while a < len(s) and s[a] == 'T':
                a += 1
                starts.append(a)
            # declared rule: the maximal poly-T prefix, but an insert of T only keeps its last base
            a = min(a, max(ins, len(s) - 1)) if len(s) > ins else ins
            starts = [a]
        ok = False
        cut = (c.get('cut') or [False, False])[i]
        for a in starts:
            b = a + len(o['seq'])
            if cut:
                if (o['seq'] == s[a:b] and o['qual'] == q[a:b]) or (o['seq'] == s[a:] and o['qual'] == q[a:]):
                    ok = True
                    break
            elif o['seq'] == s[a:] and o['qual'] == q[a:]:
                ok = True
                break
        if not ok:
            return ('record %d: emitted sequence/qualities are not one aligned stretch of read %d starting at the insert start %d'
                    % (i, i + 1, ins))
    return None


def check_composite(name, protocols, recs, res, lk):
    if res.get('st') == 'accept-malformed':
        return 'accepted output is malformed: %s' % res.get('what')
    if res.get('st') != 'accept':
        return None
    out = res.get('recs')
    if out is None or len(out) != len(recs) or len(recs) != 2:
        return 'accepted output has %s records for %d input mates' % ('no' if out is None else len(out), len(recs))
    whys = []
    for c in COMPOSITES[name]:
        if 'proto' in c:
            c = dict(protocols[c['proto']], **c)
        w = match_cand(c, recs, out, lk)
        if w is None:
            return None
        whys.append('%s/%s: %s' % (c['mx'], c['alias'], w))
    return 'no sub-protocol explains the accepted records (' + ' | '.join(whys) + ')'


# ----------------------------------------------------------------------------- the check
def opt(x):
    return [] if x is None else [x]


def canon_impl(res, name, kind=1):
    """implementation result -> the value run_C02 mode 0 prints"""
    st = res.get('st')
    if st == 'reject':
        return [1]
    if st == 'raise':
        return [2, ERR.get(res.get('error'), 99)]
    if st != 'accept' or 'recs' not in res:
        return ['malformed', res.get('what', st)]
    out = []
    xkeys = ('QT', 'ES', 'eq', 'IS') if kind == 4 else ()
    for r in res['recs']:
        t = r['tags']
        extra = set(t) - set(OBSERVED) - set(ALLOWED_EXTRA) - set(xkeys)
        if extra:
            return ['unexpected-tags', sorted(extra)]
        if t.get('MX') != name:
            return ['MX', t.get('MX')]
        bi = t.get('bi')
        if kind == 4:                       # this class casts the barcode index to str
            if not (isinstance(bi, str) and re.fullmatch(r'-?\d+', bi)):
                return ['bi', bi]
            bi = int(bi)
            if any(k not in t for k in xkeys):
                return ['missing-tags', sorted(k for k in xkeys if k not in t)]
        out.append([r['seq'], r['qual'], t.get('bc'), t.get('BC'), bi] +
                   [opt(t.get(k)) for k in ('RX', 'RQ', 'rS', 'lh', 'lq')] +
                   [[[i + 1, t[k]] for i, k in enumerate(xkeys)]])
    return [0, out]


def canon_comp(res, kind):
    """implementation result of a composite / bulk strategy -> the value run_C02 mode 6 prints"""
    st = res.get('st')
    if st == 'reject':
        return [1]
    if st == 'raise':
        return [2, ERR.get(res.get('error'), 99)]
    if st != 'accept':
        return ['malformed', res.get('what', st)]
    if kind == 0:
        out = []
        for f in (res['fastq'] if isinstance(res.get('fastq'), list) else ['?']):
            parts = f.split('\n')
            if len(parts) != 5 or parts[2] != '+' or parts[4] != '' or not parts[0].startswith('@'):
                return ['malformed-fastq', f]
            out.append([parts[1], parts[3]])
        return [0, out]
    if 'recs' not in res:
        return ['malformed', 'no records']
    out = []
    for r in res['recs']:
        t = r['tags']
        extra = set(t) - set(OBSERVED) - {'dt', 'rx', 'RR', 'tu'}
        if extra:
            return ['unexpected-tags', sorted(extra)]
        o = [r['seq'], r['qual'], t.get('bc'), t.get('BC'), t.get('bi')] + [opt(t.get(k)) for k in ('RX', 'RQ', 'rS', 'lh', 'lq')] + [[]]
        out.append([o, t.get('MX')] + [opt(t.get(k)) for k in ('dt', 'rx', 'RR', 'tu')])
    return [0, out]


def pyslice(s, sl):
    return s[slice(sl[0], sl[1])]


# ---------------------------------------------------------------- file-level stream (FastqIterator) helpers
WS = set(range(9, 14)) | set(range(28, 33)) | {133, 160}


def fq_lines(text):
    """what successive readline() calls return in text mode with universal newlines"""
    t = text.replace('\r\n', '\n').replace('\r', '\n')
    parts = t.split('\n')
    return [x + '\n' for x in parts[:-1]] + ([parts[-1]] if parts[-1] else [])


def fq_rstrip(x):
    while x and ord(x[-1]) in WS:
        x = x[:-1]
    return x


def fq_expected(texts):
    """the statement: tuple k = lines 4k..4k+3 of every file, right-stripped; stop at the first blank/absent header"""
    files = [fq_lines(t) for t in texts]
    out, k = [], 0
    while files:
        row = [[fq_rstrip(f[4 * k + j]) if 4 * k + j < len(f) else '' for j in range(4)] for f in files]
        if any(not r[0] for r in row):
            break
        out.append(row)
        k += 1
    return out


class Prop(fw.PropBase):
    ID = 'C02'
    PROPS = 'Props/C02.v'
    TRUSTED = [
        'modelled not verified: the barcode whitelist lookup (BarcodeParser.getIndexCorrectedBarcodeAndHammingDistance, '
        'property C03) is a parameter of the model; K answers it with the real parser and hands the same answers to the model',
        'modelled not verified: fastq header parsing (TaggedRecord.fromRawFastq, property C04) - K uses well-formed Illumina headers '
        'and ignores the header-derived tags',
        'tools/impl_c02.py op layouts: reflection over DemultiplexingStrategyLoader.demux_classes (attributes) plus one '
        'demultiplex call per arity on reads made of distinct characters (ligation bases, exact arity, observed positions) '
        '-> coq/Gen/GenLayouts.v',
        'coq/Model/C02Protocols.v: hand-written pinned protocol table (from the classes\' description strings at this commit); '
        'where a description is silent (DamID insert start, ligation bases) the position was pinned from the constructor comments',
        'composite strategies (TCHIC, CHICTV, DamAndT, DamID2andT_3u4b3u4b, DamID2andT_3u4b3u6b) and ILLU: modelled in Coq '
        '(coq/Model/C02Comp.v) over the single-protocol arm models; their literals (oligos, poly-A/G/T runs, the 3 of [:-3], UMI '
        'lengths, dt / MX / RR strings, the [GA] character class, the complement table) are regenerated into coq/Gen/GenComp.v by '
        'AST extraction from demultiplex / trim_r2 plus object attributes (tools/impl_c02.py dump_comp, fail closed on an unknown '
        'shape); the dispatch structure of each composite is hand-transcribed and validated by K (Coq model vs the real classes); '
        're.sub with $ is modelled as a plain suffix strip (a trailing newline inside a read is not modelled); the CEL-Seq2 '
        'barcode-of-index table of TCHIC is a parameter answered from the shipped whitelist',
        'DamID2_scattered_10bp ships without a whitelist file: K gives it 48 synthetic barcodes (transcriptome barcodes + 2 bases) so '
        'that the both-arms branch of DamID2andT_3u4b3u6b is exercised',
    ]
    ASSUMPTIONS = [
        'an accepted input is a tuple of 1 or 2 reads (the base classes reject every other arity); theorems hold for all read '
        'lengths including reads shorter than the tag prefix, and for sequence/quality strings of different length except '
        'the index-alignment clause, which assumes len(sequence) = len(qual) for that mate',
        'quality characters above phred 51 are clamped to Z by the header-safe encoding (after the fix of D2): RQ / lq are '
        'injective images of the qualities only for phred 0..51 (theorem C02_enc_injective)',
    ]

    # ------------------------------------------------------------------ T
    def regen(self):
        import hashlib
        r = fw.run_impl('impl_c02.py', {'op': 'layouts'})
        if 'error' in r:
            raise RuntimeError('reflection over the registered strategies failed: ' + r['error'])
        self.layouts, self.whitelists, self.tables = r['layouts'], r['whitelists'], r['tables']
        write_gen(self.layouts)
        write_gen_comp(self.layouts, self.tables)
        bad = ['%s: %s' % (d['name'], d['comp_error']) for d in self.layouts if d.get('comp_error')]
        if bad:
            raise RuntimeError('composite strategy source has a shape the translator does not know (no Coq definition '
                               'generated, strategy covered by the python statement only): ' + '; '.join(bad))
        return [{'file': 'coq/Gen/GenComp.v', 'source': 'composite strategies: arms by reflection + trace, literals by AST of demultiplex / trim_r2 '
                 'and object attributes; utils.sequtils.complement_translate', 'composites': sum(1 for d in self.layouts if d['kind'] == 3),
                 'sha256': hashlib.sha256(open(GENC, 'rb').read()).hexdigest()[:16]},
                {'file': 'coq/Gen/GenLayouts.v', 'source': 'DemultiplexingStrategyLoader.demux_classes (reflection + trace) in ' + fw.REPO,
                 'strategies': len(self.layouts), 'kinds': {str(k): sum(1 for d in self.layouts if d['kind'] == k) for k in (0, 1, 2, 3, 4, 9)},
                 'sha256': hashlib.sha256(open(GEN, 'rb').read()).hexdigest()[:16]}]

    def ensure_layouts(self):
        if not hasattr(self, 'layouts'):
            r = fw.run_impl('impl_c02.py', {'op': 'layouts'})
            if 'error' in r:
                raise fw.Broken('translator', 'reflection over the registered strategies failed: ' + r['error'])
            self.layouts, self.whitelists, self.tables = r['layouts'], r['whitelists'], r['tables']
        if not hasattr(self, 'protocols'):
            self.protocols = parse_protocols()

    # ------------------------------------------------------------------ generators
    def gen_profile(self, d):
        """positions used to BUILD inputs for a strategy (where to put a whitelisted barcode)"""
        name = d['name']
        if d['kind'] == 3:
            cs = []
            for c in COMPOSITES.get(name, []):
                cs.append(dict(self.protocols[c['proto']], **c) if 'proto' in c else c)
            return cs
        P = self.protocols.get(name)
        if P is None or d['kind'] == 0:
            return [{'bc': [], 'umi': [], 'insert': [0, 0], 'alias': None, 'lig': None, 'primer': None}]
        return [dict(P, alias=d.get('alias'))]

    def rand_seq(self, n, pn=0.05):
        r = self.rng
        return ''.join('N' if r.random() < pn else r.choice('ACGT') for _ in range(n))

    def rand_qual(self, n, hi=False):
        r = self.rng
        q = [chr(33 + r.randint(0, 51)) for _ in range(n)]
        if hi and n:
            for _ in range(r.randint(1, 3)):
                q[r.randrange(n)] = chr(33 + r.randint(52, 60))
        return ''.join(q)

    MOTIFS = ['AGACTCTTT', 'T' * 23, 'A' * 10, 'G' * 10, 'TTTTT', 'GAGAGAGA', 'AGTCCGACGAT', 'GTTCTACAGT',
              'TAATACGACTCACTATAGGG', 'CATG', 'T']

    def make_pair(self, prof, n, short=False, hiq=False, unequal=False, motif=None):
        r = self.rng
        wl = self.whitelists.get(prof.get('alias') or '', {})
        prefix = [0, 0]
        for m, a, k in prof['bc'] + prof['umi'] + ([prof['lig']] if prof.get('lig') else []) + ([prof['primer']] if prof.get('primer') else []):
            if m < 2:
                prefix[m] = max(prefix[m], a + k)
        recs = []
        for i in range(n):
            pre = prefix[i] if i < 2 else 0
            if short and r.random() < 0.7:
                L = r.randint(0, pre + 3)
            else:
                L = pre + r.choice([0, 1, 2, 3, 5, 20, 50, 75, 100, 150, r.randint(0, 150)])
            s = list(self.rand_seq(L))
            if L > pre + 12 and (r.random() < 0.35 or (motif and i == 0 and r.random() < 0.8)):   # protocol motifs inside the insert
                mot = r.choice(self.MOTIFS + ([k + 'TTTTT' for k in r.sample(sorted(self.whitelists.get('celseq2', {'A': 1})), 1)]))
                if motif and i == 0:
                    mot = motif
                at = r.randint(pre, max(pre, L - len(mot)))
                if r.random() < 0.3:
                    at = pre + r.choice([0, 1, 2])
                s[at:at + len(mot)] = list(mot)
                s = s[:L]
            if L > pre + 5 and r.random() < 0.15:        # poly-T right at the insert start
                t = r.randint(1, min(L - pre, 30))
                s[pre:pre + t] = ['T'] * t
            recs.append([''.join(s), None])
        # whitelisted barcode at the barcode positions
        self._placed = None
        if wl and prof['bc'] and r.random() < 0.85:
            bc = r.choice(sorted(wl))
            self._placed = bc
            if r.random() < 0.3:
                j = r.randrange(len(bc))
                bc = bc[:j] + r.choice('ACGTN') + bc[j + 1:]
                self._placed = None
            off = 0
            for m, a, k in prof['bc']:
                if m < len(recs):
                    s = recs[m][0]
                    piece = bc[off:off + k]
                    if len(s) >= a:
                        recs[m][0] = (s[:a] + piece + s[a + k:])[:len(s)]
                off += k
        for rec in recs:
            L = len(rec[0])
            rec[1] = self.rand_qual(L, hi=hiq)
            if unequal and L:
                rec[1] = rec[1][:r.randint(0, L)] if r.random() < 0.5 else rec[1] + self.rand_qual(r.randint(1, 5))
        return recs

    def enrich_composite(self, d, prof, recs):
        """steer composite inputs into their branches: bleed-through barcode (TCHIC), homopolymers and
        trailing G/A in read 2, inserts made of T only, barcodes both arms accept"""
        r = self.rng
        name = d['name']
        if len(recs) != 2:
            return recs
        (s1, q1), (s2, q2) = recs
        comp = {'A': 'T', 'C': 'G', 'G': 'C', 'T': 'A', 'N': 'N'}
        rc = lambda x: ''.join(comp.get(c, c) for c in reversed(x))
        pre = prof['insert'][0]
        if name == 'TCHIC' and self._placed and len(s1) > pre + 20 and r.random() < 0.5:
            cs2 = {v: k for k, v in self.whitelists.get('celseq2', {}).items()}
            idx = self.whitelists['maya_384NLA'].get(self._placed)
            if idx in cs2:
                eb = cs2[idx] + 'TTTTT'
                if r.random() < 0.6:
                    at = r.choice([pre, pre + 1, pre + 3, pre + 6, pre + 9, r.randint(pre, max(pre, len(s1) - len(eb)))])
                    s1 = (s1[:at] + eb + s1[at + len(eb):])[:max(len(s1), at + len(eb))]
                    q1 = q1 + self.rand_qual(len(s1) - len(q1))
                else:
                    ins = rc(self.rand_seq(r.choice([0, 2, 6, 9]), 0) + eb + self.rand_seq(r.randint(0, 8), 0))
                    at = r.randint(0, max(0, len(s2) - len(ins)))
                    s2 = (s2[:at] + ins + s2[at + len(ins):])[:max(len(s2), at + len(ins))]
                    q2 = q2 + self.rand_qual(len(s2) - len(q2))
                x = r.random()
                if x < 0.3 and len(s2) > 30:
                    at = r.randint(0, len(s2) - 10)
                    s2 = s2[:at] + r.choice(['A', 'G']) * 10 + s2[at + 10:]
                elif x < 0.6:
                    k = r.randint(1, 8)
                    s2 = s2[:max(0, len(s2) - k)] + ''.join(r.choice('GA') for _ in range(min(k, len(s2))))
                elif x < 0.7:
                    s2, q2 = s2[:r.randint(0, 4)], q2[:4]
                    q2 = q2[:len(s2)]
        if prof.get('trimT') or (prof.get('seq_from') or {}).get('trimT'):
            ins = (prof.get('seq_from') or prof)['insert'][0]
            if len(s1) >= ins and r.random() < 0.25:          # insert of T only / starting with T
                k = r.choice([0, 1, 1, 2, 3, 12])
                tail = r.choice(['', '', 'A', 'ACGT'])
                s1 = s1[:ins] + 'T' * k + tail
                q1 = (q1 + self.rand_qual(len(s1)))[:len(s1)]
        return [[s1, q1], [s2, q2]]

    def both_arm_barcodes(self, name):
        """barcodes that BOTH arms of a dual strategy accept (whitelists within one mismatch of each other)"""
        if not hasattr(self, '_both'):
            self._both = {}
        if name in self._both:
            return self._both[name]
        out = []
        hd = lambda a, b: sum(1 for x, y in zip(a, b) if x != y)
        if name == 'DamAndT':            # DamID2 barcode at 3:13, CEL-Seq2 barcode at 6:14 of read 1
            for dbc in sorted(self.whitelists.get('DamID2', {})):
                for c in sorted(self.whitelists.get('celseq2', {})):
                    if hd(dbc[3:10], c[0:7]) <= 1:
                        out.append(('xxx' + dbc[:3] + c, None))        # read-1 prefix (UMI xxx) carrying both
        elif name == 'DamID2andT_3u4b3u4b':
            for a in sorted(self.whitelists.get('DamID2_scattered_8bp', {})):
                for b in sorted(self.whitelists.get('CS2_scattered_8bp', {})):
                    if hd(a, b) <= 1:
                        out.append(('xxx' + b[:4] + 'xxx' + b[4:], None))
        self._both[name] = out
        return out

    def make_cases(self):
        self.ensure_layouts()
        r = self.rng
        per = 150 if self.tier == 'quick' else 6000
        cases = []
        # corpus first: minimised inputs that once disagreed
        cdir = os.path.join(fw.VERIF, 'corpus', 'C02')
        names = {d['name']: i for i, d in reversed(list(enumerate(self.layouts)))}
        for f in sorted(os.listdir(cdir)) if os.path.isdir(cdir) else []:
            if f.endswith('.json'):
                c = json.load(open(os.path.join(cdir, f)))
                if c.get('s') in names:
                    cases.append({'s': c['s'], 'sid': names[c['s']], 'recs': c['recs'], 'probe': None, 'why': 'corpus'})
        for sid, d in enumerate(self.layouts):
            profs = self.gen_profile(d)
            k = per if d['kind'] != 0 else max(10, per // 6)
            if d['kind'] == 3:
                k = per * 2
            for j in range(k):
                prof = profs[j % len(profs)]
                x = r.random()
                n = 2 if x < 0.8 else (1 if x < 0.95 else r.choice([0, 3]))
                if d['name'].endswith('SE') or d['name'].endswith('se'):
                    n = 1 if x < 0.8 else (2 if x < 0.95 else r.choice([0, 3]))
                recs = self.make_pair(prof, n, short=(j % 4 == 0), hiq=(r.random() < 0.04), unequal=(r.random() < 0.03),
                                      motif=('AGACTCTTT' if d['name'] == 'CHICTV' else None))
                if d['kind'] == 3:
                    recs = self.enrich_composite(d, prof, recs)
                    both = self.both_arm_barcodes(d['name'])
                    if both and len(recs) == 2 and r.random() < 0.15:
                        pfx = r.choice(both)[0]
                        pfx = ''.join(r.choice('ACGT') if ch == 'x' else ch for ch in pfx)
                        if len(recs[0][0]) >= len(pfx):
                            recs[0][0] = pfx + recs[0][0][len(pfx):]
                cases.append({'s': d['name'], 'sid': sid, 'recs': recs, 'probe': None, 'why': 'random'})
            # exhaustive over the read lengths around the tag prefix (where the slice semantics bite)
            if d['kind'] in (1, 2, 4):
                prof = profs[0]
                pre = [0, 0]
                for m, a, kk in prof['bc'] + prof['umi'] + ([prof['lig']] if prof.get('lig') else []) + ([prof['primer']] if prof.get('primer') else []):
                    pre[m] = max(pre[m], a + kk)
                l2s = [0, 3, 6, 7, pre[1], pre[1] + 1, 40] if self.tier == 'quick' else list(range(0, pre[1] + 4)) + [40]
                base = self.make_pair(prof, 2)
                base = [[self.rand_seq(pre[0] + 6, 0), None], [self.rand_seq(max(pre[1] + 6, 41), 0), None]]
                wl = self.whitelists.get(prof.get('alias') or '', {})
                if wl:
                    bc, off = sorted(wl)[sid % len(wl)], 0
                    for m, a, kk in prof['bc']:
                        base[m][0] = base[m][0][:a] + bc[off:off + kk] + base[m][0][a + kk:]
                        off += kk
                for rec in base:
                    rec[1] = ''.join(chr(33 + (7 * i) % 52) for i in range(len(rec[0])))
                for l1 in range(0, pre[0] + 5):
                    for l2 in sorted(set(l2s)):
                        for n in ((1, 2) if l2 == l2s[0] else (2,)):
                            recs = [[base[0][0][:l1], base[0][1][:l1]], [base[1][0][:l2], base[1][1][:l2]]][:n]
                            cases.append({'s': d['name'], 'sid': sid, 'recs': recs, 'probe': None, 'why': 'lengths'})
        return cases

    MAIN_STRATEGIES = ['CS2C8U6NH', 'MSPJIC8U3', 'CS2C8U6S', 'NLAIII384C8U3', 'scCHIC384C8U3', 'DamID2', 'SCARC8R2',
                       'DamAndT', 'TCHIC', 'RBSN', 'CS2C8U8S']

    def make_file_cases(self):
        """file level stream: the same kind of read pairs written to fastq files (plain / gz, LF / CRLF, with and
        without a trailing newline, several lanes) and run through DemultiplexingStrategyLoader.demultiplex + FastqHandle
        or through the demux.py command line with the mate / lane files listed in sorted, R2-first and shuffled order"""
        r = self.rng
        quick = self.tier == 'quick'
        out = []
        names = {d['name']: i for i, d in reversed(list(enumerate(self.layouts)))}

        def pairs_for(d, npairs, both_prefixed):
            profs = self.gen_profile(d)
            mates = 1 if (d['name'].endswith('SE') or d['name'].endswith('se')) else 2
            ps = []
            for j in range(npairs):
                prof = profs[j % len(profs)]
                for _ in range(30):
                    recs = self.make_pair(prof, mates)
                    last = j == npairs - 1
                    if d['kind'] == 3:
                        recs = self.enrich_composite(d, prof, recs) if mates == 2 else recs
                    if both_prefixed and mates == 2:
                        other = self.make_pair(prof, 2)
                        if len(other[0][0]) >= 20:
                            recs[1] = other[0]           # read 2 also starts like a read 1: a swapped run still accepts
                    ok = all(len(x[0]) == len(x[1]) and len(x[0]) >= 1 for x in recs)
                    if last:                              # the last read of the file must be an accepted, non-empty one
                        ok = ok and self._placed is not None and all(len(x[0]) >= 40 for x in recs)
                    if ok:
                        break
                ps.append(recs)
            return ps, mates

        variants = [(g, e, t) for g in (False, True) for e in ('\n', '\r\n') for t in (True, False)]
        k = 0
        for sid, d in enumerate(self.layouts):
            if d['kind'] == 0:
                continue
            for rep in range(1 if quick else 4):
                g, e, t = variants[(k + rep * 3) % len(variants)]
                k += 1
                ps, mates = pairs_for(d, r.randint(3, 6), False)
                lanes = [len(ps)] if r.random() < 0.6 or len(ps) < 2 else [len(ps) // 2, len(ps) - len(ps) // 2]
                out.append({'s': d['name'], 'sid': sid, 'mode': 'loader', 'pairs': ps, 'mates': mates, 'gz': g, 'eol': e,
                            'trailing': t, 'lanes': lanes})
        mains = [n for n in self.MAIN_STRATEGIES if n in names]
        r.shuffle(mains)
        for j, name in enumerate(mains[:(5 if quick else len(mains))] * (1 if quick else 3)):
            d = self.layouts[names[name]]
            ps, mates = pairs_for(d, r.randint(3, 5), True)
            nl = 1 if j % 2 == 0 or len(ps) < 2 else 2
            lanes = [len(ps)] if nl == 1 else [len(ps) // 2, len(ps) - len(ps) // 2]
            nfiles = nl * mates
            order = list(range(nfiles))
            if j % 3 == 0:
                order = list(reversed(order))             # R2 before R1 (and the later lane first)
            elif j % 3 == 1:
                r.shuffle(order)
            g, e, t = variants[(j * 5 + 1) % len(variants)]
            out.append({'s': name, 'sid': names[name], 'mode': 'main', 'pairs': ps, 'mates': mates, 'gz': g, 'eol': e,
                        'trailing': t, 'lanes': lanes, 'order': order})
        return out

    def check_file_case(self, c, res):
        """the statement on what the file level entry point WROTE; None = satisfied"""
        d = self.layouts[c['sid']]
        if res.get('crash'):
            return 'the run crashed: %s' % res['crash']
        if len(res.get('libs', [])) != 1:
            return 'expected one output library directory, found %r' % (res.get('libs'),)
        outs = res['out']
        for o in outs:
            if isinstance(o, str):
                return o
            if o is None:
                return 'an output file of one mate is missing'
        if len(set(len(o) for o in outs)) != 1:
            return 'the mate files hold different numbers of records: %r' % [len(o) for o in outs]
        expect_accept = []
        for j, recs in enumerate(c['pairs']):
            P = self.protocols.get(c['s'])
            if P and P['kind'] in (1, 2, 4):
                exp, _ = expected_py(P, P['kind'] == 2, recs, self.lk, d.get('alias'))
                if exp is not None and P['min'] <= len(recs) <= P['max']:
                    expect_accept.append(j)
        seen = []
        for pos in range(len(outs[0])):
            tup = [o[pos] for o in outs]
            idx = tup[0]['idx']
            if idx is None or any(t['idx'] != idx for t in tup) or not (0 <= idx < len(c['pairs'])):
                return 'record %d: the mates written side by side do not belong to the same input pair' % pos
            seen.append(idx)
            recs = c['pairs'][idx]
            P = self.protocols.get(c['s'])
            rr = []
            for t in tup:
                tags = dict(t['tags'])
                if 'bi' in tags and tags['bi'].lstrip('-').isdigit() and not (P and P['kind'] == 4):
                    tags['bi'] = int(tags['bi'])
                rr.append({'seq': t['seq'], 'qual': t['qual'], 'tags': tags})
            w = self.statement_on(c['sid'], recs, {'st': 'accept', 'recs': rr})
            if w:
                return 'input pair %d as written: %s' % (idx, w)
        if seen != sorted(seen) or len(set(seen)) != len(seen):
            return 'written records are not the accepted input pairs in input order: %r' % seen
        missing = [j for j in expect_accept if j not in seen]
        if missing:
            return 'input pairs %r are acceptable by the protocol but were not written' % missing
        return None

    def make_init_cases(self):
        r = self.rng
        out = []
        for _ in range(250 if self.tier == 'quick' else 6000):
            ul = r.choice([0, 0, 3, 6, r.randint(0, 9)])
            a = {'umiRead': r.choice([0, 0, 1]), 'umiStart': r.choice([0, 0, 0, 3, 8, r.randint(0, 12)]), 'umiLength': ul,
                 'barcodeRead': r.choice([0, 0, 1]), 'barcodeStart': r.choice([0, ul, ul, 3, r.randint(0, 12)]),
                 'barcodeLength': r.choice([8, 8, 4, 0, r.randint(0, 12)]),
                 'random_primer_read': r.choice([None, 0, 1, 1]), 'random_primer_length': r.choice([6, 6, 4, 0, r.randint(0, 9)]),
                 'random_primer_end': r.random() < 0.4}
            if r.random() < 0.5:
                a['umiRead'] = a['barcodeRead']
            recs = []
            for _ in range(3):
                n = r.choice([2, 2, 2, 1])
                pair = []
                for i in range(n):
                    L = r.choice([r.randint(0, 12), r.randint(0, 30), r.randint(20, 60)])
                    q = self.rand_qual(L, hi=(r.random() < 0.03))
                    if r.random() < 0.05 and L:
                        q = q[:r.randint(0, L)]
                    pair.append([self.rand_seq(L), q])
                recs.append(pair)
            out.append({'args': a, 'recs': recs})
        return out

    # ------------------------------------------------------------------ K
    def raw_candidates(self, d, recs):
        """raw barcodes the whitelist may be asked about for this input: at the pinned protocol's
        positions, at the positions found on the live object and at the traced positions"""
        cands = []
        P = self.protocols.get(d['name'])
        if P and P['bc']:
            cands.append(cat(recs, P['bc'], 0))
        if d.get('traced'):
            cands.append(cat(recs, d['traced']['bc'], 0))
        if d['kind'] in (1, 4):
            a = d['args']
            m = a['barcodeRead']
            if 0 <= m < len(recs):
                cands.append(pyslice(recs[m][0], [a['barcodeStart'], a['barcodeStart'] + a['barcodeLength']]))
        if d['kind'] == 2:
            cands.append(''.join(''.join(pyslice(rec[0], s) for s in sls) for rec, sls in zip(recs, d['bc_slices'])))
        return sorted(set(cands))

    def comp_arms(self, d):
        c = d.get('comp') or {}
        if c.get('type') == 'tchic':
            return [c['self']]
        if c.get('type') == 'chictv':
            return [c['arm']]
        if c.get('type') == 'dual':
            return [c['damid'], c['tx']]
        return []

    def comp_candidates(self, d, recs):
        out = []
        for c in self.gen_profile(d):
            out.append((c['alias'], cat(recs, c['bc'], 0)))
            if c.get('seq_from'):
                out.append((c['seq_from']['alias'], cat(recs, c['seq_from']['bc'], 0)))
        for a in self.comp_arms(d):           # what the live arm objects would ask
            for raw in self.raw_candidates(dict(a, name='?'), recs):
                out.append((a.get('alias'), raw))
        return sorted(set(out), key=str)

    # ------------------------------------------------------------------ file-level stream: FastqIterator alone
    def make_fq_cases(self):
        import random
        rng = random.Random('c02fq-%s-%s' % (os.environ.get('VERIF_SEED', '0'), self.tier))
        n = 60 if self.tier == 'quick' else 400
        cases = []

        def rec(i, L):
            q = ''.join(rng.choice('!#5AFIJ~') for _ in range(L))
            return ['@r%d %d:N:0' % (i, rng.randint(1, 2)), ''.join(rng.choice('ACGTN') for _ in range(L)), '+', q]
        for c in range(n):
            nf = rng.choice([1, 2, 2, 2, 3])
            eol = rng.choice(['\n', '\n', '\r\n'])
            nrec = rng.choice([0, 1, 2, 3, 5])
            shape = rng.choice(['plain', 'plain', 'no_final_newline', 'blank_tail', 'truncated', 'blank_inside', 'shorter_mate',
                                'trailing_space', 'no_final_newline'])
            texts = []
            for j in range(nf):
                k = nrec - 1 if (shape == 'shorter_mate' and j == nf - 1 and nrec > 0) else nrec
                lines = [x for i in range(k) for x in rec(i, rng.choice([0, 1, 4, 12]))]
                if shape == 'trailing_space':
                    lines = [x + rng.choice(['', ' ', '\t', ' \t']) for x in lines]
                if shape == 'truncated' and lines and (j == 0 or rng.random() < 0.5):
                    lines = lines[:len(lines) - rng.randint(1, 3)]
                if shape == 'blank_inside' and len(lines) >= 4:
                    lines.insert(4 * rng.randrange(len(lines) // 4), rng.choice(['', ' ']))
                t = ''.join(x + eol for x in lines)
                if shape == 'blank_tail':
                    t += eol * rng.randint(1, 5)
                if shape == 'no_final_newline' and t:
                    t = t[:-len(eol)]
                texts.append(t)
            cases.append({'texts': texts, 'gz': rng.random() < 0.25, 'shape': shape, 'eol': 'CRLF' if eol != '\n' else 'LF'})
        return cases

    def fq_stream(self, with_model):
        """FastqIterator on generated files: the statement on the implementation's records, and model = implementation"""
        cases = self.make_fq_cases()
        res = fw.run_impl('impl_c02.py', {'op': 'fq', 'cases': [{'texts': c['texts'], 'gz': c['gz']} for c in cases]})['fq']
        bad, shapes, nrec = [], {}, 0
        for c, r in zip(cases, res):
            exp = fq_expected(c['texts'])
            got = r.get('recs') if isinstance(r, dict) else None
            shapes[c['shape']] = shapes.get(c['shape'], 0) + 1
            nrec += len(exp)
            if got is None or fw.to_val(got) != fw.to_val(exp):
                bad.append({'key': 'C02:fastq-iterator:%s' % c['shape'],
                            'what': 'FastqIterator over %d file(s) (%s line ends, %s): records differ from lines 4k..4k+3 of each file '
                                    '(right-stripped, stopping at the first blank or absent header)' % (len(c['texts']), c['eol'], c['shape']),
                            'input': {'file_contents': c['texts'], 'gz': c['gz']}, 'impl': r, 'expected': exp,
                            'size': sum(len(t) for t in c['texts'])})
        self.cov['fastq_iterator'] = {'cases': len(cases), 'shapes': shapes, 'records_expected': nrec,
                                      'crlf': sum(1 for c in cases if c['eol'] == 'CRLF'), 'gz': sum(1 for c in cases if c['gz']),
                                      'multi_file': sum(1 for c in cases if len(c['texts']) > 1), 'statement_violations': len(bad)}
        if with_model and not bad:
            minp = [[fq_lines(t) for t in c['texts']] for c in cases]
            mout = fw.run_model('C02', 7, minp)
            pairs = []
            for c, r, mi, mo in zip(cases, res, minp, mout):
                pairs.append((fw.to_val(mi), mo))
                if mo != fw.to_val(r['recs']):
                    bad.append({'key': 'C02:fastq-iterator-model:%s' % c['shape'], 'what': 'FastqIterator differs from the Coq model fq_records',
                                'input': {'file_contents': c['texts'], 'gz': c['gz']}, 'impl': r, 'expected': mo,
                                'size': sum(len(t) for t in c['texts'])})
            small = [pr for pr in pairs if sum(len(l) for f in pr[0] for l in f) < 200][:40]
            ok, nm, log = fw.vm_crosscheck('C02', 7, small)
            self.cov['fastq_iterator']['model_compared'] = len(pairs)
            self.cov['fastq_iterator']['vm_compute_crosscheck'] = {'cases': len(small), 'mismatches': nm}
            if not ok:
                raise fw.Broken('extraction', 'vm_compute and extracted fastq-iterator model disagree: ' + log[-800:])
        self.fq_bad = sorted(bad, key=lambda w: w['size'])
        return self.fq_bad

    def correspondence(self):
        self.ensure_layouts()
        cases = self.make_cases()
        inits = self.make_init_cases()
        # probe=True twins of a sample of the single-protocol cases (metamorphic: probe only filters)
        twins = []
        for i, c in enumerate(cases):
            if self.layouts[c['sid']]['kind'] in (1, 2) and c['why'] == 'random' and i % 5 == 0:
                twins.append(i)
        fcases = self.make_file_cases()
        lookups, lk_index = [], {}
        pseudo = [{'sid': fc['sid'], 'recs': recs} for fc in fcases for recs in fc['pairs']]
        for c in cases + pseudo:
            d = self.layouts[c['sid']]
            if d['kind'] == 3:
                keys = self.comp_candidates(d, c['recs'])
            else:
                keys = [(d.get('alias'), raw) for raw in self.raw_candidates(d, c['recs'])]
            c['keys'] = keys
            for k in keys:
                if k not in lk_index:
                    lk_index[k] = len(lookups)
                    lookups.append(list(k))
        payload = {'op': 'run', 'lookups': lookups,
                   'files': [{k: v for k, v in fc.items() if k != 'sid'} for fc in fcases],
                   'cases': [{'s': c['s'], 'recs': c['recs'], 'probe': None} for c in cases] +
                            [{'s': cases[i]['s'], 'recs': cases[i]['recs'], 'probe': True} for i in twins],
                   'init': inits}
        res = fw.run_impl('impl_c02.py', payload)
        lkres = res['lookups']
        self.lk = lambda alias, raw: (lkres[lk_index[(alias, raw)]] if (alias, raw) in lk_index else None)
        impl = res['cases'][:len(cases)]
        impl_probe = res['cases'][len(cases):]
        self.cases, self.impl, self.inits, self.impl_init = cases, impl, inits, res['init']
        self.fcases, self.fres = fcases, res.get('files', [])
        # ---- measured coverage of the input distribution
        by = {}
        for c, r in zip(cases, impl):
            e = by.setdefault(c['s'], {'accept': 0, 'reject': 0, 'raise': 0, 'other': 0})
            e[r['st'] if r['st'] in e else 'other'] += 1
        branches = {}
        for c, r in zip(cases, impl):
            if self.layouts[c['sid']]['kind'] == 3 and r['st'] == 'accept' and r.get('recs') and len(r['recs']) == 2 and len(c['recs']) == 2:
                t = r['recs'][0]['tags']
                s1, s2 = c['recs'][0][0], c['recs'][1][0]
                o1, o2 = r['recs'][0]['seq'], r['recs'][1]['seq']
                b = 'dt=%s rx=%d RR=%d tu=%d bc%d r1%s r2%s' % (
                    t.get('dt'), 'rx' in t, 'RR' in t, 'tu' in t, len(t.get('bc', '')),
                    ':whole-insert' if s1.endswith(o1) and o1 else (':empty' if not o1 else ':cut'),
                    ':whole' if s2.endswith(o2) and o2 else (':empty' if not o2 else ':cut'))
                e = branches.setdefault(c['s'], {})
                e[b] = e.get(b, 0) + 1
        self.cov['composite_branches'] = branches
        nontrivial = set()
        for c, r in zip(cases, impl):
            if r['st'] == 'accept':
                nontrivial.add(fw.canon_hash([c['s'], c['recs']]))
        hist_n = {}
        hist_len = {'shorter_than_prefix': 0, 'insert_0_10': 0, 'insert_11_60': 0, 'insert_61_150': 0}
        for c in cases:
            hist_n[str(len(c['recs']))] = hist_n.get(str(len(c['recs'])), 0) + 1
            if c['recs']:
                P = self.protocols.get(c['s'])
                pre = P['insert'][0] if P and P['kind'] != 3 else 12
                L = len(c['recs'][0][0]) - pre
                hist_len['shorter_than_prefix' if L < 0 else 'insert_0_10' if L <= 10 else 'insert_11_60' if L <= 60 else 'insert_61_150'] += 1
        self.cov.update({
            'evaluations': len(cases) + len(twins) + sum(len(a['recs']) + 1 for a in inits) + sum(len(f['pairs']) for f in fcases),
            'distinct_nontrivial': len(nontrivial),
            'rule': 'every registered strategy x random read tuples (whitelisted / one-off / random barcode at the protocol\'s positions, '
                    'N bases, phred 0..51 and a few above, protocol motifs, 0-3 mates, reads shorter than the tag prefix, unequal '
                    'sequence/quality length) + all read-length pairs around the tag prefix + UmiBarcodeDemuxMethod(**random constructor '
                    'arguments). non-trivial = accepted by the implementation (the property quantifies over accepted pairs); distinct by '
                    'hash of (strategy, reads)',
            'strategies': len(self.layouts), 'cases': len(cases), 'probe_twins': len(twins), 'init_cases': len(inits),
            'per_strategy_outcomes': by, 'mates_histogram': hist_n, 'read1_length_histogram': hist_len,
            'precondition_hit_rate': round(sum(1 for r in impl if r['st'] == 'accept') / max(1, len(impl)), 4),
            'exhaustive': False,
            'exhaustive_scopes': 'read-length pairs (len R1 in 0..prefix+4) x (len R2 in a fixed set; all of 0..prefix+3 in the thorough tier) per single-protocol strategy',
            'no_coq_model': sorted(d['name'] for d in self.layouts if d['kind'] == 9),
        })
        samples, seen = [], set()
        for c, r in zip(cases, impl):
            if r['st'] == 'accept' and 'recs' in r and c['s'] not in seen and c['recs'] and len(c['recs'][0][0]) < 45 \
                    and self.layouts[c['sid']]['kind'] in ((1,), (2,), (3,))[len(samples) % 3]:
                seen.add(c['s'])
                samples.append({'strategy': c['s'], 'input': c['recs'], 'impl': r['recs']})
            if len(samples) >= 3:
                break
        if not samples:
            samples = [{'strategy': c['s'], 'input': c['recs'], 'impl': r} for c, r in list(zip(cases, impl))[:2]]
        self.cov['samples'] = samples
        dis = []
        # ---- the statement (python transcription) on every implementation output: all strategies
        for c, r in zip(cases, impl):
            w = self.statement(c, r)
            if w:
                dis.append({'strategy': c['s'], 'input': c['recs'], 'impl': r, 'statement': w})
        self.cov['statement_checked_on_impl_outputs'] = len(cases)
        # ---- file level stream
        nrec = 0
        for fc, fr in zip(self.fcases, self.fres):
            nrec += sum(len(o) for o in fr.get('out', []) if isinstance(o, list))
            w = self.check_file_case(fc, fr)
            if w:
                dis.append({'strategy': fc['s'], 'input': {k: v for k, v in fc.items() if k != 'sid'}, 'impl': fr, 'statement': 'file level: ' + w})
        self.cov['file_level'] = {
            'runs': len(self.fcases), 'loader_runs': sum(1 for f in self.fcases if f['mode'] == 'loader'),
            'demux_py_runs': sum(1 for f in self.fcases if f['mode'] == 'main'),
            'unsorted_argument_orders': sum(1 for f in self.fcases if f['mode'] == 'main' and f['order'] != sorted(f['order'])),
            'without_trailing_newline': sum(1 for f in self.fcases if not f['trailing']),
            'crlf': sum(1 for f in self.fcases if f['eol'] != '\n'), 'gz': sum(1 for f in self.fcases if f['gz']),
            'input_pairs': sum(len(f['pairs']) for f in self.fcases), 'written_records_checked': nrec}
        # ---- probe=True only filters
        for i, rp in zip(twins, impl_probe):
            if rp['st'] == 'accept' and rp != impl[i]:
                dis.append({'strategy': cases[i]['s'], 'input': cases[i]['recs'], 'impl': rp, 'statement': 'probe=True changes the accepted records'})
        if self.model_ok:
            dis += self.model_vs_impl(cases, impl, inits, res['init'])
        for w in self.fq_stream(self.model_ok):
            dis.append({'strategy': 'FastqIterator', 'input': w['input'], 'impl': w['impl'], 'statement': w['what']})
        self.cov['disagreements'] = len(dis)
        if dis:
            self.dis = dis
            raise fw.Broken('correspondence', '%d disagreements; first: %s' % (len(dis), json.dumps(dis[0], default=str)[:1500]))

    def statement(self, c, r):
        return self.statement_on(c['sid'], c['recs'], r)

    def statement_on(self, sid, recs, r):
        c = {'sid': sid, 's': self.layouts[sid]['name'], 'recs': recs}
        d = self.layouts[c['sid']]
        name = c['s']
        P = self.protocols.get(name)
        if P is None:
            return 'strategy %s is registered but has no entry in the pinned protocol table' % name if r['st'] == 'accept' else None
        if P['kind'] == 3:
            cs2inv = {v: k for k, v in self.whitelists.get('celseq2', {}).items()}
            return check_composite(name, self.protocols, c['recs'], r, self.lk) or \
                check_comp_exact(name, self.protocols, c['recs'], r, self.lk, cs2inv)
        if P['kind'] == 0:
            return check_bulk(c['recs'], r)
        return check_single(P, name, c['recs'], r, self.lk, d.get('alias'))

    def model_vs_impl(self, cases, impl, inits, impl_init):
        dis = []
        idx = [i for i, c in enumerate(cases) if self.layouts[c['sid']]['kind'] in (1, 2, 4)]
        kind = lambda i: self.layouts[cases[i]['sid']]['kind']
        minp = []
        for i in idx:
            c = cases[i]
            table = [[raw, self.lk(alias, raw) or []] for alias, raw in c['keys']]
            minp.append([c['sid'], table, c['recs']])
        mout = fw.run_model('C02', 0, minp)
        pairs = []
        for i, mi, mo in zip(idx, minp, mout):
            exp = fw.to_val(canon_impl(impl[i], cases[i]['s'], kind(i))) if impl[i]['st'] in ('accept', 'reject', 'raise') and 'fastq' not in impl[i] else ['malformed']
            pairs.append((mi, mo))
            if mo != exp:
                dis.append({'strategy': cases[i]['s'], 'input': cases[i]['recs'], 'impl': impl[i], 'model': mo,
                            'statement': self.statement(cases[i], impl[i]) or 'model and implementation differ'})
        # specification (mode 2: expected records from the PINNED protocol) on the implementation's accepted outputs
        sidx = [i for i in idx if impl[i]['st'] == 'accept' and 'recs' in impl[i]]
        sinp = []
        for i in sidx:
            c = cases[i]
            table = [[raw, self.lk(alias, raw) or []] for alias, raw in c['keys']]
            ci = canon_impl(impl[i], c['s'], kind(i))
            sinp.append([c['sid'], table, c['recs'], ci[1] if ci[0] == 0 else []])
        sout = fw.run_model('C02', 2, sinp) if sinp else []
        bad = [i for i, o in zip(sidx, sout) if o != 1]
        for i in bad[:20]:
            if not any(x['input'] == cases[i]['recs'] and x['strategy'] == cases[i]['s'] for x in dis):
                dis.append({'strategy': cases[i]['s'], 'input': cases[i]['recs'], 'impl': impl[i],
                            'statement': self.statement(cases[i], impl[i]) or 'specb (mode 2) rejects the implementation output'})
        # composite and bulk strategies: Coq model (mode 6) against the real classes
        cidx = [i for i, c in enumerate(cases) if self.layouts[c['sid']]['kind'] == 0 or
                (self.layouts[c['sid']]['kind'] == 3 and self.layouts[c['sid']].get('comp'))]
        cs2 = {v: k for k, v in self.whitelists.get('celseq2', {}).items()}
        cinp = []
        for i in cidx:
            c = cases[i]
            d = self.layouts[c['sid']]
            arms = self.comp_arms(d)
            tabs = []
            for a in arms:
                tabs.append([[raw, self.lk(alias, raw) or []] for alias, raw in c['keys'] if alias == a.get('alias')])
            while len(tabs) < 2:
                tabs.append([])
            bis = sorted(set(e[1][0] for e in tabs[0] if e[1]))
            cinp.append([c['sid'], tabs[0], tabs[1], [[b, cs2[b]] for b in bis if b in cs2], c['recs']])
        cout = fw.run_model('C02', 6, cinp) if cinp else []
        n_comp_acc = 0
        for i, mi, mo in zip(cidx, cinp, cout):
            exp = fw.to_val(canon_comp(impl[i], self.layouts[cases[i]['sid']]['kind']))
            if impl[i]['st'] == 'accept':
                n_comp_acc += 1
            if mo != exp:
                dis.append({'strategy': cases[i]['s'], 'input': cases[i]['recs'], 'impl': impl[i], 'model': mo,
                            'statement': self.statement(cases[i], impl[i]) or 'composite model and implementation differ'})
        self.cov['composite_model_vs_impl'] = {'compared': len(cidx), 'accepted': n_comp_acc}
        cpairs = [(mi, mo) for mi, mo in zip(cinp, cout) if sum(len(x[0]) for x in mi[4]) < 120]
        wf = fw.run_model('C02', 1, [[sid] for sid in range(len(self.layouts))])
        self.cov['specb_on_impl_accepts'] = {'checked': len(sidx), 'failed': len(bad)}
        self.cov['wf_registered'] = {d['name']: bool(w) for d, w in zip(self.layouts, wf) if d['kind'] in (1, 2)}
        # constructor + base demultiplex for arbitrary arguments
        def av(a):
            return [a['umiRead'], a['umiStart'], a['umiLength'], a['barcodeRead'], a['barcodeStart'], a['barcodeLength'],
                    opt(a['random_primer_read']), opt(a['random_primer_length']), a['random_primer_end']]
        m4 = fw.run_model('C02', 4, [[av(a['args'])] for a in inits])
        n_ctor_raise = 0
        m3in, m3ref = [], []
        for a, r, mo in zip(inits, impl_init, m4):
            if 'error' in r:
                n_ctor_raise += 1
                exp = [4]
            else:
                exp = [0, [[opt(s[0]), opt(s[1])] for s in r['capture']], [] if r['rp_slice'] is None else [[opt(r['rp_slice'][0]), opt(r['rp_slice'][1])]]]
            if mo != fw.to_val(exp):
                dis.append({'strategy': 'UmiBarcodeDemuxMethod.__init__', 'input': a['args'], 'impl': r, 'model': mo,
                            'statement': 'constructor model differs'})
                continue
            if 'error' in r:
                continue
            for recs, rr in zip(a['recs'], r['runs']):
                ar = a['args']
                m = ar['barcodeRead']
                table = []
                if m < len(recs):
                    raw = pyslice(recs[m][0], [ar['barcodeStart'], ar['barcodeStart'] + ar['barcodeLength']])
                    table = [[raw, [1, raw]]]
                m3in.append([av(ar), table, recs])
                m3ref.append((a, recs, rr))
        m3 = fw.run_model('C02', 3, m3in) if m3in else []
        for mi, (a, recs, rr), mo in zip(m3in, m3ref, m3):
            exp = fw.to_val(canon_impl(rr, 'ILLU'))
            if mo != exp:
                dis.append({'strategy': 'UmiBarcodeDemuxMethod(**args).demultiplex', 'input': {'args': a['args'], 'recs': recs},
                            'impl': rr, 'model': mo, 'statement': 'base-class model differs'})
        self.cov['init'] = {'constructor_cases': len(inits), 'constructor_raises': n_ctor_raise, 'demultiplex_runs': len(m3in),
                            'accepted': sum(1 for _, _, rr in m3ref if rr['st'] == 'accept')}
        self.cov['traces_validated_against_impl'] = len(idx) + len(cidx) + len(inits) + len(m3in)
        # vm_compute cross-check of the extracted binary
        small = [k for k, (mi, mo) in enumerate(pairs) if sum(len(x[0]) for x in mi[2]) < 120]
        pick = sorted(self.rng.sample(small, min(100, len(small))))
        ok, nm, log = fw.vm_crosscheck('C02', 0, [pairs[k] for k in pick])
        if not ok:
            raise fw.Broken('extraction', 'vm_compute and extracted model disagree: ' + log[-800:])
        cpick = sorted(self.rng.sample(range(len(cpairs)), min(60, len(cpairs))))
        ok2, nm2, log2 = fw.vm_crosscheck('C02', 6, [cpairs[k] for k in cpick]) if cpick else (True, 0, '')
        self.cov['vm_compute_crosscheck'] = {'cases': len(pick) + len(cpick), 'mismatches': nm + nm2}
        if not ok2:
            raise fw.Broken('extraction', 'vm_compute and extracted composite model disagree: ' + log2[-800:])
        return dis

    # ------------------------------------------------------------------ search (needs no model)
    def search(self):
        """the statement (python transcription, against the PINNED protocol table) evaluated on the
        implementation's outputs over the same streams; smallest failing input per strategy"""
        try:
            self.ensure_layouts()
        except fw.Broken as b:
            self.notes.append('search: ' + b.detail)
            return
        if not hasattr(self, 'impl'):
            cases = self.make_cases()
            self.fcases = self.make_file_cases()
            lookups, lk_index = [], {}
            for c in cases + [{'sid': fc['sid'], 'recs': recs} for fc in self.fcases for recs in fc['pairs']]:
                d = self.layouts[c['sid']]
                keys = self.comp_candidates(d, c['recs']) if d['kind'] == 3 else \
                    [(d.get('alias'), raw) for raw in self.raw_candidates(d, c['recs'])]
                c['keys'] = keys
                for k in keys:
                    if k not in lk_index:
                        lk_index[k] = len(lookups)
                        lookups.append(list(k))
            res = fw.run_impl('impl_c02.py', {'op': 'run', 'lookups': lookups,
                                              'files': [{k: v for k, v in fc.items() if k != 'sid'} for fc in self.fcases],
                                              'cases': [{'s': c['s'], 'recs': c['recs'], 'probe': None} for c in cases]})
            self.fres = res.get('files', [])
            lkres = res['lookups']
            self.lk = lambda alias, raw: (lkres[lk_index[(alias, raw)]] if (alias, raw) in lk_index else None)
            self.cases, self.impl = cases, res['cases']
        best = {}
        for c, r in zip(self.cases, self.impl):
            w = self.statement(c, r)
            if not w:
                continue
            cat_ = re.sub(r'record \d+: ', '', w)
            cat_ = re.sub(r'[^A-Za-z ]', ' ', cat_).split()[:3]
            key = 'C02:%s:%s' % (c['s'], '-'.join(cat_))
            size = sum(len(x[0]) for x in c['recs'])
            if len(c['recs']) != 2 or any(len(x[0]) < 40 or len(x[0]) != len(x[1]) for x in c['recs']):
                size += 100000      # prefer an ordinary read pair as the reported input
            if key not in best or size < best[key][0]:
                exp = None
                P = self.protocols.get(c['s'])
                if P and P['kind'] in (1, 2, 4):
                    exp, _ = expected_py(P, P['kind'] == 2, c['recs'], self.lk, self.layouts[c['sid']].get('alias'))
                best[key] = (size, {'key': key, 'what': '%s.demultiplex: %s' % (c['s'], w),
                                    'input': {'strategy': c['s'], 'reads': c['recs']}, 'impl': r, 'expected': exp})
        # one witness per strategy (the smallest), at most 5 strategies
        per = {}
        for key, (size, w) in sorted(best.items(), key=lambda kv: kv[1][0]):
            per.setdefault(w['input']['strategy'], w)
        self.witnesses += list(per.values())[:5]
        # file level stream: smallest failing run per entry point
        fbest = {}
        for fc, fr in zip(getattr(self, 'fcases', []), getattr(self, 'fres', [])):
            w = self.check_file_case(fc, fr)
            if not w:
                continue
            cat_ = re.sub(r'[^A-Za-z ]', ' ', re.sub(r'input pair \d+ as written: ', '', re.sub(r'record \d+: ', '', w))).split()[:3]
            key = 'C02:file-%s:%s' % (fc['mode'], '-'.join(cat_))
            size = sum(len(x[0]) for recs in fc['pairs'] for x in recs)
            if key not in fbest or size < fbest[key][0]:
                how = ('DemultiplexingStrategyLoader.demultiplex on fastq files' if fc['mode'] == 'loader' else
                       'demux.py ' + ' '.join(fr.get('argv_order', [])) + ' -use %s --y' % fc['s'])
                fbest[key] = (size, {'key': key, 'what': '%s (%s, %s line ends, %s trailing newline): %s' % (
                    how, 'gz' if fc['gz'] else 'plain', 'CRLF' if fc['eol'] != '\n' else 'LF', 'with' if fc['trailing'] else 'WITHOUT', w),
                    'input': {k: v for k, v in fc.items() if k != 'sid'}, 'impl': fr})
        self.witnesses += [w for _, w in sorted(fbest.values(), key=lambda x: x[0])][:3]
        try:
            fqb = self.fq_bad if hasattr(self, 'fq_bad') else self.fq_stream(False)
        except BaseException as e:
            fqb = []
            self.notes.append('search: fastq iterator stream failed: %s' % e)
        seenk = set()
        for w in fqb:
            if w['key'] not in seenk and len(seenk) < 2:
                seenk.add(w['key'])
                self.witnesses.append({k: v for k, v in w.items() if k != 'size'})
        # table level: positions observed by tracing differ from the pinned table
        for d in self.layouts:
            P = self.protocols.get(d['name'])
            if d['name'] in per:
                continue
            if P is None:
                self.witnesses.append({'key': 'C02:%s:unpinned' % d['name'],
                                       'what': 'strategy %s (%s) is registered but has no entry in the pinned protocol table '
                                               'coq/Model/C02Protocols.v' % (d['name'], d['cls']), 'input': d})
                continue
            t = d.get('traced')
            if t and P['kind'] in (1, 2, 4):
                mine = {k: P[k] for k in ('bc', 'umi', 'primer', 'lig', 'insert', 'min', 'max')}
                if t != mine:
                    self.witnesses.append({
                        'key': 'C02:%s:layout' % d['name'],
                        'what': '%s: demultiplexing a pair of reads made of distinct characters (accept-all whitelist) takes '
                                'tags / insert from %r, the pinned protocol says %r' % (d['name'], t, mine),
                        'input': {'strategy': d['name'], 'reads': 'read m = chr(0x4E00 + 0x1200*m + i), i < 120; qualities I'},
                        'impl': t, 'expected': mine})

    def replay_known(self, finding):
        return False

    def matches(self, finding, witness):
        return finding.get('key') == witness.get('key')
