"""C08 - parallel tagging (contig-per-process / region tiled) is equivalent to one serial pass;
every molecule is written by exactly one job: the one whose bin contains its cut site.

T : the region gate of tagging.run_tagging_task (site lookup loop, the ordered list of
    `continue` / `break` guards) is regenerated into coq/Gen/GenOwner.v on every run.
K : synthetic scmo-style NLA libraries through (a) the serial command, (b) the region-tiling API
    tag_multiome_multi_processing(one_contig_per_process=False, ...), (c) --multiprocess; the job
    lists and the reads written by every task are captured from the real run and compared with the
    model; outputs are compared as canonical multisets.
"""
import ast, hashlib, json, os, itertools
import fw, py2coq
from py2coq import Untranslatable

TAGGING = 'singlecellmultiomics/universalBamTagger/tagging.py'
BINNING = 'singlecellmultiomics/utils/binning.py'

GEN_HEADER = '''
(* outcome of the region gate for one emitted molecule *)
Inductive action : Type := AWrite | ASkip | AStop.
'''

SITE_LOOP_EXPECT = ("for fragment in molecule:\n"
                    "    r = fragment.get_site_location()\n"
                    "    if r is not None:\n"
                    "        cut_site_contig, cut_site_pos = r\n"
                    "        break")
SITE_INIT_EXPECT = 'cut_site_contig, cut_site_pos = (None, None)'
ENV = {'cut_site_contig': 'cut_site_contig', 'cut_site_pos': 'cut_site_pos', 'contig': 'contig',
       'start': 'start', 'end': 'end_', 'fetch_start': 'fetch_start', 'fetch_end': 'fetch_end'}


def _molecule_loop(fn):
    loops = [n for n in ast.walk(fn) if isinstance(n, ast.For) and isinstance(n.target, ast.Tuple)
             and [getattr(e, 'id', None) for e in n.target.elts] == ['i', 'molecule']]
    if len(loops) != 1:
        raise Untranslatable('run_tagging_task: expected exactly one `for i, molecule in enumerate(...)`, found %d' % len(loops))
    return loops[0]


def regen_owner():
    """translate the region gate of run_tagging_task into Gen/GenOwner.v (fail closed)"""
    path = os.path.join(fw.REPO, TAGGING)
    src = open(path).read()
    tree = ast.parse(src)
    fn = py2coq.find_function(tree, 'run_tagging_task')
    loop = _molecule_loop(fn)
    # the iterator is built on the fetch window
    it = ast.unparse(loop.iter)
    for need in ('contig=contig', 'start=fetch_start', 'end=fetch_end'):
        if need not in it:
            raise Untranslatable('run_tagging_task: molecule iterator is not built with %s' % need)
    body = list(loop.body)
    if not body or not isinstance(body[0], ast.If):
        raise Untranslatable('run_tagging_task: molecule loop does not start with the region gate')
    gate = body[0]
    if ast.unparse(gate.test) != 'fetch_start is not None' or gate.orelse or len(gate.body) != 1 \
            or not isinstance(gate.body[0], ast.If) or ast.unparse(gate.body[0].test) != 'fetching' or gate.body[0].orelse:
        raise Untranslatable('run_tagging_task: region gate is not `if fetch_start is not None: if fetching:`')
    # nothing may be written before the gate, and the write must follow it unconditionally
    rest = [ast.unparse(s) for s in body[1:]]
    if not any('molecule.write_pysam(output' in s for s in rest):
        raise Untranslatable('run_tagging_task: no molecule.write_pysam(output) after the gate')
    for s in body[1:]:
        for n in ast.walk(s):
            if isinstance(n, (ast.Continue, ast.Break)):
                raise Untranslatable('run_tagging_task: continue/break after the region gate (line %d)' % n.lineno)
    inner = list(gate.body[0].body)
    if len(inner) < 2 or ast.unparse(inner[0]) != SITE_INIT_EXPECT:
        raise Untranslatable('run_tagging_task: site initialisation changed: %s' % ast.unparse(inner[0])[:80])
    if ast.unparse(inner[1]) != SITE_LOOP_EXPECT:
        raise Untranslatable('run_tagging_task: site lookup loop changed:\n%s' % ast.unparse(inner[1]))
    guards = []
    for st in inner[2:]:
        if not isinstance(st, ast.If) or st.orelse or len(st.body) != 1 or not isinstance(st.body[0], (ast.Continue, ast.Break)):
            raise Untranslatable('run_tagging_task: statement in the region gate is not `if ...: continue|break` (line %d): %s'
                                 % (st.lineno, ast.unparse(st)[:100]))
        guards.append((st.test, 'ASkip' if isinstance(st.body[0], ast.Continue) else 'AStop'))
    if not guards or ast.unparse(guards[0][0]) != 'cut_site_contig is None':
        raise Untranslatable('run_tagging_task: the first guard must be `if cut_site_contig is None` '
                             '(a molecule without a site would reach integer comparisons with None)')
    none_action = guards[0][1]
    tr = py2coq.ExprTranslator(env=ENV)
    expr = 'AWrite'
    for test, act in reversed(guards[1:]):
        expr = 'if %s then %s else %s' % (tr.b(test), act, expr)
    seg = '\n'.join(src.splitlines()[gate.lineno - 1:gate.end_lineno])
    sha = hashlib.sha256(seg.encode()).hexdigest()
    text = ('(* source: %s lines %d-%d sha256 %s\n   guards in source order: %s *)\n'
            'Definition region_action (site : option (Z * Z)) (contig start end_ fetch_start fetch_end : Z) : action :=\n'
            '  match site with\n  | None => %s\n  | Some (cut_site_contig, cut_site_pos) =>\n      %s\n  end.'
            % (TAGGING, gate.lineno, gate.end_lineno, sha,
               ' ; '.join('%s -> %s' % (ast.unparse(t).replace('*)', '* )'), a) for t, a in guards), none_action, expr))
    meta = {'source': TAGGING, 'lines': [gate.lineno, gate.end_lineno], 'sha256': sha, 'coq': 'region_action',
            'guards': [[ast.unparse(t), a] for t, a in guards]}
    py2coq.write_gen(os.path.join(fw.COQ, 'Gen', 'GenOwner.v'), GEN_HEADER, [text])
    return [meta]


# ====================================================================== ground truth of a library
UMIS_FAR = ['AAA', 'CCA', 'GGC', 'TTG', 'ACT', 'CAG']       # pairwise hamming distance >= 2
UMIS_NEAR = ['AAA', 'AAC', 'ACC', 'CCC']                     # chains at distance 1 (greedy assignment matters)


def contig_id(lib, name):
    return -1 if name is None or name == '*' else [c for c, _ in lib['contigs']].index(name)


def truth_fragments(lib):
    """what MatePairIterator + NlaIIIFragment make of the library: list of dicts
    {id, key, contig (id, -1 = unmapped), site (int|None), reads [[rid, lo, hi], ...], arrival}
    (ground truth computed from the generator's parameters, independent of the implementation)"""
    out, keys = [], {}

    def key_of(t):
        return keys.setdefault(t, len(keys) + 1)
    for i, f in enumerate(lib['frags']):
        r2 = f.get('r2')
        if f['contig'] is None:
            reads = [[2 * i, 0, 1]] + ([[2 * i + 1, 0, 1]] if r2 else [])
            out.append({'id': 2 * i, 'key': -(2 * i) - 1000000, 'contig': -1, 'site': None, 'reads': reads, 'arrival': (-1, 0, i)})
            continue
        c = contig_id(lib, f['contig'])
        if f.get('placed'):
            # unmapped record placed on a contig: rejected ('unmapped R1'), anchored at its coordinate; htslib treats it as 1 bp
            out.append({'id': 2 * i, 'key': -(2 * i) - 1000000, 'contig': c, 'site': f['start'],
                        'reads': [[2 * i, f['start'], f['start'] + 1]],
                        'arrival': (c, f['start'] if f['placed'] == 'single' else 10 ** 12, i)})
            continue
        site = f['start'] + f['len'] - 4 if f['rev'] else f['start']
        k = key_of((c, site, f['rev'], f['sample'])) if f['catg'] else -(2 * i) - 1000000
        r1 = [2 * i, f['start'], f['start'] + f['len']]
        if r2 is None:
            out.append({'id': 2 * i, 'key': k, 'contig': c, 'site': site, 'reads': [r1], 'arrival': (c, f['start'], i)})
        elif r2.get('unmapped'):
            out.append({'id': 2 * i, 'key': k, 'contig': c, 'site': site, 'reads': [r1], 'arrival': (c, f['start'], i)})
            out.append({'id': 2 * i + 1, 'key': -(2 * i + 1) - 1000000, 'contig': c, 'site': f['start'],
                        'reads': [[2 * i + 1, f['start'], f['start'] + 1]], 'arrival': (c, 10 ** 12, i)})
        elif r2.get('contig', f['contig']) != f['contig']:
            c2 = contig_id(lib, r2['contig'])
            out.append({'id': 2 * i, 'key': k, 'contig': c, 'site': site, 'reads': [r1], 'arrival': (c, f['start'], i)})
            out.append({'id': 2 * i + 1, 'key': -(2 * i + 1) - 1000000, 'contig': c2, 'site': r2['start'],
                        'reads': [[2 * i + 1, r2['start'], r2['start'] + r2['len']]], 'arrival': (c2, r2['start'], i)})
        else:
            out.append({'id': 2 * i, 'key': k, 'contig': c, 'site': site,
                        'reads': [r1, [2 * i + 1, r2['start'], r2['start'] + r2['len']]],
                        'arrival': (c, max(f['start'], r2['start']), i)})
    out.sort(key=lambda x: x['arrival'])
    return out


def enc_frag(f):
    return [f['id'], f['key'], f['contig'], [] if f['site'] is None else [f['site']], f['reads']]


def norm_task(lib, t):
    """(contig, start, end, fetch_start, fetch_end) as captured -> model task [c, region, s, e, fs, fe]"""
    c, s, e, fs, fe = t
    cid = contig_id(lib, c) if isinstance(c, str) or c is None else c
    if s is None and e is None and fs is None and fe is None:
        return [cid, 0, 0, 0, 0, 0]
    if fs is None and fe is None:
        fs, fe = s, e
    return [cid, 1, s, e, fs, fe]


def plans_of(lib, jobs):
    """group the captured tasks by contig, in order of first appearance: [[cid, len, [task...]], ...]"""
    lens = {contig_id(lib, c): l for c, l in lib['contigs']}
    lens[-1] = 0
    order, by = [], {}
    for job in jobs:
        for t in job:
            nt = norm_task(lib, t)
            if nt[0] not in by:
                by[nt[0]] = []
                order.append(nt[0])
            by[nt[0]].append(nt)
    return [[c, lens[c], by[c]] for c in order]


# ---- python transcription of the theorem's hypotheses and conclusion (used by search; cross-checked with the model)
def py_chain(c, lo, hi, ts):
    for t in ts:
        if not (t[1] == 1 and t[0] == c and t[2] == lo and lo < t[3]):
            return False
        lo = t[3]
    return lo == hi


def py_margin_ok(L, ln, t):
    return (t[4] <= t[2] - L or t[4] <= 0) and (t[3] + L <= t[5] or ln <= t[5]) and 0 <= t[4]


def py_plan_ok(L, p):
    c, ln, ts = p
    if len(ts) == 1 and ts[0][1] == 0:
        return ts[0][0] == c
    return py_chain(c, 0, ln, ts) and all(py_margin_ok(L, ln, t) for t in ts)


def py_plans_ok(L, ps):
    cs = [p[0] for p in ps]
    return all(py_plan_ok(L, p) for p in ps) and len(set(cs)) == len(cs)


def py_frag_ok(L, ln, f):
    rs = f['reads']
    if not all(0 <= lo < hi <= ln for _, lo, hi in rs):
        return False
    if not all(hi - lo2 <= L for _, _, hi in rs for _, lo2, _ in rs):
        return False
    s = f['site']
    return s is None or all(s + 1 - lo <= L and hi - s <= L for _, lo, hi in rs)


def py_frags_ok(L, ps, fs):
    return all(f['contig'] != p[0] or not any(t[1] for t in p[2]) or py_frag_ok(L, p[1], f) for f in fs for p in ps)


def py_n_accept(ps, f):
    n = 0
    for p in ps:
        for t in p[2]:
            if t[1]:
                n += int(f['site'] is not None and f['contig'] == t[0] and t[2] <= f['site'] < t[3])
            else:
                n += int(f['contig'] == t[0])
    return n


def jhash(v):
    return hashlib.sha256(json.dumps(v, sort_keys=True, default=str).encode()).hexdigest()[:16]


# ====================================================================== generators
def bin_bounds(clen, B):
    """bin boundaries blacklisted_binning produces for a contig without blacklist (only used to bias the generator)"""
    total = max(1, -(-clen // B))
    local = max(1, clen // total)
    return sorted(set(list(range(0, clen, local)) + [clen]))


def gen_fragment(rng, lib, cname, clen, B, L, near_umis, big=False):
    """one fragment with extent <= L (unless big), biased to bin / fetch-window boundaries"""
    umis = UMIS_NEAR if near_umis else UMIS_FAR
    b = rng.choice(bin_bounds(clen, B))
    site = rng.choice([b - 1, b, b + 1, b - L, b - L + 1, b + L - 1, b + L, b - 4, b + 3, rng.randint(0, clen - 1),
                       b - rng.randint(0, L), b + rng.randint(0, L)])
    ext = L if not big else 3 * L
    rlen = rng.randint(20, max(20, min(ext, 60)))
    rev = rng.random() < 0.5
    kind = rng.choice(['single', 'pair', 'pair', 'pair', 'invalid', 'matepl', 'cross'])
    f = {'contig': cname, 'rev': rev, 'catg': kind != 'invalid', 'sample': rng.randint(0, 2), 'umi': rng.choice(umis),
         'len': rlen, 'r2': None, 'dup': rng.random() < 0.1}
    f['start'] = site - rlen + 4 if rev else site
    if kind == 'pair':
        l2 = rng.randint(20, max(20, min(ext, 40)))
        if rev:   # R2 upstream, whole fragment inside [end - ext, end]
            end = f['start'] + rlen
            s2 = rng.randint(end - ext, max(end - ext, end - l2))
            if big:
                s2 = end - ext
        else:     # R2 downstream, inside [start, start + ext]
            s2 = rng.randint(f['start'], max(f['start'], f['start'] + ext - l2))
            if big:
                s2 = f['start'] + ext - l2
        f['r2'] = {'start': s2, 'len': l2}
    elif kind == 'matepl':
        f['r2'] = {'unmapped': True}
    elif kind == 'cross':
        others = [(c, l) for c, l in lib['contigs'] if c != cname]
        if others:
            c2, l2len = rng.choice(others)
            f['r2'] = {'contig': c2, 'start': rng.randint(0, l2len - 40), 'len': rng.randint(20, 40)}
    # keep every read inside the contig
    lo = min([f['start']] + ([f['r2']['start']] if f['r2'] and 'start' in f['r2'] and f['r2'].get('contig', cname) == cname else []))
    hi = max([f['start'] + rlen] + ([f['r2']['start'] + f['r2']['len']] if f['r2'] and 'start' in f['r2'] and f['r2'].get('contig', cname) == cname else []))
    if lo < 0 or hi > clen:
        return None
    return f


def gen_library(rng, B, L, contigs, n, unmapped, near_umis=False, big_frac=0.0):
    lib = {'contigs': [list(c) for c in contigs], 'frags': []}
    tries = 0
    while len(lib['frags']) < n and tries < 20 * n:
        tries += 1
        cname, clen = rng.choice(contigs)
        f = gen_fragment(rng, lib, cname, clen, B, L, near_umis, big=rng.random() < big_frac)
        if f is None:
            continue
        lib['frags'].append(f)
        if rng.random() < 0.3:     # a duplicate / sibling of the same molecule
            g = dict(f)
            g['r2'] = None if f['r2'] is None else dict(f['r2'])
            g['umi'] = f['umi'] if rng.random() < 0.7 else rng.choice(UMIS_NEAR if near_umis else UMIS_FAR)
            if g['r2'] and 'start' in g['r2'] and 'contig' not in g['r2'] and rng.random() < 0.5:
                d = rng.choice([-3, 2, 5])
                ns = g['r2']['start'] + d
                ext_ok = (ns >= f['start'] and ns + g['r2']['len'] <= f['start'] + L) if not f['rev'] else \
                         (ns >= f['start'] + f['len'] - L and ns + g['r2']['len'] <= f['start'] + f['len'])
                if ext_ok and 0 <= ns and ns + g['r2']['len'] <= clen:
                    g['r2']['start'] = ns
            lib['frags'].append(g)
    for _ in range(unmapped):
        lib['frags'].append({'contig': None, 'start': 0, 'len': 0, 'rev': False, 'catg': True, 'sample': rng.randint(0, 2),
                             'umi': rng.choice(UMIS_FAR), 'r2': rng.random() < 0.5, 'dup': False})
    return lib


class Prop(fw.PropBase):
    ID = 'C08'
    PROPS = 'Props/C08.v'
    TRUSTED = [
        'modelled not verified: pysam/htslib fetch(contig, start, end) returns exactly the records overlapping the window '
        '(an unmapped placed mate counts as one base); pysam.merge / sort / index; multiprocessing.Pool (completion orders '
        'are modelled as permutations of the job list and sampled with use_pool, n_threads 1..4)',
        'modelled not verified: MoleculeIterator assigns molecules per match_hash group by a function of the fragments of that '
        'group in arrival order (Section variable g: any function); the hash determines contig and site (NlaIIIFragment, '
        'CHICFragment with assignment radius 0); molecule-level tags are a function of the molecule (Section variable tagf); '
        'a fragment that lost a mate at a window edge has no site, the site of the whole fragment, or the start of one of its '
        'reads (hypothesis partial_site; holds for the anchor fallback of get_site_location)',
        'T: the region gate of run_tagging_task is translated by tools/c08.regen_owner (guards in source order, site lookup loop '
        'and gate condition compared structurally, fail closed); the rest of run_tagging_task (argument normalisation, writing) '
        'is exercised by K on scripted molecules only',
        'ground truth of the simulated libraries (cut site, hash group, arrival order) is computed by the harness from the '
        'generator parameters (NLA, no soft clips, default options)',
    ]
    ASSUMPTIONS = [
        'fetch margins of at least L on each side of every bin or a window clipped at a contig end, 0 <= fetch_start '
        '(precondition margin_ok; blacklisted_binning is C17\'s subject: inputs on which its output violates this are counted, '
        'reported and not enforced in the "exposed" stream)',
        'fragment extent (all reads and the site coordinate) at most L (frag_ok)',
        'contig-per-process: the job list names every contig with reads exactly once (C05\'s subject; a job list that does not is '
        'reported as a violation on main-stream inputs)',
        'region mode writes only molecules with a site inside [0, len) of a tiled contig (covered_mol); molecules without any '
        'site are not written by region tasks (C08_siteless_region; finding D11)',
    ]

    def regen(self):
        return regen_owner()

    # ------------------------------------------------------------------ generators
    def loop_cases(self):
        quick = self.tier == 'quick'
        rng = self.rng
        t = [0, 10, 20, 5, 25]
        P = [4, 5, 9, 10, 11, 19, 20, 21, 24, 25, 26]
        opts = [None] + [[c, p] for c in (0, 1) for p in P]
        cases = []
        for a in opts:
            cases.append({'task': t, 'mols': [[a]]})
        for a in opts:
            for b in opts:
                cases.append({'task': t, 'mols': [[a], [b]]})
        small = [None, [0, 9], [0, 10], [0, 19], [0, 20], [0, 24], [0, 25], [1, 15]]
        if not quick:
            for a in small:
                for b in small:
                    for c in small:
                        cases.append({'task': t, 'mols': [[a], [b], [c]]})
        # random: several tasks, longer emission lists, multi-fragment molecules, whole-contig tasks, fetch window defaulted
        for _ in range(400 if quick else 4000):
            s = rng.randint(0, 30); e = s + rng.randint(1, 30)
            fs = s - rng.choice([0, 0, 3, 10]); fe = e + rng.choice([0, 0, 3, 10])
            kind = rng.random()
            if kind < 0.15:
                task = [rng.randint(0, 1), None, None, None, None]
            elif kind < 0.25:
                task = [rng.randint(0, 1), s, e, None, None]
            else:
                task = [rng.randint(0, 1), s, e, fs, fe]
            pts = [s - 1, s, s + 1, e - 1, e, e + 1, fs - 1, fs, fe - 1, fe, fe + 1, rng.randint(-5, 80)]
            mols = []
            for _ in range(rng.randint(0, 6)):
                m = []
                for _ in range(rng.randint(1, 3)):
                    m.append(None if rng.random() < 0.25 else [rng.randint(0, 1), rng.choice(pts)])
                mols.append(m)
            cases.append({'task': task, 'mols': mols})
        return cases

    def loop_model_input(self, c):
        t = norm_task(None, c['task'])
        mols = [[[i, 0, (0 if s is None else s[0]), ([] if s is None else [s[1]]), []] for s in m] for i, m in enumerate(c['mols'])]
        return [t, mols]

    def gen_cases(self):
        """(contig lengths, bin size, fragment size, bp_per_job) for the region generator, boundary biased:
        len < bin, len = k*bin, len = k*bin +- 1, margin 0 / < bin / = bin / > bin / > len, one or several contigs"""
        import random as _random
        rng = _random.Random(self.seed * 7919 + 8)
        out = []
        def one_len(bs):
            k = rng.randint(1, 6)
            return rng.choice([1, 2, max(1, bs - 1), bs, bs + 1, k * bs, k * bs + 1, max(1, k * bs - 1), rng.randint(1, 8 * bs), rng.randint(1, max(1, bs // 2))])
        for i in range(400 if self.tier == 'quick' else 6000):
            bs = rng.choice([1, 2, 3, 7, 10, 100, 1000, rng.randint(1, 50)])
            n = rng.choice([1, 1, 2, 3])
            contigs = [['g%d' % j, one_len(bs)] for j in range(n)]
            f = rng.choice([0, 1, max(0, bs - 1), bs, bs + 1, 3 * bs, 100 * bs + 5, rng.randint(0, 2 * bs)])
            out.append({'contigs': contigs, 'bs': bs, 'f': f, 'bp': rng.choice([1, bs, 2 * bs, 5 * bs + 1, 10 ** 6])})
        return out

    @staticmethod
    def gen_class(c):
        ln, bs, f = c['contigs'][0][1], c['bs'], c['f']
        return ('len<bin' if ln < bs else 'len=k*bin' if ln % bs == 0 else 'len=k*bin+1' if ln % bs == 1 else 'len=k*bin-1' if ln % bs == bs - 1 else 'other',
                'f=0' if f == 0 else 'f<bin' if f < bs else 'f=bin' if f == bs else 'f>len' if f > ln else 'f>bin')

    @staticmethod
    def eval_gen(c, r):
        """the tiling predicate of C08_equiv (python transcription: py_plans_ok with L = fragment size) and the window shape of
        C08_gen_shape on the implementation's output; returns (plans, problems)"""
        if r.get('error'):
            return None, ['the generator raised ' + r['error']]
        ids = {n: i for i, (n, _) in enumerate(c['contigs'])}
        by = {i: [] for i in ids.values()}
        problems = []
        for t in r['regions']:
            if len(t) != 5 or t[0] not in ids:
                problems.append('unexpected region tuple %r' % (t,))
                continue
            by[ids[t[0]]].append([ids[t[0]], 1, t[1], t[2], t[3], t[4]])
        plans = [[ids[n], l, by[ids[n]]] for n, l in c['contigs']]
        for p in plans:
            if not py_plan_ok(c['f'], p) and not problems:
                problems.append('the regions of contig %r (length %d) do not tile it with fetch margins >= %d or clipped at the contig ends: %r'
                                % (c['contigs'][p[0]][0], p[1], c['f'], [t[2:] for t in p[2]]))
        flat = [t for job in r['jobs'] for t in job]
        if flat != r['regions'] and not problems:
            problems.append('bp_chunked lost, duplicated or reordered a region')
        return plans, problems

    def chunk_cases(self):
        rng = self.rng
        out = []
        for _ in range(150 if self.tier == 'quick' else 1500):
            ts, pos = [], 0
            for _ in range(rng.randint(0, 8)):
                w = rng.choice([0, 1, 5, 10, 10, 10, 37])
                ts.append([0, pos, pos + w, max(0, pos - 3), pos + w + 3])
                pos += w
            if rng.random() < 0.1 and ts:
                ts[0][1], ts[0][2] = ts[0][2], ts[0][1]     # |end - start| is used
            out.append({'tasks': ts, 'bp': rng.choice([1, 10, 20, 25, 50, 1000, 0])})
        return out

    def lib_cases(self):
        """main: D8-safe contig layouts, any contig length (also with a remainder bin), margins from exactly one fragment
        length up to more than the bin; exposed: outside the property / open defect of another property (reported,
        enforced only where the model's precondition holds).  Blacklists cannot be passed end to end:
        tag_multiome_multi_processing raises NotImplementedError for blacklist_path (the blacklist-aware tiling is C17)."""
        rng = self.rng
        quick = self.tier == 'quick'
        cases = []
        n_main = 14 if quick else 90
        for k in range(n_main):
            B = rng.choice([500, 1000, 2000])
            L = rng.choice([50, 100, 200, B // 2])
            ncont = rng.randint(2, 3)
            # contig lengths: multiples of the bin size and lengths with a remainder bin
            contigs = [['chr%d' % (i + 1), B * rng.randint(1, 4) + (rng.randint(1, B - 1) if rng.random() < 0.4 else 0)] for i in range(ncont)]
            unm = rng.choice([0, 0, 2, 3])
            lib = gen_library(rng, B, L, contigs, rng.randint(8, 26), unm, near_umis=rng.random() < 0.3)
            runs = []
            for _ in range(2 if quick else 3):
                # margins: exactly L, a bit more, twice L, or larger than the bin itself
                runs.append({'mode': 'tiled', 'bp_per_segment': B, 'fragment_size': rng.choice([L, L, L + 17, 2 * L, B + 100]),
                             'bp_per_job': rng.choice([1, B, 2 * B, 3 * B + 1, 10 ** 6]), 'use_pool': False, 'n_threads': 1})
            runs.append({'mode': 'tiled', 'bp_per_segment': B, 'fragment_size': L, 'bp_per_job': rng.choice([B, 2 * B]),
                         'use_pool': True, 'n_threads': rng.randint(1, 4)})
            # contig-per-process (--multiprocess), with or without unmapped reads
            runs.append({'mode': 'cpp', 'n_threads': rng.randint(1, 4)})
            cases.append({'stream': 'main', 'lib': lib, 'runs': runs, 'B': B})
        # large contigs: contig-per-process with unmapped reads is D8-safe (every large contig is its own job)
        for k in range(3 if quick else 12):
            B = 50000
            L = rng.choice([100, 500])
            contigs = [['chr%d' % (i + 1), B * rng.randint(2, 3)] for i in range(rng.randint(1, 3))]
            lib = gen_library(rng, B, L, contigs, rng.randint(8, 20), rng.choice([0, 2, 3]))
            runs = [{'mode': 'cpp', 'n_threads': rng.randint(1, 4)},
                    {'mode': 'tiled', 'bp_per_segment': B, 'fragment_size': L, 'bp_per_job': rng.choice([B, 3 * B]),
                     'use_pool': rng.random() < 0.5, 'n_threads': 2}]
            cases.append({'stream': 'main', 'lib': lib, 'runs': runs, 'B': B})
        # contig-per-process: small (< 100 kb) and large (>= 100 kb header length) contigs mixed in every order; the job
        # list code groups small contigs and gives each large contig its own job, so the order matters (seed C08-3).
        # Reads of a large contig sit near its start; every contig holds reads.
        layouts = ['ssL', 'Ls', 'sLs', 'sL', 'Lss', 'LsL', 'ssLs', 'sLL']
        for k in range(len(layouts) if quick else 4 * len(layouts)):
            lay = layouts[k % len(layouts)]
            B = rng.choice([500, 1000])
            L = rng.choice([100, 200])
            place = [['chr%d' % (i + 1), B * rng.randint(2, 4)] for i in range(len(lay))]
            for _ in range(20):
                lib = gen_library(rng, B, L, place, rng.randint(10, 20), rng.choice([0, 2, 3]))
                used = set(f['contig'] for f in lib['frags'] if f['contig'])
                if len(used) == len(lay):
                    break
            lib['contigs'] = [[c, (l if ch == 's' else 100000 + rng.randint(0, 5000))] for (c, l), ch in zip(place, lay)]
            runs = [{'mode': 'cpp', 'n_threads': rng.randint(1, 4)},
                    {'mode': 'tiled', 'bp_per_segment': 50000, 'fragment_size': L, 'bp_per_job': rng.choice([50000, 10 ** 6]),
                     'use_pool': False, 'n_threads': 1}]
            cases.append({'stream': 'main', 'lib': lib, 'runs': runs, 'B': 50000, 'layout': lay})
        # fragments longer than the margin (outside the property: reported, enforced only where the precondition of
        # C08_equiv holds) and the contig layouts that used to hit defect D8 of the contig-per-process job list
        for k in range(4 if quick else 20):
            B = rng.choice([500, 1000])
            L = rng.choice([100, 200])
            kind = ['longfrag', 'd8'][k % 2]
            if kind == 'longfrag':
                contigs = [['chr1', B * 3], ['chr2', B * 2 + 77]]
                lib = gen_library(rng, B, L, contigs, 16, 0, big_frac=0.5)
                runs = [{'mode': 'tiled', 'bp_per_segment': B, 'fragment_size': L, 'bp_per_job': B, 'use_pool': False, 'n_threads': 1}]
            else:                        # D8: small contigs plus unmapped reads / a lone small contig
                contigs = [['chr1', B * 2]] if rng.random() < 0.5 else [['chr1', B * 2], ['chr2', B * 2]]
                lib = gen_library(rng, B, L, contigs, 12, 2)
                runs = [{'mode': 'cpp', 'n_threads': 2}]
            # the contig-per-process job list (D8, C05) is repaired in /repo: small contigs, a lone small contig and
            # unmapped reads are part of the main stream; only fragments longer than the margin stay outside the property
            cases.append({'stream': 'main' if kind == 'd8' else 'exposed:' + kind, 'lib': lib, 'runs': runs, 'B': B})
        # contigs whose only records are unmapped reads placed on them (idxstats: 0 mapped, n unmapped): they must get bins
        # in region mode and a job in contig-per-process mode (seed C08-8); added to about half of the libraries, small and large
        for c in cases:
            if c['stream'] == 'main' and not c.get('deep') and rng.random() < 0.5:
                lib = c['lib']
                big = rng.random() < 0.3
                name = 'chrU%d' % len(lib['contigs'])
                clen = (100000 + rng.randint(0, 999)) if big else c['B'] * rng.randint(1, 3) + rng.choice([0, 0, 123])
                lib['contigs'].insert(rng.randint(0, len(lib['contigs'])), [name, clen])
                lim = min(clen, 6000)
                for _ in range(rng.randint(1, 3)):
                    lib['frags'].append({'contig': name, 'start': rng.choice([0, lim - 1, rng.randint(0, lim - 1), min(lim - 1, c['B'])]), 'len': 30,
                                         'rev': False, 'catg': True, 'sample': rng.randint(0, 2), 'umi': rng.choice(UMIS_FAR), 'r2': None,
                                         'dup': False, 'placed': rng.choice(['single', 'paired'])})
                c['placed_only_contig'] = name
        if not quick or os.environ.get('C08_DEEP', '1') == '1':
            cases.append(self.deep_case())
        # options that only affect bookkeeping must not change the output (head / max_time_per_segment change it on purpose
        # and are not used; blacklist_path raises NotImplementedError): job BED file, temp folder, ignore_bam_issues, the
        # unused molecule_iterator argument.  -jobbed is refused (assert) in contig-per-process mode.
        for c in cases:
            for run in c['runs']:
                run['nested_tmp'] = rng.random() < 0.3
                run['ignore_bam_issues'] = rng.random() < 0.3
                if run['mode'] == 'tiled':
                    run['job_bed'] = rng.choice([None, None, 'bed', 'bed.gz'])
                    run['pass_iterator'] = rng.random() < 0.7
        return cases

    def deep_case(self):
        """ONE deep library: > 10,000 fragments on one contig so that the ejection check of MoleculeIterator
        (check_eject_every = 10,000 buffered fragments) runs in the serial pass; every molecule has a short fragment and
        duplicates reaching up to ~1 kb further (the ejection margin cache_size/2 must exceed that, seed C08-9); tiles restart
        the counter, so serial and tiled disagree when the serial pass ejects a molecule too early."""
        rng = self.rng
        frags = []
        n_mol = 4200
        for j in range(n_mol):
            site = 30 * j + 10
            sample, umi = rng.randint(0, 2), rng.choice(UMIS_FAR)
            # a short fragment arrives first, a duplicate ~900 bp longer arrives much later; half of the molecules also
            # have a middle one (which widens the span early and so protects against premature ejection)
            exts = [rng.randint(90, 130)] + ([rng.randint(400, 600)] if rng.random() < 0.5 else []) + [rng.randint(930, 1000)]
            for ext in exts:
                frags.append({'contig': 'chr1', 'start': site, 'len': 40, 'rev': False, 'catg': True, 'sample': sample, 'umi': umi,
                              'r2': {'start': site + ext - 30, 'len': 30}, 'dup': False})
        clen = 140000
        lib = {'contigs': [['chr1', clen], ['chr2', 5000]], 'frags': frags + [
            {'contig': 'chr2', 'start': 700, 'len': 40, 'rev': False, 'catg': True, 'sample': 0, 'umi': 'AAA', 'r2': None, 'dup': False}]}
        runs = [{'mode': 'tiled', 'bp_per_segment': 20000, 'fragment_size': 1000, 'bp_per_job': 40000, 'use_pool': True, 'n_threads': 3}]
        return {'stream': 'main', 'lib': lib, 'runs': runs, 'B': 20000, 'deep': True}

    # ------------------------------------------------------------------ evaluation of one library run (no model needed)
    @staticmethod
    def eval_run(case, res, run, r):
        """python transcription of C08_equiv on the implementation's output.
        returns dict(pre=bool, why=str, problems=[...], plans, L, frags)"""
        lib = case['lib']
        frags = truth_fragments(lib)
        out = {'pre': False, 'why': '', 'problems': [], 'frags': frags, 'plans': None, 'L': None}
        if r.get('error'):
            out['why'] = 'implementation raised ' + r['error']
            out['error'] = r['error']
            return out
        jobs = r['jobs'] or []
        plans = plans_of(lib, jobs)
        L = run['fragment_size'] if run['mode'] == 'tiled' else 0
        out['plans'], out['L'] = plans, L
        planned = set(p[0] for p in plans)
        missing = sorted(set(f['contig'] for f in frags) - planned)
        if not py_plans_ok(L, plans):
            out['why'] = 'job list is not a tiling with margins >= %d / distinct contigs' % L
        elif not py_frags_ok(L, plans, frags):
            out['why'] = 'a fragment is longer than the fetch margin %d' % L
        elif missing:
            out['why'] = 'contigs with reads missing from the job list: %r' % missing
        else:
            out['pre'] = True
        serial = res['serial']
        counts = {f['id']: py_n_accept(plans, f) for f in frags}
        rid_frag = {str(rd[0]): f for f in frags for rd in f['reads']}
        expected = {rid: d for rid, d in serial.items() if rid in rid_frag and counts[rid_frag[rid]['id']] >= 1}
        got = r.get('out', {})
        probs = []
        for rid in sorted(set(expected) | set(got), key=lambda x: (len(x), x)):
            if rid not in got:
                probs.append('record %s (fragment site %s) is written by the serial pass and by no job'
                             % (rid, rid_frag[rid]['site'] if rid in rid_frag else '?'))
            elif rid not in expected:
                probs.append('record %s is written by the jobs but %s' % (rid, 'twice' if '#' in rid else 'is not an expected serial record'))
            elif got[rid] != expected[rid]:
                probs.append('record %s differs between serial and parallel output' % rid)
        # exactly one owner, observed on the per-task log of the real run
        if r.get('tasklog') is not None:
            seen = {}
            for t, log in r['tasklog']:
                for rid in log:
                    seen.setdefault(rid, []).append(t)
            for rid, ts in sorted(seen.items(), key=lambda x: (x[0] is None, x[0])):
                if len(ts) != 1:
                    probs.append('record %s written by %d tasks: %r' % (rid, len(ts), ts))
            for t, log in r['tasklog']:
                nt = norm_task(lib, t)
                for rid in log:
                    f = rid_frag.get(str(rid))
                    if f is None:
                        continue
                    own = (f['contig'] == nt[0]) if not nt[1] else (f['site'] is not None and f['contig'] == nt[0] and nt[2] <= f['site'] < nt[3])
                    if not own:
                        probs.append('record %s (site %s) written by task %r which does not own it' % (rid, f['site'], t))
        # bookkeeping: the job BED file describes exactly the jobs that were run
        if run.get('job_bed'):
            exp_bed = [[str(t[0]), str(t[3]), str(t[4]), '%d:%d' % (j, i), '1', '+', str(t[1]), str(t[2])]
                       for j, job in enumerate(jobs) for i, t in enumerate(job)]
            if r.get('bed') is None:
                probs.append('job_bed_file was requested and not written')
            elif r['bed'] != exp_bed:
                probs.append('the job BED file (%d lines) does not describe the jobs that were run (%d tasks in %d jobs): first BED line %r'
                             % (len(r['bed']), len(exp_bed), len(jobs), r['bed'][:1]))
        if r.get('tmp_left'):
            probs.append('temporary files left in temp_folder_root: %r' % r['tmp_left'][:3])
        out['problems'] = probs
        out['counts'] = counts
        out['expected'] = expected
        return out

    # ------------------------------------------------------------------ K
    def correspondence(self):
        loops, chunks, libs = self.loop_cases(), self.chunk_cases(), self.lib_cases()
        corpus = self.load_corpus()
        libs = corpus + libs
        gens = self.gen_cases()
        res = fw.run_impl('impl_c08.py', {'loops': loops, 'chunks': chunks, 'gens': gens,
                                          'libs': [{'lib': c['lib'], 'runs': c['runs'], 'deep': bool(c.get('deep'))} for c in libs]}, timeout=3000)
        self.loops, self.chunks, self.libs, self.res, self.gens = loops, chunks, libs, res, gens
        dis = []
        # ---- end to end (specification on the implementation's output; no model involved)
        n_runs = n_pre = 0
        streams = {}
        evals = []
        nontriv = set()
        hist = {'tasks_per_run': {}, 'frags_near_boundary': 0, 'frags': 0, 'use_pool_runs': 0, 'cpp_runs': 0, 'tiled_runs': 0,
                'job_bed_runs': 0, 'job_bed_gz_runs': 0, 'nested_tmp_runs': 0, 'ignore_bam_issues_runs': 0}
        for case, r in zip(libs, res['libs']):
            if r.get('error'):
                dis.append({'kind': 'serial run failed', 'lib': case['lib'], 'error': r['error']})
                continue
            fr = truth_fragments(case['lib'])
            hist['frags'] += len(fr)
            lens = dict((contig_id(case['lib'], c), l) for c, l in case['lib']['contigs'])
            hist['frags_near_boundary'] += sum(1 for f in fr if f['site'] is not None and f['contig'] >= 0 and
                                               min(abs(f['site'] - b) for b in bin_bounds(lens[f['contig']], case['B'])) <= 4)
            for run, rr in zip(case['runs'], r['runs']):
                n_runs += 1
                ev = self.eval_run(case, r, run, rr)
                evals.append((case, run, rr, ev))
                st = streams.setdefault(case['stream'], {'runs': 0, 'precondition_met': 0, 'enforced_ok': 0, 'not_enforced_with_differences': 0,
                                                         'not_enforced_reasons': {}})
                st['runs'] += 1
                hist['use_pool_runs'] += int(run['mode'] == 'tiled' and run['use_pool'])
                hist['job_bed_runs'] += int(bool(run.get('job_bed')))
                hist['job_bed_gz_runs'] += int(run.get('job_bed') == 'bed.gz')
                hist['nested_tmp_runs'] += int(bool(run.get('nested_tmp')))
                hist['ignore_bam_issues_runs'] += int(bool(run.get('ignore_bam_issues')))
                hist['cpp_runs' if run['mode'] == 'cpp' else 'tiled_runs'] += 1
                ntask = sum(len(j) for j in (rr.get('jobs') or []))
                hist['tasks_per_run'][str(min(ntask, 20))] = hist['tasks_per_run'].get(str(min(ntask, 20)), 0) + 1
                if ev['pre']:
                    n_pre += 1
                    st['precondition_met'] += 1
                    if ev['problems']:
                        dis.append({'kind': 'parallel output differs from serial', 'stream': case['stream'], 'run': run,
                                    'problems': ev['problems'][:6], 'jobs': rr.get('jobs'), 'lib': case['lib'], 'diff': rr.get('diff', [])[:4]})
                    else:
                        st['enforced_ok'] += 1
                        key = jhash([case['lib']['contigs'], [[f['contig'], f['start'], f['len'], f['rev']] for f in case['lib']['frags']], rr.get('jobs')])
                        lens = dict((contig_id(case['lib'], c), l) for c, l in case['lib']['contigs'])
                        straddle = any(f['site'] is not None and len(f['reads']) == 2 and f['contig'] >= 0 and
                                       any(min(x[1] for x in f['reads']) < b < max(x[2] for x in f['reads'])
                                           for b in bin_bounds(lens[f['contig']], case['B'])[1:-1]) for f in fr)
                        if straddle and ntask >= 3:
                            nontriv.add(key)
                elif case['stream'] == 'main':
                    dis.append({'kind': 'precondition fails on a main-stream input: ' + ev['why'], 'stream': case['stream'], 'run': run,
                                'jobs': rr.get('jobs'), 'lib': case['lib']})
                else:
                    st['not_enforced_reasons'][ev['why'][:60]] = st['not_enforced_reasons'].get(ev['why'][:60], 0) + 1
                    if ev['problems'] or ev.get('error'):
                        st['not_enforced_with_differences'] += 1
        # ---- kernel level: loop and bp_chunked against the model
        self.cov.update({
            'evaluations': len(loops) + len(chunks) + n_runs,
            'distinct_nontrivial': len(nontriv) + len(set(jhash(c) for c in loops if len(c['mols']) >= 2)),
            'rule': 'end to end: a run (library x job configuration) is non-trivial when some paired fragment straddles a bin boundary and the '
                    'job list has >= 3 tasks, distinct by hash of (contigs, fragment geometry, captured job list); loop: scripted emission lists '
                    'with >= 2 molecules, distinct by hash. Enforced on every run whose captured job list satisfies the precondition of C08_equiv',
            'loop_cases': len(loops), 'chunk_cases': len(chunks), 'libraries': len(libs), 'library_runs': n_runs,
            'precondition_hit_rate': round(n_pre / max(1, n_runs), 4), 'streams': streams, 'histograms': hist,
            'exhaustive': False,
            'exhaustive_scopes': 'molecule loop: every emission list of length <= 2 over 23 site options (no site, 2 contigs x 11 coordinates '
                                 'around start / end / fetch_start / fetch_end)' + ('' if self.tier == 'quick' else '; every list of length 3 over 8 options'),
            'corpus_cases': len(corpus),
        })
        self.evals = evals
        loop_dis = []
        if self.model_ok:
            mo = fw.run_model('C08', 4, [self.loop_model_input(c) for c in loops])
            for c, m, r in zip(loops, mo, res['loops']):
                if r.get('error') or r['written'] != m:
                    loop_dis.append({'kind': 'molecule loop', 'input': c, 'model': m, 'impl': r})
            mc = fw.run_model('C08', 2, [[[norm_task(None, t) for t in c['tasks']], c['bp']] for c in chunks])
            for c, m, r in zip(chunks, mc, res['chunks']):
                exp = [[[t[0], t[2], t[3], t[4], t[5]] for t in job] for job in m]
                # the statement needs bp_chunked to preserve the task list (every task in exactly one job, order kept);
                # where the chunk boundaries fall, and whether an empty chunk is emitted, is scheduling
                if isinstance(r, dict) or [t for job in r for t in job] != [t for job in exp for t in job]:
                    loop_dis.append({'kind': 'bp_chunked', 'input': c, 'model': exp, 'impl': r})
            # region generator against the model (Model/C08x.v, mode 5).  The statement constrains the tiling predicate, not
            # where the bin boundaries fall: a generator output that differs from the model's but is a valid tiling is
            # counted as drift (evidence), an invalid one is reported by search() as a violation
            gens, rg = self.gens, res.get('gens') or []
            if gens and len(rg) == len(gens):
                mg = fw.run_model('C08', 5, [[[[i, l] for i, (_, l) in enumerate(c['contigs'])], c['bs'], c['f'], c['bp'], c['f']] for c in gens])
                exact = drift = 0
                gh = {}
                for c, m, r in zip(gens, mg, rg):
                    plans, problems = self.eval_gen(c, r)
                    cl = '/'.join(self.gen_class(c))
                    gh[cl] = gh.get(cl, 0) + 1
                    if not bool(m[2]):
                        loop_dis.append({'kind': 'region generator: the model output does not satisfy plans_ok (contradicts C08_gen_plans_ok)', 'input': c, 'model': m})
                        continue
                    if problems:
                        continue            # search() reports it
                    impl_regions = [[t[0], t[2], t[3], t[4], t[5]] for p in plans for t in p[2]]
                    if impl_regions == [[t[0], t[2], t[3], t[4], t[5]] for t in m[0]]:
                        exact += 1
                    else:
                        drift += 1
                self.cov['generator_cases'] = len(gens)
                self.cov['generator_exact_match_with_model'] = exact
                self.cov['generator_valid_but_different_tiling'] = drift
                self.cov['generator_classes'] = gh
                gsample = list(range(0, len(gens), max(1, len(gens) // 100)))[:100]
                okg, nmg, logg = fw.vm_crosscheck('C08', 5, [([[[i, l] for i, (_, l) in enumerate(gens[k]['contigs'])], gens[k]['bs'], gens[k]['f'], gens[k]['bp'], gens[k]['f']], mg[k]) for k in gsample],
                                                  run_name='run_C08x', require='Model.C08x')
                self.cov['vm_compute_crosscheck_generator'] = {'cases': len(gsample), 'mismatches': nmg}
                if not okg:
                    raise fw.Broken('extraction', 'vm_compute and extracted model disagree (generator): ' + logg[-800:])
            # per task prediction of the model (which reads every task writes) and its precondition / owner count
            m0_in, m1_in, idx = [], [], []
            for k, (case, run, rr, ev) in enumerate(evals):
                if ev.get('error') or rr.get('jobs') is None or case.get('deep'):
                    continue
                jobs = [[norm_task(case['lib'], t) for t in job] for job in rr['jobs']]
                m0_in.append([jobs, [enc_frag(f) for f in ev['frags']], 0])
                m1_in.append([ev['L'], ev['plans'], [enc_frag(f) for f in ev['frags']]])
                idx.append(k)
            m0 = fw.run_model('C08', 0, m0_in) if m0_in else []
            m1 = fw.run_model('C08', 1, m1_in) if m1_in else []
            n_task_checked = 0
            for k, a, b in zip(idx, m0, m1):
                case, run, rr, ev = evals[k]
                pre_model = bool(b[0]) and bool(b[1])
                pre_py = py_plans_ok(ev['L'], ev['plans']) and py_frags_ok(ev['L'], ev['plans'], ev['frags'])
                if pre_model != pre_py or b[2] != [ev['counts'][f['id']] for f in ev['frags']]:
                    loop_dis.append({'kind': 'owner count / precondition computed with the REGENERATED gate differs from the specification (site on the task contig in [start,end)); harness bug only if the loop cases agree', 'model': b,
                                     'python': [pre_py, [ev['counts'][f['id']] for f in ev['frags']]]})
                if rr.get('tasklog') is not None and ev['pre']:
                    flat_model = [sorted(x) for job in a for x in job]
                    flat_impl = [sorted(log) for _, log in rr['tasklog']]
                    n_task_checked += len(flat_impl)
                    if flat_model != flat_impl:
                        loop_dis.append({'kind': 'reads written per task', 'jobs': rr['jobs'], 'model': flat_model, 'impl': flat_impl,
                                         'lib': case['lib'], 'run': run})
            self.cov['traces_validated_against_impl'] = len(loops) + len(chunks) + n_task_checked
            self.cov['tasks_compared_with_model'] = n_task_checked
            sample = self.rng.sample(range(len(loops)), min(100, len(loops)))
            ok, nm, log = fw.vm_crosscheck('C08', 4, [(self.loop_model_input(loops[i]), mo[i]) for i in sample])
            self.cov['vm_compute_crosscheck'] = {'cases': len(sample), 'mismatches': nm}
            if not ok:
                raise fw.Broken('extraction', 'vm_compute and extracted model disagree: ' + log[-800:])
        self.cov['samples'] = [{'loop': loops[i], 'impl': res['loops'][i]} for i in (0, 40, len(loops) - 1)]
        if evals:
            case, run, rr, ev = evals[0]
            self.cov['samples'].append({'run': run, 'jobs': rr.get('jobs'), 'tasklog': rr.get('tasklog'), 'n_fragments': len(ev['frags'])})
        self.cov['disagreements'] = len(dis) + len(loop_dis)
        self.dis = dis + loop_dis
        if self.dis:
            raise fw.Broken('correspondence', '%d disagreements; first: %s' % (len(self.dis), json.dumps(self.dis[0], default=str)[:1500]))

    def load_corpus(self):
        d = os.path.join(fw.VERIF, 'corpus', 'C08')
        out = []
        if os.path.isdir(d):
            for fn in sorted(os.listdir(d)):
                if fn.endswith('.json'):
                    c = json.load(open(os.path.join(d, fn)))
                    c.setdefault('stream', 'main')
                    out.append(c)
        return out

    # ------------------------------------------------------------------ search
    def search(self):
        """specification evaluated on the implementation alone (python transcription of C08_gate / C08_equiv /
        C08_owner_unique; specb is not used): scripted emission lists against the declared ownership rule, and
        library runs whose captured job list meets the precondition against the serial output; smallest first."""
        res = getattr(self, 'res', None)
        if res is None:
            self.loops, self.chunks, self.libs = self.loop_cases(), self.chunk_cases(), self.load_corpus() + self.lib_cases()
            self.gens = self.gen_cases()
            res = fw.run_impl('impl_c08.py', {'loops': self.loops, 'chunks': self.chunks, 'gens': self.gens,
                                              'libs': [{'lib': c['lib'], 'runs': c['runs'], 'deep': bool(c.get('deep'))} for c in self.libs]}, timeout=3000)
        best = None
        for c, r in zip(self.loops, res['loops']):
            t = norm_task(None, c['task'])
            exp = []
            for i, m in enumerate(c['mols']):
                site = next((s for s in m if s is not None), None)
                if not t[1] or (site is not None and site[0] == t[0] and t[2] <= site[1] < t[3]):
                    exp.append(i)
            if r.get('error') or r['written'] != exp:
                size = len(c['mols']) * 10 + sum(len(m) for m in c['mols'])
                if best is None or size < best[0]:
                    best = (size, {'key': 'loop:' + ('error' if r.get('error') else 'lost' if set(exp) - set(r.get('written', [])) else 'extra'),
                                   'what': 'run_tagging_task(contig,start,end,fetch_start,fetch_end = %r) on molecules emitted with sites %r wrote '
                                           'molecules %r; the molecules with a site on the contig in [start,end) are %r'
                                           % (c['task'], c['mols'], r.get('written', r.get('error')), exp),
                                   'input': c, 'impl': r, 'expected': exp})
        if best:
            self.witnesses.append(best[1])
        for c, r in zip(self.chunks, res['chunks']):
            flat = [t for job in r for t in job] if isinstance(r, list) else None
            if flat != [[t[0], t[1], t[2], t[3], t[4]] for t in c['tasks']]:
                self.witnesses.append({'key': 'bp_chunked', 'what': 'bp_chunked(%r, %r) = %r does not concatenate to its input'
                                       % (c['tasks'], c['bp'], r), 'input': c, 'impl': r})
                break
        bestg = None
        for c, r in zip(getattr(self, 'gens', []), res.get('gens') or []):
            plans, problems = self.eval_gen(c, r)
            if problems:
                size = sum(l for _, l in c['contigs']) + len(c['contigs'])
                if bestg is None or size < bestg[0]:
                    bestg = (size, {'key': 'gen:tiling', 'what': 'blacklisted_binning_contigs(%r, bin_size=%d, fragment_size=%d): %s'
                                    % (c['contigs'], c['bs'], c['f'], problems[0]), 'input': c, 'impl': r,
                                    'expected': 'consecutive bins from 0 to the contig length, fetch window = bin widened by the fragment size or clipped at the contig ends'})
        if bestg:
            self.witnesses.append(bestg[1])
        bestl = None
        for case, r in zip(self.libs, res['libs']):
            if r.get('error'):
                continue
            for run, rr in zip(case['runs'], r['runs']):
                ev = self.eval_run(case, r, run, rr)
                bad = (ev['pre'] and ev['problems']) or (not ev['pre'] and case['stream'] == 'main')
                if not bad:
                    continue
                size = len(case['lib']['frags'])
                if bestl is None or size < bestl[0]:
                    mode = 'region-tiled' if run['mode'] == 'tiled' else 'contig-per-process'
                    what = ('%s run %r: %s' % (mode, run, '; '.join(ev['problems'][:3]) if ev['pre'] else
                                               'the job list the implementation built is not acceptable: ' + ev['why'] + ' -- job list %r' % (rr.get('jobs'),) +
                                               ('; consequence: ' + '; '.join(ev['problems'][:3]) if ev['problems'] else '')))
                    absent = sorted(set(r['serial']) - set(rr.get('out', {})), key=lambda x: (len(x), x))
                    if not ev['pre'] and absent:
                        what += '; %d of %d serial records are absent from the output (e.g. %s)' % (len(absent), len(r['serial']), ', '.join(absent[:4]))
                    kind = 'lost' if (any('by no job' in p for p in ev['problems']) or (not ev['pre'] and absent)) \
                        else 'dup' if any(' tasks: ' in p or 'but twice' in p for p in ev['problems']) \
                        else 'bookkeeping' if any('BED' in p or 'temporary files' in p for p in ev['problems']) \
                        else 'differs' if ev['problems'] else 'precondition'
                    bestl = (size, {'key': 'e2e:%s:%s' % (run['mode'], kind), 'what': what,
                                    'input': {'lib': case['lib'], 'run': run}, 'impl': {'jobs': rr.get('jobs'), 'diff': rr.get('diff', [])[:6],
                                                                                       'tasklog': rr.get('tasklog')},
                                    'expected': 'the records of the serial pass, each written by exactly one task'})
        if bestl:
            w = bestl[1]
            small = self.shrink(w['input']['lib'], w['input']['run']) if len(w['input']['lib']['frags']) <= 500 else None
            if len(w['input']['lib']['frags']) > 500:
                w['input'] = {'lib': 'deep library of Prop.deep_case() (seed %d): %d fragments, contigs %r' % (self.seed, len(w['input']['lib']['frags']), w['input']['lib']['contigs']),
                              'run': w['input']['run'], 'first_differences': w['impl'].get('diff')}
            if small is not None:
                w['input']['lib'] = small
                w['what'] += ' (library shrunk to %d fragments)' % len(small['frags'])
            self.witnesses.append(w)

    def shrink(self, lib, run):
        """greedy removal of fragments while the run still violates the specification (bounded)"""
        cur = lib
        budget = 6
        while budget > 0 and len(cur['frags']) > 2:
            budget -= 1
            n = len(cur['frags'])
            half = max(1, n // 4)
            cands = []
            for i in range(0, n, half):
                fr = cur['frags'][:i] + cur['frags'][i + half:]
                if fr:
                    cands.append({'contigs': cur['contigs'], 'frags': fr})
            try:
                res = fw.run_impl('impl_c08.py', {'libs': [{'lib': c, 'runs': [run]} for c in cands]}, timeout=600)
            except Exception:
                return cur if cur is not lib else None
            nxt = None
            for c, r in zip(cands, res['libs']):
                if r.get('error'):
                    continue
                ev = self.eval_run({'lib': c, 'stream': 'main', 'B': 1}, r, run, r['runs'][0])
                if (ev['pre'] and ev['problems']):
                    nxt = c
                    break
            if nxt is None:
                break
            cur = nxt
        return cur if cur is not lib else None

    # ------------------------------------------------------------------ known findings
    def replay_known(self, finding):
        """D11: re-run the recorded configuration on the implementation; still a finding while the record of the
        unmapped placed mate (rid 3) is in the serial output and in the contig-per-process output but not in the tiled one"""
        if finding.get('key') != 'D11:siteless-region':
            return True
        r = fw.run_impl('impl_c08.py', {'d11': True}, timeout=300)['d11']
        self.cov['known_D11_replay'] = r
        return (not r.get('error')) and '3' in r['serial'] and '3' not in r['tiled'] and '3' in r['contig_per_process']

    def matches(self, finding, witness):
        # D11 is never produced by search(): every witness search() emits is a different violation and must alarm
        return finding.get('key') == 'D11:siteless-region' and witness.get('key') == 'D11:siteless-region'
