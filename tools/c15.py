"""C15 - consensus pseudo-reads are well formed and span exactly the molecule coverage."""
import os, json, itertools
from fractions import Fraction
import fw

BASES = 'ACGT'
REFLEN = 4000
CONTIGS = ['chr1', 'chr2', 'chr10', 'chrX']          # = impl_c15.IN_CONTIGS


def iroot(n, k):
    """floor of the k-th root of the non-negative integer n"""
    lo, hi = 0, 1 << (n.bit_length() // k + 1)
    while lo < hi:
        mid = (lo + hi + 1) // 2
        if mid ** k <= n:
            lo = mid
        else:
            hi = mid - 1
    return lo


# thresholds of rint(-10 log10 x): quality >= k + 1  iff  x < 10^(-(2k+1)/20); numerators over 2^60, rounded down
# (the true threshold is irrational and lies strictly between T / 2^60 and (T + 1) / 2^60)
TTAB = [iroot((1 << 1200) // 10 ** (2 * k + 1), 20) for k in range(90)]
CLIP_LO, CLIP_HI = Fraction(1, 10 ** 9), Fraction(10 ** 9 - 1, 10 ** 9)


# ------------------------------------------------------------------ harness-side helpers (independent of pysam)
def aligned_pairs_py(cigar, pos):
    """(query index, reference position) of the M/=/X columns"""
    q, r, out = 0, pos, []
    for op, n in cigar:
        if op in (0, 7, 8):
            out += [(q + i, r + i) for i in range(n)]
            q += n; r += n
        elif op in (1, 4):
            q += n
        elif op in (2, 3):
            r += n
    return out


def ref_len(cigar):
    return sum(n for op, n in cigar if op in (0, 2, 3, 7, 8))


def case_reads(c):
    """reads in Molecule.iter_reads order for the fragments that are associated (first max_fragments)"""
    n = len(c['fragments']) if c.get('max_fragments') is None else min(len(c['fragments']), c['max_fragments'])
    out = []
    for f in c['fragments'][:n]:
        for r in f['reads']:
            if r is not None:
                out.append(r)
    return out, n, len(c['fragments']) - n


def observations(c, contig=None):
    """position -> list of (base, qual) in read order (of all reads whatever their contig - that is what the code pools -
    or only of the reads on one contig)"""
    obs = {}
    for r in case_reads(c)[0]:
        if r.get('unmapped') or r.get('unplaced'):
            continue
        if contig is not None and read_contig(c, r) != contig:
            continue
        for q, p in aligned_pairs_py(r['cigar'], r['pos']):
            obs.setdefault(p, []).append((r['seq'][q], r['qual'][q]))
    return obs


def md_decode_py(md, query):
    """column-wise MD reading: a number copies query bases, a letter is a reference base"""
    out, i, qi = [], 0, 0
    while i < len(md):
        if md[i].isdigit():
            j = i
            while j < len(md) and md[j].isdigit():
                j += 1
            n = int(md[i:j])
            if qi + n > len(query):
                return None
            out.append(query[qi:qi + n]); qi += n; i = j
        else:
            if qi >= len(query):
                return None
            out.append(md[i]); qi += 1; i += 1
    return ''.join(out) if qi == len(query) else None


def call_spec(os_, ptab, want_prob=False):
    """exact-rational arg-max of the likelihoods of sequtils.base_probabilities_to_likelihood.
    returns (expected base or None when rounding may decide, kind)"""
    probs = {}
    for b, q in os_:
        probs.setdefault(b, []).append(Fraction(ptab[q], 1 << 60))
    probs['N'] = [1 - p for b, ps in probs.items() if b != 'N' for p in ps]
    lik = {}
    for b, v in probs.items():
        x = Fraction(1)
        for p in v:
            x *= p
        lik[b] = x * Fraction(4) ** (len(v) - 1)
    rank = sorted(lik.items(), key=lambda kv: -kv[1])
    if want_prob:
        total = sum(lik.values())
        if len(rank) >= 2 and rank[0][1] == rank[1][1]:
            return Fraction(0)
        return rank[0][1] / total
    if len(rank) == 1:
        return rank[0][0], 'clear'
    (b1, v1), (b2, v2) = rank[0], rank[1]
    if v1 == v2:
        return 'N', 'tie'
    if (v1 - v2) * (1 << 20) >= v1:
        return b1, 'clear'
    return None, 'near'


def phred_spec(p):
    """rint(-10 log10(clip(1 - p, 1e-9, 1 - 1e-9))) over exact rationals: (quality, 'clear') or (None, 'near') when the
    clipped 1 - p is within 2^-40 + 2^-30 relative of a threshold (IEEE rounding / libm may decide)"""
    x = min(max(1 - p, CLIP_LO), CLIP_HI)
    X = (x.numerator << 60) // x.denominator
    if any(abs(X - T) <= (1 << 20) + (X >> 30) for T in TTAB):
        return None, 'near'
    return sum(1 for T in TTAB if X < T), 'clear'


_PHRED_CACHE = {}


def phred_of_column(os_, ptab):
    """(quality, 'clear') | (None, 'near') of the call of one column, over exact rationals (cached per column)"""
    k = tuple(os_)
    if k not in _PHRED_CACHE:
        _PHRED_CACHE[k] = phred_spec(call_spec(os_, ptab, want_prob=True)) if os_ else phred_spec(Fraction(0))
    return _PHRED_CACHE[k]


def tie_is_order_safe(os_):
    """an exact tie is decided identically by floats when the equal products have the same factor order
    or at most two factors (float multiplication is commutative, not associative)"""
    per = {}
    for b, q in os_:
        if b != 'N':
            per.setdefault(b, []).append(q)
    vals = list(per.values())
    for i in range(len(vals)):
        for j in range(i + 1, len(vals)):
            if sorted(vals[i]) == sorted(vals[j]) and len(vals[i]) > 2 and vals[i] != vals[j]:
                return False
    return True


def expected_meta(c):
    reads, nfrag, overflow = case_reads(c)
    r1 = c['fragments'][0]['reads'][0]
    if c['klass'] == 'nla':
        site = (r1['pos'] + ref_len(r1['cigar']) - 4) if r1['rev'] else r1['pos']
    elif c['klass'] == 'chic':
        site = (r1['pos'] + ref_len(r1['cigar']) + 1) if r1['rev'] else r1['pos'] - 2
    else:
        site = None
    umis = [f.get('umi', c['umi']) for f in c['fragments'][:nfrag]]
    best = max(umis, key=lambda u: (umis.count(u), -umis.index(u)))
    mapqs = [max((0 if (r is None or r.get('unmapped')) else r['mapq']) for r in f['reads']) for f in c['fragments'][:nfrag]]
    return {'sample': c['sample'], 'umi': best, 'site': site, 'bc': c['bc'], 'nfrag': nfrag, 'overflow': overflow,
            'strand': bool(r1['rev']), 'mapqs': mapqs, 'chrom': expected_chrom(c)}


def read_contig(c, r):
    return r.get('contig', c.get('contig', 'chr1'))


def expected_chrom(c):
    """Molecule.chromosome = contig of the span of the fragment added last (Fragment.update_span: R1's contig when
    R1 is mapped, else R2's; a fragment with no mapped read takes the contig its last placed read names; an
    unplaced read names none)"""
    n = case_reads(c)[1]
    f = c['fragments'][n - 1]
    mapped = [r for r in f['reads'] if r is not None and not r.get('unmapped') and not r.get('unplaced')]
    if mapped:
        return read_contig(c, mapped[0])
    rs = [r for r in f['reads'] if r is not None]
    return None if rs[-1].get('unplaced') else read_contig(c, rs[-1])


def is_multicontig(c):
    return len({read_contig(c, r) for r in case_reads(c)[0] if not r.get('unmapped') and not r.get('unplaced')}) > 1


def chrom_ref(c):
    ch = expected_chrom(c)
    return c.get('other_refs', {}).get(ch, c['ref'])



def model_input(c, ptab):
    m = expected_meta(c)
    reads = case_reads(c)[0]
    # only the reference window the reads can touch is passed (offset lo); outside it the model reads 'N'
    ms = [r['pos'] for r in reads if not r.get('unmapped') and not r.get('unplaced')]
    lo = max(0, min(ms) - 3) if ms else 0
    hi = max(r['pos'] + ref_len(r['cigar']) for r in reads if not r.get('unmapped') and not r.get('unplaced')) + 3 if ms else 0
    ref = chrom_ref(c)[lo:hi]
    meta = [m['sample'], [m['umi']], ([] if m['site'] is None else [m['site']]), m['bc'], m['nfrag'], m['overflow'],
            [m['strand']], m['mapqs']]
    rd = []
    for r in reads:
        if r.get('unmapped') or r.get('unplaced'):
            rd.append([r['pos'], [], r['seq'], r['qual']])
        else:
            rd.append([r['pos'], r['cigar'], r['seq'], r['qual']])
    # the whole request (mode 5): is a reference attached, the molecule's chromosome, the contig of every read
    x = [bool(c.get('reference', True)), ([] if m['chrom'] is None else [CONTIGS.index(m['chrom'])]),
         [CONTIGS.index(read_contig(c, r)) for r in reads]]
    return [ptab, [lo, ref], ([] if c['max_N_span'] is None else [c['max_N_span']]), meta, rd, [], x]   # [] = the model's own ttab90


def decode_model(mv):
    out = []
    for r in mv:
        out.append({'start': r[0], 'cigar': r[1], 'seq': fw.as_str(r[2]), 'md': fw.as_str(r[3]), 'reverse': r[4],
                    'mapq': r[5], 'SM': fw.as_str(r[6]), 'DS': (r[7][0] if r[7] else None),
                    'RX': (fw.as_str(r[8][0]) if r[8] else None), 'BC': (fw.as_str(r[9][0]) if r[9] else None),
                    'MI': (fw.as_str(r[10][0]) if r[10] else None), 'TF': r[11], 'classes': r[12], 'qual': r[13]})
    return out


# ------------------------------------------------------------------ T: translator tie (coq/Gen/GenDedup.v)
# Regenerates, from the current source, the expressions the proofs of Props/C15.v hinge on.  Every locator checks
# the ROLE of what it translates (which loop / branch it sits in, what the guarded statements are) and refuses
# (py2coq.Untranslatable -> pinned translation + correspondence, fw.PropBase._run) when the shape is not the one
# the model gives it.
import ast, hashlib
import py2coq
from py2coq import Untranslatable

MOL = 'singlecellmultiomics/molecule/molecule.py'
SEQ = 'singlecellmultiomics/utils/sequtils.py'
GEN_DEDUP = os.path.join(fw.COQ, 'Gen', 'GenDedup.v')

# value expressions of write_tags_to_psuedoreads the model knows (kind codes of Model/C15.v tag_value)
TAG_KINDS = {'self.sample': 1, 'self.get_cut_site()[1]': 2, 'self.umi': 3, 'bc': 4, 'bc + self.umi': 5,
             'len(self.fragments) + self.overflow_fragments': 6}
TAG_GUARDS = {None: 0, "hasattr(self, 'get_cut_site') and self.get_cut_site() is not None": 1, 'self.umi is not None': 2}
MODELLED_TAGS = ('SM', 'DS', 'RX', 'BC', 'MI', 'TF')


def _u(n):
    return ast.unparse(n)


def _no_doc(body):
    body = list(body)
    if body and isinstance(body[0], ast.Expr) and isinstance(body[0].value, ast.Constant) and isinstance(body[0].value.value, str):
        body = body[1:]
    return body


def _chunk(rel, src, node, name, params, body, comment=None):
    seg = ast.get_source_segment(src, node) or ''
    sha = hashlib.sha256(seg.encode()).hexdigest()
    text = '(* source: %s line %d-%d sha256 %s\n   %s *)\nDefinition %s %s:=\n  %s.' % (
        rel, node.lineno, node.end_lineno, sha, ' '.join((comment or seg).split()).replace('*)', '* )').replace('(*', '( *')[:300],
        name, (params + ' ') if params else '', body)
    return text, {'source': rel, 'lines': [node.lineno, node.end_lineno], 'sha256': sha, 'coq': name}


def _uses(body, names, what):
    import re
    for nm in names:
        if not re.search(r'(?<![A-Za-z0-9_\'])%s(?![A-Za-z0-9_\'])' % re.escape(nm), body):
            raise Untranslatable('%s does not use %s (not the shape the model expects): %s' % (what, nm, body))


def _char(n, what):
    if not (isinstance(n, ast.Constant) and isinstance(n.value, str) and len(n.value) == 1):
        raise Untranslatable('%s: expected a one-character string constant, found %s' % (what, _u(n)))
    return ord(n.value)


def _the_loop(fn, what, pred):
    loops = [n for n in ast.walk(fn) if isinstance(n, ast.For) and pred(n)]
    if len(loops) != 1:
        raise Untranslatable('%s: expected exactly one matching for-loop, found %d' % (what, len(loops)))
    return loops[0]


def tr_get_cigar(repo, chunks, meta):
    path = os.path.join(repo, MOL)
    src = open(path).read()
    fn = py2coq.find_function(ast.parse(src), 'Molecule.get_CIGAR')
    loop = _the_loop(fn, 'get_CIGAR', lambda n: _u(n.iter) == 'self.get_aligned_blocks()')
    if not (isinstance(loop.target, ast.Tuple) and len(loop.target.elts) == 2 and all(isinstance(e, ast.Name) for e in loop.target.elts)):
        raise Untranslatable('get_CIGAR: loop target is not (start, end)')
    s_name, e_name = [e.id for e in loop.target.elts]
    env = {s_name: 'start', e_name: 'end_', 'prev_end': 'prev_end', 'alignment_start': 'alignment_start'}

    def appends(stmts):
        out = []
        for st in stmts:
            if isinstance(st, ast.Expr) and isinstance(st.value, ast.Call) and _u(st.value.func) == 'CIGAR.append':
                a = st.value.args
                if len(a) != 1 or not (isinstance(a[0], ast.Tuple) and len(a[0].elts) == 2):
                    raise Untranslatable('get_CIGAR: CIGAR.append of something that is not an (operation, amount) pair')
                out.append(a[0])
        return out
    # role: the gap operation is appended under `if prev_end is not None` (not before the first block), the block
    # operation unconditionally right after it, then prev_end = end
    body = list(loop.body)
    if not (len(body) >= 3 and isinstance(body[0], ast.If) and _u(body[0].test) == 'prev_end is not None' and not body[0].orelse):
        raise Untranslatable('get_CIGAR: the loop does not start with `if prev_end is not None:`')
    gap = appends(body[0].body)
    blk = appends(body[1:2])
    if len(gap) != 1 or len(body[0].body) != 1 or len(blk) != 1 or len(appends(body[2:])) != 0:
        raise Untranslatable('get_CIGAR: expected one guarded gap append followed by one block append')
    if _u(body[2]) != 'prev_end = %s' % e_name:
        raise Untranslatable('get_CIGAR: expected `prev_end = %s` after the appends, found %s' % (e_name, _u(body[2])))
    tr = py2coq.ExprTranslator(env=env)
    for tup, nm, par, use in ((gap[0], 'gap', '(start prev_end : Z)', ('start', 'prev_end')),
                              (blk[0], 'block', '(start end_ : Z)', ('start', 'end_'))):
        code = _char(tup.elts[0], 'get_CIGAR %s operation' % nm)
        t, m = _chunk(MOL, src, tup.elts[0], 'gen_cigar_%s_op' % nm, ': Z', '%d' % code)
        chunks.append(t); meta.append(m)
        b = tr.z(tup.elts[1])
        _uses(b, use, 'get_CIGAR %s length' % nm)
        t, m = _chunk(MOL, src, tup.elts[1], 'gen_cigar_%s_len' % nm, par + ' : Z', b)
        chunks.append(t); meta.append(m)
    # alignment_start: first block start, then min(alignment_start, start)
    rest = body[3:]
    if not (len(rest) == 1 and isinstance(rest[0], ast.If) and _u(rest[0].test) == 'alignment_start is None'
            and _u(rest[0].body[0]) == 'alignment_start = %s' % s_name):
        raise Untranslatable('get_CIGAR: alignment_start bookkeeping not recognised')
    upd = [st for st in rest[0].orelse if isinstance(st, ast.Assign) and _u(st.targets[0]) == 'alignment_start']
    if len(upd) != 1:
        raise Untranslatable('get_CIGAR: expected one alignment_start update in the else branch')
    b = tr.z(upd[0].value)
    _uses(b, ('alignment_start', 'start'), 'get_CIGAR alignment_start update')
    t, m = _chunk(MOL, src, upd[0].value, 'gen_alignment_start', '(alignment_start start : Z) : Z', b)
    chunks.append(t); meta.append(m)
    ret = [n for n in ast.walk(fn) if isinstance(n, ast.Return)]
    if len(ret) != 1 or _u(ret[0].value) != '(CIGAR, alignment_start, alignment_end)':
        raise Untranslatable('get_CIGAR: return value not (CIGAR, alignment_start, alignment_end)')


def tr_partial_reads(repo, chunks, meta):
    path = os.path.join(repo, MOL)
    src = open(path).read()
    fn = py2coq.find_function(ast.parse(src), 'Molecule.generate_partial_reads')
    loop = _the_loop(fn, 'generate_partial_reads', lambda n: _u(n.iter) == 'CIGAR' and _u(n.target) == '(operation, amount)')
    if not any(isinstance(st, ast.Assign) and _u(st) == 'CIGAR, alignment_start, alignment_end = self.get_CIGAR()' for st in fn.body):
        raise Untranslatable('generate_partial_reads: CIGAR does not come from self.get_CIGAR()')
    if len(loop.body) != 1 or not isinstance(loop.body[0], ast.If):
        raise Untranslatable('generate_partial_reads: loop body is not one if/elif over the operation')
    top = loop.body[0]
    if not (len(top.orelse) == 1 and isinstance(top.orelse[0], ast.If) and not top.orelse[0].orelse):
        raise Untranslatable('generate_partial_reads: expected `if operation == .. elif operation == ..` without else')
    branches = []
    for br in (top, top.orelse[0]):
        t_ = br.test
        if not (isinstance(t_, ast.Compare) and len(t_.ops) == 1 and isinstance(t_.ops[0], ast.Eq) and _u(t_.left) == 'operation'):
            raise Untranslatable('generate_partial_reads: branch test is not `operation == <char>`')
        branches.append((_char(t_.comparators[0], 'generate_partial_reads branch'), br, t_.comparators[0]))
    # which branch is the gap branch: the one whose first statement is an `if` that yields
    def is_gap(br):
        return bool(br.body) and isinstance(br.body[0], ast.If) and bool(br.body[0].body) and \
            isinstance(br.body[0].body[0], ast.Expr) and isinstance(br.body[0].body[0].value, ast.Yield)
    gaps = [b for b in branches if is_gap(b[1])]
    blks = [b for b in branches if not is_gap(b[1])]
    if len(gaps) != 1 or len(blks) != 1:
        raise Untranslatable('generate_partial_reads: could not tell the gap branch from the block branch')
    (gcode, gbr, gnode), (bcode, bbr, bnode) = gaps[0], blks[0]
    for nm, code, node in (('gap', gcode, gnode), ('block', bcode, bnode)):
        t, m = _chunk(MOL, src, node, 'gen_branch_%s_op' % nm, ': Z', '%d' % code)
        chunks.append(t); meta.append(m)
    # ---- gap branch: split test, what a split does, what keeping the gap does
    sp = gbr.body[0]
    final_yield = [st for st in fn.body if isinstance(st, ast.Expr) and isinstance(st.value, ast.Yield)]
    if len(final_yield) != 1 or fn.body[-1] is not final_yield[0]:
        raise Untranslatable('generate_partial_reads: the function does not end with the final yield')
    tup = _u(final_yield[0].value.value)
    if tup != '(reference_start, reference_end, partial_sequence, partial_phred, partial_CIGAR, partial_MD)':
        raise Untranslatable('generate_partial_reads: yielded tuple changed: %s' % tup)
    if _u(sp.body[0].value.value) != tup:
        raise Untranslatable('generate_partial_reads: the split yields a different tuple than the final yield')
    cleared = sorted(_u(st) for st in sp.body[1:])
    if cleared != sorted('%s = []' % x for x in ('partial_CIGAR', 'partial_MD', 'partial_sequence', 'partial_phred')):
        raise Untranslatable('generate_partial_reads: a split does not clear exactly the four partial lists: %r' % cleared)
    keep = [_u(st) for st in sp.orelse]
    if "partial_CIGAR.append(f'{amount}{operation}')" not in keep or any(('yield' in k or '= []' in k) for k in keep):
        raise Untranslatable('generate_partial_reads: keeping a gap does not append it to partial_CIGAR')
    if [_u(st) for st in gbr.body[1:]] != ['reference_position += amount']:
        raise Untranslatable('generate_partial_reads: the gap branch does not advance reference_position by amount')
    tr = py2coq.ExprTranslator(env={'max_N_span is not None': 'has_max', 'max_N_span': 'max_N_span', 'amount': 'amount'})
    tr.bool_env = {'max_N_span is not None'}
    b = tr.b(sp.test)
    _uses(b, ('has_max', 'max_N_span', 'amount'), 'generate_partial_reads split test')
    t, m = _chunk(MOL, src, sp.test, 'gen_split', '(has_max : bool) (max_N_span amount : Z) : bool', b)
    chunks.append(t); meta.append(m)
    # ---- block branch
    want = ['query_index_end += amount', None, 'start_fetch = reference_position', 'reference_position += amount',
            'reference_end = reference_position', "partial_CIGAR.append(f'{amount}{operation}')",
            'predicted_sequence, phred_scores = self.extract_stretch_from_dict(obs, start_fetch, reference_end)',
            'partial_sequence.append(predicted_sequence)', 'partial_phred.append(phred_scores)',
            'partial_MD.append((start_fetch, reference_end))']
    got = [st for st in bbr.body if _u(st) != 'query_index_end += amount']
    want = [w for w in want if w != 'query_index_end += amount']
    if len(got) != len(want):
        raise Untranslatable('generate_partial_reads: block branch has %d statements, expected %d' % (len(got), len(want)))
    first = None
    for st, w in zip(got, want):
        if w is None:
            first = st
        elif _u(st) != w:
            raise Untranslatable('generate_partial_reads: block branch statement %r, expected %r' % (_u(st), w))
    if not (isinstance(first, ast.If) and not first.orelse and [_u(s) for s in first.body] == ['reference_start = reference_position']):
        raise Untranslatable('generate_partial_reads: the first-block test does not guard `reference_start = reference_position`')
    tr = py2coq.ExprTranslator(env={'len(partial_CIGAR)': 'n_partial_CIGAR'})
    b = tr.b(first.test)
    _uses(b, ('n_partial_CIGAR',), 'generate_partial_reads first-block test')
    t, m = _chunk(MOL, src, first.test, 'gen_first_block', '(n_partial_CIGAR : Z) : bool', b)
    chunks.append(t); meta.append(m)


def tr_md(repo, chunks, meta):
    path = os.path.join(repo, SEQ)
    src = open(path).read()
    fn = py2coq.find_function(ast.parse(src), 'create_MD_tag')
    body = _no_doc(fn.body)
    if [_u(s) for s in body[:2]] != ['no_change = 0', 'md = []'] or len(body) != 5:
        raise Untranslatable('create_MD_tag: body shape changed')
    loop, fin, ret = body[2], body[3], body[4]
    if not (isinstance(loop, ast.For) and _u(loop.target) == '(ref_base, query_base)'
            and _u(loop.iter) == 'zip(reference_seq.upper(), query_seq)' and len(loop.body) == 1 and isinstance(loop.body[0], ast.If)):
        raise Untranslatable('create_MD_tag: loop is not `for ref_base, query_base in zip(reference_seq.upper(), query_seq)`')
    iff = loop.body[0]
    if [_u(s) for s in iff.body] != ['no_change += 1']:
        raise Untranslatable('create_MD_tag: a matching column does not just count (no_change += 1)')
    el = iff.orelse
    if not (len(el) == 3 and isinstance(el[0], ast.If) and not el[0].orelse and [_u(s) for s in el[0].body] == ['md.append(str(no_change))']
            and _u(el[1]) == 'md.append(ref_base)' and _u(el[2]) == 'no_change = 0'):
        raise Untranslatable('create_MD_tag: a mismatching column is not encoded as [count if > 0] + reference base + reset')
    if not (isinstance(fin, ast.If) and not fin.orelse and [_u(s) for s in fin.body] == ['md.append(str(no_change))']
            and _u(fin.test) == _u(el[0].test)):
        raise Untranslatable('create_MD_tag: the trailing count is not flushed by the same test')
    if _u(ret) != "return ''.join(md)":
        raise Untranslatable('create_MD_tag: return value changed')
    tr = py2coq.ExprTranslator(env={'ref_base.upper()': 'ref_up', 'ref_base': 'ref_up', 'query_base': 'query_base'})
    b = tr.b(iff.test)
    _uses(b, ('ref_up', 'query_base'), 'create_MD_tag match test')
    t, m = _chunk(SEQ, src, iff.test, 'gen_md_match', '(ref_up query_base : Z) : bool', b)
    chunks.append(t); meta.append(m)
    tr = py2coq.ExprTranslator(env={})
    b = tr.b(fin.test)
    _uses(b, ('no_change',), 'create_MD_tag flush test')
    t, m = _chunk(SEQ, src, fin.test, 'gen_md_flush', '(no_change : Z) : bool', b)
    chunks.append(t); meta.append(m)


def tr_base_call(repo, chunks, meta):
    path = os.path.join(repo, SEQ)
    src = open(path).read()
    fn = py2coq.find_function(ast.parse(src), 'phredscores_to_base_call')
    body = _no_doc(fn.body)
    asg = [st for st in body if isinstance(st, ast.Assign) and _u(st.targets[0]) == 'base_probs']
    if len(asg) != 1 or not _u(asg[0].value).endswith('.most_common()') or not _u(asg[0].value).startswith('Counter('):
        raise Untranslatable('phredscores_to_base_call: base_probs is not Counter(..).most_common()')
    ifs = [st for st in body if isinstance(st, ast.If)]
    if len(ifs) != 1 or ifs[0].orelse or len(ifs[0].body) != 1 or not isinstance(ifs[0].body[0], ast.Return):
        raise Untranslatable('phredscores_to_base_call: expected exactly one `if <undecidable>: return ..`')
    r = ifs[0].body[0].value
    if not (isinstance(r, ast.Tuple) and len(r.elts) == 2 and isinstance(r.elts[1], ast.Constant) and isinstance(r.elts[1].value, int)
            and not isinstance(r.elts[1].value, bool)):
        raise Untranslatable('phredscores_to_base_call: the no-call result is not (<base>, <int>)')
    if not (body[-1] is not ifs[0] and isinstance(body[-1], ast.Return) and _u(body[-1].value) == '(base_probs[0][0], base_probs[0][1])'
            and body[-2] is ifs[0]):
        raise Untranslatable('phredscores_to_base_call: the call is not (base_probs[0][0], base_probs[0][1]) right after the test')
    tr = py2coq.ExprTranslator(env={'len(base_probs)': 'n', 'base_probs[0][1] == base_probs[1][1]': 'eq01'})
    tr.bool_env = {'base_probs[0][1] == base_probs[1][1]'}
    b = tr.b(ifs[0].test)
    _uses(b, ('n', 'eq01'), 'phredscores_to_base_call no-call test')
    t, m = _chunk(SEQ, src, ifs[0].test, 'gen_no_call', '(n : Z) (eq01 : bool) : bool', b)
    chunks.append(t); meta.append(m)
    t, m = _chunk(SEQ, src, r, 'gen_no_call_base', ': Z', '%d' % _char(r.elts[0], 'no-call base'))
    chunks.append(t); meta.append(m)
    t, m = _chunk(SEQ, src, r, 'gen_no_call_prob', ': Z', '%d' % r.elts[1].value)
    chunks.append(t); meta.append(m)


def tr_tags(repo, chunks, meta):
    path = os.path.join(repo, MOL)
    src = open(path).read()
    fn = py2coq.find_function(ast.parse(src), 'Molecule.write_tags_to_psuedoreads')
    loops = [st for st in fn.body if isinstance(st, ast.For) and _u(st.iter) == 'reads' and _u(st.target) == 'read']
    if len(loops) != 1:
        raise Untranslatable('write_tags_to_psuedoreads: expected one `for read in reads` loop')
    rows, locals_ = [], {}

    def visit(stmts, guard):
        for st in stmts:
            if isinstance(st, ast.Expr) and isinstance(st.value, ast.Call) and _u(st.value.func) == 'read.set_tag':
                a = st.value.args
                if len(a) != 2 or st.value.keywords or not (isinstance(a[0], ast.Constant) and isinstance(a[0].value, str) and len(a[0].value) == 2):
                    raise Untranslatable('write_tags_to_psuedoreads: set_tag call not of the form set_tag("XX", value)')
                rows.append((a[0].value, guard, _u(a[1]), st))
            elif isinstance(st, ast.If) and not st.orelse and guard is None:
                visit(st.body, _u(st.test))
            elif isinstance(st, ast.Assign) and len(st.targets) == 1 and isinstance(st.targets[0], ast.Name):
                locals_[st.targets[0].id] = (_u(st.value), guard)
            elif isinstance(st, ast.Expr) and isinstance(st.value, ast.Constant):
                pass
            else:
                raise Untranslatable('write_tags_to_psuedoreads: statement outside the recognised shape: %s' % _u(st)[:80])
    visit(loops[0].body, None)
    if locals_.get('bc', (None,))[0] != 'list(self.get_barcode_sequences())[0]' and any(v in ('bc', 'bc + self.umi') for _, _, v, _ in rows):
        raise Untranslatable('write_tags_to_psuedoreads: bc is not list(self.get_barcode_sequences())[0]')
    out, seen = [], set()
    for tag, guard, val, st in rows:
        if tag in seen:
            raise Untranslatable('write_tags_to_psuedoreads: tag %s set twice' % tag)
        seen.add(tag)
        kind = TAG_KINDS.get(val, 0)
        g = TAG_GUARDS.get(guard)
        if tag in MODELLED_TAGS:
            if kind == 0 or g is None:
                raise Untranslatable('write_tags_to_psuedoreads: tag %s = %s under guard %r is outside the modelled forms' % (tag, val, guard))
        else:
            kind, g = 0, (g if g is not None else 3)      # informational tag the model does not describe
        out.append('(%d, %d, %d) (* %s %s *)' % (ord(tag[0]) * 256 + ord(tag[1]), g, kind, tag, val.replace('*)', '* )')))
    body = '[ ' + ';\n    '.join(o.split(' (*')[0] for o in out) + ' ]'
    t, m = _chunk(MOL, src, loops[0], 'gen_tags', ': list (Z * Z * Z)', body,
                  comment='(tag code = 256*c0+c1, guard: 0 always 1 cut site known 2 umi known 3 other, value kind: 1 sample 2 site '
                          '3 umi 4 barcode 5 barcode+umi 6 fragments+overflow 0 not modelled) ' + ' '.join(r[0] for r in rows))
    chunks.append(t); meta.append(m)
    tf = [st for tag, _, _, st in rows if tag == 'TF']
    if tf:
        tr = py2coq.ExprTranslator(env={'len(self.fragments)': 'n_fragments', 'self.overflow_fragments': 'overflow'})
        b = tr.z(tf[0].value.args[1])
        _uses(b, ('n_fragments', 'overflow'), 'TF value')
        t, m = _chunk(MOL, src, tf[0].value.args[1], 'gen_TF', '(n_fragments overflow : Z) : Z', b)
        chunks.append(t); meta.append(m)
    else:
        raise Untranslatable('write_tags_to_psuedoreads: no TF tag')
    # deduplicate_majority passes every produced read to write_tags_to_psuedoreads
    dm = py2coq.find_function(ast.parse(src), 'Molecule.deduplicate_majority')
    if not any('self.write_tags_to_psuedoreads(' in _u(st) for st in dm.body):
        raise Untranslatable('deduplicate_majority does not call write_tags_to_psuedoreads')


def tr_quality(repo, chunks, meta):
    path = os.path.join(repo, MOL)
    src = open(path).read()
    fn = py2coq.find_function(ast.parse(src), 'Molecule.extract_stretch_from_dict')
    clips = [n for n in ast.walk(fn) if isinstance(n, ast.Call) and _u(n.func) == 'np.clip']
    if len(clips) != 1 or len(clips[0].args) != 3 or clips[0].keywords or _u(clips[0].args[0]) != '1 - base_calling_probs':
        raise Untranslatable('extract_stretch_from_dict: expected one np.clip(1 - base_calling_probs, lo, hi)')
    # role: phred_scores = np.rint(-10 * np.log10(np.clip(..))).astype('B')
    asg = [st for st in fn.body if isinstance(st, ast.Assign) and _u(st.targets[0]) == 'phred_scores']
    if len(asg) != 1 or _u(asg[0].value) != "np.rint(-10 * np.log10(%s)).astype('B')" % _u(clips[0]):
        raise Untranslatable('extract_stretch_from_dict: phred_scores is not np.rint(-10 * np.log10(np.clip(..))).astype("B")')
    for nm, arg in (('lo', clips[0].args[1]), ('hi', clips[0].args[2])):
        seg = ast.get_source_segment(src, arg)
        try:
            fr = Fraction(seg)
        except Exception:
            raise Untranslatable('extract_stretch_from_dict: clip bound %r is not a decimal literal' % seg)
        if not 0 < fr < 1:
            raise Untranslatable('extract_stretch_from_dict: clip bound %s outside (0,1)' % seg)
        t, m = _chunk(MOL, src, arg, 'gen_clip_%s' % nm, ': Z * Z', '(%d, %d)' % (fr.numerator, fr.denominator))
        chunks.append(t); meta.append(m)
    gets = [n for n in ast.walk(fn) if isinstance(n, ast.Subscript) and isinstance(n.value, ast.Call) and _u(n.value.func) == 'base_call_dict.get']
    if len(gets) != 2 or len({_u(g.value) for g in gets}) != 1 or sorted(_u(g.slice) for g in gets) != ['0', '1']:
        raise Untranslatable('extract_stretch_from_dict: base and probability are not read by the same base_call_dict.get(.., default)')
    d = gets[0].value.args[1] if len(gets[0].value.args) == 2 else None
    if not (isinstance(d, ast.Tuple) and len(d.elts) == 2 and isinstance(d.elts[1], ast.Constant) and isinstance(d.elts[1].value, int)
            and not isinstance(d.elts[1].value, bool)):
        raise Untranslatable('extract_stretch_from_dict: default call is not (<base>, <int>)')
    t, m = _chunk(MOL, src, d, 'gen_default_base', ': Z', '%d' % _char(d.elts[0], 'default base'))
    chunks.append(t); meta.append(m)
    t, m = _chunk(MOL, src, d, 'gen_default_prob', ': Z', '%d' % d.elts[1].value)
    chunks.append(t); meta.append(m)
    if _u(fn.body[-1]) != 'return (predicted_sequence, phred_scores)':
        raise Untranslatable('extract_stretch_from_dict: return value changed')


def tr_dedup_reads(repo, chunks, meta):
    """get_dedup_reads: no chromosome -> no records; the MD tag is built from the reference bases of the M blocks"""
    path = os.path.join(repo, MOL)
    src = open(path).read()
    fn = py2coq.find_function(ast.parse(src), 'Molecule.get_dedup_reads')
    body = _no_doc(fn.body)
    first = body[0]
    skip = isinstance(first, ast.If) and _u(first.test) == 'self.chromosome is None' and not first.orelse and \
        len(first.body) == 1 and isinstance(first.body[0], ast.Return) and _u(first.body[0]) in ('return None', 'return')
    if not skip:
        raise Untranslatable('get_dedup_reads: does not start with `if self.chromosome is None: return None`')
    t, m = _chunk(MOL, src, first, 'gen_skip_without_chromosome', ': bool', 'true')
    chunks.append(t); meta.append(m)
    txt = _u(fn)
    need = ["''.join((self.reference.fetch(self.chromosome, block_start, block_end) for block_start, block_end in partial_MD))",
            "consensus=''.join(partial_sequence)", "phred_scores=array('B', np.concatenate(partial_phred))",
            "cigarstring=''.join(partial_CIGAR)", 'start=reference_start']
    for n_ in need:
        if n_ not in txt:
            raise Untranslatable('get_dedup_reads: expected %s' % n_)
    loops = [st for st in body if isinstance(st, ast.For)]
    if len(loops) != 1 or 'self.generate_partial_reads(obs, max_N_span=max_N_span)' != _u(loops[0].iter):
        raise Untranslatable('get_dedup_reads: does not iterate over generate_partial_reads(obs, max_N_span=max_N_span)')


def regen_dedup(out=None, repo=None):
    out = out or GEN_DEDUP
    try:
        chunks, meta = [], []
        for f in (tr_get_cigar, tr_partial_reads, tr_md, tr_base_call, tr_tags, tr_quality, tr_dedup_reads):
            f(repo or fw.REPO, chunks, meta)
        os.makedirs(os.path.dirname(out), exist_ok=True)
        py2coq.write_gen(out, '', chunks)
        return meta
    except BaseException:
        # fail closed: never leave a stale generated file behind for the proofs / the model to use
        for ext in ('.v', '.vo', '.vos', '.vok', '.glob'):
            if os.path.exists(out[:-2] + ext):
                os.remove(out[:-2] + ext)
        raise


# ------------------------------------------------------------------ generators
class Gen:
    def __init__(self, rng):
        self.rng = rng

    def ref(self):
        rng = self.rng
        s = [rng.choice(BASES) for _ in range(REFLEN)]
        mode = rng.random()
        if mode < 0.3:       # soft-masked (lower case) stretches and N
            for _ in range(6):
                a = rng.randrange(900, 3400); b = a + rng.randrange(1, 60)
                for i in range(a, b):
                    s[i] = s[i].lower()
            for _ in range(10):
                s[rng.randrange(900, 3400)] = 'N'
        return ''.join(s)

    def cigar(self, qlen, first_m=1, last_m=1, clip_start=False, clip_end=False):
        rng = self.rng
        ops = []
        if clip_start and rng.random() < 0.3:
            ops.append([4, rng.randint(1, 5)])
        left = max(qlen, first_m + last_m)
        m = max(first_m, rng.randint(1, max(1, left // 2)))
        ops.append([rng.choice([0, 0, 0, 7, 8]) if rng.random() < 0.1 else 0, m])
        left -= m
        while left > last_m and rng.random() < 0.6:
            k = rng.random()
            if k < 0.3:
                ops.append([1, rng.randint(1, 3)])
            elif k < 0.65:
                ops.append([2, rng.randint(1, 6)])
            else:
                ops.append([3, rng.choice([1, 2, 5, 9, 10, 11, 50, 120, 300])])
            m = rng.randint(1, max(1, left - last_m)) if left - last_m >= 1 else 1
            ops.append([0, m])
            left -= m
        if ops[-1][0] in (0, 7, 8) and ops[-1][1] < last_m:
            ops[-1][1] = last_m
        if clip_end and rng.random() < 0.3:
            ops.append([4, rng.randint(1, 5)])
        if clip_end and rng.random() < 0.1:
            ops.append([5, rng.randint(1, 9)])     # hard clip (outermost, consumes nothing)
        return ops

    def read(self, ref, pos, cigar, rev, err, qmode, mapq=None):
        rng = self.rng
        seq, qual = [], []
        r = pos
        for op, n in cigar:
            if op in (0, 7, 8):
                for i in range(n):
                    b = ref[r + i].upper()
                    x = rng.random()
                    if x < err:
                        b = rng.choice(BASES)
                    elif x < err + 0.01:
                        b = 'N'
                    seq.append(b)
                r += n
            elif op in (1, 4):
                seq += [rng.choice(BASES) for _ in range(n)]
            elif op in (2, 3):
                r += n
        for _ in seq:
            qual.append(self.qual(qmode))
        return {'pos': pos, 'cigar': cigar, 'seq': ''.join(seq), 'qual': qual, 'rev': rev,
                'mapq': rng.choice([60, 60, 60, 42, 20, 1, 0]) if mapq is None else mapq}

    def qual(self, qmode):
        rng = self.rng
        if isinstance(qmode, int):
            return qmode
        if qmode == 'two':
            return rng.choice([20, 37])
        if qmode == 'edge':
            return rng.choice([0, 1, 2, 3, 10, 41, 60, 93])
        return rng.randint(2, 41)

    def molecule(self, depth_max):
        rng = self.rng
        ref = self.ref()
        klass = rng.choice(['nla', 'nla', 'chic', 'base'])
        rev = rng.random() < 0.4
        S = rng.randrange(1600, 2200)
        nfrag = rng.choice([1, 1, 2, 2, 3, 4, 6, depth_max])
        err = rng.choice([0, 0.02, 0.1, 0.3, 0.5])
        qmode = rng.choice([30, 37, 2, 'two', 'edge', 'rand', 'rand'])
        gapmode = rng.choice(['overlap', 'near', 'far', 'mixed'])
        frags = []
        r1len_ref = None
        for fi in range(nfrag):
            qlen = rng.randint(8, 70)
            cg = self.cigar(qlen, first_m=4 if not rev else 1, last_m=4 if rev else 1,
                            clip_start=rev, clip_end=not rev)
            if klass == 'chic' and cg[0][0] == 4:
                cg = cg[1:]
            if ref_len(cg) > 700:       # keep every read inside the contig
                cg = [[0, qlen]]
            if rev:
                # all R1 of a reverse molecule end at the same coordinate (site defined by reference_end)
                end = S + 4
                pos = end - ref_len(cg)
            else:
                pos = S
            r1 = self.read(ref, pos, cg, rev, err, qmode)
            assert len(r1['seq']) == len(r1['qual']) >= 4
            if klass == 'nla':
                s = list(r1['seq'])
                if rev:
                    k = len(s) - (cg[-1][1] if cg[-1][0] == 4 else 0)
                    s[k - 4:k] = 'CATG'
                    if cg[-1][0] == 4:      # a trailing soft clip moves the site: keep it out of reverse NLA R1
                        cg = cg[:-1]
                        s = s[:k]
                        r1['qual'] = r1['qual'][:k]
                        r1['cigar'] = cg
                else:
                    k = cg[0][1] if cg[0][0] == 4 else 0
                    if k:                   # leading soft clip moves the site: drop it
                        cg = cg[1:]
                        s = s[k:]
                        r1['qual'] = r1['qual'][k:]
                        r1['cigar'] = cg
                    s[0:4] = 'CATG'
                r1['seq'] = ''.join(s)
            if klass == 'chic':
                # R1 geometry fixes the site: no clip on the site side
                if rev and r1['cigar'][-1][0] == 4:
                    k = r1['cigar'][-1][1]
                    r1['cigar'] = r1['cigar'][:-1]; r1['seq'] = r1['seq'][:-k]; r1['qual'] = r1['qual'][:-k]
            r2 = None
            if rng.random() < 0.6:
                gm = gapmode if gapmode != 'mixed' else rng.choice(['overlap', 'near', 'far'])
                off = {'overlap': rng.randint(0, 25), 'near': rng.randint(20, 120), 'far': rng.randint(150, 700)}[gm]
                cg2 = self.cigar(rng.randint(6, 60), clip_start=True, clip_end=True)
                if ref_len(cg2) > 700:
                    cg2 = [[0, rng.randint(6, 60)]]
                if not rev:
                    p2 = S + off
                else:
                    p2 = S + 4 - off - ref_len(cg2)
                assert 0 <= p2 and p2 + ref_len(cg2) < REFLEN, (p2, cg2)
                r2 = self.read(ref, p2, cg2, not rev, err, qmode)
                if rng.random() < 0.04:
                    r2 = {'pos': r1['pos'], 'unmapped': True, 'seq': r2['seq'], 'qual': r2['qual'], 'rev': False, 'mapq': 0,
                          'cigar': []}
            assert len(r1['seq']) == len(r1['qual']) == sum(n for op, n in r1['cigar'] if op in (0, 1, 4, 7, 8)), r1
            f = {'reads': [r1, r2]}
            frags.append(f)
        umi = ''.join(rng.choice(BASES) for _ in range(rng.choice([3, 6, 8])))
        if nfrag >= 3 and rng.random() < 0.4:
            # one fragment carries a UMI error (Hamming distance 1, still joins); often the FIRST one, so the
            # molecule's UMI has to move to the most common one as fragments arrive
            k = rng.choice([0, 0, rng.randrange(0, nfrag)])
            u = list(umi); u[0] = {'A': 'C', 'C': 'G', 'G': 'T', 'T': 'A'}[u[0]]
            frags[k]['umi'] = ''.join(u)
        c = {'ref': ref, 'klass': klass, 'fragments': frags, 'sample': 'LIB_%d' % rng.randint(0, 383), 'umi': umi,
             'bc': ''.join(rng.choice(BASES) for _ in range(8)),
             'max_N_span': rng.choice([None, None, 0, 1, 5, 10, 49, 50, 120, 300]),
             'path': rng.choice(['dedup', 'dedup', 'write']), 'no_source': rng.random() < 0.5,
             'max_fragments': (rng.randint(1, nfrag) if (nfrag > 1 and rng.random() < 0.15 and not any('umi' in f for f in frags)) else None)}
        if c['path'] == 'write':
            c['max_N_span'] = None          # write_pysam(consensus=True) never passes max_N_span
        # contig of the molecule and which target header the consensus is requested for (impl_c15.TARGET_CONTIGS):
        # 0 same order as the reads' header, 1 reordered + extra contig, 2 only chr2/chr10
        c['contig'] = rng.choice(['chr1', 'chr2', 'chr10', 'chrX'])
        c['target'] = rng.choice([0, 1, 1, 2]) if c['contig'] in ('chr2', 'chr10') else rng.choice([0, 1, 1])
        if c['target'] != 0 and c['path'] == 'write':
            c['no_source'] = True           # source reads can only be written to a file that shares their header
        return c

    def conflict(self):
        """two or three fragments covering the same short stretch with chosen bases and qualities"""
        rng = self.rng
        ref = self.ref()
        S = rng.randrange(900, 1500)
        n = rng.choice([2, 2, 3, 4])
        L = 12
        qs = [rng.choice([rng.choice([10, 20, 30, 37]), None]) for _ in range(n)]
        frags = []
        for i in range(n):
            s = ['C', 'A', 'T', 'G'] + [rng.choice('AC') for _ in range(L - 4)]
            q = [(qs[i] if qs[i] is not None else rng.choice([10, 20, 30, 37])) for _ in range(L)]
            if qs[0] is not None and rng.random() < 0.5:
                q = [qs[0]] * L          # equal qualities everywhere: a conflicting column is an exact tie
            frags.append({'reads': [{'pos': S, 'cigar': [[0, L]], 'seq': ''.join(s), 'qual': q, 'rev': False, 'mapq': 60}, None]})
        return {'ref': ref, 'klass': 'nla', 'fragments': frags, 'sample': 'TIE_%d' % rng.randint(0, 99), 'umi': 'ACGTAC',
                'bc': 'AACCGGTT', 'max_N_span': None, 'path': 'dedup', 'no_source': False, 'max_fragments': None}

    def xcase(self, kind, depth_max=6):
        """inputs outside the hypotheses of the block theorem: no reference attached, no aligned base, no chromosome,
        reads on two contigs in one molecule (chimeric pair / merged molecules)"""
        rng = self.rng
        if kind in ('nocov', 'nochrom'):
            ref = self.ref()
            n = rng.randint(4, 30)
            r = {'pos': rng.randrange(1000, 2000), 'cigar': [], 'seq': ''.join(rng.choice(BASES) for _ in range(n)),
                 'qual': [rng.randint(2, 41) for _ in range(n)], 'rev': False, 'mapq': 0, 'unmapped': True}
            if kind == 'nochrom':
                r['unplaced'] = True
            c = {'ref': ref, 'klass': 'base', 'fragments': [{'reads': [r, None]}], 'sample': 'X_%d' % rng.randint(0, 99),
                 'umi': 'ACG', 'bc': 'AAAA', 'max_N_span': rng.choice([None, 10]), 'path': rng.choice(['dedup', 'write']),
                 'no_source': True, 'max_fragments': None, 'contig': rng.choice(CONTIGS), 'target': 0,
                 'reference': rng.random() < 0.5, 'xkind': kind}
            if c['path'] == 'write':
                c['max_N_span'] = None
            return c
        while True:
            c = self.molecule(depth_max)
            c['max_fragments'] = None
            c['target'] = 0
            if c['path'] == 'write':
                c['no_source'] = True
            if kind == 'noref':
                c['reference'] = False
                break
            other = rng.choice([x for x in CONTIGS if x != c['contig']])
            c['other_refs'] = {other: self.ref()}
            if kind == 'chimeric':
                mates = [f['reads'][1] for f in c['fragments'] if f['reads'][1] is not None and not f['reads'][1].get('unmapped')]
                if not mates:
                    continue
                for r in rng.sample(mates, rng.randint(1, len(mates))):
                    r['contig'] = other
                break
            if kind == 'merged' and len(c['fragments']) >= 2 and not any('umi' in f for f in c['fragments']) \
                    and not any(r is not None and r.get('unmapped') for f in c['fragments'] for r in f['reads']):
                k = rng.randint(1, len(c['fragments']) - 1)
                for f in c['fragments'][k:]:
                    for r in f['reads']:
                        if r is not None:
                            r['contig'] = other
                c['merge_from'] = k
                break
        c['xkind'] = kind
        return c

    def column(self, obs, ref):
        """one reference position observed by len(obs) CHIC fragments (one 1M read each) with the given (base, qual)"""
        P = 1000
        frags = [{'reads': [{'pos': P, 'cigar': [[0, 1]], 'seq': b, 'qual': [q], 'rev': False, 'mapq': 60}, None]} for b, q in obs]
        return {'ref': ref, 'klass': 'chic', 'fragments': frags, 'sample': 'COLUMN', 'umi': 'ACG', 'bc': 'AAAA',
                'max_N_span': None, 'path': 'dedup', 'no_source': False, 'max_fragments': None}

    def shape(self, mask, maxN, ref):
        """single CHIC fragment, one read whose CIGAR covers exactly the positions of mask (bit i = position P+i)"""
        P = 1000
        idx = [i for i in range(mask.bit_length()) if mask >> i & 1]
        cg, prev = [], None
        for s, e in _runs(idx):
            if prev is not None:
                gap = s - prev - 1
                cg.append([2 if (gap + s) % 2 else 3, gap])
            cg.append([0, e - s + 1])
            prev = e
        seq = ''.join(ref[P + i] for i in idx)
        return {'ref': ref, 'klass': 'chic', 'fragments': [{'reads': [{'pos': P, 'cigar': cg, 'seq': seq,
                'qual': [30] * len(seq), 'rev': False, 'mapq': 60}, None]}], 'sample': 'SHAPE', 'umi': 'ACG', 'bc': 'AAAA',
                'max_N_span': maxN, 'path': 'dedup', 'no_source': False, 'max_fragments': None}


def _runs(idx):
    out = []
    for i in idx:
        if out and out[-1][1] == i - 1:
            out[-1][1] = i
        else:
            out.append([i, i])
    return out


def cigar_blocks(start, cigar):
    """[start, end) blocks of the M ops of a produced record"""
    pos, out = start, []
    for op, n in cigar:
        if op == 0:
            out.append((pos, pos + n)); pos += n
        elif op == 3:
            pos += n
        else:
            return None
    return out


KEY_D31 = 'C15:error:TypeError'
KEY_D35 = 'C15:multicontig'      # finding D35 (fixes/C15-D35.md): reads on two contigs are pooled by position


def refutes_on_contig(c, im):
    """a record aligns a position that no read of the molecule covers on the record's contig"""
    for g_ in im.get('records', []):
        on = observations(c, contig=g_['contig'])
        if any(p not in on for s_, e_ in (cigar_blocks(g_['start'], g_['cigar']) or []) for p in range(s_, e_)):
            return True
    return False

TARGETS = [['chr1', 'chr2', 'chr10', 'chrX'], ['chrM', 'chr10', 'chrX', 'chr2', 'chr1'], ['chr2', 'chr10']]   # = impl_c15.TARGET_CONTIGS


class Prop(fw.PropBase):
    ID = 'C15'
    PROPS = 'Props/C15.v'
    TRUSTED = [
        'partial: IEEE-754 rounding of np.power/np.prod/division in sequtils.base_probabilities_to_likelihood is NOT modelled; '
        'the model computes the same formula over exact rationals from the implementation\'s own float table 1-10^(-q/10) '
        '(taken as exact dyadic fractions); base calls are compared only where the two best likelihoods are equal with an '
        'order-insensitive float product or differ by more than 2^-20 relative; excluded calls are counted in the evidence',
        'modelled not verified: pysam/htslib (AlignedSegment construction, BAM write/read-back, get_aligned_pairs; the model\'s '
        'aligned_pairs is compared with pysam on every generated read), str(int) = Decimal N.to_uint digits, '
        'collections.Counter.most_common as a stable descending sort, more_itertools.consecutive_groups as runs',
        'phred qualities: rint(-10 log10 x) is modelled as the number of thresholds 10^(-(2k+1)/20), k = 0..89, above the clipped '
        'x = 1 - p over exact rationals; the thresholds are passed as numerators over 2^60 computed by the harness with integer '
        '20th roots (the true thresholds are irrational); libm log10 and IEEE rounding are NOT modelled: a quality is compared only '
        'when x is further than 2^-40 + 2^-30 relative from every threshold (excluded ones are counted in the evidence)',
        'translator tie (tools/c15.py regen_dedup -> coq/Gen/GenDedup.v, fail closed with role checks): gap / block length and operation '
        'characters of get_CIGAR, split and first-block tests of generate_partial_reads, match / flush tests of create_MD_tag, no-call '
        'test and result of phredscores_to_base_call, clip bounds and default call of extract_stretch_from_dict, tag table of '
        'write_tags_to_psuedoreads; the statement ORDER inside those functions is checked by shape, not translated; everything else of '
        'the model (runs, likelihood formula, most_common, the state machine around the translated tests) is tied by K only',
        'CIGAR characters M/N are taken to be pysam operations 0/3 (cigarstring parsing by pysam)',
        'the expected DS/RX/SM/TF values are computed by the harness from the generated geometry (site rules are C09\'s subject)',
        'fragment-to-molecule association (C06) is taken from the implementation: the harness checks that all generated '
        'fragments were associated and skips (counts) a case otherwise',
    ]
    ASSUMPTIONS = [
        'block / MD / call theorems: a reference is attached and all reads that contribute an observation map to the molecule\'s '
        'chromosome.  Outside: no reference -> AttributeError and no record, no aligned base -> ValueError, no chromosome -> no '
        'record (C15_no_reference_raises / C15_no_coverage_raises / C15_no_chromosome_skips / C15_request_outcome; K compares only '
        'records-vs-none there, the exception type is recorded in the evidence); reads on several contigs are pooled by position '
        '(C15_multicontig_refuted, finding D35: the statement does not hold for such molecules; K pins the pooling)',
        'base qualities within 0..93; fewer than ~500 observations per position (beyond that np.power(0.25, n-1) underflows)',
        'reference bases are letters (no digits) so that the MD string is uniquely readable',
    ]

    def regen(self):
        return regen_dedup()

    # ---------------------------------------------------------------- inputs
    def cases(self):
        quick = self.tier == 'quick'
        g = Gen(self.rng)
        cs = []
        corpus = os.path.join(fw.VERIF, 'corpus', 'C15')
        if os.path.isdir(corpus):
            for fn in sorted(os.listdir(corpus)):
                if fn.endswith('.json'):
                    cs.append(json.load(open(os.path.join(corpus, fn)))['case'])
        self.n_corpus = len(cs)
        for _ in range(220 if quick else 3000):
            cs.append(g.molecule(10 if quick else self.rng.choice([10, 20, 40])))
        for _ in range(80 if quick else 800):
            cs.append(g.conflict())
        # the request as a whole: no reference, no aligned base, no chromosome, two contigs in one molecule
        self.n_x = 0
        for kind, n in (('noref', 14), ('nocov', 6), ('nochrom', 6), ('chimeric', 16), ('merged', 16)):
            for _ in range(n if quick else 10 * n):
                cs.append(g.xcase(kind))
                self.n_x += 1
        ref = g.ref().upper()
        W = 9
        for mask in range(1, 1 << W, 2):
            for maxN in (None, 0, 1, 2, 3):
                cs.append(g.shape(mask, maxN, ref))
        self.n_shapes = (1 << (W - 1)) * 5
        # every column of up to 3 observations over bases {A, C, N} x qualities {0, 20, 30} (order matters)
        alphabet = [(b, q) for b in 'ACN' for q in (0, 20, 30)]
        self.n_columns = 0
        for n in (1, 2, 3):
            for obs in itertools.product(alphabet, repeat=n):
                cs.append(g.column(list(obs), ref))
                self.n_columns += 1
        return cs

    def phred_probes(self):
        """probabilities (floats, as exact fractions) for the quality function alone: around every rounding threshold
        (just inside / just outside the margin, and well inside each band), at the clip bounds, and random ones"""
        rng = self.rng
        xs = []
        for T in TTAB:
            t = T / 2 ** 60
            for rel in (2.0 ** -12, -2.0 ** -12, 2.0 ** -22, -2.0 ** -22, 2.0 ** -35, -2.0 ** -35, 0.05, -0.05):
                xs.append(t * (1 + rel))
        xs += [1e-9, 0.9e-9, 1.1e-9, 2e-10, 0.0, 1.0, 0.999999999, 0.9999999999, 0.5, 1e-12, 1 - 1e-12]
        for _ in range(300 if self.tier == 'quick' else 6000):
            xs.append(10 ** rng.uniform(-10.5, 0))
        ps = [1.0 - x for x in xs] + [rng.random() for _ in range(100)]
        return [list(float(p).as_integer_ratio()) for p in ps]

    def histories(self):
        """operation sequences on ONE molecule object: consensus requests between add_fragment / add_molecule"""
        rng = self.rng
        g = Gen(rng)
        out = []
        n = 45 if self.tier == 'quick' else 400
        while len(out) < n:
            c = g.molecule(rng.choice([3, 4, 5, 6]))
            if len(c['fragments']) < 2:
                # a lone fragment: add copies of its geometry shifted mates by generating another molecule's worth
                continue
            frs = c['fragments']
            k0 = rng.choice([1, 1, 2]) if len(frs) > 2 else 1
            ops = []

            def request():
                path = rng.choice(['dedup', 'dedup', 'write'])
                ops.append({'op': 'consensus', 'path': path, 'no_source': rng.random() < 0.5,
                            'max_N_span': None if path == 'write' else rng.choice([None, None, 0, 5, 10, 50, 120, 300])})
            i = k0
            if rng.random() < 0.85:
                request()
            while i < len(frs):
                if len(frs) - i >= 2 and rng.random() < 0.4:
                    m = rng.randint(1, min(3, len(frs) - i))
                    ops.append({'op': 'add_molecule', 'fragments': frs[i:i + m]})
                    i += m
                else:
                    ops.append({'op': 'add_fragment', 'fragment': frs[i]})
                    i += 1
                for _ in range(rng.choice([0, 1, 1, 2])):
                    request()
            request()
            ops.append({'op': 'consensus', 'path': 'dedup', 'no_source': False, 'max_N_span': rng.choice([0, 10, 50])})
            out.append({'ref': c['ref'], 'klass': c['klass'], 'sample': c['sample'], 'umi': c['umi'], 'bc': c['bc'],
                        'initial': frs[:k0], 'ops': ops})
        # the three growth shapes spelled out: mate further downstream, a fragment closing part of a gap, add_molecule
        ref = g.ref().upper()
        def fr(mate):
            r1 = {'pos': 2000, 'cigar': [[0, 50]], 'seq': 'CATG' + ref[2004:2050], 'qual': [30] * 50, 'rev': False, 'mapq': 60}
            r2 = None if mate is None else {'pos': mate, 'cigar': [[0, 50]], 'seq': ref[mate:mate + 50], 'qual': [30] * 50,
                                            'rev': True, 'mapq': 60}
            return {'reads': [r1, r2]}
        req = lambda mx=None, path='dedup': {'op': 'consensus', 'path': path, 'no_source': False, 'max_N_span': mx}
        for path in ('dedup', 'write'):
            out.append({'ref': ref, 'klass': 'nla', 'sample': 'GROW', 'umi': 'ACGTAC', 'bc': 'AACCGGTT', 'initial': [fr(2080)],
                        'ops': [req(None, path), {'op': 'add_fragment', 'fragment': fr(2200)}, req(None, path),
                                {'op': 'add_fragment', 'fragment': fr(2115)}, req(None, path), req(20),
                                {'op': 'add_molecule', 'fragments': [fr(2320), fr(None)]}, req(None, path), req(300)]})
        return out

    @staticmethod
    def history_cases(h, steps):
        """one pseudo-case per consensus request: the fragments held at that moment, computed by the harness"""
        held = list(h['initial'])
        desc = ['new(%d fragment%s)' % (len(held), 's' if len(held) > 1 else '')]
        out = []
        for k, op in enumerate(h['ops']):
            st = steps[k] if k < len(steps) else {}
            if op['op'] == 'add_fragment':
                held = held + [op['fragment']]
                desc.append('add_fragment')
            elif op['op'] == 'add_molecule':
                held = held + list(op['fragments'])
                desc.append('add_molecule(%d)' % len(op['fragments']))
            else:
                desc.append('%s(max_N_span=%r)' % ('deduplicate_majority' if op['path'] == 'dedup' else 'write_pysam(consensus=True)', op['max_N_span']))
                c = {'ref': h['ref'], 'klass': h['klass'], 'fragments': list(held), 'sample': h['sample'], 'umi': h['umi'], 'bc': h['bc'],
                     'max_N_span': op['max_N_span'], 'path': op['path'], 'no_source': op['no_source'], 'max_fragments': None}
                im = {'records': st.get('records', []), 'hist': ' -> '.join(desc), 'history_ops': [
                    (o['op'] if o['op'] != 'consensus' else 'consensus:%s:%r' % (o['path'], o['max_N_span'])) for o in h['ops'][:k + 1]]}
                if 'held' in st:
                    im['added'], im['overflow'] = st['held'], 0
                if 'returned' in st:
                    im['returned'] = st['returned']
                if st.get('error'):
                    im['error'] = st['error']
                out.append((c, im))
        return out

    @staticmethod
    def history_model_input(h, ptab):
        frs = list(h['initial']) + [f for o in h['ops'] for f in ([o['fragment']] if o['op'] == 'add_fragment' else o.get('fragments', []))]
        rs = [r for f in frs for r in f['reads'] if r is not None and not r.get('unmapped')]
        lo = max(0, min(r['pos'] for r in rs) - 3)
        hi = max(r['pos'] + ref_len(r['cigar']) for r in rs) + 3
        c0 = {'klass': h['klass'], 'fragments': h['initial'], 'sample': h['sample'], 'umi': h['umi'], 'bc': h['bc'], 'max_fragments': None}
        m = expected_meta(c0)

        def enc_frag(f):
            mq = max((0 if (r is None or r.get('unmapped')) else r['mapq']) for r in f['reads'])
            return [f.get('umi', h['umi']), mq, [[r['pos'], ([] if r.get('unmapped') else r['cigar']), r['seq'], r['qual']]
                                                 for r in f['reads'] if r is not None]]
        ops = [[0, enc_frag(f)] for f in h['initial']]
        for o in h['ops']:
            if o['op'] == 'add_fragment':
                ops.append([0, enc_frag(o['fragment'])])
            elif o['op'] == 'add_molecule':
                ops.append([1, [enc_frag(f) for f in o['fragments']]])
            else:
                ops.append([2, [] if o['max_N_span'] is None else [o['max_N_span']]])
        return [ptab, [lo, h['ref'][lo:hi]], [m['sample'], ([] if m['site'] is None else [m['site']]), m['bc'], [m['strand']]], ops, []]

    def cli_libs(self):
        g = Gen(self.rng)
        libs = []
        for k in range(2 if self.tier == 'quick' else 6):
            klass = 'nla' if k % 2 == 0 else 'chic'
            ref = g.ref().upper()
            mols = []
            for mi in range(5 if self.tier == 'quick' else 12):
                saved = g.ref
                g.ref = lambda: ref
                while True:
                    c = g.molecule(6)
                    if c['klass'] == klass and not any(r is not None and r.get('unmapped') for f in c['fragments'] for r in f['reads']):
                        break
                g.ref = saved
                # the tagger decides association itself: one UMI, one sample per molecule, no overflow
                for f in c['fragments']:
                    f.pop('umi', None)
                c['sample'] = 'CELL_%d' % mi
                c['max_fragments'] = None
                c['max_N_span'] = None
                c['contig'], c['target'] = 'chr1', 0     # the command line writes with the input header
                mols.append(c)
            # a molecule whose FIRST fragment (file order; all single-end, same start) carries the minority UMI
            S = 2400
            u = 'ACGTAC'
            frs = []
            for i, umi in enumerate(['CCGTAC', u, u]):
                L = 30 + 3 * i
                seq = ('CATG' if klass == 'nla' else ref[S:S + 4]) + ref[S + 4:S + L]
                frs.append({'umi': umi, 'reads': [{'pos': S, 'cigar': [[0, L]], 'seq': seq, 'qual': [30] * L, 'rev': False, 'mapq': 60}, None]})
            mols.append({'ref': ref, 'klass': klass, 'fragments': frs, 'sample': 'CELL_UMI', 'umi': u, 'bc': 'AACCGGTT',
                         'max_N_span': None, 'path': 'write', 'no_source': k % 2 == 1, 'max_fragments': None})
            # one contig of >= 100000 bp: the command line forces one job per contig and (D8, property C05) drops a
            # lone contig shorter than that
            tail = ''.join(self.rng.choice(BASES) for _ in range(200)) * 490
            libs.append({'klass': klass, 'ref': ref + tail, 'molecules': mols, 'no_source': k % 2 == 1})
        return libs

    # ---------------------------------------------------------------- specification on the implementation's output
    def spec_violations(self, c, impl, ptab):
        """direct Python transcription of the statements of Props/C15.v, evaluated on what pysam read back.
        returns list of (key, text)"""
        v = []
        recs = impl.get('records', [])
        obs = observations(c)          # pooled over contigs: what the code builds its columns from
        covered = sorted(obs)
        m = expected_meta(c)
        # outside the hypotheses of the statement: nothing is constrained but "no half-made output"
        if not covered or m['chrom'] is None:
            if recs:
                v.append(('outcome', '%d record(s) for a molecule without an aligned base / without chromosome' % len(recs)))
            return v
        if not c.get('reference', True) and impl.get('error'):
            if recs:
                v.append(('outcome', 'the request raised %s but %d record(s) were written' % (impl['error'].split(':')[0], len(recs))))
            return v
        if impl.get('error'):
            return [('error', 'consensus raised ' + impl['error'])]
        # blocks exact
        got = []
        for r in recs:
            bl = cigar_blocks(r['start'], r['cigar'])
            if bl is None or not bl or r['cigar'][0][0] != 0 or r['cigar'][-1][0] != 0 or any(n <= 0 for _, n in r['cigar']):
                v.append(('cigar', 'malformed CIGAR %r' % (r['cigar'],)))
                continue
            if [list(b) for b in bl] != r['blocks']:
                v.append(('cigar', 'pysam blocks %r differ from CIGAR walk %r' % (r['blocks'], bl)))
            got += [p for s, e in bl for p in range(s, e)]
            if c['max_N_span'] is not None and any(op == 3 and n > c['max_N_span'] for op, n in r['cigar']):
                v.append(('split', 'N gap above max_N_span=%r inside one record: %r' % (c['max_N_span'], r['cigar'])))
        if got != covered:
            extra = sorted(set(got) - set(covered))[:5]; miss = sorted(set(covered) - set(got))[:5]
            v.append(('blocks', 'aligned blocks are not the covered positions: %d covered, %d in records; not covered but aligned %r; '
                      'covered but missing %r' % (len(covered), len(got), extra, miss)))
        if 'source' in im_keys(impl) and c['path'] == 'write' and not impl.get('cli'):
            want = 0 if c['no_source'] else len(case_reads(c)[0])
            src = impl['source']
            if len(src) != want:
                v.append(('source', '%d source reads written next to the consensus, expected %d (no_source_reads=%r)' % (len(src), want, c['no_source'])))
            elif any(not x['dup'] for x in src):
                v.append(('source', 'source reads written next to the consensus are not flagged duplicate'))
        gaps = [b - a - 1 for a, b in zip(covered, covered[1:]) if b - a > 1]
        nrec = 1 + (sum(1 for g_ in gaps if g_ > c['max_N_span']) if c['max_N_span'] is not None else 0)
        if len(recs) != nrec:
            v.append(('split', '%d records, expected %d (gaps %r, max_N_span %r)' % (len(recs), nrec, gaps[:8], c['max_N_span'])))
        for r in recs:
            qlen = sum(n for op, n in r['cigar'] if op == 0)
            if not (len(r['seq']) == r['nqual'] == qlen == r['infer_query_length']):
                v.append(('lengths', 'seq %d, qual %d, CIGAR query length %d' % (len(r['seq']), r['nqual'], qlen)))
            bl = cigar_blocks(r['start'], r['cigar']) or []
            pos = [p for s, e in bl for p in range(s, e)]
            want = ''.join(chrom_ref(c)[p].upper() for p in pos)
            md = r['tags'].get('MD')
            if md is None:
                v.append(('md', 'no MD tag'))
            elif len(pos) == len(r['seq']):
                dec = md_decode_py(md, r['seq'])
                if dec != want:
                    bad = [p for p, a, b in zip(pos, dec or '', want) if a != b][:5]
                    v.append(('md', 'MD %s read against the query gives %s.., reference has %s.. (first differing positions %r%s)'
                              % (md[:40], (dec or 'None')[:30], want[:30], bad, '; pysam: ' + r['md_error'] if r.get('md_error') else '')))
                elif r.get('md_error') or r.get('md_bad'):
                    v.append(('md', 'pysam disagrees with the MD tag: %r %r' % (r.get('md_error'), r.get('md_bad', [])[:5])))
            # calls
            if len(pos) == len(r['seq']):
                for p, b in zip(pos, r['seq']):
                    if p not in obs:
                        continue
                    exp, kind = call_spec(obs[p], ptab)
                    if kind == 'tie' and not tie_is_order_safe(obs[p]):
                        continue
                    if exp is not None and exp != b:
                        v.append(('call', 'position %d called %s, observations %r: most likely is %s (%s)' % (p, b, obs[p][:12], exp, kind)))
                        break
            # qualities: one per base (checked above), inside 0..90, and the band of the exact probability of the call
            ql = r.get('qual')
            if ql is not None and len(ql) == len(pos) == len(r['seq']):
                if any(not 0 <= q <= len(TTAB) for q in ql):
                    v.append(('qual', 'quality outside 0..%d: %r' % (len(TTAB), [q for q in ql if not 0 <= q <= len(TTAB)][:5])))
                else:
                    for p, b, q in zip(pos, r['seq'], ql):
                        if p not in obs:
                            continue
                        exp, kind = call_spec(obs[p], ptab)
                        if exp is None or exp != b or (kind == 'tie' and not tie_is_order_safe(obs[p])):
                            continue
                        eq, qkind = phred_of_column(obs[p], ptab)
                        if eq is not None and eq != q:
                            v.append(('qual', 'position %d (called %s) has quality %d; the probability of the call given the observations '
                                      '%r is %.12g, i.e. quality %d' % (p, b, q, obs[p][:12], float(call_spec(obs[p], ptab, want_prob=True)), eq)))
                            break
            t = r['tags']
            if r['contig'] != m['chrom']:
                v.append(('contig', 'record placed on contig %s, the molecule is on %s (target header order %r)'
                          % (r['contig'], m['chrom'], TARGETS[c.get('target', 0)])))
            flag = 16 if m['strand'] else 0
            if r['flag'] != flag:
                v.append(('flag', 'flag %d, expected %d' % (r['flag'], flag)))
            exp_t = {'SM': m['sample'], 'RX': m['umi'], 'TF': m['nfrag'] + m['overflow'], 'BC': m['bc'], 'MI': m['bc'] + m['umi']}
            if m['site'] is not None:
                exp_t['DS'] = m['site']
            for k, x in exp_t.items():
                if t.get(k) != x:
                    v.append(('tags', 'tag %s = %r, molecule has %r' % (k, t.get(k), x)))
            if m['site'] is None and 'DS' in t:
                v.append(('tags', 'DS tag %r on a molecule without a site' % (t['DS'],)))
        return v

    # ---------------------------------------------------------------- K
    def correspondence(self):
        try:
            self._correspondence()
        except fw.Broken:
            raise
        except Exception as e:   # fail closed: a harness failure is a break, never a silent pass or a bare traceback
            import traceback
            raise fw.Broken('correspondence', 'harness failure: %r\n%s' % (e, traceback.format_exc()[-1200:]))

    def _correspondence(self):
        import time
        tm = {}
        t0 = time.time()
        cases = self.cases()
        libs = self.cli_libs()
        hists = self.histories()
        probes = self.phred_probes()
        res = fw.run_impl('impl_c15.py', {'api': cases, 'cli': libs, 'hist': hists, 'phred': probes})
        tm['impl_s'] = round(time.time() - t0, 1)
        self.hists_ = hists
        self.cov['timing'] = tm
        ptab = res['ptab']
        self.cases_, self.libs_, self.res_, self.ptab_ = cases, libs, res, ptab
        api = res['api']
        # flatten the command-line libraries into (case, impl) pairs keyed by the sample tag
        cli_pairs, cli_problems = [], []
        for lib, out in zip(libs, res['cli']):
            if out.get('error'):
                cli_problems.append({'fn': 'bamtagmultiome --consensus', 'impl_error': out['error'], 'trace': out.get('trace', '')[-600:],
                                     'lib': libs.index(lib)})
                continue
            by = {}
            for r in out['records']:
                by.setdefault(r['tags'].get('SM'), []).append(r)
            for m in lib['molecules']:
                cli_pairs.append((m, {'records': by.pop(m['sample'], []), 'cli': True}))
            if by:
                cli_problems.append({'fn': 'bamtagmultiome --consensus', 'unexpected_records': sorted(map(str, by)), 'lib': libs.index(lib)})
            nsrc = sum(sum(1 for r in f['reads'] if r is not None) for m in lib['molecules'] for f in m['fragments'])
            if out['source'] != (0 if lib['no_source'] else nsrc):
                cli_problems.append({'fn': 'bamtagmultiome --consensus', 'source_reads_written': out['source'],
                                     'expected': 0 if lib['no_source'] else nsrc, 'lib': libs.index(lib)})
        self.cli_pairs, self.cli_problems = cli_pairs, cli_problems
        hist_pairs, hist_index = [], []
        for hi, (h, out) in enumerate(zip(hists, res['hist'])):
            if out.get('error'):
                cli_problems.append({'fn': 'history', 'impl_error': out['error'], 'trace': out.get('trace', '')[-600:]})
                continue
            hp = self.history_cases(h, out['steps'])
            hist_index.append((hi, len(hist_pairs), len(hp)))
            hist_pairs += hp
        pairs = list(zip(cases, api)) + cli_pairs + hist_pairs
        self.cov['histories'] = {'objects': len(hists), 'consensus_requests': len(hist_pairs),
                                 'operations': sum(len(h['ops']) for h in hists),
                                 'add_molecule_ops': sum(1 for h in hists for o in h['ops'] if o['op'] == 'add_molecule')}
        # if C15-D31 is recorded as a known finding instead of being fixed: leave out exactly the molecules
        # without a cut site that raise that TypeError (replay_known re-runs the recorded one)
        known = {f.get('key') for f in fw.load_findings('C15')}
        self.n_known_skipped = 0
        if KEY_D31 in known:
            keep = []
            for c, im in pairs:
                if expected_meta(c)['site'] is None and str(im.get('error', '')).startswith("TypeError: 'NoneType' object is not subscriptable"):
                    self.n_known_skipped += 1
                else:
                    keep.append((c, im))
            pairs = keep
        self.cov['known_finding_cases_left_out'] = self.n_known_skipped
        # coverage numbers
        hist = {'klass': {}, 'nfrag': {}, 'records': {}, 'maxN': {}, 'path': {}}
        sig, nontrivial = set(), set()
        pair_checks = pair_bad = 0
        skipped_assoc = 0
        for c, im in pairs:
            hist['klass'][c['klass']] = hist['klass'].get(c['klass'], 0) + 1
            k = str(len(c['fragments'])); hist['nfrag'][k] = hist['nfrag'].get(k, 0) + 1
            k = str(c['max_N_span']); hist['maxN'][k] = hist['maxN'].get(k, 0) + 1
            k = 'cli' if im.get('cli') else (('history:' + c['path']) if im.get('hist') else c['path']); hist['path'][k] = hist['path'].get(k, 0) + 1
            k = str(len(im.get('records', []))); hist['records'][k] = hist['records'].get(k, 0) + 1
            h = fw.canon_hash([c['klass'], [[[r['pos'], r['cigar'], r['seq'], r['qual'], r['rev']] if r else [] for r in f['reads']]
                                            for f in c['fragments']], c['max_N_span'] if c['max_N_span'] is not None else -1])
            sig.add(h)
            ob = observations(c)
            cov = sorted(ob)
            gapped = any(b - a > 1 for a, b in zip(cov, cov[1:]))
            conflict = any(len(set(b for b, _ in o)) > 1 for o in ob.values())
            if gapped or conflict:
                nontrivial.add(h)
            if 'pysam_pairs' in im:
                mine = [[list(x) for x in aligned_pairs_py(r['cigar'], r['pos'])] if not r.get('unmapped') else []
                        for f in c['fragments'] for r in f['reads'] if r is not None]
                pair_checks += len(mine)
                if mine != im['pysam_pairs']:
                    pair_bad += 1
        self.cov.update({
            'evaluations': len(pairs),
            'distinct_nontrivial': len(nontrivial),
            'rule': 'one evaluation = one molecule built from in-memory pysam reads (NlaIII/CHIC/base classes, both strands, '
                    'CIGARs with I/D/N/S/=/X, mates overlapping/near/far, unmapped mates, N bases, lower-case/N reference) run through '
                    'deduplicate_majority(max_N_span) or write_pysam(consensus=True[, no_source_reads]) or the bamtagmultiome '
                    '--consensus --multiprocess command line; every produced record is written to BAM and re-parsed by pysam. '
                    'distinct by hash of (class, reads, max_N_span); non-trivial = coverage has a gap or a column has conflicting bases',
            'distinct': len(sig), 'histograms': hist, 'corpus_cases': self.n_corpus,
            'exhaustive': False,
            'exhaustive_scope': 'all %d coverage shapes of one read over a 9-position window (first position covered) x max_N_span in '
                                '{None,0,1,2,3}, and all %d columns of 1-3 observations over {A,C,N} x qualities {0,20,30}, are enumerated '
                                'completely; the other streams are sampled' % (self.n_shapes // 5, self.n_columns),
            'samples': [{'klass': c['klass'], 'max_N_span': c['max_N_span'], 'path': c['path'],
                         'reads': [[r['pos'], ''.join('%d%s' % (n, 'MIDNSHP=X'[op]) for op, n in r['cigar']), r['seq'][:40]]
                                   for r in case_reads(c)[0]][:6]} for c in cases[self.n_corpus:self.n_corpus + 2]],
            'cli_libraries': len(libs), 'cli_molecules': len(cli_pairs),
            'aligned_pairs_vs_pysam': {'reads': pair_checks, 'cases_disagreeing': pair_bad},
        })
        dis = list(cli_problems)
        if pair_bad:
            dis.append({'fn': 'aligned_pairs', 'what': 'model/harness aligned pairs differ from pysam on %d cases' % pair_bad})
        # specification evaluated on the implementation (independent of the model)
        spec_bad = []
        for c, im in pairs:
            vs = self.spec_violations(c, im, ptab)
            if vs:
                spec_bad.append((c, im, vs))
        self.spec_bad = spec_bad
        self.cov['spec_on_impl'] = {'molecules': len(pairs), 'violating': len(spec_bad)}
        if not self.model_ok:
            if spec_bad or dis:
                raise fw.Broken('correspondence', 'specification fails on the implementation output: %r' % (spec_bad[0][2][:2] if spec_bad else dis[0],))
            return
        # model
        t0 = time.time()
        m_inputs = [model_input(c, ptab) for c, _ in pairs]
        mv = run_model_par(0, m_inputs)
        pre = run_model_par(1, m_inputs)
        # the request as a whole (mode 5) for the cases outside the hypotheses of the block theorem
        x_idx = [i for i, (c, _) in enumerate(pairs) if c.get('xkind')]
        mx = run_model_par(5, [m_inputs[i] for i in x_idx]) if x_idx else []
        outcome = {}
        for i, o in zip(x_idx, mx):
            outcome[i] = (o[0], (o[1][0] if o[1] else None))
            mv[i] = o[2]
        xh = {}
        tm['model_s'] = round(time.time() - t0, 1)
        self.cov['precondition_hit_rate'] = round(sum(pre) / max(1, len(pre)), 4)
        # the model's own state machine (mode 4: run_ops) against the per-request consensus of the fragments the harness holds
        base_off = len(cases) + len(cli_pairs)
        m4_in = []
        for hi, off, cnt in hist_index:
            m4_in.append(self.history_model_input(hists[hi], ptab))
        if self.n_known_skipped:
            m4_in, hist_index = [], []      # offsets are shifted by the left-out cases; the proof covers run_ops anyway
        m4 = run_model_par(4, m4_in) if m4_in else []
        m4_bad = 0
        for (hi, off, cnt), ans in zip(hist_index, m4):
            if ans != [mv[base_off + off + j] for j in range(cnt)]:
                m4_bad += 1
                dis.append({'fn': 'run_ops', 'what': 'model state machine (mode 4) and per-request model consensus differ', 'history': hi})
        self.cov['histories']['model_run_ops_checked'] = len(m4)
        n_calls = n_excl_near = n_excl_tie = n_ties = n_rec = 0
        md_dec_in, md_dec_meta = [], []
        samples = []
        n_qual = n_qual_near = n_multi = n_multi_refuting = 0
        for i, ((c, im), out) in enumerate(zip(pairs, mv)):
            if i in outcome:
                # compared: records or none.  Which exception says "none" is left free (recorded in the evidence)
                kind, kcontig = outcome[i]
                model_none = kind != 0 or not out
                impl_none = bool(im.get('error')) or not im.get('records')
                key = '%s: model %s, impl %s' % (c['xkind'], ['records' if out else 'no record', 'ValueError', 'AttributeError'][kind],
                                                 im['error'].split(':')[0] if im.get('error') else ('records' if im.get('records') else 'no record'))
                xh[key] = xh.get(key, 0) + 1
                if model_none != impl_none:
                    dis.append({'fn': 'outcome', 'case': i, 'what': key, 'impl_error': im.get('error'), 'input': c, 'case_obj': c})
                    continue
                if model_none:
                    continue
                if is_multicontig(c):
                    n_multi += 1
                    n_multi_refuting += refutes_on_contig(c, im)
            elif im.get('error'):
                dis.append({'fn': 'consensus', 'case': i, 'impl_error': im['error'], 'input': c})
                continue
            m = expected_meta(c)
            if 'added' in im and (im['added'] != m['nfrag'] or im['overflow'] != m['overflow']):
                skipped_assoc += 1
                continue
            exp = decode_model(out)
            got = im['records']
            if 'returned' in im and im['returned'] != len(got):
                dis.append({'fn': 'write', 'case': i, 'what': '%d records returned, %d in the BAM' % (im['returned'], len(got))})
            if len(exp) != len(got):
                dis.append({'fn': 'consensus', 'case': i, 'what': 'record count', 'model': len(exp), 'impl': len(got), 'input': c})
                continue
            ob = observations(c)
            for e, g_ in zip(exp, got):
                n_rec += 1
                d = {}
                if g_['start'] != e['start']: d['start'] = (e['start'], g_['start'])
                if g_['cigar'] != e['cigar']: d['cigar'] = (e['cigar'], g_['cigar'])
                if g_['nqual'] != len(e['seq']): d['nqual'] = (len(e['seq']), g_['nqual'])
                if g_['flag'] != (16 if e['reverse'] else 0): d['flag'] = (16 if e['reverse'] else 0, g_['flag'])
                if g_['mapq'] != e['mapq']: d['mapq'] = (e['mapq'], g_['mapq'])
                if g_['contig'] != m['chrom']: d['contig'] = (m['chrom'], g_['contig'])
                t = g_['tags']
                for k in ('SM', 'DS', 'RX', 'BC', 'MI', 'TF'):
                    if t.get(k) != e[k]: d[k] = (e[k], t.get(k))
                masked = False
                if len(g_['seq']) != len(e['seq']):
                    d['seq'] = (e['seq'], g_['seq'])
                else:
                    pos = [p for s, en in (cigar_blocks(e['start'], e['cigar']) or []) for p in range(s, en)]
                    gq = g_.get('qual') or []
                    for j, (p, a, b, cl) in enumerate(zip(pos, e['seq'], g_['seq'], e['classes'])):
                        n_calls += 1
                        if cl == 2:
                            n_excl_near += 1; masked = True; continue
                        if cl == 1:
                            n_ties += 1
                            if not tie_is_order_safe(ob.get(p, [])):
                                n_excl_tie += 1; masked = True; continue
                        if a != b:
                            d['seq'] = {'position': p, 'model': a, 'impl': b, 'observations': ob.get(p, [])[:20]}
                            break
                        # the phred quality of the call (only outside the stated margin around a rounding threshold)
                        if len(gq) == len(e['qual']):
                            if cl == 0 and phred_of_column(ob.get(p, []), ptab)[1] == 'near':
                                n_qual_near += 1
                            else:
                                n_qual += 1
                                if gq[j] != e['qual'][j]:
                                    d['qual'] = {'position': p, 'base': a, 'model': e['qual'][j], 'impl': gq[j], 'observations': ob.get(p, [])[:20]}
                                    break
                    if len(gq) != len(e['qual']) and 'nqual' not in d:
                        d['qual'] = {'what': 'number of qualities', 'model': len(e['qual']), 'impl': len(gq)}
                if not masked and t.get('MD') != e['md']:
                    d['md'] = (e['md'], t.get('MD'))
                if g_.get('md_error') or g_.get('md_bad'):
                    d['pysam_md'] = (g_.get('md_error'), g_.get('md_bad', [])[:6])
                # Coq-side readers applied to the implementation's record (mode 2 / mode 3)
                md_dec_in.append([t.get('MD', ''), g_['seq']])
                md_dec_meta.append((i, g_))
                if d:
                    dis.append({'fn': 'record', 'case': i, 'diff': d, 'input': c if len(json.dumps(c)) < 6000 else 'large (see replay)', 'case_obj': c})
            if len(samples) < 3 and len(got) > 1:
                samples.append({'klass': c['klass'], 'max_N_span': c['max_N_span'],
                                'reads': [[r['pos'], ''.join('%d%s' % (n, 'MIDNSHP=X'[op]) for op, n in r['cigar'])] for r in case_reads(c)[0]],
                                'impl': [[g_['start'], ''.join('%d%s' % (n, 'MIDNSHP=X'[op]) for op, n in g_['cigar']), g_['tags'].get('MD')] for g_ in got]})
        # the quality function alone: the model's phred (mode 6) against extract_stretch_from_dict on probe probabilities
        ph = res.get('phred', {})
        n_probe = n_probe_near = 0
        if ph.get('error'):
            # extract_stretch_from_dict could not be called on its own (renamed / other signature / needs more of the
            # molecule): not a disagreement - the qualities are compared through the records anyway
            self.cov['phred_probes'] = {'compared': 0, 'unavailable': ph['error'][:300]}
            self.notes.append('quality probes skipped: extract_stretch_from_dict could not be called stand-alone (%s)' % ph['error'][:200])
        else:
            mq = fw.run_model('C15', 6, [[[], [], [], [], [], [], pr] for pr in probes])
            band = {}
            for pr, (q, X), got in zip(probes, mq, ph['phred']):
                if any(abs(X - T) <= (1 << 20) + (X >> 30) for T in TTAB):
                    n_probe_near += 1
                    continue
                n_probe += 1
                band[q] = band.get(q, 0) + 1
                if q != got:
                    dis.append({'fn': 'phred', 'what': 'quality of probability %d/%d (= %.17g): model %d, extract_stretch_from_dict %d'
                                % (pr[0], pr[1], pr[0] / pr[1], q, got), 'case_obj': {'probability_of_the_call': pr, 'as_float': pr[0] / pr[1]}})
                    break
            if ph.get('default') != ['N', 0]:
                dis.append({'fn': 'phred', 'what': 'a position without observation reads %r, model (N, quality 0)' % (ph.get('default'),),
                            'case_obj': {'base_call_dict': {}, 'position': 'any'}})
            self.cov['phred_probes'] = {'compared': n_probe, 'excluded_within_margin_of_a_threshold': n_probe_near,
                                        'quality_values_hit': len(band), 'rule': 'probabilities placed 2^-35 .. 5% on both sides of each of the 90 '
                                        'rounding thresholds, at the clip bounds, and log-uniform; model mode 6 vs the real extract_stretch_from_dict'}
        # the Coq MD reader and CIGAR walk on the implementation's records
        dec = fw.run_model('C15', 2, md_dec_in) if md_dec_in else []
        walk = fw.run_model('C15', 3, [[g_['start'], g_['cigar']] for _, g_ in md_dec_meta]) if md_dec_in else []
        for (i, g_), dd, ww in zip(md_dec_meta, dec, walk):
            c = pairs[i][0]
            posw, qlen = ww
            want = [ord(chrom_ref(c)[p].upper()) for p in posw] if all(0 <= p < len(c['ref']) for p in posw) else None
            if not dd or dd[0] != want:
                dis.append({'fn': 'md_decode', 'case': i, 'what': 'Coq MD reader on the implementation record does not give the reference',
                            'md': g_['tags'].get('MD'), 'case_obj': c})
            if qlen != len(g_['seq']) or [list(b) for b in _blocks_of(posw)] != g_['blocks']:
                dis.append({'fn': 'expand', 'case': i, 'what': 'Coq CIGAR walk differs from pysam blocks / query length', 'case_obj': c})
        self.cov.update({
            'records_compared': n_rec, 'base_calls_compared': n_calls - n_excl_near - n_excl_tie,
            'base_calls_excluded_near_tie': n_excl_near, 'exact_ties': n_ties, 'exact_ties_excluded_order_sensitive': n_excl_tie,
            'qualities_compared': n_qual, 'qualities_excluded_near_threshold': n_qual_near,
            'request_outcomes': {'cases': len(x_idx), 'by_kind_model_impl': xh,
                                 'multi_contig_cases_with_records': n_multi,
                                 'multi_contig_cases_refuting_the_statement (finding D35)': n_multi_refuting},
            'cases_skipped_fragment_association': skipped_assoc,
            'traces_validated_against_impl': len(pairs) - skipped_assoc, 'disagreements': len(dis),
        })
        self.cov['samples'] = (samples + self.cov['samples'])[:4] + [
            {'history_on_one_object': im['hist'], 'records': [[g_['start'], ''.join('%d%s' % (n, 'MIDNSHP=X'[op]) for op, n in g_['cigar'])]
                                                               for g_ in im['records']]} for c, im in hist_pairs[-2:]]
        # vm_compute cross-check of the extracted model on a sample
        small = [i for i, (c, _) in enumerate(pairs) if sum(len(r['seq']) for r in case_reads(c)[0]) < 160]
        idx = sorted(self.rng.sample(small, min(90, len(small)))) if small else []   # + 20 whole requests (mode 5) below
        t0 = time.time()
        idx = [i for i in idx if i not in outcome][:80]
        ok, nm, log = fw.vm_crosscheck('C15', 0, [(m_inputs[i], mv[i]) for i in idx])
        self.cov['vm_compute_crosscheck'] = {'cases': len(idx), 'mismatches': nm}
        if not ok:
            raise fw.Broken('extraction', 'vm_compute and extracted model disagree: ' + log[-800:])
        xs = [k for k, i in enumerate(x_idx) if sum(len(r['seq']) for r in case_reads(pairs[i][0])[0]) < 110]
        xs = sorted(self.rng.sample(xs, min(20, len(xs)))) if xs else []
        if xs:
            ok, nm, log = fw.vm_crosscheck('C15', 5, [(m_inputs[x_idx[k]], mx[k]) for k in xs])
            self.cov['vm_compute_crosscheck_request_mode'] = {'cases': len(xs), 'mismatches': nm}
            if not ok:
                raise fw.Broken('extraction', 'vm_compute and extracted model disagree (mode 5): ' + log[-800:])
        tm['vm_s'] = round(time.time() - t0, 1)
        if dis or spec_bad:
            self.dis = dis
            first = dis[0] if dis else {'spec': spec_bad[0][2][:2]}
            first = {k: v for k, v in first.items() if k != 'case_obj'}
            raise fw.Broken('correspondence', 'model and implementation disagree on %d records/cases (spec fails on %d molecules); first: %s'
                            % (len(dis), len(spec_bad), json.dumps(first, default=str)[:1500]))

    # ---------------------------------------------------------------- known findings
    def replay_known(self, finding):
        """re-run the recorded corpus case of a finding on the implementation; True while it still fails the same way"""
        fn = {KEY_D31: 'd31_no_cut_site.json', 'C15:md': 'd18_md_gap.json', 'C15:error:AttributeError': 'd17_np_product.json',
              KEY_D35: 'd35_multicontig.json'}.get(finding.get('key'))
        if fn is None:
            return False
        c = json.load(open(os.path.join(fw.VERIF, 'corpus', 'C15', fn)))['case']
        res = fw.run_impl('impl_c15.py', {'api': [c], 'cli': []})
        if finding.get('key') == KEY_D35:
            return refutes_on_contig(c, res['api'][0])
        keys = set()
        for key, text in self.spec_violations(c, res['api'][0], res['ptab']):
            keys.add('C15:%s' % (('error:' + text.split(':')[0].replace('consensus raised ', '')) if key == 'error' else key))
        return finding.get('key') in keys

    def matches(self, finding, witness):
        # narrow: the same kind of failure AND (for D31) a molecule without a cut site
        if finding.get('key') != witness.get('key'):
            return False
        if finding.get('key') == KEY_D31:
            return isinstance(witness.get('input'), dict) and witness['input'].get('klass') == 'base'
        return True

    # ---------------------------------------------------------------- search
    def search(self):
        """specification = Python transcription of the theorem statements (spec_violations) evaluated on the
        implementation's re-parsed records; the model is not needed.  Smallest failing molecule per kind."""
        if not hasattr(self, 'res_'):
            cases, libs = self.cases(), self.cli_libs()
            res = fw.run_impl('impl_c15.py', {'api': cases, 'cli': libs})
            self.cases_, self.libs_, self.res_, self.ptab_ = cases, libs, res, res['ptab']
            self.cli_pairs, self.cli_problems = [], []
            self.spec_bad = []
            for c, im in zip(cases, res['api']):
                vs = self.spec_violations(c, im, res['ptab'])
                if vs:
                    self.spec_bad.append((c, im, vs))
            for lib, out in zip(libs, res['cli']):
                if out.get('error'):
                    self.cli_problems.append({'impl_error': out['error']})
        best = {}
        for c, im, vs in self.spec_bad:
            size = sum(len(r['seq']) for f in c['fragments'] for r in f['reads'] if r is not None)
            for key, text in vs:
                if key not in best or size < best[key][0]:
                    best[key] = (size, c, im, text)
        for key, (size, c, im, text) in sorted(best.items()):
            small = {k: v for k, v in c.items() if k != 'ref'}
            self.witnesses.append({
                'key': 'C15:%s' % (('error:' + text.split(':')[0].replace('consensus raised ', '')) if key == 'error' else key),
                'what': '%s [%s molecule, %d fragment(s), max_N_span=%r, path=%s]%s' % (
                    text, c['klass'], len(c['fragments']), c['max_N_span'], 'cli' if im.get('cli') else c['path'],
                    (' on ONE molecule object after the history: ' + im['hist']) if im.get('hist') else ''),
                'input': dict(small, history=im['history_ops'], note='fragments = all fragments held by the object at the failing request, '
                              'in the order they were added') if im.get('hist') else small, 'impl': [{k: r[k] for k in ('start', 'cigar', 'seq', 'tags')} for r in im.get('records', [])][:4],
                'expected': 'blocks = covered positions; |seq|=|qual|=sum M; MD read against the query = reference; arg-max call; '
                            'SM/RX/DS/TF of the molecule'})
        for pr in self.cli_problems[:1]:
            lib = self.libs_[pr['lib']] if 'lib' in pr else None
            self.witnesses.append({'key': 'C15:cli', 'what': 'bamtagmultiome --consensus --multiprocess: %s' % json.dumps(pr, default=str)[:800],
                                   'input': None if lib is None else {
                                       'argv': '-method %s --consensus --multiprocess%s' % (lib['klass'], ' --no_source_reads' if lib['no_source'] else ''),
                                       'molecules': [{'sample': m['sample'], 'umi': m['umi'],
                                                      'reads': [[r['pos'], ''.join('%d%s' % (n, 'MIDNSHP=X'[op]) for op, n in r['cigar']), r['seq'], 'rev' if r['rev'] else 'fwd']
                                                                for f in m['fragments'] for r in f['reads'] if r is not None]} for m in lib['molecules']]}})
        # disagreements with the model that the transcribed specification does not see
        if not self.witnesses:
            for d in getattr(self, 'dis', [])[:1]:
                c = d.get('case_obj')
                self.witnesses.append({'key': 'C15:model-diff:%s' % d.get('fn'), 'what': 'record differs from the model: %s'
                                       % json.dumps({k: v for k, v in d.items() if k not in ('case_obj', 'input')}, default=str)[:1200],
                                       'input': {k: v for k, v in c.items() if k != 'ref'} if c else None})


def run_model_par(mode, inputs, workers=8):
    """fw.run_model over several processes (the extracted model computes with inductive binary numbers)"""
    from concurrent.futures import ThreadPoolExecutor
    if len(inputs) < 40:
        return fw.run_model('C15', mode, inputs)
    k = workers * 3
    chunks = [inputs[i::k] for i in range(k)]
    with ThreadPoolExecutor(max_workers=workers) as ex:
        outs = list(ex.map(lambda ch: fw.run_model('C15', mode, ch) if ch else [], chunks))
    res = [None] * len(inputs)
    for i, o in enumerate(outs):
        res[i::k] = o
    return res


def im_keys(impl):
    return impl.keys() if isinstance(impl, dict) else ()


def _blocks_of(pos):
    out = []
    for p in pos:
        if out and out[-1][1] == p:
            out[-1][1] = p + 1
        else:
            out.append([p, p + 1])
    return out
