"""runs the REAL barcodeFileParser (hamming_circle, BarcodeParser) for C03.

payload:
  groups : [{'k': int, 'lazy': None | '*' | [alias...], 'files': [{'name', 'content', 'gz'}],
             'queries': [[alias, [q, ...]], ...]}]      one scratch barcode directory + one parser per group
           a query is an observed string (lookup) or {'op': 'getitem'} (parser[alias]) or {'op': 'count'}
           (getTargetCount(alias)); the history of an alias is run in the given order
  api    : [{'k': int, 'adds': [[barcode, index], ...], 'queries': [q...]}]   addBarcode + expand (demux --si path)
  circle : [[s, n], ...]                                hamming_circle(s, n, 'ACTGN')
  shipped: [{'dir': 'barcodes'|'indices', 'k', 'lazy', 'queries': [[alias, [q...]], ...]}]
  pfiles : [{'text': str, 'gz': bool, 'lazy': bool, 'suffix': str}]   one real barcode file each (utf-8 bytes exactly as given,
           plain or gzip), read by parse_barcode_file on a fresh parser (lazy: by a lazyLoad='*' parser at the first
           parser[alias]); result per file: {'items': [[barcode, ['i', decimal string] | ['s', token]], ...]} (the
           barcode -> index mapping of the alias, the observable) or {'error': ..}
  a group file with 'raw': true is written as utf-8 bytes without newline translation
"""
import gzip, os, sys, io
import fw


def ask(parser, alias, qs):
    out = []
    for q in qs:
        try:
            if isinstance(q, dict):
                if q['op'] == 'getitem':            # parser[alias]  (__getitem__)
                    m = parser[alias]
                    out.append({'items': None if m is None else [[k, v] for k, v in m.items()]})
                elif q['op'] == 'count':            # getTargetCount(alias)
                    out.append({'count': list(parser.getTargetCount(alias))})
                else:
                    out.append({'error': 'unknown op %r' % (q,)})
                continue
            r = parser.getIndexCorrectedBarcodeAndHammingDistance(q, alias)
            if r is None or (r[0] is None and r[1] is None and r[2] is None):
                out.append(None)
            else:
                out.append([r[0], r[1], r[2]])
        except BaseException as e:
            out.append({'error': '%s: %s' % (type(e).__name__, e)})
    return out


def tables_of(parser, alias):
    """the two lookup tables of an alias as item lists (state named by the property's anchors)"""
    try:
        return {'exact': [[k, v] for k, v in parser.barcodes[alias].items()],
                'extended': [[k, list(v)] for k, v in parser.extendedBarcodes[alias].items()]}
    except BaseException as e:
        return {'error': '%s: %s' % (type(e).__name__, e)}


def write_file(p, content, gz, raw=False):
    if raw:
        data = content.encode('utf-8')
        with (gzip.open(p, 'wb') if gz else open(p, 'wb')) as h:
            h.write(data)
    elif gz:
        with gzip.open(p, 'wt') as h:
            h.write(content)
    else:
        with open(p, 'w') as h:
            h.write(content)


def enc_index(v):
    if isinstance(v, bool):
        return ['?', repr(v)]
    if isinstance(v, int):
        return ['i', str(v)]
    if isinstance(v, str):
        return ['s', v]
    return ['?', repr(v)[:80]]


def mapping_items(parser, alias):
    """barcode -> index of the one alias this parser has read (public accessors; several fallbacks)"""
    m = None
    try:
        m = parser.getBarcodeMapping().get(alias)
    except Exception:
        m = None
    if m is None:
        m = parser[alias]
    return [[b, enc_index(i)] for b, i in (m or {}).items()]


def run_pfile(B, f, n, shared):
    """eager: parse_barcode_file on a parser shared by up to 50 files (every file has its own alias);
    lazy: its own directory and a lazyLoad='*' parser, loaded by the first parser[alias]"""
    alias = 'f%d' % n
    name = alias + f.get('suffix', '.bc') + ('.gz' if f.get('gz') else '')
    d = os.path.join(os.environ['SCMO_SCRATCH'], ('pf%d' % n) if f.get('lazy') else 'pf')
    os.makedirs(d, exist_ok=True)
    p = os.path.join(d, name)
    write_file(p, f['text'], f.get('gz'), raw=True)
    try:
        if f.get('lazy'):
            parser = B.BarcodeParser(barcodeDirectory=d, hammingDistanceExpansion=0, lazyLoad='*')
            try:                                   # the alias the code derives from the file name (only .bc / .gz are dropped)
                alias = parser.path_to_barcode_alias(p)
            except Exception:
                alias = os.path.splitext(os.path.basename(p))[0].replace('.gz', '').replace('.bc', '')
            m = parser[alias]                      # parse_pending_barcode_file_of_alias
            return {'items': [[b, enc_index(i)] for b, i in (m or {}).items()]}
        if shared.get('n', 50) >= 50:
            shared['parser'] = B.BarcodeParser(barcodeDirectory=os.path.join(d, 'nonexistent'))
            shared['n'] = 0
        shared['n'] += 1
        parser = shared['parser']
        try:
            alias = parser.path_to_barcode_alias(p)
        except Exception:
            alias = os.path.splitext(os.path.basename(p))[0].replace('.gz', '').replace('.bc', '')
        try:
            parser.parse_barcode_file(p)
        except BaseException:
            shared['n'] = 50                       # a refused file may leave a half-read alias behind: fresh parser next
            raise
        return {'items': mapping_items(parser, alias)}
    except BaseException as e:
        return {'error': '%s: %s' % (type(e).__name__, str(e)[:200])}
    finally:
        try:
            os.remove(p)
            if f.get('lazy'):
                os.rmdir(d)
        except OSError:
            pass


def run_group(B, g, n):
    d = os.path.join(os.environ['SCMO_SCRATCH'], 'g%d' % n)
    os.makedirs(d)
    for f in g['files']:
        p = os.path.join(d, f['name'])
        write_file(p, f['content'], f.get('gz'), f.get('raw'))
    lazy = g['lazy']
    if isinstance(lazy, list):
        lazy = tuple(lazy)
    try:
        parser = B.BarcodeParser(barcodeDirectory=d, hammingDistanceExpansion=g['k'], lazyLoad=lazy)
    except BaseException as e:
        return {'error': '%s: %s' % (type(e).__name__, e)}
    res = []
    for alias, qs in g['queries']:
        res.append(ask(parser, alias, qs))
    return {'answers': res, 'pending_after': sorted(parser.pending_files.keys()),
            'tables': {a: tables_of(parser, a) for a in g.get('dump', [])}}


def handler(p):
    old = sys.stdout
    sys.stdout = io.StringIO()
    try:
        import singlecellmultiomics.barcodeFileParser.barcodeFileParser as B
        out = {'groups': [], 'api': [], 'circle': [], 'shipped': [], 'pfiles': []}
        out['maxd'] = sys.get_int_max_str_digits() if hasattr(sys, 'get_int_max_str_digits') else 0
        shared = {}
        for n, f in enumerate(p.get('pfiles', [])):
            out['pfiles'].append(run_pfile(B, f, n, shared))
        for n, g in enumerate(p.get('groups', [])):
            out['groups'].append(run_group(B, g, n))
        for a in p.get('api', []):
            try:
                parser = B.BarcodeParser(barcodeDirectory=os.path.join(os.environ['SCMO_SCRATCH'], 'nonexistent'))
                for bc, idx in a['adds']:
                    parser.addBarcode(barcodeFileAlias='user', barcode=bc, index=idx, hammingDistance=0,
                                      originBarcode=None)
                parser.expand(a['k'], alias='user')
                out['api'].append({'answers': ask(parser, 'user', a['queries']), 'tables': {'user': tables_of(parser, 'user')}})
            except BaseException as e:
                out['api'].append({'error': '%s: %s' % (type(e).__name__, e)})
        for s, n in p.get('circle', []):
            try:
                out['circle'].append(list(B.hamming_circle(s, n, 'ACTGN')))
            except BaseException as e:
                out['circle'].append({'error': '%s: %s' % (type(e).__name__, e)})
        import singlecellmultiomics
        base = os.path.join(os.path.dirname(os.path.abspath(singlecellmultiomics.__file__)), 'modularDemultiplexer')
        for s in p.get('shipped', []):
            try:
                lazy = s['lazy']
                if isinstance(lazy, list):
                    lazy = tuple(lazy)
                parser = B.BarcodeParser(barcodeDirectory=os.path.join(base, s['dir']),
                                         hammingDistanceExpansion=s['k'], lazyLoad=lazy)
                out['shipped'].append({'answers': [ask(parser, alias, qs) for alias, qs in s['queries']]})
            except BaseException as e:
                out['shipped'].append({'error': '%s: %s' % (type(e).__name__, e)})
        return out
    finally:
        sys.stdout = old


fw.impl_main(handler)
