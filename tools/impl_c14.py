"""runs the REAL TAPS methylation caller for C14.

payload: {'cases': [case...], 'histories': [{'contigs': [seq...], 'refkind':..., 'mols': [case without ref + 'contig': index]}], 'table': bool}
case: {'ref': str, 'refkind': 'pysam'|'cached'|'cachednh', 'klass': 'chic'|'nla', 'taps_strand': 'F'|'R'|None(class default),
       'unsafe': bool, 'invert': bool, 'kw': {dove_R1_distance, dove_R2_distance, min_phred_score} or None,
       'frags': [[readspec|None, readspec|None], ...]}
readspec: {'start': int, 'cigar': [[op,len]...], 'seq': str, 'qual': [int...], 'rev': bool, 'md': bool}

For every case the script builds real pysam reads, real CHICFragment/NlaIIIFragment objects, a real
TAPSCHICMolecule/TAPSNlaIIIMolecule with a real pysam.FastaFile (or CachedFasta wrapper) as reference,
calls molecule.__finalise__() and reports (a) the abstraction of the molecule the model takes as input,
computed with pysam's own API from the objects the molecule really holds, (b) methylation_call_dict and
the tags written to the reads.
"""
import os, sys
import fw

CODES = {'M': 0, 'I': 1, 'D': 2, 'N': 3, 'S': 4}


def make_md(refseq, start, cigar, seq):
    """MD tag (samtools calmd convention: N never matches) for an alignment"""
    out, run, rp, qp = [], 0, start, 0
    for op, ln in cigar:
        if op == 0:
            for _ in range(ln):
                r, q = refseq[rp].upper(), seq[qp].upper()
                if r == q and r != 'N':
                    run += 1
                else:
                    out.append(str(run)); out.append(r); run = 0
                rp += 1; qp += 1
        elif op == 1 or op == 4:
            qp += ln
        elif op == 2:
            out.append(str(run)); out.append('^' + refseq[rp:rp + ln].upper()); run = 0
            rp += ln
        elif op == 3:
            rp += ln
    out.append(str(run))
    return ''.join(out)


def build_read(header, contig, refseq, spec, name, first):
    import pysam
    a = pysam.AlignedSegment(header)
    a.query_name = name
    a.reference_name = contig
    a.reference_start = spec['start']
    a.query_sequence = spec['seq']
    a.cigartuples = [tuple(c) for c in spec['cigar']]
    import array
    a.query_qualities = array.array('B', spec['qual'])
    a.mapping_quality = 60
    a.is_paired = True
    a.is_proper_pair = True
    a.is_reverse = bool(spec['rev'])
    a.is_read1 = first
    a.is_read2 = not first
    a.set_tag('SM', 'Cell_A')
    a.set_tag('RX', 'ACG')
    a.set_tag('lh', 'TG')
    if spec.get('md', True):
        a.set_tag('MD', make_md(refseq, spec['start'], a.cigartuples, spec['seq']))
    return a


def abstract_read(r):
    if r is None:
        return None
    has_md = r.has_tag('MD')
    seq, quals = r.query_sequence, r.query_qualities
    if has_md:
        pairs = [[rp, ord(seq[qp]), int(quals[qp]), ord(rb)]
                 for qp, rp, rb in r.get_aligned_pairs(matches_only=True, with_seq=True)]
    else:
        pairs = [[rp, ord(seq[qp]), int(quals[qp]), 0] for qp, rp in r.get_aligned_pairs(matches_only=True)]
    return [[1 if r.is_reverse else 0, r.reference_start, r.reference_end, 1 if has_md else 0, pairs]]


def raw_read(r):
    """what pysam gives for one mate, nothing derived: is_reverse, MD present, query_sequence, query_qualities and
    the entries of get_aligned_pairs(with_seq=True) (without MD: get_aligned_pairs(), reference character 0);
    None -> -1.  This is the input of the Coq model of the molecule abstraction (Model/C14x.v, mode 6)."""
    if r is None:
        return None
    has_md = r.has_tag('MD')
    if has_md:
        ap = [[-1 if q is None else q, -1 if p is None else p, 0 if b is None else ord(b)]
              for q, p, b in r.get_aligned_pairs(with_seq=True)]
    else:
        ap = [[-1 if q is None else q, -1 if p is None else p, 0] for q, p in r.get_aligned_pairs()]
    return [[1 if r.is_reverse else 0, 1 if has_md else 0, [ord(ch) for ch in r.query_sequence],
             [int(x) for x in r.query_qualities], ap]]


TAGS = ['MC', 'uC', 'sZ', 'sz', 'sX', 'sx', 'sH', 'sh']


def build_frag(case, contig, header, specs, name):
    from singlecellmultiomics.fragment import NlaIIIFragment, CHICFragment
    s1, s2 = specs
    r1 = build_read(header, contig, case['ref'], s1, name, True) if s1 is not None else None
    r2 = build_read(header, contig, case['ref'], s2, name, False) if s2 is not None else None
    if case['klass'] == 'chic':
        return CHICFragment([r1, r2], invert_strand=case['invert'], assignment_radius=100000)
    return NlaIIIFragment([r1, r2], invert_strand=case['invert'], check_motif=False, assignment_radius=100000)


def new_molecule(case, reference, taps, frag):
    from singlecellmultiomics.molecule import TAPSNlaIIIMolecule, TAPSCHICMolecule
    kwargs = dict(reference=reference, taps=taps, allow_unsafe_base_calls=case['unsafe'])
    if case['taps_strand'] is not None:
        kwargs['taps_strand'] = case['taps_strand']
    if case.get('kw') is not None:
        kwargs['methylation_consensus_kwargs'] = dict(case['kw'])
    klass = TAPSCHICMolecule if case['klass'] == 'chic' else TAPSNlaIIIMolecule
    return klass(frag, **kwargs)


def grow(mol, frags, force):
    for f in frags:
        if not mol.add_fragment(f) and force:
            mol._add_fragment(f)      # a fragment the matcher refuses (no site / other anchor) is attached anyway


def finalise_and_report(mol, contig):
    """abstraction of the molecule as it is NOW, then __finalise__, then what it holds / wrote"""
    res = {'taps_strand_used': mol.taps_strand,
           'strand': None if mol.strand is None else (1 if mol.strand else 0),
           'abstract': [[abstract_read(f.reads[0]), abstract_read(f.reads[1])] for f in mol.fragments],
           'raw': [[raw_read(f.reads[0]), raw_read(f.reads[1])] for f in mol.fragments],
           'n_frags': len(mol.fragments)}
    try:
        mol.__finalise__()
    except BaseException as e:
        res['error'] = '%s: %s' % (type(e).__name__, e)
        return res
    d = mol.methylation_call_dict
    if d is None:
        res['calls'] = None
    else:
        res['calls'] = sorted([k[1], d[k]['consensus'], d[k]['context'], int(d[k]['cov']), d[k]['reference_base'], k[0] == contig]
                              for k in d)
    tags = []
    for read in mol.iter_reads():
        if read.has_tag('XM'):
            tags.append([read.get_tag('XM')] + [int(read.get_tag(t)) for t in TAGS])
        else:
            tags.append(None)
    res['tags'] = tags
    return res


def run_case(case, contig, header, refhandles, taps=None):
    from singlecellmultiomics.molecule import TAPS
    if taps is None:
        taps = TAPS()
    frags = [build_frag(case, contig, header, sp, 'f%d' % i) for i, sp in enumerate(case['frags'])]
    mol = new_molecule(case, refhandles[case['refkind']], taps, frags[0])
    grow(mol, frags[1:], case.get('force'))
    return finalise_and_report(mol, contig)


def run_mhist(case, contig, header, refhandles):
    """a history on ONE molecule object.  ops: ['add', fragspec] | ['raw', fragspec] | ['mol', [fragspec...], fin_other]
    | ['fin'] ; the first op is an 'add' (constructor).  Returns per op: number of fragments the molecule gained, and
    for 'fin' the report."""
    from singlecellmultiomics.molecule import TAPS
    taps = TAPS()
    reference = refhandles[case['refkind']]
    mol, out, n = None, [], 0
    for op in case['ops']:
        n += 1
        if op[0] == 'fin':
            out.append({'fin': finalise_and_report(mol, contig)})
            continue
        before = len(mol.fragments) if mol is not None else 0
        if op[0] == 'add':
            f = build_frag(case, contig, header, op[1], 'f%d' % n)
            if mol is None:
                mol = new_molecule(case, reference, taps, f)
            else:
                mol.add_fragment(f)
        elif op[0] == 'raw':
            mol._add_fragment(build_frag(case, contig, header, op[1], 'f%d' % n))
        elif op[0] == 'mol':
            fs = [build_frag(case, contig, header, sp, 'f%d_%d' % (n, k)) for k, sp in enumerate(op[1])]
            other = new_molecule(case, reference, taps, fs[0])
            grow(other, fs[1:], True)
            if op[2]:
                try:
                    other.__finalise__()
                except BaseException:
                    pass
            mol.add_molecule(other)
        gained = mol.fragments[before:]
        out.append({'gained': [[abstract_read(f.reads[0]), abstract_read(f.reads[1])] for f in gained]})
    return out


def dump_table():
    from singlecellmultiomics.molecule import TAPS
    t = TAPS()
    cm = t.context_mapping
    return {'keys': sorted(repr(k) for k in cm.keys()),
            'False': [[k, v] for k, v in cm[False].items()], 'True': [[k, v] for k, v in cm[True].items()],
            'types_ok': all(isinstance(k, str) and isinstance(v, str) for b in (False, True) for k, v in cm[b].items())
                        and set(cm.keys()) == {False, True}}


def handler(p):
    import pysam
    from pysamiterators import CachedFasta
    from singlecellmultiomics.fastaProcessing import CachedFastaNoHandle
    old = sys.stdout
    devnull = open(os.devnull, 'w')
    out = {}
    sys.stdout = devnull
    try:
        if p.get('table'):
            out['table'] = dump_table()
        cases = p.get('cases', [])
        hists = p.get('histories', [])
        mh = p.get('mhists', [])
        if cases or hists or mh:
            from singlecellmultiomics.molecule import TAPS
            scratch = os.environ.get('SCMO_SCRATCH', '.')
            fa = os.path.join(scratch, 'ref.fa')
            sq = []
            with open(fa, 'w') as f:
                for i, c in enumerate(cases):
                    f.write('>c%d\n%s\n' % (i, c['ref']))
                    sq.append({'SN': 'c%d' % i, 'LN': len(c['ref'])})
                for i, h in enumerate(hists):
                    for j, seq in enumerate(h['contigs']):
                        f.write('>h%d_%d\n%s\n' % (i, j, seq))
                        sq.append({'SN': 'h%d_%d' % (i, j), 'LN': len(seq)})
                for i, c in enumerate(mh):
                    f.write('>m%d\n%s\n' % (i, c['ref']))
                    sq.append({'SN': 'm%d' % i, 'LN': len(c['ref'])})
            pysam.faidx(fa)
            header = pysam.AlignmentHeader.from_dict({'HD': {'VN': '1.6'}, 'SQ': sq})
            handle = pysam.FastaFile(fa)
            refhandles = {'pysam': handle, 'cached': CachedFasta(handle), 'cachednh': CachedFastaNoHandle(fa)}
            # a SECOND reference with the same contig names and lengths but other sequences (the contigs of every history
            # rotated by one name): one TAPS object is handed molecules of both references, so anything it remembers
            # about (contig name, position) without the reference is stale for the other one
            fa2 = os.path.join(scratch, 'ref_alt.fa')
            with open(fa2, 'w') as f:
                for i, h in enumerate(hists):
                    n = len(h['contigs'])
                    for j in range(n):
                        f.write('>h%d_%d\n%s\n' % (i, j, h['contigs'][(j + 1) % n]))
            if hists:
                pysam.faidx(fa2)
                handle2 = pysam.FastaFile(fa2)
                althandles = {'pysam': handle2, 'cached': CachedFasta(handle2), 'cachednh': CachedFastaNoHandle(fa2)}
            res = []
            for i, c in enumerate(cases):
                try:
                    res.append(run_case(c, 'c%d' % i, header, refhandles))
                except BaseException as e:
                    res.append({'harness_error': '%s: %s' % (type(e).__name__, e)})
            out['cases'] = res
            hres = []
            for i, h in enumerate(hists):
                # ONE TAPS object (and one reference handle) for all molecules of the history, as in the taggers
                taps = TAPS()
                rs = []
                for k, m in enumerate(h['mols']):
                    c = dict(m); c['ref'] = h['contigs'][m['contig']]; c['refkind'] = h['refkind']
                    alt = (k % 2 == 1) and all(len(x) == len(h['contigs'][0]) for x in h['contigs'])
                    try:
                        if alt:    # same sequence, found under another contig name of the alternate reference
                            rs.append(run_case(c, 'h%d_%d' % (i, (m['contig'] - 1) % len(h['contigs'])), header, althandles, taps=taps))
                            continue
                        rs.append(run_case(c, 'h%d_%d' % (i, m['contig']), header, refhandles, taps=taps))
                    except BaseException as e:
                        rs.append({'harness_error': '%s: %s' % (type(e).__name__, e)})
                hres.append(rs)
            out['histories'] = hres
            mres = []
            for i, c in enumerate(mh):
                try:
                    mres.append(run_mhist(c, 'm%d' % i, header, refhandles))
                except BaseException as e:
                    mres.append({'harness_error': '%s: %s' % (type(e).__name__, e)})
            out['mhists'] = mres
    finally:
        sys.stdout = old
    return out


if __name__ == '__main__':
    fw.impl_main(handler)
