"""setup: regenerate Gen/*.v from /repo, full clean .vo build, extract + compile every model."""
import importlib, os, sys, glob, shutil, time
sys.path.insert(0, os.path.dirname(os.path.abspath(__file__)))
import fw

t0 = time.time()
from claims import CLAIMS
mods = sorted(os.path.basename(p)[:-3] for p in glob.glob(os.path.join(fw.VERIF, 'tools', 'c[0-9][0-9].py'))
              if os.path.basename(p)[:-3].upper() in CLAIMS)
os.makedirs(os.path.join(fw.COQ, 'Gen'), exist_ok=True)
props = []
for m in mods:
    mod = importlib.import_module(m)
    p = mod.Prop('quick', 0)
    try:
        p.regen()
    except Exception as e:
        print('setup: regen for %s failed: %r (the check will report it)' % (m, e))
    props.append(p)
if '--clean' in sys.argv:
    shutil.rmtree(fw.BUILD, ignore_errors=True)
    shutil.rmtree(os.path.join(fw.BUILD, 'stamps'), ignore_errors=True)
    fw.sh("find . -name '*.vo' -o -name '*.vok' -o -name '*.vos' -o -name '*.glob' -o -name '.*.aux' | xargs rm -f", cwd=fw.COQ)
    for f in ('Makefile', 'Makefile.conf', '_CoqProject', '.Makefile.d'):
        try:
            os.remove(os.path.join(fw.COQ, f))
        except OSError:
            pass
fw.ensure_makefile()
targets = []
for p in props:
    targets += fw.coq_deps(p.PROPS)
ok, out = fw.coq_make(sorted(set(targets)), timeout=3000)
print('setup: coq build %s in %.0fs' % ('ok' if ok else 'FAILED', time.time() - t0))
if not ok:
    print(out[-3000:])
bad = 0
for p in props:
    if p.HAS_MODEL:
        ok2, out2 = fw.build_model(p.ID)
        if not ok2:
            bad += 1
            print('setup: model %s FAILED\n%s' % (p.ID, out2[-1500:]))
print('setup: done in %.0fs' % (time.time() - t0))
sys.exit(0 if ok and not bad else 1)
