"""C06 translator tie (T): regenerates coq/Gen/GenAssign.v from the working tree on every run.

The model (coq/Model/C06.v) is DEFINED with these generated definitions; the proofs reach them through small
shape lemmas (Proofs/C06_shape.v).  Everything is fail closed: an unrecognised statement / expression shape
raises py2coq.Untranslatable, the generated file is removed, and the check reports a broken tie.

generated definition   source
  g_fragment_eq        Fragment.__eq__            guard chain (sample, strand, spans valid, contig, radius test, umi_eq)
  g_umi_eq             Fragment.umi_eq            guard chain (equal UMI, distance-0 shortcut, length, hamming <= d)
  g_nla_eq             NlaIIIFragment.__eq__      guard chain (match_hash, umi_eq)
  g_chic_eq            CHICFragment.__eq__        guard chain (match_hash, site_location None, radius test, umi_eq)
  g_mol_span_ok        Molecule.has_valid_span    guard chain over `spanStart is not None`, `spanEnd is not None` (a span that
                                                  starts at reference position 0 is valid)
  g_nla_hash           NlaIIIFragment.__init__ + set_site   the match_hash tuple with self.strand / self.cut_site_strand /
  g_chic_hash          CHICFragment.__init__ + set_site     self.site_location replaced by what set_site stores in them
  g_tag_tf, g_tag_af   Molecule.write_tags        second argument of set_meta('TF', .) / set_meta('af', .)
  g_tag_rc, g_tag_dup  Molecule.write_tags        the `for rc, frag in enumerate(self)` loop: RC value, duplicate bit
  g_add_decision       Molecule.add_fragment (use_hash=True) with _add_fragment inlined up to the capacity test:
                       0 = return False, 1 = fragment added / return True, 2 = OverflowError
"""
import ast, hashlib, os
import fw, py2coq
from py2coq import Untranslatable

FRAG = 'singlecellmultiomics/fragment/fragment.py'
NLA = 'singlecellmultiomics/fragment/nlaIII.py'
CHIC = 'singlecellmultiomics/fragment/chic.py'
MOL = 'singlecellmultiomics/molecule/molecule.py'


def _strip_doc(body):
    if body and isinstance(body[0], ast.Expr) and isinstance(body[0].value, ast.Constant) \
            and isinstance(body[0].value.value, str):
        return body[1:]
    return body


def _load(repo, rel, qualname):
    src = open(os.path.join(repo, rel)).read()
    fn = py2coq.find_function(ast.parse(src), qualname)
    if not isinstance(fn, ast.FunctionDef):
        raise Untranslatable('%s is not a function' % qualname)
    return src, fn


def _sha(nodes):
    code = '\n'.join(ast.unparse(s) for s in nodes)
    return hashlib.sha256(code.encode()).hexdigest()


def _meta(rel, fn, sha, coq):
    return {'source': rel, 'lines': [fn.lineno, fn.end_lineno], 'sha256': sha, 'coq': coq}


# ---------------------------------------------------------------- (a) guard chains
def _chain(tr, stmts):
    """`if t: return c` ... `return e`  (an `if` with an `else` must be the last statement)"""
    if not stmts:
        raise Untranslatable('guard chain falls off the end (implicit return None)')
    st = stmts[0]
    if isinstance(st, ast.Return):
        if len(stmts) != 1 or st.value is None:
            raise Untranslatable('statement after return / bare return at line %d' % st.lineno)
        return tr.b(st.value)
    if isinstance(st, ast.If):
        body = _chain(tr, st.body)
        if st.orelse:
            if len(stmts) != 1:
                raise Untranslatable('if/else followed by more statements at line %d' % st.lineno)
            rest = _chain(tr, st.orelse)
        else:
            rest = _chain(tr, stmts[1:])
        return '(if %s then %s else %s)' % (tr.b(st.test), body, rest)
    raise Untranslatable('statement outside guard-chain subset at line %d: %s' % (st.lineno, ast.dump(st)[:120]))


def guard_chain(repo, rel, qualname, env, coqname, params):
    src, fn = _load(repo, rel, qualname)
    stmts = _strip_doc(list(fn.body))
    body = _chain(py2coq.ExprTranslator(env=env), stmts)
    sha = _sha(stmts)
    text = '(* source: %s lines %d-%d (%s) sha256(code) %s *)\nDefinition %s %s : bool :=\n  %s.' % (
        rel, fn.lineno, fn.end_lineno, qualname, sha, coqname, params, body)
    return text, _meta(rel, fn, sha, coqname)


# ---------------------------------------------------------------- (b) match_hash tuples
def _is_self_attr(n, attr):
    return isinstance(n, ast.Attribute) and n.attr == attr and isinstance(n.value, ast.Name) and n.value.id == 'self'


def site_stores(repo, rel, cls):
    """what <cls>.set_site stores in self.strand (through set_strand), self.cut_site_strand, self.site_location,
    as python expressions over its parameters; the stores must be unconditional (top level of the body)"""
    src, fn = _load(repo, rel, cls + '.set_site')
    top = _strip_doc(list(fn.body))
    stores = {}
    for st in top:
        if isinstance(st, ast.Expr) and isinstance(st.value, ast.Call) and _is_self_attr(st.value.func, 'set_strand'):
            if len(st.value.args) != 1 or st.value.keywords or 'strand' in stores:
                raise Untranslatable('%s.set_site: unexpected set_strand call at line %d' % (cls, st.lineno))
            stores['strand'] = st.value.args[0]
        elif isinstance(st, ast.Assign) and len(st.targets) == 1 and _is_self_attr(st.targets[0], 'cut_site_strand'):
            if 'cut' in stores:
                raise Untranslatable('%s.set_site: cut_site_strand stored twice' % cls)
            stores['cut'] = st.value
        elif isinstance(st, ast.Assign) and len(st.targets) == 1 and _is_self_attr(st.targets[0], 'site_location'):
            if 'loc' in stores or not (isinstance(st.value, ast.Tuple) and len(st.value.elts) == 2):
                raise Untranslatable('%s.set_site: unexpected site_location store at line %d' % (cls, st.lineno))
            stores['loc'] = st.value
    # no conditional / nested stores of these attributes
    n_found = 0
    for n in ast.walk(fn):
        if isinstance(n, ast.Call) and _is_self_attr(n.func, 'set_strand'):
            n_found += 1
        if isinstance(n, (ast.Assign, ast.AugAssign)):
            for t in (n.targets if isinstance(n, ast.Assign) else [n.target]):
                if _is_self_attr(t, 'cut_site_strand') or _is_self_attr(t, 'site_location') or _is_self_attr(t, 'strand'):
                    n_found += 1
    if n_found != len(stores):
        raise Untranslatable('%s.set_site: a conditional or repeated store of strand / cut_site_strand / site_location' % cls)
    if 'strand' not in stores or 'loc' not in stores:
        raise Untranslatable('%s.set_site: does not store strand and site_location unconditionally' % cls)
    if 'cut' not in stores:
        # not stored by set_site: the attribute keeps the value __init__ gives it, which must be the constant None
        _, init = _load(repo, rel, cls + '.__init__')
        vals = [st.value for st in ast.walk(init) if isinstance(st, ast.Assign) and len(st.targets) == 1
                and _is_self_attr(st.targets[0], 'cut_site_strand')]
        if len(vals) != 1 or not (isinstance(vals[0], ast.Constant) and vals[0].value is None):
            raise Untranslatable('%s: cut_site_strand is neither stored by set_site nor initialised to None' % cls)
        stores['cut'] = vals[0]
    return stores, top


def _store_val(n, what):
    """value stored by set_site as a Coq term over (strand contig site); None is encoded 2 like a missing strand"""
    if isinstance(n, ast.Constant) and n.value is None:
        return '2'
    if isinstance(n, ast.Name) and n.id in ('site_strand', 'site_chrom', 'site_pos'):
        return {'site_strand': 'strand', 'site_chrom': 'contig', 'site_pos': 'site'}[n.id]
    raise Untranslatable('set_site stores an expression outside the subset in %s: %s' % (what, ast.unparse(n)))


def match_hash(repo, rel, cls, coqname):
    stores, top = site_stores(repo, rel, cls)
    env = {'self.strand': _store_val(stores['strand'], 'strand'),
           'self.cut_site_strand': _store_val(stores['cut'], 'cut_site_strand'),
           'self.site_location[0]': _store_val(stores['loc'].elts[0], 'site_location[0]'),
           'self.site_location[1]': _store_val(stores['loc'].elts[1], 'site_location[1]'),
           'self.sample': 'sample'}
    src, init = _load(repo, rel, cls + '.__init__')
    body = _strip_doc(list(init.body))
    ifs = [st for st in body if isinstance(st, ast.If) and ast.unparse(st.test) == 'self.is_valid()']
    if len(ifs) != 1:
        raise Untranslatable('%s.__init__: expected exactly one top-level `if self.is_valid():`' % cls)
    top_if = ifs[0]
    if not (len(top_if.orelse) == 1 and isinstance(top_if.orelse[0], ast.Assign)
            and _is_self_attr(top_if.orelse[0].targets[0], 'match_hash')
            and isinstance(top_if.orelse[0].value, ast.Constant) and top_if.orelse[0].value.value is None):
        raise Untranslatable('%s.__init__: the invalid branch must be `self.match_hash = None`' % cls)
    inside = set(id(n) for n in ast.walk(top_if))
    for n in ast.walk(init):
        if isinstance(n, ast.Assign) and any(_is_self_attr(t, 'match_hash') for t in n.targets) and id(n) not in inside:
            raise Untranslatable('%s.__init__: match_hash assigned outside `if self.is_valid()` at line %d' % (cls, n.lineno))

    def tup(n):
        if not isinstance(n, ast.Tuple):
            raise Untranslatable('%s: match_hash is not a tuple at line %d' % (cls, n.lineno))
        out = []
        for e in n.elts:
            u = ast.unparse(e)
            if u not in env:
                raise Untranslatable('%s: match_hash component outside the subset: %s' % (cls, u))
            out.append(env[u])
        return '[' + '; '.join(out) + ']'

    def tree(stmts):
        if len(stmts) != 1:
            raise Untranslatable('%s.__init__: unexpected statements around the match_hash assignment' % cls)
        st = stmts[0]
        if isinstance(st, ast.Assign) and len(st.targets) == 1 and _is_self_attr(st.targets[0], 'match_hash'):
            return tup(st.value)
        if isinstance(st, ast.If):
            t = ast.unparse(st.test)
            if t == 'self.use_allele_tag':
                return tree(st.orelse)          # the model is for use_allele_tag=False (the default)
            if t == 'self.assignment_radius == 0':
                return '(if (radius =? 0) then %s else %s)' % (tree(st.body), tree(st.orelse))
        raise Untranslatable('%s.__init__: statement outside the subset at line %d' % (cls, st.lineno))
    expr = tree(top_if.body)
    sha = _sha([top_if] + top)
    text = ('(* source: %s %s.__init__ lines %d-%d composed with the stores of %s.set_site; sha256(code) %s *)\n'
            'Definition %s (radius strand contig site sample : Z) : list Z :=\n  %s.'
            % (rel, cls, top_if.lineno, top_if.end_lineno, cls, sha, coqname, expr))
    return text, _meta(rel, top_if, sha, coqname)


# ---------------------------------------------------------------- (c) write_tags
def _set_meta_call(st, tag):
    return (isinstance(st, ast.Expr) and isinstance(st.value, ast.Call) and isinstance(st.value.func, ast.Attribute)
            and st.value.func.attr == 'set_meta' and len(st.value.args) == 2 and not st.value.keywords
            and isinstance(st.value.args[0], ast.Constant) and st.value.args[0].value == tag)


def write_tags(repo):
    src, fn = _load(repo, MOL, 'Molecule.write_tags')
    body = _strip_doc(list(fn.body))
    env = {'len(self.fragments)': 'n', 'len(self)': 'n', 'self.overflow_fragments': 'over', 'rc': 'rc'}
    chunks, meta = [], []

    def top_meta(tag, coq):
        hits = [st for st in body if _set_meta_call(st, tag) and _is_self_attr(st.value.func, 'set_meta')]
        every = [n for n in ast.walk(fn) if isinstance(n, ast.Expr) and _set_meta_call(n, tag)]
        if len(hits) != 1 or len(every) != 1:
            raise Untranslatable('Molecule.write_tags: expected exactly one unconditional self.set_meta(%r, ...)' % tag)
        e = py2coq.ExprTranslator(env=env).z(hits[0].value.args[1])
        sha = _sha([hits[0]])
        chunks.append('(* source: %s line %d sha256 %s\n   %s *)\nDefinition %s (n over : Z) : Z :=\n  %s.'
                      % (MOL, hits[0].lineno, sha, ast.unparse(hits[0]), coq, e))
        meta.append(_meta(MOL, hits[0], sha, coq))
    top_meta('TF', 'g_tag_tf')
    top_meta('af', 'g_tag_af')
    loops = [st for st in body if isinstance(st, ast.For) and ast.unparse(st.target) == '(rc, frag)'
             and ast.unparse(st.iter) == 'enumerate(self)']
    if len(loops) != 1 or loops[0].orelse:
        raise Untranslatable('Molecule.write_tags: expected exactly one top-level `for rc, frag in enumerate(self)`')
    loop = loops[0]
    dups = [n for n in ast.walk(fn) if isinstance(n, ast.Assign) and any(
        isinstance(t, ast.Attribute) and t.attr == 'is_duplicate' for t in n.targets)]
    if any(id(n) not in set(id(x) for x in ast.walk(loop)) for n in dups):
        raise Untranslatable('Molecule.write_tags: is_duplicate assigned outside the rank loop')
    tr = py2coq.ExprTranslator(env=env)
    state = {'rc': None, 'guarded': False}

    def read_assign(st):
        """for read in frag: if read is not None: read.is_duplicate = E   ->  E"""
        if (isinstance(st, ast.For) and ast.unparse(st.target) == 'read' and ast.unparse(st.iter) == 'frag'
                and not st.orelse and len(st.body) == 1 and isinstance(st.body[0], ast.If)
                and ast.unparse(st.body[0].test) == 'read is not None' and not st.body[0].orelse
                and len(st.body[0].body) == 1 and isinstance(st.body[0].body[0], ast.Assign)
                and ast.unparse(st.body[0].body[0].targets[0]) == 'read.is_duplicate'):
            return tr.b(st.body[0].body[0].value)
        return None

    def run(stmts, dup):
        if not stmts:
            return dup
        st, rest = stmts[0], stmts[1:]
        if isinstance(st, ast.Expr) and isinstance(st.value, ast.Call) and ast.unparse(st.value.func) == 'frag.set_meta' \
                and _set_meta_call(st, 'RC'):
            if state['rc'] is not None or state['guarded']:
                raise Untranslatable('Molecule.write_tags: RC written twice or conditionally (line %d)' % st.lineno)
            state['rc'] = tr.z(st.value.args[1])
            return run(rest, dup)
        e = read_assign(st)
        if e is not None:
            return run(rest, e)
        if isinstance(st, ast.If) and not st.orelse:
            if len(st.body) == 1 and isinstance(st.body[0], ast.Continue):
                state['guarded'] = True
                return '(if %s then %s else %s)' % (tr.b(st.test), dup, run(rest, dup))
            if len(st.body) == 1 and read_assign(st.body[0]) is not None:
                return run(rest, '(if %s then %s else %s)' % (tr.b(st.test), read_assign(st.body[0]), dup))
        raise Untranslatable('Molecule.write_tags: statement outside the subset in the rank loop at line %d: %s'
                             % (st.lineno, ast.unparse(st)[:80]))
    dup = run(list(loop.body), 'dup_in')
    if state['rc'] is None:
        raise Untranslatable('Molecule.write_tags: the rank loop does not write RC')
    sha = _sha([loop])
    chunks.append('(* source: %s lines %d-%d (rank loop of Molecule.write_tags) sha256(code) %s *)\n'
                  'Definition g_tag_rc (n rc : Z) : Z :=\n  %s.\n'
                  'Definition g_tag_dup (n rc : Z) (dup_in : bool) : bool :=\n  %s.'
                  % (MOL, loop.lineno, loop.end_lineno, sha, state['rc'], dup))
    meta.append(_meta(MOL, loop, sha, 'g_tag_rc, g_tag_dup'))
    return chunks, meta


# ---------------------------------------------------------------- (d) add_fragment / capacity test
def add_decision(repo, use_hash=True):
    """symbolic execution of Molecule.add_fragment(fragment, use_hash=True / False); self._add_fragment(fragment) is
    inlined up to the statements that can raise.  Result: 0 return False, 1 added (return True), 2 OverflowError.
    use_hash=False (pooling_method=0): the member scan `for f in self.fragments: if f == fragment: <add>; return True`
    is the test `matches` (= some associated fragment's __eq__ accepts the incoming one); role checks: the loop must
    iterate self.fragments, the compared pair must be (loop variable, `fragment`) with the MEMBER on the left, the
    guarded body must leave the loop by return on every path."""
    src, addf = _load(repo, MOL, 'Molecule.add_fragment')
    _, inner = _load(repo, MOL, 'Molecule._add_fragment')
    env = {'len(self.fragments) == 0': 'empty', 'self == fragment': 'matches',
           'self.max_associated_fragments is not None': 'has_cap', 'len(self.fragments)': 'n',
           'self.max_associated_fragments': 'cap'}
    tr = py2coq.ExprTranslator(env=env)

    def is_overflow_raise(st):
        return isinstance(st, ast.Raise) and st.exc is not None and ast.unparse(st.exc) in ('OverflowError()', 'OverflowError')

    def is_counter(st):
        return isinstance(st, ast.AugAssign) and ast.unparse(st.target) == 'self.overflow_fragments' \
            and isinstance(st.op, ast.Add) and ast.unparse(st.value) == '1'

    def overflow_block(stmts):
        return len(stmts) == 2 and is_counter(stmts[0]) and is_overflow_raise(stmts[1])

    def inline_inner(k):
        """_add_fragment: leading capacity guards, then the append; nothing else may raise / return early"""
        stmts = _strip_doc(list(inner.body))
        guards = []
        while stmts and isinstance(stmts[0], ast.If) and overflow_block(stmts[0].body) and not stmts[0].orelse:
            guards.append(tr.b(stmts[0].test))
            stmts = stmts[1:]
        rest_nodes = [n for s in stmts for n in ast.walk(s)]
        if any(isinstance(n, ast.Raise) for n in rest_nodes) or any(is_counter(n) for n in rest_nodes):
            raise Untranslatable('Molecule._add_fragment: a raise / overflow counter outside the leading capacity guard')
        if not any(isinstance(n, ast.Call) and ast.unparse(n.func) == 'self.fragments.append' for n in rest_nodes):
            raise Untranslatable('Molecule._add_fragment: does not append the fragment')
        rets = [n for n in rest_nodes if isinstance(n, ast.Return)]
        if len(rets) != 1 or not (stmts and stmts[-1] is rets[0]):
            raise Untranslatable('Molecule._add_fragment: expected a single final return')
        out = k
        for g in reversed(guards):
            out = '(if %s then 2 else %s)' % (g, out)
        return out

    def run(stmts, added):
        if not stmts:
            raise Untranslatable('Molecule.add_fragment: falls off the end')
        st, rest = stmts[0], stmts[1:]
        if isinstance(st, ast.Return):
            v = ast.unparse(st.value) if st.value is not None else None
            if v == 'True' and added:
                return '1'
            if v == 'False' and not added:
                return '0'
            raise Untranslatable('Molecule.add_fragment: return %s %s adding the fragment (line %d)'
                                 % (v, 'after' if added else 'without', st.lineno))
        if isinstance(st, ast.Expr) and isinstance(st.value, ast.Call) and ast.unparse(st.value) == 'self._add_fragment(fragment)':
            if added:
                raise Untranslatable('Molecule.add_fragment: fragment added twice on one path')
            return inline_inner(run(rest, True))
        if isinstance(st, ast.Assign) and added and ast.unparse(st.targets[0]) == 'self.sample':
            return run(rest, added)
        if isinstance(st, ast.If):
            if ast.unparse(st.test) == 'use_hash':
                # pooling_method=1: use_hash=True; pooling_method=0: use_hash=False
                return run(list(st.body if use_hash else st.orelse) + rest, added)
            if overflow_block(st.body) and not st.orelse:
                return '(if %s then 2 else %s)' % (tr.b(st.test), run(rest, added))
            return '(if %s then %s else %s)' % (tr.b(st.test), run(list(st.body) + rest, added), run(list(st.orelse) + rest, added))
        if isinstance(st, ast.For) and not use_hash and not added:
            # for f in self.fragments: if f == fragment: <body ending in return>
            if not (isinstance(st.target, ast.Name) and ast.unparse(st.iter) == 'self.fragments' and not st.orelse
                    and len(st.body) == 1 and isinstance(st.body[0], ast.If) and not st.body[0].orelse):
                raise Untranslatable('Molecule.add_fragment: member scan outside the subset at line %d' % st.lineno)
            t = st.body[0].test
            if not (isinstance(t, ast.Compare) and len(t.ops) == 1 and isinstance(t.ops[0], ast.Eq)
                    and isinstance(t.left, ast.Name) and t.left.id == st.target.id
                    and isinstance(t.comparators[0], ast.Name) and t.comparators[0].id == 'fragment'):
                raise Untranslatable('Molecule.add_fragment: the member scan does not test `<member> == fragment` (line %d)' % st.lineno)
            seen_scan.append(st.lineno)
            # run() of the guarded body raises unless every path through it returns (= leaves the loop)
            return '(if matches then %s else %s)' % (run(list(st.body[0].body), added), run(rest, added))
        raise Untranslatable('Molecule.add_fragment: statement outside the subset at line %d: %s' % (st.lineno, ast.unparse(st)[:80]))
    seen_scan = []
    if not use_hash:
        env.pop('self == fragment')
    expr = run(_strip_doc(list(addf.body)), False)
    if not use_hash and len(seen_scan) < 1:
        raise Untranslatable('Molecule.add_fragment: no scan over self.fragments on the use_hash=False path')
    if use_hash and 'matches' not in expr:
        raise Untranslatable('Molecule.add_fragment: the use_hash=True path does not test `self == fragment`')
    name = 'g_add_decision' if use_hash else 'g_add_decision0'
    sha = _sha(_strip_doc(list(addf.body)) + _strip_doc(list(inner.body))[:3])
    text = ('(* source: %s Molecule.add_fragment lines %d-%d with Molecule._add_fragment (line %d) inlined up to its capacity\n'
            '   guard; sha256(code) %s.  0 = return False, 1 = added, 2 = OverflowError%s *)\n'
            'Definition %s (empty matches has_cap : bool) (n cap : Z) : Z :=\n  %s.'
            % (MOL, addf.lineno, addf.end_lineno, inner.lineno, sha,
               '' if use_hash else ';\n   use_hash=False path: matches = some associated fragment f has f == fragment', name, expr))
    return text, _meta(MOL, addf, sha, name)


# ---------------------------------------------------------------- (e) MoleculeIterator options (roles only)
ITER = 'singlecellmultiomics/molecule/iterator.py'


def iterator_options(repo):
    """role checks on MoleculeIterator.__iter__ for the options Model/C06x.v models (no expression to translate):
    * `if self.every_fragment_as_molecule:` is a top-level statement of the read loop AFTER the validity test
      (`if not fragment.is_valid(): ... continue`) and BEFORE the pooling `try`; its body yields and continues;
    * inside the `try`, the branch `self.pooling_method == 0` scans `self.molecules` with add_fragment(use_hash=False)
      and the branch `self.pooling_method == 1` scans `self.molecules_per_cell[fragment.match_hash]` with use_hash=True;
      both set `added` and break on success;
    * a fragment that was not added is appended to the same container it was scanned in.
    Emits g_pool_use_hash (pooling_method -> use_hash) so that the choice of g_add_decision / g_add_decision0 in the
    model is what the source says."""
    src, fn = _load(repo, ITER, 'MoleculeIterator.__iter__')
    loops = [st for st in fn.body if isinstance(st, ast.For) and 'self.matePairIterator' in ast.unparse(st.iter)]
    if len(loops) != 1:
        raise Untranslatable('MoleculeIterator.__iter__: expected exactly one read loop over self.matePairIterator')
    body = loops[0].body
    idx = {}
    for i, st in enumerate(body):
        if isinstance(st, ast.If) and ast.unparse(st.test) == 'not fragment.is_valid()':
            idx.setdefault('valid', i)
            if not isinstance(st.body[-1], ast.Continue):
                raise Untranslatable('MoleculeIterator.__iter__: the invalid-fragment branch does not `continue`')
        elif isinstance(st, ast.If) and ast.unparse(st.test) == 'self.every_fragment_as_molecule':
            idx.setdefault('efm', i)
            if st.orelse or not isinstance(st.body[-1], ast.Continue) or not any(
                    isinstance(n, ast.Yield) for s_ in st.body for n in ast.walk(s_)):
                raise Untranslatable('MoleculeIterator.__iter__: every_fragment_as_molecule branch must yield and continue')
        elif isinstance(st, ast.Try):
            idx.setdefault('try', i)
    if sorted(idx) != ['efm', 'try', 'valid'] or not (idx['valid'] < idx['efm'] < idx['try']):
        raise Untranslatable('MoleculeIterator.__iter__: expected validity test < every_fragment_as_molecule < pooling try, got %r' % idx)
    every = [n for n in ast.walk(fn) if isinstance(n, ast.If) and 'every_fragment_as_molecule' in ast.unparse(n.test)]
    if len(every) != 1:
        raise Untranslatable('MoleculeIterator.__iter__: every_fragment_as_molecule tested more than once')
    tr = body[idx['try']]
    if len(tr.body) != 1 or not isinstance(tr.body[0], ast.If):
        raise Untranslatable('MoleculeIterator.__iter__: the pooling try must hold one if/elif over self.pooling_method')
    branches, node = {}, tr.body[0]
    while True:
        t = ast.unparse(node.test)
        if t not in ('self.pooling_method == 0', 'self.pooling_method == 1'):
            raise Untranslatable('MoleculeIterator.__iter__: unexpected pooling test %s' % t)
        branches[int(t[-1])] = node.body
        if len(node.orelse) == 1 and isinstance(node.orelse[0], ast.If):
            node = node.orelse[0]
        elif not node.orelse:
            break
        else:
            raise Untranslatable('MoleculeIterator.__iter__: pooling if/elif has a trailing else')
    if sorted(branches) != [0, 1]:
        raise Untranslatable('MoleculeIterator.__iter__: pooling branches %r' % sorted(branches))
    want_iter = {0: 'self.molecules', 1: 'self.molecules_per_cell[fragment.match_hash]'}
    use_hash = {}
    for pm, stmts in branches.items():
        if not (len(stmts) == 1 and isinstance(stmts[0], ast.For) and not stmts[0].orelse
                and ast.unparse(stmts[0].iter) == want_iter[pm] and isinstance(stmts[0].target, ast.Name)
                and len(stmts[0].body) == 1 and isinstance(stmts[0].body[0], ast.If) and not stmts[0].body[0].orelse):
            raise Untranslatable('MoleculeIterator.__iter__: pooling_method %d does not scan %s' % (pm, want_iter[pm]))
        var = stmts[0].target.id
        call = stmts[0].body[0].test
        if not (isinstance(call, ast.Call) and ast.unparse(call.func) == var + '.add_fragment' and len(call.args) == 1
                and ast.unparse(call.args[0]) == 'fragment' and len(call.keywords) == 1 and call.keywords[0].arg == 'use_hash'
                and isinstance(call.keywords[0].value, ast.Constant) and isinstance(call.keywords[0].value.value, bool)):
            raise Untranslatable('MoleculeIterator.__iter__: pooling_method %d: unexpected add_fragment call' % pm)
        inner = stmts[0].body[0].body
        if not (len(inner) == 2 and ast.unparse(inner[0]) == 'added = True' and isinstance(inner[1], ast.Break)):
            raise Untranslatable('MoleculeIterator.__iter__: pooling_method %d: success must set added and break' % pm)
        use_hash[pm] = call.keywords[0].value.value
    if use_hash != {0: False, 1: True}:
        raise Untranslatable('MoleculeIterator.__iter__: use_hash per pooling method is %r; Model/C06x.v models {0: False, 1: True}' % use_hash)
    # the `if not added:` append goes to the container that was scanned
    app = [st for st in body if isinstance(st, ast.If) and ast.unparse(st.test) == 'not added']
    if len(app) != 1 or not (len(app[0].body) == 1 and isinstance(app[0].body[0], ast.If)
                             and ast.unparse(app[0].body[0].test) == 'self.pooling_method == 0'
                             and ast.unparse(app[0].body[0].body[0]).startswith('self.molecules.append(')
                             and ast.unparse(app[0].body[0].orelse[0]).startswith('self.molecules_per_cell[fragment.match_hash].append(')):
        raise Untranslatable('MoleculeIterator.__iter__: a new molecule is not appended to the scanned container')
    segs = [body[idx['valid']], body[idx['efm']], tr, app[0]]
    sha = _sha(segs)
    text = ('(* source: %s MoleculeIterator.__iter__ lines %d-%d: validity test, every_fragment_as_molecule branch, pooling try,\n'
            '   append of a new molecule; sha256(code) %s.  use_hash keyword per pooling_method *)\n'
            'Definition g_pool_use_hash (pooling_method : Z) : bool :=\n  (if (pooling_method =? 0) then %s else %s).'
            % (ITER, body[idx['valid']].lineno, app[0].end_lineno, sha,
               'true' if use_hash[0] else 'false', 'true' if use_hash[1] else 'false'))
    return text, _meta(ITER, loops[0], sha, 'g_pool_use_hash')


# ---------------------------------------------------------------- driver
def _regen(out, repo):
    chunks, meta = [], []

    def add(tm):
        chunks.append(tm[0]); meta.append(tm[1])
    add(guard_chain(repo, FRAG, 'Fragment.__eq__',
                    {'self.sample': 's_sample', 'other.sample': 'o_sample', 'self.strand': 's_strand', 'other.strand': 'o_strand',
                     'self.has_valid_span()': 's_span_ok', 'other.has_valid_span()': 'o_span_ok',
                     'self.span[0]': 's_chrom', 'other.span[0]': 'o_chrom', 'self.span[1]': 's_start', 'other.span[1]': 'o_start',
                     'self.span[2]': 's_end', 'other.span[2]': 'o_end', 'self.assignment_radius': 'radius',
                     'self.umi_eq(other)': 'umi_ok'},
                    'g_fragment_eq', '(s_span_ok o_span_ok umi_ok : bool) (radius s_sample s_strand s_chrom s_start s_end '
                                     'o_sample o_strand o_chrom o_start o_end : Z)'))
    add(guard_chain(repo, FRAG, 'Fragment.umi_eq',
                    {'self.umi == other.umi': 'umi_same', 'self.umi_hamming_distance': 'hd',
                     'len(self.umi) != len(other.umi)': 'len_differ', 'hamming_distance(self.umi, other.umi)': 'hdist'},
                    'g_umi_eq', '(umi_same len_differ : bool) (hd hdist : Z)'))
    add(guard_chain(repo, NLA, 'NlaIIIFragment.__eq__',
                    {'self.match_hash != other.match_hash': 'hash_differ', 'self.umi_eq(other)': 'umi_ok'},
                    'g_nla_eq', '(hash_differ umi_ok : bool)'))
    add(guard_chain(repo, CHIC, 'CHICFragment.__eq__',
                    {'self.match_hash != other.match_hash': 'hash_differ', 'self.site_location is None': 's_site_none',
                     'other.site_location is None': 'o_site_none', 'self.assignment_radius': 'radius',
                     'self.site_location[1]': 's_site', 'other.site_location[1]': 'o_site', 'self.umi_eq(other)': 'umi_ok'},
                    'g_chic_eq', '(hash_differ s_site_none o_site_none umi_ok : bool) (radius s_site o_site : Z)'))
    add(guard_chain(repo, MOL, 'Molecule.has_valid_span',
                    {'self.spanStart is not None': 'start_set', 'self.spanEnd is not None': 'end_set'},
                    'g_mol_span_ok', '(start_set end_set : bool)'))
    add(match_hash(repo, NLA, 'NlaIIIFragment', 'g_nla_hash'))
    add(match_hash(repo, CHIC, 'CHICFragment', 'g_chic_hash'))
    c, m = write_tags(repo)
    chunks += c; meta += m
    add(add_decision(repo))
    add(add_decision(repo, use_hash=False))
    try:
        add(iterator_options(repo))
    except Untranslatable as e:
        # the read loop of the iterator was never regenerated (hand-written model tied by K: Model/C06.v step, Model/C06x.v
        # step0); a restructured loop therefore does not take the regenerated comparison kernel above down with it:
        # the use_hash routing falls back to the hand-held value and the refusal is recorded in the evidence
        chunks.append('(* MoleculeIterator.__iter__ not recognised (%s): hand-held value, tied by the correspondence check only *)\n'
                      'Definition g_pool_use_hash (pooling_method : Z) : bool :=\n  (if (pooling_method =? 0) then false else true).'
                      % str(e).replace('*)', '* )'))
        meta.append({'source': ITER, 'lines': [0, 0], 'sha256': '', 'coq': 'g_pool_use_hash',
                     'tie': 'hand-held (translator refused: %s); correspondence only' % e})
    py2coq.write_gen(out, '', chunks)
    return meta


def regen(out=None, repo=None):
    out = out or os.path.join(fw.COQ, 'Gen', 'GenAssign.v')
    try:
        return _regen(out, repo or fw.REPO)
    except BaseException:
        # fail closed: never leave a stale generated file behind for the model / the proofs to use
        for ext in ('.v', '.vo', '.vos', '.vok', '.glob'):
            if os.path.exists(out[:-2] + ext):
                os.remove(out[:-2] + ext)
        raise


if __name__ == '__main__':
    import sys
    print(regen(repo=sys.argv[1] if len(sys.argv) > 1 else None))
    print(open(os.path.join(fw.COQ, 'Gen', 'GenAssign.v')).read())
