"""runs the real binning kernels and create_count_table for C10"""
import os, sys
from types import SimpleNamespace
import fw


def make_bam(path, contigs, reads, extra_tag):
    import pysam
    header = {'HD': {'VN': '1.6', 'SO': 'coordinate'}, 'SQ': [{'SN': n, 'LN': l} for n, l in contigs]}
    recs = sorted(enumerate(reads), key=lambda x: (x[1]['contig'], x[1]['pos']))
    with pysam.AlignmentFile(path, 'wb', header=header) as out:
        for i, r in recs:
            a = pysam.AlignedSegment(out.header)
            a.query_name = 'r%d' % i
            a.query_sequence = 'A'
            a.flag = 0
            if r['paired']:
                a.flag = 1 | 64  # paired, read1, mate mapped
            a.reference_id = r['contig']
            a.reference_start = r['pos']
            a.mapping_quality = 60
            a.cigar = [(0, 1)]
            a.query_qualities = pysam.qualitystring_to_array('I')
            a.set_tag('SM', r['sample'])
            a.set_tag('DS', r['ds'])
            a.set_tag('fe', r['ds'])
            if extra_tag:
                a.set_tag('XX', r['other'])
            out.write(a)
    pysam.index(path)


def handler(p):
    from singlecellmultiomics.utils.binning import coordinate_to_bins as cu
    from singlecellmultiomics.bamProcessing import bamToCountTable as T
    ku = [[list(x) for x in cu(*c)] for c in p['kernel']]
    kt = [[list(x) for x in T.coordinate_to_bins(*c)] for c in p['kernel']]
    tabs = []
    devnull = open(os.devnull, 'w')
    for n, h in enumerate(p['tables']):
        # ONE options namespace for the whole history (as a script calling the API repeatedly would do)
        args = SimpleNamespace(
            alignmentfiles=[], head=None, o=None, bin=None, binTag='DS', sliding=None, bedfile=None,
            showtags=False, featureTags=None, joinedFeatureTags=None, byValue=None,
            sampleTags='SM', proper_pairs_only=False, no_indels=False, max_base_edits=None, no_softclips=False,
            minMQ=0, filterXA=False, dedup=False, divideMultimapping=False, doNotDivideFragments=False,
            contig=None, blacklist=None, r1only=False, r2only=False, filterMP=False, splitFeatures=False,
            featureDelimiter=',', feature_delimiter=',', noNames=False, keepOverBounds=False, bulk=False)
        outs = []
        for j, c in enumerate(h['calls']):
            try:
                paths = []
                for f, bm in enumerate(c['bams']):
                    path = os.path.join(os.environ['SCMO_SCRATCH'], 't%d_%d_%d.bam' % (n, j, f))
                    make_bam(path, bm['contigs'], bm['reads'], h['extra_tag'])
                    paths.append(path)
                args.alignmentfiles = paths
                args.bin = c['bin']
                args.sliding = c['sliding']
                args.joinedFeatureTags = ','.join(c['features'])
                args.binTag = c['bintag']
                args.doNotDivideFragments = not c['divide']
                args.keepOverBounds = c['keep']
                old = sys.stdout
                sys.stdout = devnull
                try:
                    df = T.create_count_table(args, return_df=True)
                finally:
                    sys.stdout = old
                cells = []
                for sample in df.columns:
                    col = df[sample].dropna()
                    for idx, v in col.items():
                        idx = idx if isinstance(idx, tuple) else (idx,)
                        sname = sample[0] if isinstance(sample, tuple) else sample
                        lo, hi = int(idx[-2]), int(idx[-1])
                        feats = [str(x) for x in idx[:-2]]
                        v2 = float(v) * 2
                        assert v2 == int(v2), (v, 'a count that is not a multiple of one half')
                        if v2 != 0:
                            cells.append([[sname, feats, lo, hi], int(v2)])
                outs.append({'cells': cells})
            except BaseException as e:
                outs.append({'error': '%s: %s' % (type(e).__name__, e)})
        tabs.append(outs)
    return {'kernel_u': ku, 'kernel_t': kt, 'tables': tabs}


fw.impl_main(handler)
