"""runs the REAL HandleLimiter / FastqHandle(single_cell=True) for C19 under an instrumented and
fault-injecting open().

Instrumentation (all from this script, nothing inside the repository):
  * gzip.open (attribute of the gzip module, looked up by handlelimiter at call time) and the name
    `open` in the handlelimiter module namespace are replaced by wrappers that count live handles,
    record every call (path, mode, handles open before the call, outcome) and inject OSError according
    to the fault script of the case;  the returned file objects are proxied so close() is seen;
  * handlelimiter.time is replaced by a strictly increasing logical clock (the model's clock);
  * 'rlimit' cases inject nothing: RLIMIT_NOFILE is lowered and the kernel itself refuses the open.
Files are read back (gzip / plain) after close() with the original, unpatched functions.
"""
import builtins, errno, gzip, os, shutil, sys, types
import fw

REAL_GZIP_OPEN = gzip.open
REAL_OPEN = builtins.open
SCRATCH = os.environ.get('SCMO_SCRATCH', '.')


class Proxy:
    def __init__(self, inst, f, pid):
        self._inst, self._f, self._pid, self._closed = inst, f, pid, False
        inst.nopen += 1

    def write(self, data):
        return self._f.write(data)

    def close(self):
        if not self._closed:
            self._closed = True
            self._inst.nopen -= 1
            self._inst.trace.append([1, self._pid])
        return self._f.close()

    def __getattr__(self, name):
        return getattr(self._f, name)

    def __enter__(self):
        return self

    def __exit__(self, *a):
        self.close()


class Livelock(BaseException):
    """open() retried without bound for one write(): not an Exception, so the writer's own
    `except Exception` cannot swallow it"""


class Instr:
    """fault script + trace for one case"""

    def __init__(self, script, pid_of_path):
        self.limit = script.get('limit', 0)
        self.soft = set(script.get('soft', []))
        self.hard = set(script.get('hard', []))
        self.perm = set(script.get('perm', []))
        self.pid_of_path = pid_of_path
        self.nopen = 0
        self.attempts = 0
        self.trace = []
        self.unknown_paths = []
        self.since_success = 0
        self.exc = script.get('exc') or ['EMFILE']
        self.nfail = 0

    def injected(self, path):
        """the exception of the next injected failure: the kinds listed in script['exc'], in rotation.
        OSError(errno, ...) constructs the matching subclass (InterruptedError, BlockingIOError, ...)."""
        kind = self.exc[self.nfail % len(self.exc)]
        self.nfail += 1
        if kind == 'plain':
            return OSError('open failed (injected, no errno)')
        code = getattr(errno, kind)
        return OSError(code, os.strerror(code) + ' (injected)', str(path))

    def pid(self, path):
        key = os.path.basename(str(path))
        if key not in self.pid_of_path:
            self.unknown_paths.append(str(path))
            return -1
        return self.pid_of_path[key]

    def call(self, real, path, mode, *a, **kw):
        if 'r' in mode:
            return real(path, mode, *a, **kw)
        pid = self.pid(path)
        i = self.attempts
        self.attempts += 1
        n = self.nopen
        append = 1 if 'a' in mode else 0
        fail = ((self.limit > 0 and n >= self.limit) or (i in self.soft and n > 0) or i in self.hard
                or pid in self.perm)
        if fail:
            self.trace.append([0, pid, append, n, 0])
            self.since_success += 1
            if self.since_success > 60:
                raise Livelock('open() failed %d times in a row without write() giving up' % self.since_success)
            raise self.injected(path)
        try:
            f = real(path, mode, *a, **kw)
        except OSError:
            self.trace.append([0, pid, append, n, 0])
            raise
        self.trace.append([0, pid, append, n, 1])
        self.since_success = 0
        return Proxy(self, f, pid)


class Patched:
    def __init__(self, inst):
        self.inst = inst

    def __enter__(self):
        from singlecellmultiomics.pyutils import handlelimiter as H
        self.H = H
        inst = self.inst
        clock = [0]

        def tick():
            clock[0] += 1
            return clock[0]
        self.saved = (gzip.open, H.__dict__.get('open', None), H.__dict__.get('time', None), sys.stdout)
        gzip.open = lambda path, mode='rb', *a, **kw: inst.call(REAL_GZIP_OPEN, path, mode, *a, **kw)
        H.open = lambda path, mode='r', *a, **kw: inst.call(REAL_OPEN, path, mode, *a, **kw)
        H.time = types.SimpleNamespace(time=tick)
        sys.stdout = REAL_OPEN(os.devnull, 'w')
        return self

    def __exit__(self, *a):
        H = self.H
        sys.stdout.close()
        gzip.open, o, t, sys.stdout = self.saved
        if o is None:
            del H.open
        else:
            H.open = o
        H.time = t


def exc_code(e):
    if isinstance(e, Livelock):
        return 3   # Model.ELOOP
    if isinstance(e, OSError):
        return 1
    if isinstance(e, KeyError):
        return 2
    return 'other: %s: %s' % (type(e).__name__, e)


def fname(pid, plain):
    return 'f%d.txt' % pid if pid in plain else 'f%d.gz' % pid


def read_back(d, names):
    """names: pid -> (file name, is_plain). returns [[pid, None | content]] and errors"""
    out, errs = [], []
    for pid in sorted(names):
        fn, is_plain = names[pid]
        p = os.path.join(d, fn)
        if not os.path.exists(p):
            out.append([pid, None])
            continue
        try:
            if is_plain:
                with REAL_OPEN(p, 'r', newline='') as f:
                    out.append([pid, f.read()])
            else:
                with REAL_GZIP_OPEN(p, 'rb') as f:
                    out.append([pid, f.read().decode('utf-8')])
        except Exception as e:
            errs.append('%s unreadable: %s: %s' % (fn, type(e).__name__, e))
            out.append([pid, 'UNREADABLE'])
    return out, errs


def finish(inst, limiter, d, names, k, status):
    """state before close(), then close(), leak count, files"""
    try:
        open_keys = [inst.pid(p) for p, v in limiter.openHandles.items() if 'handle' in v]
        ghost_keys = [inst.pid(p) for p, v in limiter.openHandles.items() if 'handle' not in v]
        known = [p for p in limiter.seen if os.path.basename(str(p)) in inst.pid_of_path]
        seen_foreign = sorted(str(p) for p in limiter.seen if os.path.basename(str(p)) not in inst.pid_of_path)[:3]
        seen = sorted(inst.pid(p) for p in known)
        ctr = limiter.pruneIntervalCounter
    except Exception as e:
        open_keys, seen, ctr, seen_foreign, ghost_keys = 'error: %r' % (e,), [], -1, [], None
    close_error = None
    try:
        limiter.close()
    except BaseException as e:
        close_error = '%s: %s' % (type(e).__name__, e)
    leaked = inst.nopen   # proxies not closed through close(): descriptors the writer lost track of
    files, errs = read_back(d, names)
    return {'k': k, 'status': status, 'trace': inst.trace, 'open': open_keys, 'ghosts': ghost_keys, 'seen': seen, 'ctr': ctr,
            'close_error': close_error, 'leaked': leaked, 'seen_foreign': seen_foreign, 'files': files, 'read_errors': errs,
            'unknown_paths': inst.unknown_paths[:5]}


def run_case(n, case, probe=False):
    """direct HandleLimiter case"""
    d = os.path.join(SCRATCH, 'c%d' % n)
    os.makedirs(d)
    plain = set(case.get('plain', []))
    names = {pid: (fname(pid, plain), pid in plain) for pid in case['univ']}
    for pid, content in case['init']:
        fn, is_plain = names[pid]
        if is_plain:
            with REAL_OPEN(os.path.join(d, fn), 'w', newline='') as f:
                f.write(content)
        else:
            with REAL_GZIP_OPEN(os.path.join(d, fn), 'wb', 1) as f:
                f.write(content.encode('utf-8'))
    inst = Instr(case['script'], {names[pid][0]: pid for pid in names})
    try:
        with Patched(inst) as P:
            avail = probe_available() if probe else None
            h = P.H.HandleLimiter(maxHandles=case['maxHandles'], pruneEvery=case['pruneEvery'])
            # case['cont']: the caller catches whatever a write() raises and carries on with the same writer (a history
            # that continues after a raise); otherwise the run ends at the first call that raises.
            cont = bool(case.get('cont'))
            k, status = 0, 0
            statuses, marks = [], []
            for pid, s, fa in case['ops']:
                fn, is_plain = names[pid]
                st = 0
                try:
                    if fa:
                        h.write(os.path.join(d, fn), s, method=0 if is_plain else 1, forceAppend=True)
                    else:
                        h.write(os.path.join(d, fn), s, method=0 if is_plain else 1)
                except (Exception, Livelock) as e:
                    st = exc_code(e)
                    del e
                statuses.append(st)
                marks.append(len(inst.trace))   # OS calls made up to the end of this write()
                if st == 0:
                    k += 1
                elif not cont or st == 3:
                    status = st
                    break
            res = finish(inst, h, d, names, k, status)
            res['statuses'], res['marks'] = statuses, marks
            res['avail'] = avail
    finally:
        shutil.rmtree(d, ignore_errors=True)
    return res


def make_record(tags, seq, qual):
    from singlecellmultiomics.modularDemultiplexer.baseDemultiplexMethods import TaggedRecord, TagDefinitions
    r = TaggedRecord(TagDefinitions)
    for k, v in tags:
        r.tags[k] = v
    r.sequence, r.qualities, r.plus = seq, qual, '+'
    return r


def run_fastq(n, case):
    """FastqHandle(single_cell=True) end to end. case['pairs'] = [[tags1, seq1, qual1], [tags2, seq2, qual2]]
    case['names'] = {file name: pid}; the strings written are str(record) of the real TaggedRecord."""
    d = os.path.join(SCRATCH, 'q%d' % n)
    os.makedirs(d)
    names = {pid: (fn, False) for fn, pid in case['names'].items()}
    inst = Instr(case['script'], dict(case['names']))
    try:
        with Patched(inst) as P:
            from singlecellmultiomics.fastqProcessing.fastqHandle import FastqHandle
            fh = FastqHandle(os.path.join(d, case['prefix']), pairedEnd=True, single_cell=True,
                             maxHandles=case['maxHandles'])
            limiter = fh.handles
            cfg = {'maxHandles': limiter.maxHandles, 'pruneEvery': limiter.pruneEvery}
            strings, done, status = [], [0], 0
            orig_write = limiter.write
            calls = []    # every HandleLimiter.write call FastqHandle made: [pid, string, status, OS calls so far]
            cont = bool(case.get('cont'))

            def counted_write(*a, **kw):
                path = a[0] if a else kw.get('path')
                string = a[1] if len(a) > 1 else kw.get('string')
                try:
                    orig_write(*a, **kw)
                except (Exception, Livelock) as e:
                    calls.append([inst.pid(path), string, exc_code(e), len(inst.trace)])
                    raise
                calls.append([inst.pid(path), string, 0, len(inst.trace)])
                done[0] += 1
            limiter.write = counted_write   # counts completed HandleLimiter.write calls
            for pair in case['pairs']:
                recs = [make_record(*r) for r in pair]
                strings.append([str(r) for r in recs])
                try:
                    fh.write(recs)
                except (Exception, Livelock) as e:
                    status = exc_code(e)
                    del e
                    # case['cont']: the caller (a demultiplexer that skips a cell it cannot write) carries on
                    if not cont or status == 3:
                        break
                    status = 0
            res = finish(inst, limiter, d, names, done[0], status)
            res['cfg'] = cfg
            res['strings'] = strings
            res['calls'] = [c[:2] for c in calls]
            res['statuses'], res['marks'] = [c[2] for c in calls], [c[3] for c in calls]
            # FastqHandle.close() is the public way to close: the limiter is closed already, must be harmless
            try:
                fh.close()
            except BaseException as e:
                res['close_error'] = '%s: %s' % (type(e).__name__, e)
    finally:
        shutil.rmtree(d, ignore_errors=True)
    return res


def probe_available():
    """how many more descriptors can this process open right now"""
    hs = []
    try:
        while True:
            hs.append(os.open(os.devnull, os.O_RDONLY))
    except OSError:
        pass
    for h in hs:
        os.close(h)
    return len(hs)


def run_rlimit(n, case):
    """no injection: the kernel refuses open() beyond a lowered RLIMIT_NOFILE"""
    import resource
    soft, hard = resource.getrlimit(resource.RLIMIT_NOFILE)
    used = len(os.listdir('/proc/self/fd')) - 1
    resource.setrlimit(resource.RLIMIT_NOFILE, (used + case['headroom'], hard))
    try:
        res = run_case(n, case, probe=True)
    finally:
        resource.setrlimit(resource.RLIMIT_NOFILE, (soft, hard))
    return res


def shrink(n, job):
    """greedy minimisation of a failing case, in this process: drop operations / faults / options while
    the same kind of specification violation (c19.spec_violations, evaluated on the real outcome) remains"""
    import c19
    if job.get('fastq'):
        return shrink_fastq(n, job)
    key, cur = job['key'], job['case']
    counter = [0]

    def run(c):
        counter[0] += 1
        return run_case(1000000 + n * 100000 + counter[0], c)

    def bad(c):
        return any(k == key for k, _ in c19.spec_violations(c, run(c)))
    if not bad(cur):
        return {'case': cur, 'res': run(cur), 'shrunk': False}
    progress = True
    import time
    t_end = time.time() + 40
    while progress and counter[0] < 5000 and time.time() < t_end:
        progress = False
        # chunks of operations first, then single operations
        size = max(1, len(cur['ops']) // 2)
        while size >= 1:
            i = 0
            while i < len(cur['ops']):
                c = dict(cur); c['ops'] = cur['ops'][:i] + cur['ops'][i + size:]
                if c['ops'] and bad(c):
                    cur, progress = c, True
                else:
                    i += size
            size //= 2
        for kind in ('soft', 'hard', 'perm'):
            i = 0
            while i < len(cur['script'].get(kind, [])):
                sc = dict(cur['script']); sc[kind] = sc[kind][:i] + sc[kind][i + 1:]
                c = dict(cur); c['script'] = sc
                if bad(c):
                    cur, progress = c, True
                else:
                    i += 1
        i = 0
        while i < len(cur['init']):
            c = dict(cur); c['init'] = cur['init'][:i] + cur['init'][i + 1:]
            if bad(c):
                cur, progress = c, True
            else:
                i += 1
        if cur['script'].get('exc') not in (None, ['EMFILE']):
            for alt in (['EMFILE'], [k for k in cur['script']['exc'] if k != 'EMFILE'][:1]):
                sc = dict(cur['script']); sc['exc'] = alt
                c = dict(cur); c['script'] = sc
                if alt and c != cur and bad(c):
                    cur, progress = c, True
                    break
        for simpler in (lambda c: {'init': []}, lambda c: {'plain': []},
                        lambda c: {'ops': [[o[0], '%d;' % i, o[2]] for i, o in enumerate(c['ops'])]},
                        lambda c: {'ops': [[o[0], o[1], 0] for o in c['ops']]},
                        lambda c: {'univ': sorted(set(o[0] for o in c['ops']) | set(x[0] for x in c['init']))}):
            c = dict(cur); c.update(simpler(cur))
            if c != cur and bad(c):
                cur, progress = c, True
    return {'case': cur, 'res': run(cur), 'shrunk': True}


# ----------------------------------------------------------------------------- bamSplitByTag
class SerialPool:
    """stands in for multiprocessing.Pool(10) in bamSplitByTag (indexing of the outputs is not part of C19)"""

    def __init__(self, *a, **kw):
        pass

    def __enter__(self):
        return self

    def __exit__(self, *a):
        return False

    def imap_unordered(self, f, it):
        return [f(x) for x in it]


def main_loop_statements(path):
    """the statements of the `if __name__ == '__main__':` block of bamSplitByTag.py from `skip = set()` up to and
    including the `while len(waiting) > 0:` loop; fails closed when the block does not have that shape"""
    import ast
    tree = ast.parse(REAL_OPEN(path).read())
    mains = [n for n in tree.body if isinstance(n, ast.If) and isinstance(n.test, ast.Compare)
             and isinstance(n.test.left, ast.Name) and n.test.left.id == '__name__']
    if len(mains) != 1:
        raise RuntimeError('bamSplitByTag: __main__ block not found')
    body = mains[0].body
    start = [i for i, st in enumerate(body) if isinstance(st, ast.Assign) and len(st.targets) == 1
             and isinstance(st.targets[0], ast.Name) and st.targets[0].id == 'skip']
    loops = [i for i, st in enumerate(body) if isinstance(st, ast.While)]
    if len(start) != 1 or len(loops) != 1 or loops[0] < start[0]:
        raise RuntimeError('bamSplitByTag: main loop has an unexpected shape')
    stmts = body[start[0]:loops[0] + 1]
    calls = [n for st in stmts for n in ast.walk(st) if isinstance(n, ast.Call) and isinstance(n.func, ast.Name)
             and n.func.id == 'split_bam_by_tag']
    if len(calls) != 1:
        raise RuntimeError('bamSplitByTag: main loop does not call split_bam_by_tag exactly once')
    mod = ast.Module(body=stmts, type_ignores=[])
    return compile(ast.fix_missing_locations(mod), path, 'exec')


def run_bamsplit(n, case):
    import pysam, types
    from singlecellmultiomics.bamProcessing import bamSplitByTag as B
    from singlecellmultiomics.utils.path import get_valid_filename
    d = os.path.join(SCRATCH, 'b%d' % n)
    os.makedirs(os.path.join(d, 'out'))
    src = os.path.join(d, 'in.bam')
    header = {'HD': {'VN': '1.6', 'SO': 'coordinate'}, 'SQ': [{'SN': 'chr1', 'LN': 100000}]}
    with pysam.AlignmentFile(src, 'wb', header=header) as out:
        for i, val in enumerate(case['reads']):
            a = pysam.AlignedSegment(out.header)
            a.query_name = 'r%d' % i
            a.query_sequence = 'ACGT'
            a.flag = 0
            a.reference_id = 0
            a.reference_start = 10 + i
            a.mapping_quality = 60
            a.cigar = [(0, 4)]
            a.query_qualities = pysam.qualitystring_to_array('IIII')
            if val is not None:
                a.set_tag('SM', val)
            out.write(a)
    state = {'open': 0, 'max_open': 0, 'passes': 0}

    class Writer:
        def __init__(self, f):
            self._f = f
            state['open'] += 1
            state['max_open'] = max(state['max_open'], state['open'])

        def close(self):
            state['open'] -= 1
            return self._f.close()

        def __getattr__(self, name):
            return getattr(self._f, name)

    class PysamShim:
        def __getattr__(self, name):
            return getattr(pysam, name)

        @staticmethod
        def AlignmentFile(path, mode='r', *a, **kw):
            f = pysam.AlignmentFile(path, mode, *a, **kw)
            return Writer(f) if 'w' in mode else f

    real_split = B.split_bam_by_tag

    def counted_split(*a, **kw):
        state['passes'] += 1
        if state['passes'] > len(case['reads']) + 3:
            raise Livelock('more passes than reads')
        return real_split(*a, **kw)
    code = main_loop_statements(B.__file__)
    saved = (B.pysam, B.Pool, sys.stdout)
    res = {'san': [None if v is None else get_valid_filename(v) for v in case['reads']]}
    try:
        B.pysam, B.Pool = PysamShim(), SerialPool
        sys.stdout = REAL_OPEN(os.devnull, 'w')
        ns = dict(B.__dict__)
        ns.update({'split_bam_by_tag': counted_split, 'output_prefix': os.path.join(d, 'out') + os.sep,
                   'args': types.SimpleNamespace(bamfile=src, tag='SM', head=None, max_handles=case['max_handles'])})
        status = 0
        try:
            exec(code, ns)
        except Livelock:
            status = 'livelock'
        except Exception as e:
            status = 'raised %s: %s' % (type(e).__name__, e)
        finally:
            sys.stdout.close()
            B.pysam, B.Pool, sys.stdout = saved
        res.update({'status': status, 'passes': state['passes'], 'max_open': state['max_open'],
                    'still_open': state['open'],
                    'done': sorted(str(x) for x in ns.get('skip', [])) if status == 0 else None})
        files = {}
        for fn in sorted(os.listdir(os.path.join(d, 'out'))):
            if fn.endswith('.bam'):
                try:
                    with pysam.AlignmentFile(os.path.join(d, 'out', fn), 'rb') as f:
                        files[fn[:-4]] = [int(r.query_name[1:]) for r in f]
                except Exception as e:
                    files[fn[:-4]] = 'UNREADABLE %s' % type(e).__name__
        res['files'] = files
    finally:
        shutil.rmtree(d, ignore_errors=True)
    return res


def shrink_fastq(n, job):
    """minimise the record pairs of a failing FastqHandle case"""
    import c19, time
    key, cur = job['key'], job['fastq']
    counter = [0]

    def run(fc):
        counter[0] += 1
        return run_fastq(2000000 + n * 100000 + counter[0], fc)

    def bad(fc):
        r = run(fc)
        return any(k == key for k, _ in c19.spec_violations(c19.fastq_as_case(fc, r), r))
    if len(cur['pairs']) > 400 or not bad(cur):
        return {'fastq': cur, 'res': run(cur), 'shrunk': False}
    t_end = time.time() + 40
    size = max(1, len(cur['pairs']) // 2)
    while size >= 1 and time.time() < t_end:
        i = 0
        while i < len(cur['pairs']) and time.time() < t_end:
            c = dict(cur); c['pairs'] = cur['pairs'][:i] + cur['pairs'][i + size:]
            if c['pairs'] and bad(c):
                cur = c
            else:
                i += size
        size //= 2
    for kind in ('soft',):
        sc = dict(cur['script']); sc[kind] = []
        c = dict(cur); c['script'] = sc
        if bad(c):
            cur = c
    return {'fastq': cur, 'res': run(cur), 'shrunk': True}


def handler(p):
    out = {'cases': [], 'fastq': [], 'rlimit': [], 'shrink': [], 'bamsplit': []}
    for key, fn in (('cases', run_case), ('fastq', run_fastq), ('rlimit', run_rlimit), ('shrink', shrink), ('bamsplit', run_bamsplit)):
        for n, case in enumerate(p.get(key, [])):
            try:
                out[key].append(fn(n, case))
            except BaseException as e:
                out[key].append({'error': '%s: %s' % (type(e).__name__, e)})
    return out


fw.impl_main(handler)
