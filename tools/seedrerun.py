"""re-run the checks against every seeded change that was caught before (after the checks were changed);
updates caught / with_failing_input / check_lines in the confirm files and lists regressions.
usage: seedrerun.py [-j N] [Cxx ...]   (ids = properties whose CHECK is to be re-run)"""
import json, os, subprocess, sys, glob, re, collections
from concurrent.futures import ThreadPoolExecutor
V = os.path.dirname(os.path.dirname(os.path.abspath(__file__)))
a = sys.argv[1:]
j = 8
if '-j' in a:
    j = int(a[a.index('-j') + 1]); del a[a.index('-j'):a.index('-j') + 2]
only = set(a)
work = collections.defaultdict(list)
for d in sorted(glob.glob(os.path.join(V, 'seeded', 'C*-*'))):
    try:
        meta = json.load(open(os.path.join(d, 'meta.json')))
    except Exception:
        continue
    for f in sorted(glob.glob(os.path.join(d, 'confirm*.json'))):
        if 'initial' in os.path.basename(f):
            continue
        by = re.sub(r'confirm_?|\.json', '', os.path.basename(f)) or meta['property']
        if only and by not in only:
            continue
        work[by].append((d, f))


def load(f):
    t = open(f).read()
    return json.loads(t[t.index('{'):])


def chain(by):
    out = []
    for d, f in work[by]:
        old = load(f)
        p = subprocess.run([sys.executable, os.path.join(V, 'tools', 'seedtest.py'), d, '--no-tests', '--prop', by],
                           capture_output=True, text=True)
        try:
            new = json.loads(p.stdout[p.stdout.index('{'):])
        except Exception:
            new = {'caught': None, 'error': (p.stdout + p.stderr)[-500:]}
        row = (os.path.basename(d), by, old.get('caught'), old.get('with_failing_input'), new.get('caught'), new.get('with_failing_input'))
        print('%-8s by %s  before %s/%s  now %s/%s %s' % (row + ('' if (row[2], row[3]) == (row[4], row[5]) or (not row[2]) else '   <-- REGRESSION',)), flush=True)
        if new.get('caught') is not None:
            old.update({k: new[k] for k in ('check_rc', 'check_wall_s', 'check_lines', 'caught', 'with_failing_input') if k in new})
            old['rerun'] = 'after the false-alarm reduction of the checks'
            json.dump(old, open(f, 'w'), indent=1)
        out.append(row)
    return out


with ThreadPoolExecutor(j) as ex:
    rows = [r for rs in ex.map(chain, sorted(work)) for r in rs]
reg = [r for r in rows if r[2] and not r[4]]
weak = [r for r in rows if r[3] and r[4] and not r[5]]
print('%d runs; %d no longer caught: %s; %d caught but now without a failing input: %s' % (len(rows), len(reg), [r[:2] for r in reg], len(weak), [r[:2] for r in weak]))
