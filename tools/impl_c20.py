"""C20: runs the REAL tagger (run_multiome_tagging_cmd) with injected faults and reads back the status
file and the output BAM.  No hook inside /repo: faults are injected by monkey-patching from here
(fork start method: pool workers inherit the patches)."""
import os, sys, shutil, io, gc, contextlib, glob, traceback, multiprocessing, signal, subprocess, json, time
import fw

MAIN_PID = os.getpid()
STATE = {'faults': [], 'counts': {}, 'out': '/nonexistent/out.bam', 'fired': []}
SHARED = multiprocessing.Value('i', 0)      # number of run_tagging_tasks calls (all processes)
MOLS = multiprocessing.Value('i', 0)        # number of write_pysam calls (all processes)
WORKER_COUNTS = {k: multiprocessing.Value('i', 0) for k in ('write_pysam', 'mol_next', 'write_tags')}
ORIG = {}
POOLS = []
WORKER_FIRED = multiprocessing.Value('i', 0)   # faults that fired inside pool workers


# what the current pool worker process is doing (per process; forked copies)
WCTX = {'key': None, 'task': -1, 'written': 0, 'tasks': [], 'njob': 0}


def rec_id(r):
    return '%s|%d|%s|%d' % (r.query_name, r.flag & 0x9C0, r.reference_name, r.reference_start)


def molecule_recs(mol):
    """identities of the records a molecule writes (public iter_reads, else its fragments)"""
    try:
        return [rec_id(r) for r in mol.iter_reads()]
    except Exception:
        try:
            return [rec_id(r) for fr in mol for r in fr if r is not None]
        except Exception:
            return None


def reported_tasks(meta):
    """the tasks a worker reports as given up: the list of task dicts in its meta (by key name when there is one
    that mentions 'timeout', else any list of dicts)"""
    try:
        cands = [(k, v) for k, v in meta.items() if isinstance(v, (list, tuple)) and all(isinstance(x, dict) for x in v)]
        named = [v for k, v in cands if 'timeout' in str(k).lower()]
        return list(named[0] if named else (cands[0][1] if cands else []))
    except Exception:
        return []


def job_key(args):
    """canonical identity of one job of the pool: its list of (contig, start, end)"""
    try:
        return [[str(t.get('contig')), str(t.get('start')), str(t.get('end'))] for t in args[1]]
    except Exception:
        return None


def wlog(name, obj):
    d = STATE.get('logdir')
    if not d:
        return
    try:
        with open(os.path.join(d, '%s_%d_%d.json' % (name, os.getpid(), WCTX['njob'])), 'w') as fh:
            json.dump(obj, fh)
    except Exception:
        pass


CASE_TIMEOUT = 60
RUN_BUDGET = 1000      # seconds for one harness process; later cases are reported as skipped


class HarnessTimeout(BaseException):
    pass


class Injected(Exception):
    pass


class InjectedBase(BaseException):
    """stands for KeyboardInterrupt / SystemExit: not an Exception"""


# exception classes that can be injected (fault['exc']); code = 1 + StatusLang kind code
def make_exc(name, msg):
    import errno
    if name == 'RuntimeError':
        return RuntimeError(msg)
    if name == 'ValueError':
        return ValueError(msg)
    if name == 'ENOSPC':
        return OSError(errno.ENOSPC, msg)
    if name == 'EIO':
        return OSError(errno.EIO, msg)
    if name == 'IOError':
        return IOError(msg)
    if name == 'TimeoutError':
        return TimeoutError(msg)
    if name == 'MemoryError':
        return MemoryError(msg)
    if name == 'KeyboardInterrupt':
        return KeyboardInterrupt(msg)
    if name == 'InjectedBase':
        return InjectedBase(msg)
    return Injected(msg)


def classify_exc(e):
    """-> outcome code of the model: 1 + kind (KRuntime 0, KValue 1, KOS 2, KTimeout 3, KMemory 4, KOther 5, KBase 6)"""
    if isinstance(e, TimeoutError):
        return 4
    if isinstance(e, OSError):
        return 3
    if isinstance(e, ValueError):
        return 2
    if isinstance(e, RuntimeError):
        return 1
    if isinstance(e, MemoryError):
        return 5
    if isinstance(e, Exception):
        return 6
    return 7


def boom(flt):
    if flt.get('kind') == 'kill':
        os.kill(os.getpid(), signal.SIGKILL)      # only used when the tagger runs in a forked child
    msg = 'injected at %s' % flt['point']
    if flt.get('exc'):
        raise make_exc(flt['exc'], msg)
    if flt.get('kind') in ('base', 'base_partial'):
        raise InjectedBase(msg)
    raise Injected(msg)


def in_main():
    return os.getpid() == MAIN_PID


def hit(point, **ctx):
    """the fault (if any) armed for this call of `point`; counts calls per process"""
    c = STATE['counts']
    k = c.get(point, 0)
    c[point] = k + 1
    if not in_main() and point in WORKER_COUNTS:
        # inside pool workers the call index is global over all workers
        v = WORKER_COUNTS[point]
        with v.get_lock():
            k = v.value
            v.value += 1
    for flt in STATE['faults']:
        if flt['point'] != point:
            continue
        if 'jobkey' in flt:
            # addressed by job / task / molecules already written by that task (independent of scheduling)
            if in_main() or WCTX['key'] != flt['jobkey'] or WCTX['task'] != flt.get('task', 0) \
                    or WCTX['written'] != flt.get('at', 0) or flt.get('_done'):
                continue
            flt['_done'] = True
            STATE['fired'].append(point)
            with WORKER_FIRED.get_lock():
                WORKER_FIRED.value += 1
            wlog('wfired', {'point': point, 'key': WCTX['key'], 'task': WCTX['task'], 'at': WCTX['written']})
            return flt
        where = flt.get('where', 'any')
        if where == 'main' and not in_main():
            continue
        if where == 'worker' and in_main():
            continue
        if 'after' in flt and flt['after'] != k:
            continue
        if 'first' in flt and k >= flt['first']:
            continue
        STATE['fired'].append(point)
        if not in_main():
            with WORKER_FIRED.get_lock():
                WORKER_FIRED.value += 1
            wlog('wfired', {'point': point, 'key': WCTX['key'], 'task': WCTX['task'], 'at': WCTX['written']})
        return flt
    return None


def install():
    import pysam
    import singlecellmultiomics.universalBamTagger.bamtagmultiome as tm
    import singlecellmultiomics.universalBamTagger.tagging as tg
    import singlecellmultiomics.bamProcessing.bamFunctions as bf
    from singlecellmultiomics.molecule import MoleculeIterator
    from singlecellmultiomics.molecule.molecule import Molecule
    ORIG.update(sort=pysam.sort, index=pysam.index, merge=pysam.merge, remove=os.remove, rmtree=shutil.rmtree,
                write_status=tm.write_status, verify=tm.verify_and_fix_bam, rg=bf.add_readgroups_to_header,
                write_pysam=Molecule.write_pysam, write_tags=Molecule.write_tags, miter=MoleculeIterator.__iter__,
                rtt=tm.run_tagging_tasks, merge_bams=tm.merge_bams, Pool=tm.Pool, move=bf.move)
    tm.sleep = lambda s: None      # the 5 s pause before the temp folder removal

    def out_of(args):
        for i, a in enumerate(args):
            if a == '-o' and i + 1 < len(args):
                return args[i + 1]
        return None

    def p_sort(*args, **kw):
        flt = hit('sort_worker' if not in_main() else 'sort')
        if flt:
            if flt.get('kind') in ('partial', 'base_partial'):
                # the sort wrote part of its result (a well-formed, indexable BAM with half of the
                # records) before it failed, e.g. disk full
                ORIG['sort'](*args, **kw)
                keep_half(out_of(args))
            boom(flt)
        return ORIG['sort'](*args, **kw)

    def p_index(path, *args, **kw):
        point = 'index_out' if os.path.abspath(path) == STATE['out'] and in_main() else \
                ('index_header' if path.endswith('_header.bam') else ('index_other' if in_main() else 'index_worker'))
        flt = hit(point)
        if flt:
            boom(flt)
        return ORIG['index'](path, *args, **kw)

    def p_merge(*args, **kw):
        flt = hit('pysam_merge')
        if flt:
            if flt.get('kind') in ('partial', 'base_partial'):
                ORIG['merge'](*args, **kw)
                keep_half(args[0])
            boom(flt)
        return ORIG['merge'](*args, **kw)

    def p_remove(path, *a, **kw):
        p = str(path)
        ap = os.path.abspath(p)
        if ap == STATE['out']:
            point = 'remove_out'
        elif ap == STATE['out'] + '.bai':
            point = 'remove_out_bai'
        elif p.endswith('.unsorted') and in_main() and ap.startswith(STATE['out']):
            point = 'remove_unsorted'
        elif in_main() and '/scmo_' in p and p.endswith('.bam'):
            point = 'remove_merged_input'
        elif not in_main() and p.endswith('.bam'):
            point = 'w_remove_bam'
        elif not in_main() and p.endswith('.bam.bai'):
            point = 'w_remove_bai'
        else:
            point = 'remove_other'
        flt = hit(point)
        if flt:
            boom(flt)
        return ORIG['remove'](path, *a, **kw)

    def p_rmtree(*a, **kw):
        flt = hit('rmtree')
        if flt:
            boom(flt)
        return ORIG['rmtree'](*a, **kw)

    def p_write_status(path, message):
        flt = hit('write_status')
        if flt:
            if flt.get('kind') in ('partial', 'base_partial'):
                open(path.replace('.bam', '.status.txt'), 'w').close()
            boom(flt)
        return ORIG['write_status'](path, message)

    def p_verify(*a, **kw):
        flt = hit('verify')
        if flt:
            boom(flt)
        return ORIG['verify'](*a, **kw)

    def p_rg(*a, **kw):
        flt = hit('rg_header' if in_main() else 'rg_header_worker')
        if flt:
            boom(flt)
        return ORIG['rg'](*a, **kw)

    def p_write_pysam(self, *a, **kw):
        flt = hit('write_pysam')
        with MOLS.get_lock():
            MOLS.value += 1
        if flt:
            if flt.get('kind') in ('partial', 'base_partial'):
                ORIG['write_pysam'](self, *a, **kw)
            boom(flt)
        r = ORIG['write_pysam'](self, *a, **kw)
        if not in_main() and WCTX['tasks']:
            WCTX['written'] += 1
            t = WCTX['tasks'][-1]
            t['written'] += 1
            ids = molecule_recs(self)
            if ids is None:
                t['recs'] = None
            elif t['recs'] is not None:
                t['recs'] += ids
        return r

    def p_task(*a, **kw):
        # one task of a worker (run_tagging_task): bookkeeping for faults addressed by task, and what it wrote
        WCTX['task'] += 1
        WCTX['written'] = 0
        t = {'written': 0, 'recs': [], 'outcome': 'raised', 'region': [str(kw.get('contig')), str(kw.get('start')), str(kw.get('end'))]}
        WCTX['tasks'].append(t)
        try:
            r = ORIG['task'](*a, **kw)
            t['outcome'] = 'ok'
            return r
        except TimeoutError:
            t['outcome'] = 'timeout'
            raise

    def p_wopen(*a, **kw):
        flt = hit('w_open')
        if flt:
            boom(flt)
        return ORIG['wopen'](*a, **kw)

    def p_prefetch(*a, **kw):
        flt = hit('w_prefetch' if not in_main() else 'prefetch_main')
        if flt:
            boom(flt)
        return ORIG['prefetch'](*a, **kw)

    def p_submit(*a, **kw):
        # --cluster: nothing is submitted; the command is kept for inspection
        flt = hit('submit_job')
        if flt:
            boom(flt)
        STATE.setdefault('submitted', []).append(str(a[0]) if a else str(kw.get('command')))
        return 'job%d' % len(STATE['submitted'])

    def p_write_tags(self, *a, **kw):
        flt = hit('write_tags')
        if flt:
            boom(flt)
        return ORIG['write_tags'](self, *a, **kw)

    def p_miter(self):
        # 'mol_next' after k: the iterator raises instead of delivering molecule k (k counts the
        # molecules of all iterators of this process); 'mol_end': it raises when it is exhausted and
        # `total` molecules have been delivered (the last next() of the chained iterators)
        it = ORIG['miter'](self)
        while True:
            try:
                m = next(it)
            except StopIteration:
                for flt in STATE['faults']:
                    if flt['point'] == 'mol_end' and STATE['counts'].get('mol_next', 0) == flt['total']:
                        STATE['fired'].append('mol_end')
                        boom(flt)
                return
            flt = hit('mol_next')
            if flt:
                boom(flt)
            yield m

    def p_merge_bams(*a, **kw):
        flt = hit('merge_bams')
        if flt:
            boom(flt)
        return ORIG['merge_bams'](*a, **kw)

    def p_pool(*a, **kw):
        flt = hit('pool')
        if flt:
            boom(flt)
        return ORIG['Pool'](*a, **kw)

    pysam.sort, pysam.index, pysam.merge = p_sort, p_index, p_merge
    os.remove = p_remove
    tg.remove = p_remove
    shutil.rmtree = p_rmtree
    tm.write_status = p_write_status
    tm.verify_and_fix_bam = p_verify
    bf.add_readgroups_to_header = p_rg
    Molecule.write_pysam = p_write_pysam
    Molecule.write_tags = p_write_tags
    MoleculeIterator.__iter__ = p_miter
    tm.merge_bams = p_merge_bams
    tm.Pool = p_pool
    tm.run_tagging_tasks = worker_entry
    if hasattr(tg, 'run_tagging_task'):
        ORIG['task'] = tg.run_tagging_task
        tg.run_tagging_task = p_task
    if hasattr(tg, 'AlignmentFile'):
        ORIG['wopen'] = tg.AlignmentFile
        tg.AlignmentFile = p_wopen
    if hasattr(tg, 'prefetch'):
        ORIG['prefetch'] = tg.prefetch
        tg.prefetch = p_prefetch
    if hasattr(tm, 'submit_job'):
        ORIG['submit_job'] = tm.submit_job
        tm.submit_job = p_submit
    return tm


def keep_half(path):
    """rewrite a BAM with the first half of its records (at least one record is dropped)"""
    import pysam
    with pysam.AlignmentFile(path) as f:
        header = f.header
        recs = list(f)
    keep = recs[:len(recs) // 2]
    with pysam.AlignmentFile(path, 'wb', header=header) as o:
        for r in keep:
            o.write(r)


def worker_entry(args):
    """replaces run_tagging_tasks in the pool (module level: picklable by name)"""
    with SHARED.get_lock():
        k = SHARED.value
        SHARED.value += 1
    for flt in STATE['faults']:
        if flt['point'] == 'worker' and flt.get('after', 0) == k:
            with WORKER_FIRED.get_lock():
                WORKER_FIRED.value += 1
            boom(flt)
    return run_worker(args)


def run_worker(args):
    """the real run_tagging_tasks, with a log of what this job did (read back by the harness)"""
    WCTX.update(key=job_key(args), task=-1, written=0, tasks=[])
    WCTX['njob'] += 1
    log = {'key': WCTX['key'], 'ret': 'raise', 'timeouts': None}
    if STATE.get('save_args'):
        try:
            import pickle
            with open(os.path.join(STATE['logdir'], 'wargs_%d_%d.pkl' % (os.getpid(), WCTX['njob'])), 'wb') as fh:
                pickle.dump({'key': WCTX['key'], 'args': args}, fh)
        except Exception:
            pass
    try:
        r = ORIG['rtt'](args)
        try:
            log['ret'] = 'none' if r[0] is None else 'path'
            log['path'] = r[0]
            log['timeouts'] = [[str(t.get('contig')), str(t.get('start')), str(t.get('end'))] for t in reported_tasks(r[1])]
        except Exception:
            log['ret'] = 'other'
        return r
    except BaseException as e:
        log['error'] = '%s: %s' % (type(e).__name__, str(e)[:200])
        log['raised'] = classify_exc(e)
        raise
    finally:
        log['tasks'] = WCTX['tasks']
        wlog('wjob', log)


# ----------------------------------------------------------------------------- observation
def read_bam(path):
    """-> dict(readable, n, key (sorted list of record identities), sorted, so_header)"""
    import pysam
    res = {'readable': False, 'n': 0, 'recs': None, 'sorted': False, 'so_header': None}
    try:
        save = pysam.set_verbosity(0)
        try:
            with pysam.AlignmentFile(path, 'rb') as f:
                hd = f.header.to_dict()
                res['so_header'] = hd.get('HD', {}).get('SO')
                res['blacklisted'] = [c for c in hd.get('CO', []) if 'blacklist' in c.lower()]
                recs, order = [], []
                for r in f:
                    recs.append('%s|%d|%s|%d' % (r.query_name, r.flag & 0x9C0, r.reference_name, r.reference_start))
                    order.append((r.reference_id if r.reference_id >= 0 else 1 << 30, r.reference_start))
                res['n'] = len(recs)
                res['recs'] = sorted(recs)
                res['sorted'] = all(order[i] <= order[i + 1] for i in range(len(order) - 1))
                # truncated files (no EOF block) are reported by htslib only as a warning
                with open(path, 'rb') as fh:
                    fh.seek(0, 2)
                    size = fh.tell()
                    fh.seek(max(0, size - 28))
                    eof = fh.read() == bytes.fromhex('1f8b08040000000000ff0600424302001b0003000000000000000000')
                res['readable'] = eof
        finally:
            pysam.set_verbosity(save)
    except BaseException as e:
        res['error'] = '%s: %s' % (type(e).__name__, str(e)[:100])
    return res


def index_ok(path):
    import pysam
    if not os.path.exists(path + '.bai'):
        return False
    if not os.path.exists(path):
        return True      # an index file without its BAM: "index present" (compared with the model's ix)
    try:
        save = pysam.set_verbosity(0)
        try:
            with pysam.AlignmentFile(path, 'rb') as f:
                if not f.check_index():
                    return False
                n = 0
                for c in f.references:
                    n += sum(1 for _ in f.fetch(c))
                n_mapped = sum(1 for r in pysam.AlignmentFile(path, 'rb') if r.reference_id >= 0)
                return n == n_mapped and os.path.getmtime(path + '.bai') >= os.path.getmtime(path) - 1
        finally:
            pysam.set_verbosity(save)
    except BaseException:
        return False


def status_of(d, out):
    files = sorted(glob.glob(os.path.join(d, '*.status.txt')))
    expect = out.replace('.bam', '.status.txt')
    if not files:
        return 0, None, []
    txt = open(expect).read() if os.path.exists(expect) else None
    extra = [os.path.basename(f) for f in files if os.path.abspath(f) != os.path.abspath(expect)]
    if txt is None:
        return 0, None, extra
    if txt == 'unfinished\n':
        return 1, txt, extra
    if txt.startswith('FAIL'):
        return 2, txt, extra
    if txt == 'Reached end. All ok!\n':
        return 3, txt, extra
    return 4, txt, extra


def observe(d, out, ref):
    st, txt, extra = status_of(d, out)
    ex = os.path.exists(out)
    info = read_bam(out) if ex else {'readable': False, 'n': 0, 'recs': None, 'sorted': False, 'so_header': None}
    co = bool(ex and info['readable'] and ref is not None and info['recs'] == ref)
    so = bool(ex and info['readable'] and info['so_header'] == 'coordinate' and info['sorted'])
    ix = index_ok(out)
    bl = info.get('blacklisted') or []
    return {'world': [st, int(ex), int(co), int(so), int(ix)], 'status_text': txt, 'n_records': info['n'],
            'rep': int(bool(bl)), 'blacklisted': bl, 'recs': info['recs'] if ref is not None and info['recs'] != ref else None,
            'other_status_files': extra, 'bam_error': info.get('error'),
            'leftovers': sorted(x for x in os.listdir(d) if 'unsorted' in x or x.startswith('scmo_'))}


# ----------------------------------------------------------------------------- running
INPUTS = {}


def prepare_inputs(scratch, repo, small_n):
    import pysam
    data = os.path.join(repo, 'data')
    for name, fn in (('chic', 'chic_test_region.bam'), ('nla_full', 'mini_nla_test.bam')):
        dst = os.path.join(scratch, 'in_' + fn)
        shutil.copy(os.path.join(data, fn), dst)
        shutil.copy(os.path.join(data, fn + '.bai'), dst + '.bai')
        os.utime(dst + '.bai')
        INPUTS[name] = dst
    # a smaller nla library: the first small_n records of the real test file (same header)
    dst = os.path.join(scratch, 'in_nla_small.bam')
    # (header reduced to the contigs these records use: the full header has thousands of @SQ lines
    #  and costs 2 s per tagger run)
    with pysam.AlignmentFile(INPUTS['nla_full']) as f:
        recs = []
        for i, r in enumerate(f):
            if i >= small_n:
                break
            recs.append(r.to_dict())
        used = set()
        for r in recs:
            used.add(r['ref_name'])
            used.add(r['next_ref_name'])
        hd = f.header.to_dict()
        hd['SQ'] = [sq for sq in hd['SQ'] if sq['SN'] in used]
        rgs = set(t[5:] for r in recs for t in r['tags'] if t.startswith('RG:Z:'))
        if 'RG' in hd:   # 86784 @RG lines (9 MB) in the test file
            hd['RG'] = [rg for rg in hd['RG'] if rg.get('ID') in rgs]
    header = pysam.AlignmentHeader.from_dict(hd)
    with pysam.AlignmentFile(dst, 'wb', header=header) as o:
        for r in recs:
            o.write(pysam.AlignedSegment.from_dict(r, header))
    ORIG['index'](dst) if 'index' in ORIG else pysam.index(dst)
    INPUTS['nla'] = dst
    mc = os.path.join(scratch, 'in_nla_multi_contig.bam')
    make_multi_contig(dst, mc)
    INPUTS['nla_mc'] = mc


def make_multi_contig(src, dst):
    """the records of src spread over two small contigs (<100 kb), the original contig and a third small
    contig, in that header order; both reads of a pair stay together; positions on the small contigs are
    shifted to start near 0.  Exercises the job construction of --one_contig_per_process (small contigs
    are grouped into one job with several tasks)."""
    import pysam
    with pysam.AlignmentFile(src) as f:
        hd = f.header.to_dict()
        recs = [r.to_dict() for r in f.fetch(until_eof=True)]
    names = []
    for r in recs:
        if r['name'] not in names:
            names.append(r['name'])
    big = hd['SQ'][0]
    n = len(names)
    cut = [n // 6, n // 3, (5 * n) // 6]
    contigs = ['scaf1', 'scaf2', big['SN'], 'scaf3']

    def group(name):
        i = names.index(name)
        return 0 if i < cut[0] else 1 if i < cut[1] else 2 if i < cut[2] else 3
    hd['SQ'] = [{'SN': 'scaf1', 'LN': 50000}, {'SN': 'scaf2', 'LN': 60000}, big, {'SN': 'scaf3', 'LN': 70000}]
    header = pysam.AlignmentHeader.from_dict(hd)
    offs = {}
    for r in recs:
        g = group(r['name'])
        if g != 2 and r['ref_name'] != '*':
            offs[g] = min(offs.get(g, 1 << 60), int(r['ref_pos']))
    out = []
    for r in recs:
        g = group(r['name'])
        if r['ref_name'] != '*':
            r['ref_name'] = contigs[g]
            if g != 2:
                r['ref_pos'] = str(int(r['ref_pos']) - offs[g] + 1)
        if r['next_ref_name'] != '*':
            # the mate is in the same group
            if g != 2 and r['next_ref_pos'] != '0':
                r['next_ref_pos'] = str(max(1, int(r['next_ref_pos']) - offs[g] + 1))
            r['next_ref_name'] = '=' if r['ref_name'] != '*' else contigs[g]
        out.append((g if r['ref_name'] != '*' else 9, int(r['ref_pos']), r))
    out.sort(key=lambda t: (t[0], t[1]))
    with pysam.AlignmentFile(dst, 'wb', header=header) as o:
        for _, _, r in out:
            o.write(pysam.AlignedSegment.from_dict(r, header))
    ORIG['index'](dst) if 'index' in ORIG else pysam.index(dst)


def write_version(src, dst, n_reads=None, move_from=None):
    """the first n_reads records of src; records move_from.. are placed on the next contig of the
    header (the file stays coordinate sorted)"""
    import pysam
    with pysam.AlignmentFile(src) as f:
        nref = f.nreferences
        with pysam.AlignmentFile(dst, 'wb', header=f.header) as o:
            for i, r in enumerate(f.fetch(until_eof=True)):
                if n_reads is not None and i >= n_reads:
                    break
                if move_from is not None and i >= move_from and 0 <= r.reference_id < nref - 1:
                    r.reference_id += 1
                    if 0 <= r.next_reference_id < nref - 1:
                        r.next_reference_id += 1
                o.write(r)


def prepare_input(case, inp):
    """the input of one run, with its history:
       fresh               : the BAM with an up to date index
       missing_index       : the BAM without .bai
       stale_index_shorter : an earlier version holding only the first third of the records was indexed;
                             the file was then regenerated with all records, the OLD .bai left behind
       stale_index_longer  : the complete file was indexed; it was then regenerated with two thirds of
                             the records, the second half of them on the next contig, the OLD .bai left behind
       (a left-behind index is older than the BAM).  Returns True when the records of the current input
       differ from the configuration's standard input (a separate reference run is then needed)."""
    src = INPUTS[case['bam']]
    hist = case.get('input', 'fresh')
    if hist == 'fresh':
        shutil.copy(src, inp)
        shutil.copy(src + '.bai', inp + '.bai')
        os.utime(inp + '.bai')
        return False
    if hist == 'missing_index':
        shutil.copy(src, inp)
        return False
    import pysam
    with pysam.AlignmentFile(src) as f:
        n = sum(1 for _ in f.fetch(until_eof=True))
    if hist == 'stale_index_shorter':
        write_version(src, inp, n_reads=max(1, n // 3))
        ORIG['index'](inp)
        old_bai = open(inp + '.bai', 'rb').read()
        write_version(src, inp)
    elif hist == 'stale_index_longer':
        write_version(src, inp)
        ORIG['index'](inp)
        old_bai = open(inp + '.bai', 'rb').read()
        n_reads = (2 * n) // 3
        write_version(src, inp, n_reads=n_reads, move_from=n_reads // 2)
    else:
        raise ValueError('unknown input history %r' % hist)
    with open(inp + '.bai', 'wb') as fh:        # the index of the earlier version stays
        fh.write(old_bai)
    t = time.time()
    os.utime(inp, (t - 600, t - 600))
    os.utime(inp + '.bai', (t - 3600, t - 3600))
    return hist == 'stale_index_longer'


def command(case, inp, out):
    cmd = [inp, '-method', case['method'], '-o', out]
    if case['mp']:
        cmd += ['--multiprocess', '-tagthreads', '2']
    cmd += case.get('extra', [])
    return cmd


def new_counters():
    """Fresh shared counters for every run.  A process that is killed (injected SIGKILL, the kill of the
    process group after a run, a timeout) while it holds the lock of a multiprocessing.Value leaves that
    lock acquired for ever: re-using the counters made the NEXT access block the whole harness (the
    intermittent hang of the first version).  The harness reads them without the lock."""
    global SHARED, MOLS, WORKER_COUNTS, WORKER_FIRED
    SHARED = multiprocessing.Value('i', 0)
    MOLS = multiprocessing.Value('i', 0)
    WORKER_COUNTS = {k: multiprocessing.Value('i', 0) for k in ('write_pysam', 'mol_next', 'write_tags')}
    WORKER_FIRED = multiprocessing.Value('i', 0)


def raw(v):
    return v.get_obj().value


def run_tagger(tm, case, d, out, faults):
    """One tagger run in its OWN forked child (own process group, hard timeout).  The harness process
    itself stays single threaded and never owns a pool: a multiprocessing.Pool left behind by a failed
    --multiprocess run (the tagger does not close it) cannot dead-lock a later case, and whatever the
    run leaves running is killed with its process group.  Outcome codes: 0 returned, 1+kind raised,
    7 killed by the injected SIGKILL, 99 hang (did not end within CASE_TIMEOUT s)."""
    global MAIN_PID
    STATE['faults'] = faults
    STATE['counts'] = {}
    STATE['fired'] = []
    STATE['out'] = os.path.abspath(out)
    STATE['logdir'] = d
    STATE['submitted'] = []
    new_counters()
    inp = os.path.join(d, 'input.bam')
    if not os.path.exists(inp):
        prepare_input(case, inp)
    report = os.path.join(d, 'harness_report.json')
    sys.stdout.flush()
    sys.stderr.flush()
    pid = os.fork()
    if pid == 0:
        code = 0
        try:
            MAIN_PID = os.getpid()     # the child is the tagger's main process
            os.setpgid(0, 0)
            os.chdir(d)
            buf = io.StringIO()
            err = None
            try:
                with contextlib.redirect_stdout(buf), contextlib.redirect_stderr(buf):
                    tm.run_multiome_tagging_cmd(command(case, inp, out))
                raised = 0
            except BaseException as e:
                raised, err = classify_exc(e), '%s: %s' % (type(e).__name__, str(e)[:200])
            with open(report, 'w') as fh:
                json.dump({'raised': raised, 'error': err, 'counts': STATE['counts'], 'fired': STATE['fired'],
                           'submitted': STATE.get('submitted', [])}, fh)
        except BaseException:
            code = 3
        finally:
            os._exit(code)
    try:
        os.setpgid(pid, pid)
    except OSError:
        pass
    t_end = time.time() + CASE_TIMEOUT
    wst = None
    while time.time() < t_end:
        got, st = os.waitpid(pid, os.WNOHANG)
        if got == pid:
            wst = st
            break
        time.sleep(0.005)
    hung = wst is None
    try:
        os.killpg(pid, signal.SIGKILL)     # the run itself when it hangs; otherwise what it left running
    except OSError:
        pass
    if hung:
        os.waitpid(pid, 0)
    STATE['faults'] = []
    rep = None
    if os.path.exists(report):
        try:
            rep = json.load(open(report))
        except Exception:
            rep = None
        ORIG['remove'](report)
    if hung:
        raised, err = 99, 'HANG: the tagger did not end within %d s' % CASE_TIMEOUT
    elif os.WIFSIGNALED(wst):
        raised, err = 7, 'killed by signal %d' % os.WTERMSIG(wst)
        if os.WTERMSIG(wst) == signal.SIGKILL and any(f.get('kind') == 'kill' for f in faults):
            err += ' (injected)'
            STATE['fired'].append('kill')
    elif rep is None:
        raised, err = 98, 'harness child ended without a report (exit %d)' % os.WEXITSTATUS(wst)
    else:
        raised, err = rep['raised'], rep['error']
    counts = dict(rep['counts']) if rep else {}
    fired = (list(rep['fired']) if rep else []) + list(STATE['fired']) + ['worker-side'] * raw(WORKER_FIRED)
    counts['fired'] = fired
    counts['submitted'] = rep.get('submitted', []) if rep else []
    return raised, err, counts, raw(SHARED), raw(MOLS)


def collect_logs(d):
    """what the pool workers of the last run in d logged: jobs (canonical order: by key) and where worker-side
    faults fired"""
    jobs, fired = [], []
    for fn in sorted(os.listdir(d)):
        if fn.startswith(('wjob_', 'wfired_')) and fn.endswith('.json'):
            try:
                o = json.load(open(os.path.join(d, fn)))
            except Exception:
                continue
            (jobs if fn.startswith('wjob_') else fired).append(o)
    jobs = [j for j in jobs if j.get('key') is not None]
    jobs.sort(key=lambda j: json.dumps(j['key']))
    return jobs, fired


def segments_check(out_recs, ref_recs, ref_jobs, jobs, blacklisted):
    """-max_time_per_segment: which records of the reference are missing from the output, and are they all
    records of tasks that were reported as timed out (by the worker) and blacklisted in the output header
    (by the parent)?  None when the output is complete / unreadable or the per-task records are not known."""
    if out_recs is None or ref_recs is None or not ref_jobs:
        return None
    from collections import Counter
    missing = Counter(ref_recs) - Counter(out_recs)
    if not missing:
        return None
    reported = [tuple(t) for j in jobs for t in (j.get('timeouts') or [])]
    covered = Counter()
    for j in ref_jobs:
        for t in j.get('tasks', []):
            if t.get('recs') is None:
                return None
            if tuple(t.get('region') or ()) in reported:
                covered.update(t['recs'])
    in_header = all(any(str(r[0]) in c for c in blacklisted) for r in reported)
    silent = missing - covered
    return {'missing': sum(missing.values()), 'missing_not_reported': sum(silent.values()), 'reported_tasks': len(reported),
            'reported_in_header': bool(in_header), 'example': sorted(silent)[:3]}


def pysam_open(path):
    import pysam
    return pysam.AlignmentFile(path)


def handler(p):
    scratch = os.environ['SCMO_SCRATCH']
    repo = os.environ.get('SCMO_REPO', '/repo')
    tm = install()
    prepare_inputs(scratch, repo, p.get('small_n', 120))
    refs = {}
    out = {'refs': {}, 'cases': []}
    # reference (fault free) runs, one per configuration
    for key, case in p['configs'].items():
        if case.get('noref'):
            continue
        d = os.path.join(scratch, 'ref_' + key)
        os.makedirs(d)
        o = os.path.join(d, 'out.bam')
        t0 = time.time()
        STATE['save_args'] = bool(case.get('mp'))
        raised, err, counts, jobs, mols = run_tagger(tm, case, d, o, [])
        STATE['save_args'] = False
        wjobs, _ = collect_logs(d)
        info = read_bam(o) if os.path.exists(o) else {'recs': None, 'n': 0}
        obs = observe(d, o, info['recs'])
        rc = case.get('ref_config')
        if rc:
            # "every record" for a --multiprocess run = what the serial run writes for the same options
            info = dict(info, recs=refs[rc]['recs'], n=len(refs[rc]['recs'] or []))
            obs = observe(d, o, info['recs'])
        refs[key] = {'dir': d, 'recs': info['recs'], 'wjobs': wjobs}
        out['refs'][key] = {'raised': raised, 'error': err, 'world': obs['world'], 'n_records': info['n'],
                            'molecules': mols, 'jobs': jobs, 'calls': counts, 'seconds': round(time.time() - t0, 2),
                            'leftovers': obs['leftovers'], 'status_text': obs['status_text'], 'rep': obs['rep'],
                            'wjobs': [{'key': j['key'], 'ret': j['ret'],
                                       'tasks': [{'written': t['written'], 'region': t.get('region'),
                                                  'n_recs': len(t['recs']) if t.get('recs') is not None else None}
                                                 for t in j.get('tasks', [])]} for j in wjobs]}
    t_start = time.time()
    for n, case in enumerate(p['cases']):
        if time.time() - t_start > RUN_BUDGET:
            out['cases'].append({'skipped': 'time budget of the harness process used up'})
            continue
        if os.environ.get('C20_DEBUG'):
            sys.stderr.write('case %d %r\n' % (n, case))
            sys.stderr.flush()
        try:
            cfg = p['configs'][case['config']]
            full = dict(cfg)
            full.update(case)
            d = os.path.join(scratch, 'case_%d' % n)
            os.makedirs(d)
            o = os.path.join(d, 'out.bam')
            ref = refs.get(case['config']) or refs[cfg['ref_for_pre']]
            if case.get('pre') == 'prev_ok':
                for ext in ('.bam', '.bam.bai', '.status.txt'):
                    shutil.copy2(os.path.join(ref['dir'], 'out' + ext), os.path.join(d, 'out' + ext))
                os.utime(os.path.join(d, 'out.bam.bai'))
            ref_recs = ref['recs']
            if case.get('input', 'fresh') not in ('fresh', 'missing_index'):
                # the records of the CURRENT input: a fault-free run on the same file with a fresh index
                rd = os.path.join(scratch, 'refin_%d' % n)
                os.makedirs(rd)
                prepare_input(full, os.path.join(rd, 'input.bam'))
                if os.path.exists(os.path.join(rd, 'input.bam.bai')):
                    ORIG['remove'](os.path.join(rd, 'input.bam.bai'))
                ORIG['index'](os.path.join(rd, 'input.bam'))
                ro = os.path.join(rd, 'out.bam')
                r_raised, r_err, _, _, _ = run_tagger(tm, dict(full, input='fresh'), rd, ro, [])
                ref_recs = read_bam(ro)['recs'] if os.path.exists(ro) and not r_raised else None
                with pysam_open(os.path.join(rd, 'input.bam')) as f:
                    n_in = sum(1 for _ in f.fetch(until_eof=True))
                if ref_recs is None or len(ref_recs) != n_in:
                    raise RuntimeError('reference run on the regenerated input failed: %r' % (r_err,))
                ORIG['rmtree'](rd, ignore_errors=True)
            t0 = time.time()
            raised, err, counts, jobs, mols = run_tagger(tm, full, d, o, case['faults'])
            t1 = time.time()
            obs = observe(d, o, ref_recs)
            wjobs, wfired = collect_logs(d)
            obs['wfired'] = wfired
            obs['wjobs'] = [{'key': j['key'], 'ret': j['ret'], 'timeouts': j.get('timeouts'),
                             'tasks': [{'written': t['written'], 'outcome': t['outcome']} for t in j.get('tasks', [])]} for j in wjobs]
            obs['submitted'] = len(counts.get('submitted', []))
            obs['submitted_ok_message'] = any('All ok' in c for c in counts.get('submitted', []))
            obs['segments'] = segments_check(obs.pop('recs'), ref_recs, ref.get('wjobs'), wjobs, obs['blacklisted'])
            obs['seconds'] = [round(t1 - t0, 2), round(time.time() - t1, 2)]
            obs.update({'raised': raised, 'error': err, 'jobs': jobs, 'molecules': mols,
                        'fired': counts.get('fired', []) + (['worker-side'] if err and 'njected' in err and not counts.get('fired') else [])})
            out['cases'].append(obs)
            shutil.rmtree(d, ignore_errors=True) if 'rmtree' not in ORIG else ORIG['rmtree'](d, ignore_errors=True)
        except BaseException as e:
            out['cases'].append({'harness_error': '%s: %s\n%s' % (type(e).__name__, e, traceback.format_exc()[-800:])})
    out['wcases'] = []
    for n, wc in enumerate(p.get('wcases', [])):
        try:
            out['wcases'].append(run_worker_case(scratch, n, refs[wc['config']], wc))
        except BaseException as e:
            out['wcases'].append({'harness_error': '%s: %s\n%s' % (type(e).__name__, e, traceback.format_exc()[-800:])})
    return out


def load_job_args(ref, j):
    """the pickled argument tuple of job j (canonical order) of a reference --multiprocess run"""
    import pickle
    found = {}
    for fn in os.listdir(ref['dir']):
        if fn.startswith('wargs_') and fn.endswith('.pkl'):
            try:
                o = pickle.load(open(os.path.join(ref['dir'], fn), 'rb'))
                found[json.dumps(o['key'])] = o['args']
            except Exception:
                pass
    key = json.dumps(ref['wjobs'][j]['key'])
    return found.get(key)


def run_worker_case(scratch, n, ref, wc):
    """ONE real run_tagging_tasks call (no pool) on the arguments job j had in the reference run, with injected
    faults; observed: what it returns, the temp BAM it leaves, the tasks it reports"""
    global MAIN_PID
    args = load_job_args(ref, wc['job'])
    if args is None:
        return {'skipped': 'arguments of the job were not captured'}
    d = os.path.join(scratch, 'wcase_%d' % n)
    tmp = os.path.join(d, 'tmp')
    os.makedirs(tmp)
    (apath, _, tmo), arglist = args
    args = ((apath, tmp, tmo), arglist)
    STATE['faults'] = [dict(f) for f in wc['faults']]
    STATE['counts'] = {}
    STATE['fired'] = []
    STATE['out'] = '/nonexistent/out.bam'
    STATE['logdir'] = d
    new_counters()
    report = os.path.join(d, 'report.json')
    sys.stdout.flush()
    sys.stderr.flush()
    pid = os.fork()
    if pid == 0:
        code = 0
        try:
            MAIN_PID = -1          # this process plays a pool worker
            os.setpgid(0, 0)
            os.chdir(d)
            buf = io.StringIO()
            res = {'ret': 'raise', 'raised': 0, 'error': None, 'path': None, 'timeouts': None}
            try:
                with contextlib.redirect_stdout(buf), contextlib.redirect_stderr(buf):
                    r = run_worker(args)
                res['ret'] = 'none' if r[0] is None else 'path'
                res['path'] = r[0]
                res['timeouts'] = len(reported_tasks(r[1]))
            except BaseException as e:
                res['raised'], res['error'] = classify_exc(e), '%s: %s' % (type(e).__name__, str(e)[:200])
            res['fired'] = STATE['fired']
            with open(report, 'w') as fh:
                json.dump(res, fh)
        except BaseException:
            code = 3
        finally:
            os._exit(code)
    t_end = time.time() + CASE_TIMEOUT
    done = False
    while time.time() < t_end:
        got, st = os.waitpid(pid, os.WNOHANG)
        if got == pid:
            done = True
            break
        time.sleep(0.005)
    try:
        os.killpg(pid, signal.SIGKILL)
    except OSError:
        pass
    if not done:
        os.waitpid(pid, 0)
        return {'raised': 99, 'error': 'HANG'}
    STATE['faults'] = []
    if not os.path.exists(report):
        return {'harness_error': 'worker case ended without a report'}
    res = json.load(open(report))
    # the temp BAM: the returned path, else whatever <uuid>.bam is left in the temp folder
    bams = [os.path.join(tmp, x) for x in os.listdir(tmp) if x.endswith('.bam')]
    bais = [os.path.join(tmp, x[:-4]) for x in os.listdir(tmp) if x.endswith('.bam.bai')]
    path = res['path'] or (bams[0] if bams else (bais[0] if bais else os.path.join(tmp, 'none.bam')))
    job = ref['wjobs'][wc['job']]
    ref_recs = sorted(r for t in job.get('tasks', []) for r in (t.get('recs') or []))
    ex = os.path.exists(path)
    info = read_bam(path) if ex else {'readable': False, 'n': 0, 'recs': None, 'sorted': False, 'so_header': None}
    co = bool(ex and info['readable'] and info['recs'] == ref_recs)
    so = bool(ex and info['readable'] and info['so_header'] == 'coordinate' and info['sorted'])
    res.update({'world': [0, int(ex), int(co), int(so), int(index_ok(path))], 'n_records': info['n'], 'n_ref': len(ref_recs),
                'rep': int(bool(res.get('timeouts'))), 'left': sorted(os.path.basename(x) for x in os.listdir(tmp))[:6]})
    jobs, fired = collect_logs(d)
    res['wfired'] = fired
    res['tasks'] = [{'written': t['written'], 'outcome': t['outcome']} for j in jobs for t in j.get('tasks', [])]
    res['path'] = None
    ORIG['rmtree'](d, ignore_errors=True)
    return res


if __name__ == '__main__':
    fw.impl_main(handler)
    # pools whose worker failed are never closed by the tagger; do not wait for them at exit
    sys.stdout.flush()
    os._exit(0)
