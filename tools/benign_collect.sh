#!/bin/sh
# usage: benign_collect.sh Cxx  -- store the sub-agent's property-preserving patches under benign/ and drop its worktree
p=$1
for k in 1 2 3 4; do
  if [ -f /tmp/benignwork_$p/b$k/patch.diff ]; then
    mkdir -p /verif/benign/$p-$k && cp /tmp/benignwork_$p/b$k/patch.diff /tmp/benignwork_$p/b$k/check.py /tmp/benignwork_$p/b$k/meta.json /verif/benign/$p-$k/
  fi
done
git -C /repo worktree remove --force /tmp/benign_$p 2>/dev/null
rm -rf /tmp/benignwork_$p
ls -d /verif/benign/$p-*
