#!/bin/sh
# usage: benign_collect.sh Cxx [first-number]  -- store the sub-agent's property-preserving patches under benign/ and drop its worktree
p=$1; n=${2:-1}
for k in 1 2 3 4; do
  if [ -f /tmp/benignwork_$p/b$k/patch.diff ] && [ -f /tmp/benignwork_$p/b$k/meta.json ]; then
    mkdir -p /verif/benign/$p-$n && cp /tmp/benignwork_$p/b$k/patch.diff /tmp/benignwork_$p/b$k/check.py /tmp/benignwork_$p/b$k/meta.json /verif/benign/$p-$n/
    n=$((n+1))
  fi
done
git -C /repo worktree remove --force /tmp/benign_$p 2>/dev/null
rm -rf /tmp/benignwork_$p
ls -d /verif/benign/$p-* | tr '\n' ' '; echo
