"""runs the REAL AlleleResolver for C18: generated VCFs are written to the scratch dir, bgzipped and
tabix-indexed with pysam; every run of a history is a fresh AlleleResolver on the same file, so the
<vcf>_allele_cache directory persists between the runs of one case."""
import gzip, io, os, sys
import fw


def gt_text(gt, sep):
    return sep.join('.' if a is None else str(a) for a in gt)


def write_vcf(path, vcf):
    lines = ['##fileformat=VCFv4.2']
    for c in vcf['contigs']:
        lines.append('##contig=<ID=%s,length=100000>' % c)
    lines.append('##FORMAT=<ID=GT,Number=1,Type=String,Description="Genotype">')
    lines.append('\t'.join(['#CHROM', 'POS', 'ID', 'REF', 'ALT', 'QUAL', 'FILTER', 'INFO', 'FORMAT'] + vcf['samples']))
    for r in vcf['records']:
        lines.append('\t'.join([r['chrom'], str(r['pos']), '.', r['ref'], ','.join(r['alts']) if r['alts'] else '.',
                                '.', 'PASS', '.', 'GT'] + [gt_text(g, r.get('sep', '|')) for g in r['gts']]))
    with open(path, 'w') as f:
        f.write('\n'.join(lines) + '\n')


def make_reads(reads, contigs):
    """in-memory pysam reads for getAllele(reads)"""
    import pysam
    names = list(contigs) + sorted(set(r['chrom'] for r in reads if r is not None) - set(contigs))
    header = pysam.AlignmentHeader.from_dict({'HD': {'VN': '1.6'}, 'SQ': [{'SN': c, 'LN': 100000} for c in names]})
    out, pairs = [], []
    for k, r in enumerate(reads):
        if r is None:
            out.append(None)
            continue
        a = pysam.AlignedSegment(header)
        a.query_name = 'r%d' % k
        a.query_sequence = r['seq']
        a.flag = 4 if r.get('unmapped') else 0
        a.reference_id = names.index(r['chrom'])
        a.reference_start = r['pos']
        a.mapping_quality = 60
        a.cigar = [tuple(x) for x in r['cigar']]
        a.query_qualities = pysam.qualitystring_to_array('I' * len(r['seq']))
        out.append(a)
        if not r.get('unmapped'):
            pairs.append([list(x) for x in a.get_aligned_pairs(matches_only=True)])
    return out, pairs


def do_query(ar, q, contigs, seen_pairs):
    if q[0] == 0:
        r = ar.getAllelesAt(q[1], q[2], q[3])
        return None if r is None else sorted(r)
    if q[0] == 1:
        return bool(ar.has_location(q[1], q[2]))
    reads, pairs = make_reads(q[1], contigs)
    seen_pairs.append(pairs)
    return sorted(ar.getAllele(reads))


def run_case(case, n):
    import pysam
    from singlecellmultiomics.alleleTools import AlleleResolver
    base = os.path.join(os.environ['SCMO_SCRATCH'], 'v%d.vcf' % n)
    write_vcf(base, case['vcf'])
    pysam.tabix_index(base, preset='vcf', force=True)   # -> base + '.gz' (+ .tbi), removes base
    path = base + '.gz'
    view = []
    with pysam.VariantFile(path) as v:
        samples = list(v.header.samples)
        contigs = list(v.header.contigs)
        for rec in v.fetch():
            view.append([rec.chrom, rec.pos, rec.ref, list(rec.alts) if rec.alts is not None else [],
                         [list(d.alleles) for s, d in rec.samples.items()]])
    runs = []
    noise = []
    read_pairs = []
    for run in case['history']:
        cf = run['cfg']
        kw = dict(phased=cf['phased'], lazyLoad=cf['lazy'], use_cache=cf['cache'],
                  select_samples=cf['select'],
                  ignore_conversions=(None if cf['ignore'] is None else set(tuple(x) for x in cf['ignore'])),
                  chrom=cf['chrom'])
        # region-restricted loading: the two options are passed only when the case sets them
        if cf.get('rstart') is not None:
            kw['region_start'] = cf['rstart']
        if cf.get('rend') is not None:
            kw['region_end'] = cf['rend']
        buf = io.StringIO()
        old = sys.stdout
        sys.stdout = buf
        try:
            try:
                ar = AlleleResolver(path, **kw)
            except BaseException as e:
                runs.append(['RAISE', '%s: %s' % (type(e).__name__, e)])
                continue
            ans = []
            for q in run['queries']:
                try:
                    ans.append(do_query(ar, q, case['vcf']['contigs'], read_pairs))
                except BaseException as e:
                    ans.append({'error': '%s: %s' % (type(e).__name__, e)})
            runs.append(ans)
        finally:
            sys.stdout = old
            noise.append(buf.getvalue()[:300])
    cache = {}
    cdir = os.path.abspath(path) + '_allele_cache'
    if os.path.isdir(cdir):
        for fn in sorted(os.listdir(cdir)):
            try:
                with gzip.open(os.path.join(cdir, fn), 'rt', newline='') as f:
                    cache[fn] = f.read()
            except BaseException as e:
                cache[fn] = {'error': '%s: %s' % (type(e).__name__, e)}
    return {'runs': runs, 'cache': cache, 'view': view, 'samples': samples, 'contigs': contigs, 'printed': noise,
            'read_pairs': read_pairs}


def read_cache_dir(path):
    cache = {}
    cdir = os.path.abspath(path) + '_allele_cache'
    if os.path.isdir(cdir):
        for fn in sorted(os.listdir(cdir)):
            try:
                with gzip.open(os.path.join(cdir, fn), 'rt', newline='') as f:
                    cache[fn] = f.read()
            except BaseException as e:
                cache[fn] = {'error': '%s: %s' % (type(e).__name__, e)}
    return cache


def run_group(group, n):
    """several AlleleResolver objects alive in this process at once (possibly on different VCF files); an object is
    constructed when an operation first names it; operations are executed in the given interleaved order"""
    import pysam
    from singlecellmultiomics.alleleTools import AlleleResolver
    paths = []
    for k, sess in enumerate(group['sessions']):
        base = os.path.join(os.environ['SCMO_SCRATCH'], 'g%d_s%d.vcf' % (n, k))
        write_vcf(base, sess['vcf'])
        pysam.tabix_index(base, preset='vcf', force=True)
        paths.append(base + '.gz')
    objs, answers, read_pairs = {}, [], []
    old = sys.stdout
    sys.stdout = io.StringIO()
    try:
        for s_, i, q in group['ops']:
            if (s_, i) not in objs:
                cf = group['sessions'][s_]['objects'][i]
                try:
                    objs[(s_, i)] = AlleleResolver(
                        paths[s_], phased=cf['phased'], lazyLoad=cf['lazy'], use_cache=cf['cache'],
                        select_samples=cf['select'], chrom=cf['chrom'],
                        ignore_conversions=(None if cf['ignore'] is None else set(tuple(x) for x in cf['ignore'])))
                except BaseException as e:
                    objs[(s_, i)] = None
            ar = objs[(s_, i)]
            if ar is None:
                answers.append('RAISE')
                continue
            try:
                answers.append(do_query(ar, q, group['sessions'][s_]['vcf']['contigs'], read_pairs))
            except BaseException as e:
                answers.append({'error': '%s: %s' % (type(e).__name__, e)})
    finally:
        sys.stdout = old
    return {'answers': answers, 'caches': [read_cache_dir(p_) for p_ in paths], 'read_pairs': read_pairs}


def read_cache_text(text, n, window=None):
    """the real read_cached on an arbitrary cache file (optionally under a window)"""
    from singlecellmultiomics.alleleTools import AlleleResolver
    path = os.path.join(os.environ['SCMO_SCRATCH'], 'cache%d.tsv.gz' % n)
    with gzip.open(path, 'wb') as f:
        f.write(text.encode('utf-8'))
    kw = {}
    if window is not None:
        if window[0] is not None:
            kw['region_start'] = window[0]
        if window[1] is not None:
            kw['region_end'] = window[1]
    ar = AlleleResolver(**kw)      # no vcf: an empty resolver
    raised = None
    try:
        ar.read_cached(path, 'c')
    except Exception as e:
        raised = '%s: %s' % (type(e).__name__, e)
    d = ar.locationToAllele['c'] if 'c' in ar.locationToAllele else {}
    return {'entries': [[p_, b, sorted(d[p_][b])] for p_ in d for b in d[p_]], 'raised': raised}


def handler(p):
    if 'cache_texts' in p:
        wins = p.get('cache_windows') or [None] * len(p['cache_texts'])
        return {'texts': [read_cache_text(t, n, w) for n, (t, w) in enumerate(zip(p['cache_texts'], wins))]}
    if 'groups' in p:
        out = []
        for n, g in enumerate(p['groups']):
            try:
                out.append(run_group(g, n))
            except BaseException as e:
                out.append({'error': '%s: %s' % (type(e).__name__, e)})
        return {'groups': out}
    out = []
    for n, case in enumerate(p['cases']):
        try:
            out.append(run_case(case, n))
        except BaseException as e:
            out.append({'error': '%s: %s' % (type(e).__name__, e)})
    return {'cases': out}


fw.impl_main(handler)
