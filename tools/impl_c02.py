"""runs the REAL demultiplexing strategies for C02 (under /venv/bin/python, PYTHONPATH=$SCMO_REPO).

ops (payload['op']):
  layouts : instantiate every registered strategy the way DemultiplexingStrategyLoader does and dump,
            by reflection, its constructor attributes / slices, plus what one demultiplex call on reads
            whose characters are all distinct shows (ligation bases, exact arity, observed positions)
  run     : demultiplex batches of read tuples through named strategies; also answers whitelist
            lookups with the same BarcodeParser
  init    : UmiBarcodeDemuxMethod(**args) for arbitrary constructor arguments -> sequenceCapture
"""
import io, os, sys
import fw

HEADER_KEYS = ('Is', 'RN', 'Fc', 'La', 'Ti', 'CX', 'CY', 'RP', 'Fi', 'CN', 'aa', 'aA', 'aI', 'LY')
HDR = '@NS500414:628:H7YVNBGXC:1:11101:15963:1046 %d:N:0:GTGAAA'
N_TRACE = 120
SYNTH = {'10x_3M-february-2018': 16}
# the DamID arm of DamID2andT_3u4b3u6b looks its barcode up in an alias no file ships for: give it the
# transcriptome barcodes extended by two bases so that the both-arms branch is exercised
SYNTH_EXT = {'DamID2_scattered_10bp': ('CS2_scattered_8bp', 48)}
BASE = (0x4E00, 0x6000, 0x7000)


class Quiet:
    def __enter__(self):
        self.old = sys.stdout
        sys.stdout = io.StringIO()

    def __exit__(self, *a):
        sys.stdout = self.old


class AcceptAll:
    """stub whitelist for tracing: every raw barcode is 'corrected' to itself"""
    def getIndexCorrectedBarcodeAndHammingDistance(self, alias=None, barcode=None, **kw):
        return (1, barcode, 0)

    def __getitem__(self, alias):
        return {'A': 1}


def load():
    with Quiet():
        import singlecellmultiomics
        from singlecellmultiomics.barcodeFileParser.barcodeFileParser import BarcodeParser
        from singlecellmultiomics.modularDemultiplexer.demultiplexingStrategyLoader import DemultiplexingStrategyLoader
        root = os.path.dirname(singlecellmultiomics.__file__)
        bp = BarcodeParser(os.path.join(root, 'modularDemultiplexer/barcodes/'), hammingDistanceExpansion=1, lazyLoad='*')
        ip = BarcodeParser(os.path.join(root, 'modularDemultiplexer/indices/'), lazyLoad='*')
        # whitelists that ship empty (the 10x list is emptied in this checkout) get a few synthetic
        # barcodes so that the layout can be exercised on accepted reads; the lookups K uses are answered
        # by this same parser, so model and implementation see the same whitelist
        import random
        rnd = random.Random(20260101)
        for alias, blen in SYNTH.items():
            wl = bp[alias]
            if not wl:
                for i in range(24):
                    bp.addBarcode(alias, ''.join(rnd.choice('ACGT') for _ in range(blen)), i + 1)
                bp.expand(1, alias=alias)
        for alias, (src, n) in SYNTH_EXT.items():
            if not bp[alias]:
                for i, k in enumerate(sorted(bp[src] or {})[:n]):
                    bp.addBarcode(alias, k + rnd.choice('ACGT') + rnd.choice('ACGT'), i + 1)
                bp.expand(1, alias=alias)
        loader = DemultiplexingStrategyLoader(barcodeParser=bp, indexParser=ip, indexFileAlias=None)
    return loader, bp


def sl(s):
    if not isinstance(s, slice):
        raise ValueError('not a slice: %r' % (s,))
    if s.step not in (None, 1):
        raise ValueError('slice with a step: %r' % (s,))
    for b in (s.start, s.stop):
        if b is not None and not isinstance(b, int):
            raise ValueError('slice bound is not an int: %r' % (s,))
    return [s.start, s.stop]


def optint(x):
    if x is None or (isinstance(x, int) and not isinstance(x, bool)):
        return x
    raise ValueError('not an int/None: %r' % (x,))


def kind_of(s):
    from singlecellmultiomics.modularDemultiplexer import baseDemultiplexMethods as B
    subs = [k for k, v in vars(s).items()
            if isinstance(v, (B.UmiBarcodeDemuxMethod, B.ScatteredUmiBarcodeDemuxMethod))]
    if subs:
        return 3
    if hasattr(s, 'enzymeStart'):
        return 4
    if isinstance(s, B.ScatteredUmiBarcodeDemuxMethod):
        return 2
    if isinstance(s, B.UmiBarcodeDemuxMethod):
        return 1
    if type(s) is B.IlluminaBaseDemultiplexer:
        return 0
    return 9


def fq(seqs_quals):
    from singlecellmultiomics.fastqProcessing.fastqIterator import FastqRecord
    return [FastqRecord(HDR % (i + 1), s, '+', q) for i, (s, q) in enumerate(seqs_quals)]


def call(strategy, recs, probe=None):
    from singlecellmultiomics.modularDemultiplexer.baseDemultiplexMethods import NonMultiplexable
    try:
        with Quiet():
            out = strategy.demultiplex(fq(recs), library='L', probe=probe)
    except NonMultiplexable as e:
        return {'st': 'reject'}
    except BaseException as e:
        return {'st': 'raise', 'error': type(e).__name__}
    try:
        res = []
        if not isinstance(out, (list, tuple)):
            return {'st': 'accept-malformed', 'what': 'returned %s instead of a list of records' % type(out).__name__}
        if all(isinstance(x, str) for x in out):
            return {'st': 'accept', 'fastq': list(out)}
        for tr in out:
            tags = {}
            for k, v in tr.tags.items():
                if k in HEADER_KEYS:
                    continue
                tags[k] = v if isinstance(v, (int, str)) and not isinstance(v, bool) else repr(v)
            res.append({'seq': tr.sequence, 'qual': tr.qualities, 'tags': tags})
        return {'st': 'accept', 'recs': res}
    except BaseException as e:
        return {'st': 'accept-malformed', 'what': '%s: %s' % (type(e).__name__, e)}


def positions(text):
    """characters of the trace reads -> [(mate, pos)]"""
    out = []
    for ch in text:
        c = ord(ch)
        for m in (2, 1, 0):
            if c >= BASE[m]:
                out.append((m, c - BASE[m]))
                break
        else:
            raise ValueError('character %r is not from the trace reads' % ch)
    return out


def runs(pos):
    """[(mate,pos)] -> maximal runs [[mate, start, length]]"""
    out = []
    for m, p in pos:
        if out and out[-1][0] == m and out[-1][1] + out[-1][2] == p:
            out[-1][2] += 1
        else:
            out.append([m, p, 1])
    return out


def trace(s):
    """demultiplex reads made of distinct characters with an accept-all whitelist"""
    reads = [(''.join(chr(BASE[m] + i) for i in range(N_TRACE)), 'I' * N_TRACE) for m in range(3)]
    saved = s.barcodeFileParser
    s.barcodeFileParser = AcceptAll()
    try:
        res = {n: call(s, reads[:n]) for n in (0, 1, 2, 3)}
    finally:
        s.barcodeFileParser = saved
    acc = [n for n in res if res[n]['st'] == 'accept']
    if not acc:
        raise ValueError('trace: %s accepts no arity: %r' % (s.shortName, res))
    w = {'exact': None, 'lig': None, 'need2': False}
    if len(acc) == 1 and all(res[n]['st'] == 'reject' for n in (1, 2) if n != acc[0]) and acc[0] in (1, 2):
        w['exact'] = acc[0]
    top = res[max(acc)]['recs']
    if len(top) != max(acc):
        raise ValueError('trace: %d records for %d reads' % (len(top), max(acc)))
    t0 = top[0]['tags']
    for r in top:
        for k in ('bc', 'RX', 'rS', 'lh'):
            if r['tags'].get(k) != t0.get(k):
                raise ValueError('trace: tag %s differs between the records' % k)
    lig = None
    if 'lh' in t0:
        rr = runs(positions(t0['lh']))
        if len(rr) != 1 or rr[0][0] != 0:
            raise ValueError('trace: ligation bases are not one stretch of read 1: %r' % rr)
        lig = rr[0]
        w['lig'] = [lig[1], lig[2]]
        w['need2'] = bool(res[1]['st'] == 'raise' and res[1].get('error') == 'IndexError' and 2 in acc)
    primer = None
    if 'rS' in t0:
        rr = runs(positions(t0['rS']))
        if len(rr) != 1:
            raise ValueError('trace: random primer is not one stretch: %r' % rr)
        primer = rr[0]
    insert = [0, 0]
    for i, r in enumerate(top):
        pp = positions(r['seq'])
        if pp:
            rr = runs(pp)
            if len(rr) != 1 or rr[0][0] != i or rr[0][1] + rr[0][2] != N_TRACE:
                raise ValueError('trace: emitted sequence of mate %d is not a suffix of that mate: %r' % (i, rr))
            insert[i] = rr[0][1]
        else:
            insert[i] = N_TRACE
        if len(r['qual']) != len(r['seq']):
            raise ValueError('trace: qualities not aligned')
    traced = {'bc': runs(positions(t0.get('bc', ''))), 'umi': runs(positions(t0.get('RX', ''))),
              'primer': primer, 'lig': lig, 'insert': insert, 'min': min(acc), 'max': max(acc)}
    return w, traced


def dump_single(s, k):
    d = {'name': s.shortName, 'cls': type(s).__name__, 'kind': k, 'long': getattr(s, 'longName', ''),
         'desc': getattr(s, 'description', ''), 'alias': getattr(s, 'barcodeFileAlias', None)}
    if k in (1, 4):
        d['args'] = {a: optint(getattr(s, a)) for a in
                     ('umiRead', 'umiStart', 'umiLength', 'barcodeRead', 'barcodeStart', 'barcodeLength',
                      'random_primer_read', 'random_primer_length')}
        d['args']['random_primer_end'] = bool(s.random_primer_end)
        d['capture'] = [sl(x) for x in s.sequenceCapture]
        d['rp_slice'] = sl(s.random_primer_slice) if getattr(s, 'random_primer_slice', None) is not None else None
    if k == 4:
        d['rb'] = {a: optint(getattr(s, a)) for a in ('enzymeRead', 'enzymeStart', 'enzymeLength',
                                                      'ispcrRead', 'ispcrStart', 'ispcrLength')}
    if k == 2:
        d['bc_slices'] = [[sl(x) for x in per] for per in s.barcode_slices]
        d['umi_slices'] = [[sl(x) for x in per] for per in s.umi_slices]
        d['cap_slices'] = [sl(x) for x in s.capture_slices]
        d['rp_read'] = optint(s.random_primer_read)
        d['rp_slice'] = sl(s.random_primer_slice) if getattr(s, 'random_primer_slice', None) is not None else None
    if k in (1, 2, 4):
        d['wrapper'], d['traced'] = trace(s)
    return d


def base_kind(s):
    from singlecellmultiomics.modularDemultiplexer import baseDemultiplexMethods as B
    if isinstance(s, B.ScatteredUmiBarcodeDemuxMethod):
        return 2
    if isinstance(s, B.UmiBarcodeDemuxMethod):
        return 1
    raise ValueError('sub-demultiplexer %r is neither contiguous nor scattered' % (s,))


# ---- constants of the composite strategies, from the source (AST) and the live objects; fail closed
def method_ast(cls, name):
    import ast, inspect, textwrap
    fn = cls.__dict__.get(name)
    if fn is None:
        raise ValueError('%s does not define %s itself' % (cls.__name__, name))
    return ast.parse(textwrap.dedent(inspect.getsource(fn)))


def ordered(tree):
    import ast
    nodes = [n for n in ast.walk(tree) if hasattr(n, 'lineno')]
    return sorted(nodes, key=lambda n: (n.lineno, n.col_offset))


def in_literals(tree):
    """[(literal, window)] for every test  'LITERAL' in <expr>  /  <expr>[:n], in source order"""
    import ast
    out = []
    for n in ordered(tree):
        if isinstance(n, ast.Compare) and len(n.ops) == 1 and isinstance(n.ops[0], (ast.In, ast.NotIn)) \
                and isinstance(n.left, ast.Constant) and isinstance(n.left.value, str):
            c = n.comparators[0]
            window = None
            if isinstance(c, ast.Subscript):
                sl_ = c.slice
                if isinstance(sl_, ast.Slice) and sl_.lower is None and sl_.step is None \
                        and isinstance(sl_.upper, ast.Constant) and isinstance(sl_.upper.value, int) and sl_.upper.value >= 0:
                    window = sl_.upper.value
                else:
                    raise ValueError('literal %r is searched in a slice the translator does not know' % n.left.value)
            out.append([n.left.value, window])
    return out


def tag_assigns(tree, key):
    """string constants assigned to  <x>.tags[key], in source order"""
    import ast
    out = []
    for n in ordered(tree):
        if isinstance(n, ast.Assign) and len(n.targets) == 1 and isinstance(n.targets[0], ast.Subscript):
            t = n.targets[0]
            if isinstance(t.value, ast.Attribute) and t.value.attr == 'tags' and isinstance(t.slice, ast.Constant) and t.slice.value == key:
                if not (isinstance(n.value, ast.Constant) and isinstance(n.value.value, str)):
                    raise ValueError('tags[%r] is assigned something that is not a string literal' % key)
                out.append(n.value.value)
    return out


def dump_comp(s, bp):
    import ast, re as _re
    from singlecellmultiomics.modularDemultiplexer import baseDemultiplexMethods as B
    cls = type(s)
    subs = {a: v for a, v in vars(s).items() if isinstance(v, (B.UmiBarcodeDemuxMethod, B.ScatteredUmiBarcodeDemuxMethod))}
    if hasattr(s, 'r2_trimmer') and hasattr(s, 'id_to_cs2_barcode'):
        # transcriptome + ChIC on one UmiBarcode layout (TCHIC)
        tree = method_ast(cls, 'demultiplex')
        lits = in_literals(tree)
        polyT = sorted(set(l for l, w in lits if set(l) == {'T'}))
        if len(polyT) != 1 or any(w is not None for l, w in lits if set(l) == {'T'}):
            raise ValueError('poly-T literal of %s not recognised: %r' % (cls.__name__, lits))
        t7 = [[l, w] for l, w in lits if set(l) != {'T'}]
        m = _re.fullmatch(r'\[([A-Za-z]+)\]\*\$', s.r2_trimmer.pattern)
        if not m or s.r2_trimmer.flags & ~_re.UNICODE:
            raise ValueError('read-2 trimmer pattern %r not recognised' % s.r2_trimmer.pattern)
        ttree = method_ast(cls, 'trim_r2')
        drops, cuts = [], []
        for n in ordered(ttree):
            if isinstance(n, ast.Subscript) and isinstance(n.slice, ast.Slice) and n.slice.lower is None \
                    and isinstance(n.slice.upper, ast.UnaryOp) and isinstance(n.slice.upper.op, ast.USub) \
                    and isinstance(n.slice.upper.operand, ast.Constant):
                drops.append(n.slice.upper.operand.value)
            if isinstance(n, ast.Call) and isinstance(n.func, ast.Attribute) and n.func.attr == 'find':
                a = n.args[0]
                if not (isinstance(a, ast.Attribute) and isinstance(a.value, ast.Name) and a.value.id == 'self'):
                    raise ValueError('trim_r2 searches something that is not an attribute of self')
                cuts.append(getattr(s, a.attr))
        if len(drops) != 1 or not isinstance(drops[0], int):
            raise ValueError('trim_r2: expected exactly one [:-k] slice, found %r' % drops)
        # expected bleed-through barcode = whitelist barcode of the same index + suffix
        found = None
        for alias in sorted(bp.barcodes.keys() | bp.pending_files.keys()):
            wl = bp[alias] or {}
            if len(wl) != len(s.id_to_cs2_barcode) or not wl:
                continue
            k0, v0 = next(iter(wl.items()))
            full = s.id_to_cs2_barcode.get(v0)
            if full is None or not full.startswith(k0):
                continue
            suf = full[len(k0):]
            if all(s.id_to_cs2_barcode.get(v) == k + suf for k, v in wl.items()):
                found = (alias, suf)
                break
        if not found:
            raise ValueError('id_to_cs2_barcode is not whitelist + suffix')
        dts = tag_assigns(tree, 'dt')
        # 'dt' also comes from the ud dict literal
        udt = [v.value for n in ordered(tree) if isinstance(n, ast.Dict)
               for k, v in zip(n.keys, n.values) if isinstance(k, ast.Constant) and k.value == 'dt' and isinstance(v, ast.Constant)]
        rr = tag_assigns(tree, 'RR')
        if len(udt) != 1 or len(dts) != 2 or len(rr) != 1:
            raise ValueError('dt / RR assignments of %s not recognised: %r %r %r' % (cls.__name__, udt, dts, rr))
        return {'type': 'tchic', 'self': dump_single(s, 1), 'cuts': cuts, 'tx_umi_len': optint(s.tx_umi_len),
                'trim_chars': m.group(1), 'trim_drop': drops[0], 'polyT': polyT[0], 't7': t7,
                'cs2_alias': found[0], 'cs2_suffix': found[1], 'dt': [udt[0], dts[0], dts[1]], 'rr': rr[0]}
    if len(subs) == 1 and 'chic_demux' in subs:
        tree = method_ast(cls, 'demultiplex')
        lits = in_literals(tree)
        if not lits or len(set(l for l, w in lits)) != 1 or any(w is not None for l, w in lits):
            raise ValueError('oligo literal of %s not recognised: %r' % (cls.__name__, lits))
        subc = [n.right.value for n in ordered(tree) if isinstance(n, ast.BinOp) and isinstance(n.op, ast.Sub)
                and isinstance(n.right, ast.Constant) and isinstance(n.right.value, int)]
        mx = tag_assigns(tree, 'MX')
        if len(subc) != 1 or len(mx) != 1:
            raise ValueError('umi length / MX of %s not recognised: %r %r' % (cls.__name__, subc, mx))
        arm = subs['chic_demux']
        return {'type': 'chictv', 'arm': dump_single(arm, base_kind(arm)), 'oligo': lits[0][0], 'umi_len': subc[0], 'mx': mx[0]}
    if set(subs) == {'transcriptome_demux', 'damid_demux'}:
        tree = method_ast(cls, 'demultiplex')
        prune = [n.comparators[0].value for n in ordered(tree) if isinstance(n, ast.Compare) and len(n.ops) == 1
                 and isinstance(n.ops[0], ast.NotEq) and isinstance(n.comparators[0], ast.Constant)
                 and isinstance(n.comparators[0].value, str)]
        merge = any(isinstance(n, ast.Call) and isinstance(n.func, ast.Attribute) and n.func.attr == 'update' for n in ast.walk(tree))
        dts = tag_assigns(tree, 'dt')
        if len(prune) != 1 or len(prune[0]) != 1 or len(dts) != (2 if merge else 3):
            raise ValueError('prune character / dt assignments of %s not recognised: %r %r' % (cls.__name__, prune, dts))
        a, b = subs['damid_demux'], subs['transcriptome_demux']
        return {'type': 'dual', 'damid': dump_single(a, base_kind(a)), 'tx': dump_single(b, base_kind(b)), 'merge': merge,
                'dt_both': None if merge else dts[0], 'dt_tx': dts[-2], 'dt_damid': dts[-1], 'prune': prune[0]}
    raise ValueError('composite strategy %s has a shape the translator does not know' % cls.__name__)


def dump_layouts(loader, bp=None):
    from singlecellmultiomics.modularDemultiplexer import baseDemultiplexMethods as B
    out = []
    for s in loader.demultiplexingStrategies:
        k = kind_of(s)
        d = dump_single(s, k)
        if k == 3:
            d['subs'] = {a: {'name': v.shortName, 'alias': getattr(v, 'barcodeFileAlias', None)}
                         for a, v in vars(s).items()
                         if isinstance(v, (B.UmiBarcodeDemuxMethod, B.ScatteredUmiBarcodeDemuxMethod))}
            try:
                d['comp'] = dump_comp(s, bp)
            except BaseException as e:          # fail closed for THIS strategy only: no Coq definition is generated
                d['comp'] = None
                d['comp_error'] = '%s: %s' % (type(e).__name__, e)
        out.append(d)
    return out


def dump_tables():
    from singlecellmultiomics.utils import sequtils
    return {'complement': sorted([int(k), int(v)] for k, v in sequtils.complement_translate.items())}


def handler(p):
    op = p['op']
    loader, bp = load()
    by_name = {}
    for s in loader.demultiplexingStrategies:
        by_name.setdefault(s.shortName, s)
    if op == 'layouts':
        try:
            lay = dump_layouts(loader, bp)
            aliases = set()
            for d in lay:
                if d.get('alias'):
                    aliases.add(d['alias'])
                for sub in (d.get('subs') or {}).values():
                    if sub.get('alias'):
                        aliases.add(sub['alias'])
            wls = {}
            for a in sorted(aliases):
                try:
                    with Quiet():
                        wl = bp[a]
                    wls[a] = {k: wl[k] for k in sorted(wl)} if wl else {}
                except BaseException:
                    wls[a] = {}
            return {'layouts': lay, 'whitelists': wls, 'tables': dump_tables()}
        except BaseException as e:
            return {'error': '%s: %s' % (type(e).__name__, e)}
    if op == 'run':
        res = {'cases': [], 'lookups': [], 'init': []}
        for alias, raw in p.get('lookups', []):
            try:
                with Quiet():
                    bi, bc, hd = bp.getIndexCorrectedBarcodeAndHammingDistance(alias=alias, barcode=raw)
                res['lookups'].append(None if bi is None else [bi, bc])
            except BaseException as e:
                res['lookups'].append({'error': type(e).__name__})
        for c in p.get('cases', []):
            s = by_name.get(c['s'])
            if s is None:
                res['cases'].append({'st': 'no-such-strategy'})
                continue
            res['cases'].append(call(s, c['recs'], probe=c.get('probe')))
        for a in p.get('init', []):
            res['init'].append(run_init(a))
        res['files'] = [run_file_case(n, c, loader, bp, by_name) for n, c in enumerate(p.get('files', []))]
        return res
    if op == 'fq':
        return {'fq': [run_fq_case(n, c) for n, c in enumerate(p.get('cases', []))]}
    raise ValueError(op)


def run_fq_case(n, c):
    """write the given file contents byte for byte, iterate FastqIterator over them"""
    import gzip as _gz
    try:
        from singlecellmultiomics.fastqProcessing.fastqIterator import FastqIterator
        paths = []
        for j, text in enumerate(c['texts']):
            path = os.path.abspath('fq_%d_%d.fastq%s' % (n, j, '.gz' if c.get('gz') else ''))
            data = text.encode('latin-1')
            with (_gz.open(path, 'wb') if c.get('gz') else open(path, 'wb')) as h:
                h.write(data)
            paths.append(path)
        out = []
        with Quiet():
            it = FastqIterator(*paths)
            for tup in it:
                row = []
                for r in tup:
                    try:
                        row.append([r.header, r.sequence, r.plus, r.qual])
                    except AttributeError:
                        row.append([r[0], r[1], r[2], r[3]])
                out.append(row)
                if len(out) > 2000:
                    return {'error': 'no-stop'}
        for h in getattr(it, 'handles', ()):
            try:
                h.close()
            except BaseException:
                pass
        return {'recs': out}
    except BaseException as e:
        return {'error': '%s: %s' % (type(e).__name__, e)}


FHDR = '@NS500414:628:H7YVNBGXC:1:11101:%d:1046 %d:N:0:GTGAAA'


def parse_fastq_out(path):
    """records of a written fastq(.gz): [{'idx': CX, 'seq', 'qual', 'tags'}]; malformed files -> error string"""
    import gzip
    if not os.path.exists(path):
        return None
    with gzip.open(path, 'rt') as h:
        lines = h.read().split('\n')
    if lines and lines[-1] == '':
        lines.pop()
    if len(lines) % 4:
        return 'output %s has %d lines' % (os.path.basename(path), len(lines))
    out = []
    for k in range(0, len(lines), 4):
        hd, sq, plus, ql = lines[k:k + 4]
        if not hd.startswith('@'):
            return 'output record %d of %s does not start with @' % (k // 4, os.path.basename(path))
        tags = {}
        for kv in hd[1:].split(';'):
            a, _, b = kv.partition(':')
            tags[a] = b
        idx = tags.get('CX')
        out.append({'idx': int(idx) if idx and idx.isdigit() else None, 'seq': sq, 'qual': ql, 'plus': plus,
                    'tags': {a: b for a, b in tags.items() if a not in HEADER_KEYS}})
    return out


def run_file_case(n, c, loader, bp, by_name):
    """pairs -> fastq files (plain / gz, LF / CRLF, with / without trailing newline) -> the file level entry points
    (DemultiplexingStrategyLoader.demultiplex + FastqHandle, or the demux.py command line) -> what was written"""
    import gzip, runpy
    from singlecellmultiomics.fastqProcessing.fastqHandle import FastqHandle
    d = os.path.join(os.environ['SCMO_SCRATCH'], 'f%d' % n)
    indir, outdir = os.path.join(d, 'in'), os.path.join(d, 'out')
    os.makedirs(indir)
    os.makedirs(outdir)
    nm = c['mates']
    lanes, off, paths_by_lane = c.get('lanes') or [len(c['pairs'])], 0, []
    for li, size in enumerate(lanes):
        paths = []
        for k in range(nm):
            lines = []
            for j in range(off, off + size):
                sq, ql = c['pairs'][j][k]
                lines += [FHDR % (j, k + 1), sq, '+', ql]
            txt = c['eol'].join(lines) + (c['eol'] if c['trailing'] and lines else '')
            pth = os.path.join(indir, 'LIBA_S1_L%03d_R%d_001.fastq%s' % (li + 1, k + 1, '.gz' if c['gz'] else ''))
            with (gzip.open(pth, 'wb') if c['gz'] else open(pth, 'wb')) as h:
                h.write(txt.encode('utf-8'))
            paths.append(pth)
        paths_by_lane.append(paths)
        off += size
    res = {'crash': None}
    old, oldargv, oldcwd = sys.stdout, sys.argv, os.getcwd()
    sys.stdout = io.StringIO()
    os.chdir(d)
    try:
        if c['mode'] == 'loader':
            libdir = os.path.join(outdir, 'LIBA')
            os.makedirs(libdir)
            handle = FastqHandle(os.path.join(libdir, 'demultiplexed'), nm == 2)
            try:
                for paths in paths_by_lane:
                    loader.demultiplex(paths, strategies=[by_name[c['s']]], targetFile=handle, rejectHandle=None, library='LIBA')
            finally:
                handle.close()
        else:
            flat = [p_ for paths in paths_by_lane for p_ in paths]
            order = c.get('order') or list(range(len(flat)))
            args = [flat[i] for i in order]
            sys.argv = ['demux.py'] + args + ['-use', c['s'], '--y', '-o', outdir, '-hd', '1', '--norejects'] + (['--se'] if nm == 1 else [])
            res['argv_order'] = [os.path.basename(a) for a in args]
            script = os.path.join(os.environ['SCMO_REPO'], 'singlecellmultiomics', 'modularDemultiplexer', 'demux.py')
            try:
                runpy.run_path(script, run_name='__main__')
            except SystemExit as e:
                if e.code not in (None, 0):
                    res['crash'] = 'SystemExit'
    except BaseException as e:
        res['crash'] = '%s: %s' % (type(e).__name__, str(e)[:200])
    finally:
        sys.stdout, sys.argv = old, oldargv
        os.chdir(oldcwd)
    libs = [x for x in sorted(os.listdir(outdir)) if os.path.isdir(os.path.join(outdir, x))]
    res['libs'] = libs
    res['out'] = []
    for lib in libs:
        for k in range(nm):
            res['out'].append(parse_fastq_out(os.path.join(outdir, lib, 'demultiplexedR%d.fastq.gz' % (k + 1))))
    import shutil
    shutil.rmtree(d, ignore_errors=True)
    return res


def run_init(a):
    from singlecellmultiomics.modularDemultiplexer.baseDemultiplexMethods import UmiBarcodeDemuxMethod
    try:
        with Quiet():
            d = UmiBarcodeDemuxMethod(barcodeFileParser=AcceptAll(), barcodeFileAlias='x', indexFileParser=None,
                                      indexFileAlias=None, **a['args'])
        out = {'capture': [sl(x) for x in d.sequenceCapture],
               'rp_slice': sl(d.random_primer_slice) if getattr(d, 'random_primer_slice', None) is not None else None}
    except BaseException as e:
        return {'error': type(e).__name__}
    runs_ = []
    for recs in a.get('recs', []):
        runs_.append(call(d, recs))
    out['runs'] = runs_
    return out


if __name__ == '__main__':
    fw.impl_main(handler)
