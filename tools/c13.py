"""C13 - molecule consensus is the strict majority call and never reports a tie.

T: the comparisons, constants and argument routing of pick_best_base_call, get_consensus_dictionaries,
read_to_consensus_dict, Fragment.get_consensus and Molecule.get_consensus are regenerated into coq/Gen/GenConsensus.v
(regen_consensus below); coq/Model/C13x.v builds the executable model from them and coq/Proofs/C13x.v proves it equal to
the hand-written model of coq/Model/C13.v, for which the C13 theorems are proved.
K: molecules are built from in-memory pysam reads (tools/impl_c13.py) and run through the real
Molecule.get_consensus / Fragment.get_consensus / pick_best_base_call; the model gets the per-read
(refpos, base, quality) triples that pysam reports for the very same reads."""
import ast, hashlib, itertools, json, os, re
import fw, py2coq
from py2coq import Untranslatable

BASES = 'ACGT'
ERR = {'ValueError': 1, 'IndexError': 2, 'NotImplementedError': 3}
QUALS = [0, 2, 10, 20, 30, 30, 37]


# ------------------------------------------------------------------------------------------ translator tie (T)
# Regenerates coq/Gen/GenConsensus.v from the current source: the expressions the C13 proofs hinge on.  Every part is
# located by its ROLE in the function (which statement guards what, which names are assigned where) and refused
# (py2coq.Untranslatable -> fw falls back to coq/Gen.pinned + extra correspondence passes) when the shape is not the
# one the model gives a meaning to.
F_SEQ = 'singlecellmultiomics/utils/sequtils.py'
F_FRAG = 'singlecellmultiomics/fragment/fragment.py'
F_MOL = 'singlecellmultiomics/molecule/molecule.py'


class CharTranslator(py2coq.ExprTranslator):
    """py2coq expressions; a one-character string constant is its character code"""
    def z(self, n):
        if isinstance(n, ast.Constant) and isinstance(n.value, str) and len(n.value) == 1 \
                and ast.unparse(n) not in self.env:
            return str(ord(n.value))
        return super().z(n)


class _Gen:
    def __init__(self, repo):
        self.repo = repo
        self.src, self.tree = {}, {}
        for rel in (F_SEQ, F_FRAG, F_MOL):
            p = os.path.join(repo, rel)
            if not os.path.exists(p):
                raise Untranslatable('%s not found' % rel)
            self.src[rel] = open(p).read()
            self.tree[rel] = ast.parse(self.src[rel])
        self.chunks, self.meta = [], []
        self.facts = {}

    u = staticmethod(ast.unparse)

    def fn(self, rel, qualname):
        f = py2coq.find_function(self.tree[rel], qualname)
        if not isinstance(f, ast.FunctionDef):
            raise Untranslatable('%s is not a function' % qualname)
        return f

    def emit(self, rel, node, name, sig, body, note=''):
        seg = ast.get_source_segment(self.src[rel], node) or self.u(node)
        sha = hashlib.sha256(seg.encode()).hexdigest()
        shown = ' '.join(seg.split())[:400].replace('(*', '( *').replace('*)', '* )')
        self.chunks.append('(* source: %s line %d-%d sha256 %s %s\n   %s *)\nDefinition %s %s :=\n  %s.'
                           % (rel, node.lineno, node.end_lineno, sha, note, shown, name, sig, body))
        self.meta.append({'source': rel, 'lines': [node.lineno, node.end_lineno], 'sha256': sha, 'coq': name})

    def expr(self, node, env, what, boolean=True, must_use=()):
        """translation of an expression whose every name is covered by env (fail closed on any other name)"""
        def free(n):
            if ast.unparse(n) in env:
                return set()
            if isinstance(n, ast.Name):
                return {n.id}
            out = set()
            for c in ast.iter_child_nodes(n):
                out |= free(c)
            return out
        fr = free(node)
        if fr:
            raise Untranslatable('%s: `%s` reads %s, which the model gives no meaning to' % (what, self.u(node), sorted(fr)))
        tr = CharTranslator(env=env)
        out = tr.b(node) if boolean else tr.z(node)
        for name in must_use:
            if not re.search(r'(?<![A-Za-z0-9_\'])%s(?![A-Za-z0-9_\'])' % re.escape(name), out):
                raise Untranslatable('%s: `%s` does not use %s (not the role the model expects)' % (what, self.u(node), name))
        return out

    @staticmethod
    def nodoc(f):
        b = list(f.body)
        if b and isinstance(b[0], ast.Expr) and isinstance(b[0].value, ast.Constant) and isinstance(b[0].value.value, str):
            b = b[1:]
        return b

    @staticmethod
    def const(n, types):
        return isinstance(n, ast.Constant) and type(n.value) in types

    def plain_args(self, f, names, what, kwarg=False, vararg=False):
        a = f.args
        got = [x.arg for x in a.args]
        if got != list(names) or a.kwonlyargs or a.posonlyargs or bool(a.kwarg) != kwarg or bool(a.vararg) != vararg:
            raise Untranslatable('%s: signature %s%s%s is not the modelled one %s' % (
                what, got, ' *' + a.vararg.arg if a.vararg else '', ' **' + a.kwarg.arg if a.kwarg else '', list(names)))

    # ---- sequtils.pick_best_base_call
    def pick_best(self):
        f = self.fn(F_SEQ, 'pick_best_base_call')
        self.plain_args(f, [], 'pick_best_base_call', vararg=True)
        calls = f.args.vararg.arg
        body = self.nodoc(f)
        k = next((i for i, st in enumerate(body) if isinstance(st, ast.For)), None)
        if k is None or len(body) != k + 3:
            raise Untranslatable('pick_best_base_call: expected [initialisations, for call in calls, if <no call>: return, return]')
        init = {}
        for st in body[:k]:
            if not (isinstance(st, ast.Assign) and len(st.targets) == 1):
                raise Untranslatable('pick_best_base_call: statement before the loop is not an assignment: %s' % self.u(st)[:80])
            t, v = st.targets[0], st.value
            pairs = [(t, v)]
            if isinstance(t, ast.Tuple):
                if not (isinstance(v, ast.Tuple) and len(v.elts) == len(t.elts)):
                    raise Untranslatable('pick_best_base_call: tuple initialisation outside subset')
                pairs = list(zip(t.elts, v.elts))
            for a, b in pairs:
                if not isinstance(a, ast.Name) or a.id in init:
                    raise Untranslatable('pick_best_base_call: initialisation outside subset: %s' % self.u(st)[:80])
                init[a.id] = b
        loop, nocall, final = body[k:]
        if not (isinstance(loop.target, ast.Name) and self.u(loop.iter) == calls and not loop.orelse and len(loop.body) == 2):
            raise Untranslatable('pick_best_base_call: loop is not `for call in %s:` with [skip None, compare]' % calls)
        c = loop.target.id
        skip, cmp_ = loop.body
        if not (isinstance(skip, ast.If) and self.u(skip.test) == '%s is None' % c and [self.u(s) for s in skip.body] == ['continue']
                and not skip.orelse):
            raise Untranslatable('pick_best_base_call: first statement of the loop is not `if %s is None: continue`' % c)
        if not (isinstance(cmp_, ast.If) and len(cmp_.orelse) == 1 and isinstance(cmp_.orelse[0], ast.If) and not cmp_.orelse[0].orelse):
            raise Untranslatable('pick_best_base_call: comparison is not `if <better>: ... elif <tie>: ...`')
        better, tie = cmp_, cmp_.orelse[0]
        # the better branch: best_base = call[0], best_q = call[1], and what happens to the tie flag
        roles, tie_in_better = {}, None
        for st in better.body:
            if not (isinstance(st, ast.Assign) and len(st.targets) == 1 and isinstance(st.targets[0], ast.Name)):
                raise Untranslatable('pick_best_base_call: better-branch statement outside subset: %s' % self.u(st)[:80])
            name, val = st.targets[0].id, self.u(st.value)
            if val == '%s[0]' % c and 'base' not in roles:
                roles['base'] = name
            elif val == '%s[1]' % c and 'q' not in roles:
                roles['q'] = name
            elif self.const(st.value, (bool,)) and tie_in_better is None:
                tie_in_better = (name, st.value.value)
            else:
                raise Untranslatable('pick_best_base_call: better-branch statement outside subset: %s' % self.u(st)[:80])
        if set(roles) != {'base', 'q'}:
            raise Untranslatable('pick_best_base_call: the better branch does not store %s[0] and %s[1]' % (c, c))
        bb, bq = roles['base'], roles['q']
        if not (len(tie.body) == 1 and isinstance(tie.body[0], ast.Assign) and len(tie.body[0].targets) == 1
                and isinstance(tie.body[0].targets[0], ast.Name) and self.const(tie.body[0].value, (bool,))):
            raise Untranslatable('pick_best_base_call: the elif branch is not a single `tie = <bool>`')
        tv = tie.body[0].targets[0].id
        if tv in (bb, bq) or (tie_in_better and tie_in_better[0] != tv):
            raise Untranslatable('pick_best_base_call: tie flag / best call variables are mixed up')
        if set(init) != {bb, bq, tv}:
            raise Untranslatable('pick_best_base_call: initialised %s, loop state is %s' % (sorted(init), sorted([bb, bq, tv])))
        if not self.const(init[bb], (type(None),)):
            raise Untranslatable('pick_best_base_call: %s is not initialised to None' % bb)
        if not (self.const(init[tv], (bool,))):
            raise Untranslatable('pick_best_base_call: %s is not initialised to a boolean constant' % tv)
        t = lambda x: 'true' if x else 'false'
        self.emit(F_SEQ, init[bq], 'g_pb_init_q', ': Z', self.expr(init[bq], {}, 'initial best quality', boolean=False),
                  note='(initial %s)' % bq)
        self.emit(F_SEQ, init[tv], 'g_pb_init_tie', ': bool', t(init[tv].value), note='(initial %s)' % tv)
        cenv = {'%s[1]' % c: 'q', bq: 'best_q'}
        self.emit(F_SEQ, better.test, 'g_pb_better', '(q best_q : Z) : bool',
                  self.expr(better.test, cenv, 'better test', must_use=('q', 'best_q')))
        self.emit(F_SEQ, better, 'g_pb_better_tie', '(old : bool) : bool', t(tie_in_better[1]) if tie_in_better else 'old',
                  note='(value of %s after the better branch)' % tv)
        tenv = dict(cenv)
        for a, b in (('%s[0]' % c, bb), (bb, '%s[0]' % c)):
            tenv['%s != %s' % (a, b)] = '(negb same_base)'
            tenv['%s == %s' % (a, b)] = 'same_base'
        self.emit(F_SEQ, tie.test, 'g_pb_tie_test', '(q best_q : Z) (same_base : bool) : bool',
                  self.expr(tie.test, tenv, 'tie test', must_use=('q', 'best_q', 'same_base')),
                  note='(same_base: %s[0] == %s; a call never equals the initial None)' % (c, bb))
        self.emit(F_SEQ, tie.body[0], 'g_pb_tie_set', '(old : bool) : bool', t(tie.body[0].value.value))
        # after the loop
        if not (isinstance(nocall, ast.If) and not nocall.orelse and len(nocall.body) == 1 and isinstance(nocall.body[0], ast.Return)):
            raise Untranslatable('pick_best_base_call: statement after the loop is not `if <no call>: return <constant>`')
        rv = nocall.body[0].value
        if not (isinstance(rv, ast.Tuple) and len(rv.elts) == 2 and self.const(rv.elts[0], (str,)) and len(rv.elts[0].value) == 1
                and self.const(rv.elts[1], (int,))):
            raise Untranslatable('pick_best_base_call: the no-call result is not a (character, integer) constant')
        nenv = {tv: 'tie', '%s is None' % bb: '(negb has_base)', '%s is not None' % bb: 'has_base', '%s == None' % bb: '(negb has_base)'}
        self.emit(F_SEQ, nocall.test, 'g_pb_nocall', '(tie has_base : bool) : bool', self.expr(nocall.test, nenv, 'no-call test'),
                  note='(has_base: %s is not None)' % bb)
        self.emit(F_SEQ, rv.elts[0], 'g_pb_nocall_base', ': Z', str(ord(rv.elts[0].value)))
        self.emit(F_SEQ, rv.elts[1], 'g_pb_nocall_q', ': Z', self.expr(rv.elts[1], {}, 'no-call quality', boolean=False))
        if not (isinstance(final, ast.Return) and final.value is not None and self.u(final.value) in ('(%s, %s)' % (bb, bq),)):
            raise Untranslatable('pick_best_base_call: the final statement is not `return %s, %s`' % (bb, bq))

    # ---- sequtils.get_consensus_dictionaries / read_to_consensus_dict
    GCD_ARGS = ['R1', 'R2', 'only_include_refbase', 'dove_safe', 'min_phred_score', 'skip_first_n_cycles_R1', 'skip_last_n_cycles_R1',
                'skip_first_n_cycles_R2', 'skip_last_n_cycles_R2', 'dove_R2_distance', 'dove_R1_distance']
    RTC_ARGS = ['read', 'start', 'end', 'only_include_refbase', 'skip_first_n_cycles', 'skip_last_n_cycles', 'min_phred_score']

    def dictionaries(self):
        f = self.fn(F_SEQ, 'get_consensus_dictionaries')
        self.plain_args(f, self.GCD_ARGS, 'get_consensus_dictionaries')
        dflt = dict(zip(self.GCD_ARGS[2:], f.args.defaults))
        if len(f.args.defaults) != 9:
            raise Untranslatable('get_consensus_dictionaries: expected defaults for every option')
        for name, d in dflt.items():
            want = {'dove_safe': 'False', 'dove_R2_distance': '0', 'dove_R1_distance': '0'}.get(name, 'None')
            if self.u(d) != want:
                raise Untranslatable('get_consensus_dictionaries: default of %s is %s, the model has %s' % (name, self.u(d), want))
        body = [st for st in self.nodoc(f) if not isinstance(st, ast.Assert)]
        if not (len(body) == 2 and isinstance(body[0], ast.If) and self.u(body[0].test) == 'dove_safe' and isinstance(body[1], ast.Return)):
            raise Untranslatable('get_consensus_dictionaries: expected [if dove_safe: <window> else: <no window>, return <two dictionaries>]')
        win, ret = body
        if [self.u(s) for s in win.orelse] != ['start, end = (None, None)']:
            raise Untranslatable('get_consensus_dictionaries: without dove_safe the window is not (None, None)')
        wb = win.body
        if not (len(wb) == 2 and isinstance(wb[0], ast.If) and not wb[0].orelse and self.u(wb[0].test) in
                ('R1 is None or R2 is None', 'R2 is None or R1 is None') and len(wb[0].body) == 1
                and self.raises(wb[0].body[0], 'ValueError')):
            raise Untranslatable('get_consensus_dictionaries: dove_safe with a missing mate does not raise ValueError first')
        ch = wb[1]
        if not (isinstance(ch, ast.If) and len(ch.orelse) == 1 and isinstance(ch.orelse[0], ast.If) and len(ch.orelse[0].orelse) == 1
                and self.raises(ch.orelse[0].orelse[0], 'ValueError')):
            raise Untranslatable('get_consensus_dictionaries: orientation chain is not if/elif/else: raise ValueError')
        oenv = {'R1.is_reverse': 'r1_rev', 'R2.is_reverse': 'r2_rev'}
        wenv = {'R1.reference_start': 'r1_start', 'R1.reference_end': 'r1_end', 'R2.reference_start': 'r2_start',
                'R2.reference_end': 'r2_end', 'dove_R1_distance': 'd1', 'dove_R2_distance': 'd2'}
        for n, br in enumerate((ch, ch.orelse[0])):
            if not (len(br.body) == 1 and isinstance(br.body[0], ast.Assign) and self.u(br.body[0].targets[0]) == '(start, end)'
                    and isinstance(br.body[0].value, ast.Tuple) and len(br.body[0].value.elts) == 2):
                raise Untranslatable('get_consensus_dictionaries: orientation branch %d does not assign (start, end)' % n)
            self.emit(F_SEQ, br.test, 'g_win_test%d' % n, '(r1_rev r2_rev : bool) : bool',
                      self.expr(br.test, oenv, 'orientation test', must_use=('r1_rev', 'r2_rev')))
            self.emit(F_SEQ, br.body[0].value, 'g_win%d' % n, '(r1_start r1_end r2_start r2_end d1 d2 : Z) : Z * Z',
                      self.expr(br.body[0].value, wenv, 'window', boolean=False),
                      note='(inclusive window start, end)')
        # the two read_to_consensus_dict calls: which option reaches which mate
        rv = ret.value
        if not (isinstance(rv, ast.Tuple) and len(rv.elts) == 2 and all(isinstance(e, ast.Call) and self.u(e.func) == 'read_to_consensus_dict'
                                                                         for e in rv.elts)):
            raise Untranslatable('get_consensus_dictionaries: does not return two read_to_consensus_dict(...) results')
        opts = {'skip_first_n_cycles_R1': 'sf1', 'skip_last_n_cycles_R1': 'sl1', 'skip_first_n_cycles_R2': 'sf2', 'skip_last_n_cycles_R2': 'sl2'}
        for n, (e, mate) in enumerate(zip(rv.elts, ('R1', 'R2')), 1):
            if [self.u(a) for a in e.args] != [mate, 'start', 'end']:
                raise Untranslatable('get_consensus_dictionaries: dictionary %d is not built from (%s, start, end)' % (n, mate))
            kw = {k.arg: k.value for k in e.keywords}
            if set(kw) != {'only_include_refbase', 'skip_last_n_cycles', 'skip_first_n_cycles', 'min_phred_score'} or len(kw) != len(e.keywords):
                raise Untranslatable('get_consensus_dictionaries: keywords passed for %s are %s' % (mate, sorted(k.arg or '**' for k in e.keywords)))
            for same in ('only_include_refbase', 'min_phred_score'):
                if self.u(kw[same]) != same:
                    raise Untranslatable('get_consensus_dictionaries: %s of %s is `%s`' % (same, mate, self.u(kw[same])))
            for which in ('first', 'last'):
                v = self.u(kw['skip_%s_n_cycles' % which])
                if v not in opts:
                    raise Untranslatable('get_consensus_dictionaries: skip_%s_n_cycles of %s is `%s`' % (which, mate, v))
                self.emit(F_SEQ, kw['skip_%s_n_cycles' % which], 'g_r%d_skip_%s' % (n, which), '{A : Type} (sf1 sl1 sf2 sl2 : A) : A', opts[v],
                          note='(which option read_to_consensus_dict receives as skip_%s_n_cycles for %s)' % (which, mate))
                self.facts['r%d_skip_%s' % (n, which)] = v

    def raises(self, st, exc):
        return isinstance(st, ast.Raise) and st.exc is not None and (
            (isinstance(st.exc, ast.Call) and self.u(st.exc.func) == exc) or self.u(st.exc) == exc)

    def read_filter(self):
        f = self.fn(F_SEQ, 'read_to_consensus_dict')
        self.plain_args(f, self.RTC_ARGS, 'read_to_consensus_dict')
        if [self.u(d) for d in f.args.defaults] != ['None'] * 6:
            raise Untranslatable('read_to_consensus_dict: defaults are not all None')
        body = self.nodoc(f)
        if not (len(body) == 2 and isinstance(body[0], ast.If) and self.u(body[0].test) == 'read is None' and not body[0].orelse
                and len(body[0].body) == 1 and isinstance(body[0].body[0], ast.Return)
                and self.u(body[0].body[0].value) in ('dict()', '{}') and isinstance(body[1], ast.Return)
                and isinstance(body[1].value, ast.DictComp)):
            raise Untranslatable('read_to_consensus_dict: expected [if read is None: return dict(), return {dict comprehension}]')
        dc = body[1].value
        if len(dc.generators) != 1 or dc.generators[0].is_async:
            raise Untranslatable('read_to_consensus_dict: nested comprehension')
        g = dc.generators[0]
        if not (self.u(g.target) == '(qpos, refpos, refbase)'
                and self.u(g.iter) == 'read.get_aligned_pairs(matches_only=True, with_seq=True)'):
            raise Untranslatable('read_to_consensus_dict: the comprehension does not run over (qpos, refpos, refbase) of '
                                 'get_aligned_pairs(matches_only=True, with_seq=True)')
        if self.u(dc.key) != '(read.reference_name, refpos)':
            raise Untranslatable('read_to_consensus_dict: key is `%s`' % self.u(dc.key))
        val = dc.value
        if not (isinstance(val, ast.Tuple) and len(val.elts) >= 2 and self.u(val.elts[0]) == 'read.query_sequence[qpos]'
                and self.u(val.elts[1]) == 'read.query_qualities[qpos]'):
            raise Untranslatable('read_to_consensus_dict: value is not (query base, query quality, ...)')
        if len(g.ifs) != 1:
            raise Untranslatable('read_to_consensus_dict: expected one filter condition')
        env = {'refpos': 'p', 'read.query_qualities[qpos]': 'q', 'qpos': 'qp', 'read.infer_query_length()': 'qlen',
               'read.is_reverse': 'rev', 'refbase.upper()': 'ref_upper',
               'start': 'start_', 'end': 'end_', 'min_phred_score': 'minq', 'skip_last_n_cycles': 'sl', 'skip_first_n_cycles': 'sf',
               'only_include_refbase': 'rb'}
        for py, has in (('start', 'has_start'), ('end', 'has_end'), ('min_phred_score', 'has_minq'), ('skip_last_n_cycles', 'has_sl'),
                        ('skip_first_n_cycles', 'has_sf'), ('only_include_refbase', 'has_rb')):
            env['%s is None' % py] = '(negb %s)' % has
            env['%s is not None' % py] = has
        self.emit(F_SEQ, g.ifs[0], 'g_keep',
                  '(has_start has_end has_minq has_sl has_sf has_rb : bool) (start_ end_ minq sl sf rb : Z) (p q qp qlen ref_upper : Z) (rev : bool) : bool',
                  self.expr(g.ifs[0], env, 'read filter',
                            must_use=('has_start', 'has_end', 'has_minq', 'has_sl', 'has_sf', 'has_rb', 'start_', 'end_', 'minq', 'sl', 'sf',
                                      'rb', 'p', 'q', 'qp', 'qlen', 'ref_upper', 'rev')),
                  note='(the `if` of the dict comprehension; has_x: option x is not None; ref_upper: refbase.upper())')

    # ---- Fragment.get_consensus
    def fragment(self):
        for prop, slot in (('R1', 0), ('R2', 1)):
            p = self.fn(F_FRAG, 'Fragment.%s' % prop)
            b = self.nodoc(p)
            if not (len(b) == 1 and isinstance(b[0], ast.Return) and isinstance(b[0].value, ast.Subscript)
                    and self.u(b[0].value.value) == 'self.reads' and self.const(b[0].value.slice, (int,)) and b[0].value.slice.value >= 0):
                raise Untranslatable('Fragment.%s is not `return self.reads[<index>]`' % prop)
            self.emit(F_FRAG, b[0].value, 'g_frag_%s_slot' % prop.lower(), ': nat', '%d%%nat' % b[0].value.slice.value)
        f = self.fn(F_FRAG, 'Fragment.get_consensus')
        self.plain_args(f, ['self', 'only_include_refbase', 'dove_safe'], 'Fragment.get_consensus', kwarg=True)
        if [self.u(d) for d in f.args.defaults] != ['None', 'False']:
            raise Untranslatable('Fragment.get_consensus: defaults are not (None, False)')
        kwname = f.args.kwarg.arg
        body = self.nodoc(f)
        if not (len(body) == 2 and isinstance(body[0], ast.Assign) and isinstance(body[1], ast.Return)):
            raise Untranslatable('Fragment.get_consensus: expected [d1, d2 = get_consensus_dictionaries(...), return {...}]')
        asg, ret = body
        t = asg.targets[0]
        if not (len(asg.targets) == 1 and isinstance(t, ast.Tuple) and len(t.elts) == 2 and all(isinstance(e, ast.Name) for e in t.elts)):
            raise Untranslatable('Fragment.get_consensus: the two dictionaries are not unpacked into two names')
        d1, d2 = t.elts[0].id, t.elts[1].id
        call = asg.value
        if not (isinstance(call, ast.Call) and self.u(call.func) == 'get_consensus_dictionaries'
                and [self.u(a) for a in call.args] == ['self.R1', 'self.R2']
                and sorted((k.arg or '**', self.u(k.value)) for k in call.keywords) ==
                sorted([('only_include_refbase', 'only_include_refbase'), ('dove_safe', 'dove_safe'), ('**', kwname)])):
            raise Untranslatable('Fragment.get_consensus: get_consensus_dictionaries is not called with (self.R1, self.R2, '
                                 'only_include_refbase=, dove_safe=, **%s)' % kwname)
        dc = ret.value
        if not (isinstance(dc, ast.DictComp) and len(dc.generators) == 1 and not dc.generators[0].ifs
                and isinstance(dc.generators[0].target, ast.Name) and self.u(dc.key) == dc.generators[0].target.id):
            raise Untranslatable('Fragment.get_consensus: result is not {pos: ... for pos in <positions>}')
        k = dc.generators[0].target.id
        it = self.u(dc.generators[0].iter)
        forms = lambda a, b: ['set(%s.keys()).union(set(%s.keys()))' % (a, b), 'set(%s).union(set(%s))' % (a, b),
                              'set(%s.keys()) | set(%s.keys())' % (a, b), '%s.keys() | %s.keys()' % (a, b), 'set(%s) | set(%s)' % (a, b),
                              'set(%s.keys()).union(%s.keys())' % (a, b), 'set(%s).union(%s)' % (a, b)]
        if it in forms(d1, d2):
            order = 'd1 d2'
        elif it in forms(d2, d1):
            order = 'd2 d1'
        else:
            raise Untranslatable('Fragment.get_consensus: positions are not the union of the keys of both dictionaries: %s' % it[:120])
        self.emit(F_FRAG, dc.generators[0].iter, 'g_frag_keys', '{D K : Type} (union : D -> D -> list K) (d1 d2 : D) : list K',
                  'union %s' % order, note='(d1, d2: dictionaries of R1, R2)')
        v = dc.value
        if not (isinstance(v, ast.Call) and self.u(v.func) == 'pick_best_base_call' and not v.keywords and v.args):
            raise Untranslatable('Fragment.get_consensus: the call at a position is not pick_best_base_call(...)')
        args = []
        for a in v.args:
            ua = self.u(a)
            if ua == '%s.get(%s)' % (d1, k):
                args.append('c1')
            elif ua == '%s.get(%s)' % (d2, k):
                args.append('c2')
            else:
                raise Untranslatable('Fragment.get_consensus: pick_best_base_call argument `%s` is not a mate dictionary lookup' % ua[:80])
        self.emit(F_FRAG, v, 'g_frag_pick', '{C R : Type} (pick : list (option C) -> R) (c1 c2 : option C) : R',
                  'pick [%s]' % '; '.join(args), note='(c1, c2: the calls of R1, R2 at the position, None = not covered)')

    # ---- Molecule.get_consensus
    def molecule(self):
        dv = self.fn(F_MOL, 'consensii_default_vector')
        b = self.nodoc(dv)
        if not (len(b) == 1 and isinstance(b[0], ast.Return) and isinstance(b[0].value, ast.Call) and self.u(b[0].value.func) == 'np.zeros'
                and len(b[0].value.args) == 1 and self.const(b[0].value.args[0], (int,)) and not b[0].value.keywords):
            raise Untranslatable('consensii_default_vector is not `return np.zeros(<n>)`')
        self.emit(F_MOL, b[0].value, 'g_mol_vector_len', ': Z', str(b[0].value.args[0].value))
        f = self.fn(F_MOL, 'Molecule.get_consensus')
        self.plain_args(f, ['self', 'dove_safe', 'only_include_refbase', 'allow_N', 'with_probs_and_obs'], 'Molecule.get_consensus', kwarg=True)
        if [self.u(d) for d in f.args.defaults] != ['False', 'None', 'False', 'False']:
            raise Untranslatable('Molecule.get_consensus: defaults are not (False, None, False, False)')
        kwname = f.args.kwarg.arg
        body = self.nodoc(f)
        if len(body) != 11:
            raise Untranslatable('Molecule.get_consensus: expected 11 top level statements, found %d' % len(body))
        allow, init, probs_init, loop, empty, loc0, loc1, vst, amax, proper, ret = body
        if not (isinstance(allow, ast.If) and not allow.orelse and len(allow.body) == 1 and self.raises(allow.body[0], 'NotImplementedError')):
            raise Untranslatable('Molecule.get_consensus: first statement is not `if <allow_N>: raise NotImplementedError()`')
        self.emit(F_MOL, allow.test, 'g_mol_not_implemented', '(allow_N : bool) : bool', self.expr(allow.test, {'allow_N': 'allow_N'}, 'allow_N test'))
        if self.u(init) != 'consensii = defaultdict(consensii_default_vector)':
            raise Untranslatable('Molecule.get_consensus: vote table is not defaultdict(consensii_default_vector)')
        if not (isinstance(probs_init, ast.If) and self.u(probs_init.test) == 'with_probs_and_obs' and not probs_init.orelse
                and [self.u(s).split(' = ')[0] for s in probs_init.body] == ['phred_scores']):
            raise Untranslatable('Molecule.get_consensus: third statement is not the phred_scores initialisation')
        if not (isinstance(loop, ast.For) and self.u(loop.iter) == 'self' and isinstance(loop.target, ast.Name) and not loop.orelse
                and len(loop.body) == 2):
            raise Untranslatable('Molecule.get_consensus: expected `for fragment in self:` with [skip test, try]')
        fr = loop.target.id
        skip, tr = loop.body
        if not (isinstance(skip, ast.If) and not skip.orelse and [self.u(s) for s in skip.body] == ['continue']):
            raise Untranslatable('Molecule.get_consensus: first loop statement is not `if <skip test>: continue`')
        self.emit(F_MOL, skip.test, 'g_mol_skip', '(dove_safe has_R1 has_R2 : bool) : bool',
                  self.expr(skip.test, {'dove_safe': 'dove_safe', '%s.has_R1()' % fr: 'has_R1', '%s.has_R2()' % fr: 'has_R2'}, 'skip test'),
                  note='(fragments for which this holds do not vote)')
        if not (isinstance(tr, ast.Try) and not tr.orelse and not tr.finalbody and len(tr.handlers) == 1 and len(tr.body) == 1
                and isinstance(tr.body[0], ast.For)):
            raise Untranslatable('Molecule.get_consensus: second loop statement is not try: for ...: except ...')
        h = tr.handlers[0]
        if not (h.type is not None and self.u(h.type) == 'ValueError' and [self.u(s) for s in h.body] == ['pass']):
            raise Untranslatable('Molecule.get_consensus: the handler is not `except ValueError: pass`')
        inner = tr.body[0]
        want_iter = '%s.get_consensus(dove_safe=dove_safe, only_include_refbase=only_include_refbase, **%s).items()' % (fr, kwname)
        if not (self.u(inner.iter) == want_iter and isinstance(inner.target, ast.Tuple) and len(inner.target.elts) == 2
                and isinstance(inner.target.elts[0], ast.Name) and isinstance(inner.target.elts[1], ast.Tuple)
                and len(inner.target.elts[1].elts) == 2 and all(isinstance(e, ast.Name) for e in inner.target.elts[1].elts)
                and not inner.orelse):
            raise Untranslatable('Molecule.get_consensus: votes are not taken from `for pos, (base, q) in %s`' % want_iter)
        pos, qb = inner.target.elts[0].id, inner.target.elts[1].elts[0].id
        ib = [st for st in inner.body if not (isinstance(st, ast.If) and self.u(st.test) == 'with_probs_and_obs' and not st.orelse
                                              and all(self.u(s).startswith('phred_scores[') for s in st.body))]
        if not (len(ib) == 2 and isinstance(ib[0], ast.If) and not ib[0].orelse and [self.u(s) for s in ib[0].body] == ['continue']
                and isinstance(ib[1], ast.AugAssign) and isinstance(ib[1].op, ast.Add)):
            raise Untranslatable('Molecule.get_consensus: vote loop body is not [if <no vote>: continue, consensii[pos][column] += 1]')
        self.emit(F_MOL, ib[0].test, 'g_mol_no_vote', '(b : Z) : bool', self.expr(ib[0].test, {qb: 'b'}, 'no-vote test', must_use=('b',)),
                  note='(b: character code of the fragment call)')
        tgt = ib[1].target
        if not (isinstance(tgt, ast.Subscript) and self.u(tgt.value) == 'consensii[%s]' % pos and isinstance(tgt.slice, ast.Call)
                and isinstance(tgt.slice.func, ast.Attribute) and tgt.slice.func.attr == 'index' and self.const(tgt.slice.func.value, (str,))
                and [self.u(a) for a in tgt.slice.args] == [qb] and not tgt.slice.keywords):
            raise Untranslatable('Molecule.get_consensus: the vote column is not \'<alphabet>\'.index(%s)' % qb)
        alpha = tgt.slice.func.value
        self.emit(F_MOL, alpha, 'g_mol_columns', ': list Z', '[%s]' % '; '.join(str(ord(ch)) for ch in alpha.value),
                  note='(column of a base = its index in this string; a base outside it raises ValueError)')
        self.emit(F_MOL, ib[1], 'g_mol_vote', ': Z', self.expr(ib[1].value, {}, 'vote increment', boolean=False))
        # no votes at all
        if not (isinstance(empty, ast.If) and self.u(empty.test) in ('len(consensii) == 0', 'not consensii') and not empty.orelse
                and len(empty.body) == 1 and isinstance(empty.body[0], ast.If) and self.u(empty.body[0].test) == 'with_probs_and_obs'
                and [self.u(s) for s in empty.body[0].body] == ['return (dict(), None, None)']
                and [self.u(s) for s in empty.body[0].orelse] == ['return dict()']):
            raise Untranslatable('Molecule.get_consensus: the empty-table exit is not `return dict()` / `return (dict(), None, None)`')
        # rows of the vote matrix = sorted locations; argmax; uniqueness mask
        if [self.u(s) for s in (loc0, loc1, vst, amax)] != [
                'locations = np.empty(len(consensii), dtype=object)', 'locations[:] = sorted(list(consensii.keys()))',
                'v = np.vstack([consensii[location] for location in locations])', 'majority_base_indices = np.argmax(v, axis=1)']:
            raise Untranslatable('Molecule.get_consensus: vote matrix / argmax statements are not the modelled ones')
        at_max = '(v == v[np.arange(v.shape[0]), majority_base_indices][:, np.newaxis]).sum(1)'
        if not (isinstance(proper, ast.Assign) and self.u(proper.targets[0]) == 'proper' and isinstance(proper.value, ast.Compare)
                and (self.u(proper.value.left) == at_max or any(self.u(c) == at_max for c in proper.value.comparators))):
            raise Untranslatable('Molecule.get_consensus: `proper` does not compare the number of entries equal to the row maximum')
        self.emit(F_MOL, proper.value, 'g_mol_proper', '(n_at_max : Z) : bool',
                  self.expr(proper.value, {at_max: 'n_at_max'}, 'uniqueness mask', must_use=('n_at_max',)),
                  note='(n_at_max: number of entries of the row equal to the entry at its argmax)')
        if not (isinstance(ret, ast.If) and self.u(ret.test) == 'with_probs_and_obs' and len(ret.body) == 1 and len(ret.orelse) == 1
                and isinstance(ret.body[0], ast.Return) and isinstance(ret.orelse[0], ast.Return)):
            raise Untranslatable('Molecule.get_consensus: the last statement is not if with_probs_and_obs: return (...) else: return ...')
        rp, rc = ret.body[0].value, ret.orelse[0].value
        if not (isinstance(rp, ast.Tuple) and len(rp.elts) == 3 and [self.u(e) for e in rp.elts[1:]] == ['phred_scores', 'consensii']):
            raise Untranslatable('Molecule.get_consensus: with_probs_and_obs does not return (consensus, phred_scores, consensii)')
        alphas = []
        for e in (rp.elts[0], rc):
            m = re.fullmatch(r"dict\(zip\(locations\[proper\], \[('[^'\\]*')\[idx\] for idx in majority_base_indices\[proper\]\]\)\)", self.u(e))
            if not m:
                raise Untranslatable('Molecule.get_consensus: the consensus is not dict(zip(locations[proper], '
                                     '[<alphabet>[idx] for idx in majority_base_indices[proper]])): %s' % self.u(e)[:140])
            alphas.append(ast.literal_eval(m.group(1)))
        if alphas[0] != alphas[1]:
            raise Untranslatable('Molecule.get_consensus: the two return statements use different alphabets')
        self.emit(F_MOL, rc, 'g_mol_letters', ': list Z', '[%s]' % '; '.join(str(ord(ch)) for ch in alphas[1]),
                  note='(the reported base of a row = this string at the argmax; rows and indices both masked by `proper`)')


def regen_consensus(repo=None):
    """T: regenerate coq/Gen/GenConsensus.v from the source tree; returns (metadata, facts)"""
    gen_path = os.path.join(fw.COQ, 'Gen', 'GenConsensus.v')
    try:
        g = _Gen(repo or fw.REPO)
        g.pick_best(); g.dictionaries(); g.read_filter(); g.fragment(); g.molecule()
    except Exception:
        # fail closed: no stale translation may be left for the proofs to build against
        for ext in ('.v', '.vo', '.vos', '.vok', '.glob'):
            try:
                os.remove(gen_path[:-2] + ext)
            except OSError:
                pass
        raise
    py2coq.write_gen(gen_path, '', g.chunks)
    return g.meta, g.facts


# ------------------------------------------------------------------------------------------ generators
def gen_alignment(rng, ref, start, length, plain):
    """an alignment of about `length` reference bases starting at `start`: (seq, quals, cigar)"""
    cigar, seq = [], []
    pos = start
    if not plain and rng.random() < 0.25:
        n = rng.randint(1, 3)
        cigar.append([4, n]); seq += [rng.choice(BASES) for _ in range(n)]
    left = length
    first = True
    while left > 0:
        n = left if plain or rng.random() < 0.6 else rng.randint(1, left)
        cigar.append([0, n])
        seq += list(ref[pos:pos + n])
        pos += n; left -= n
        if left > 0:
            op = rng.choice([1, 2, 2, 3])
            k = rng.randint(1, 2) if op != 3 else rng.randint(2, 5)
            cigar.append([op, k])
            if op == 1:
                seq += [rng.choice(BASES) for _ in range(k)]
            else:
                pos += k
        first = False
    if not plain and rng.random() < 0.25:
        n = rng.randint(1, 3)
        cigar.append([4, n]); seq += [rng.choice(BASES) for _ in range(n)]
    return seq, cigar


def mutate(rng, seq, variant, p_mis, p_n):
    out = []
    for i, b in enumerate(seq):
        r = rng.random()
        if r < p_n:
            out.append('N')
        elif r < p_n + p_mis:
            out.append(variant if rng.random() < 0.6 and variant != b else rng.choice(BASES))
        else:
            out.append(b)
    return ''.join(out)


def gen_slot(rng, refs, contig, start, length, rev, variant, p_mis, p_n, plain, md=True, flatq=None):
    ref = refs[contig]
    # dry run to learn how much reference the alignment consumes, so that it can end flush with the contig end
    st = rng.getstate()
    _, cig0 = gen_alignment(rng, ref, 0, length, plain)
    rng.setstate(st)
    consumed = sum(n for op, n in cig0 if op in (0, 2, 3))
    start = max(0, min(start, len(ref) - consumed))       # position 0 and the last base of the contig are reachable
    seq, cigar = gen_alignment(rng, ref, start, length, plain)
    assert start + consumed <= len(ref) and [c[:] for c in cigar] == [c[:] for c in cig0]
    seq = mutate(rng, seq, variant, p_mis, p_n)
    if flatq is not None:
        quals = [flatq] * len(seq)
    else:
        quals = [rng.choice(QUALS) for _ in seq]
    return {'contig': contig, 'start': start, 'seq': seq, 'quals': quals, 'rev': rev, 'cigar': cigar, 'md': md}


def gen_fragment(rng, refs, locus, span, wild):
    """one fragment = python list of slots (None or read description); returns (kind, slots)"""
    variant = rng.choice(BASES)
    p_mis = rng.choice([0.0, 0.1, 0.3, 0.5])
    p_n = rng.choice([0.0, 0.05, 0.2])
    plain = rng.random() < 0.6
    flatq = rng.choice([None, None, 30, 20])
    L1, L2 = rng.randint(3, span), rng.randint(3, span)
    s1 = locus + rng.randint(0, span)
    r = rng.random()
    contig = 0

    def slot(start, length, rev, md=True, c=contig):
        return gen_slot(rng, refs, c, start, length, rev, variant, p_mis, p_n, plain, md, flatq)
    if wild and r < 0.03:
        return 'one_slot_list', [slot(s1, L1, False)]
    if wild and r < 0.06:
        return 'no_md', [slot(s1, L1, False, md=rng.random() < 0.5), slot(s1 + rng.randint(-2, 4), L2, True, md=False)]
    if wild and r < 0.08:
        return 'other_contig_mate', [slot(s1, L1, False), slot(s1, L2, True, c=1)]
    if r < 0.22:
        return 'r1_only', [slot(s1, L1, rng.random() < 0.5), None]
    if r < 0.36:
        return 'r2_only', [None, slot(s1, L2, rng.random() < 0.5)]
    if r < 0.42:
        rev = rng.random() < 0.5
        return 'same_strand_pair', [slot(s1, L1, rev), slot(s1 + rng.randint(-3, 3), L2, rev)]
    # inward facing pair; overlap / gap / dove-tail chosen by the offset of the reverse mate
    off = rng.choice([rng.randint(-L2, L1 + 3), rng.randint(-3, 3), rng.randint(0, L1)])
    if rng.random() < 0.5:
        kind = 'pair_fr' + ('_dovetail' if off < 0 else '')
        return kind, [slot(s1, L1, False), slot(s1 + off, L2, True)]
    kind = 'pair_rf' + ('_dovetail' if off < 0 else '')
    return kind, [slot(s1 + off, L1, True), slot(s1, L2, False)]


KW_NAMES = ['only_include_refbase', 'min_phred_score', 'skip_first_n_cycles_R1', 'skip_last_n_cycles_R1',
            'skip_first_n_cycles_R2', 'skip_last_n_cycles_R2', 'dove_R1_distance', 'dove_R2_distance']


def gen_kw(rng):
    """keyword arguments of Molecule.get_consensus that reach read_to_consensus_dict / get_consensus_dictionaries"""
    kw = {}
    for name in KW_NAMES:
        if rng.random() < 0.3:
            if name == 'only_include_refbase':
                kw[name] = rng.choice(BASES)
            elif name == 'min_phred_score':
                kw[name] = rng.choice([0, 3, 10, 20, 25, 30, 31, 37])
            elif name.startswith('skip'):
                kw[name] = rng.choice([0, 1, 2, 3, 5])
            else:
                kw[name] = rng.choice([0, 1, 2, 3, -1])
    if not kw:
        kw['min_phred_score'] = rng.choice([10, 20, 25, 30])
    return kw


def enc_opts(ds, kw):
    """model encoding of the option record; no keyword -> the bare dove_safe flag (Model dec_opts)"""
    if not kw:
        return int(bool(ds))
    o = lambda k: [] if kw.get(k) is None else [kw[k]]
    rb = kw.get('only_include_refbase')
    return [int(bool(ds)), [] if rb is None else [ord(rb)], o('min_phred_score'), o('skip_first_n_cycles_R1'),
            o('skip_last_n_cycles_R1'), o('skip_first_n_cycles_R2'), o('skip_last_n_cycles_R2'),
            kw.get('dove_R1_distance', 0), kw.get('dove_R2_distance', 0)]


def gen_locus(rng, refs, span):
    """mostly inside the contig; 15% hugging position 0 and 12% hugging the last base (starts are clamped to the contig)"""
    r = rng.random()
    if r < 0.15:
        return rng.randint(-span - 2, 0)
    if r < 0.27:
        return len(refs[0]) - rng.randint(2, span + 4)
    return rng.randint(5, 150)


def gen_case(rng, refs, n, wild, tier):
    span = rng.choice([4, 6, 10, 16])
    locus = gen_locus(rng, refs, span)
    kinds, frags = [], []
    for _ in range(n):
        k, f = gen_fragment(rng, refs, locus, span, wild)
        kinds.append(k); frags.append(f)
    ident = list(range(n))
    orders = [ident]
    if n <= (4 if tier == 'quick' else 5) and rng.random() < (0.35 if tier == 'quick' else 0.6):
        orders = [list(p) for p in itertools.permutations(ident)]
    else:
        orders.append(ident[::-1])
        for _ in range(2):
            p = ident[:]; rng.shuffle(p); orders.append(p)
    orders.append(ident + ident)                       # every fragment duplicated
    d = ident + ident; rng.shuffle(d); orders.append(d)
    seen, uniq = set(), []
    for o in orders:
        if tuple(o) not in seen:
            seen.add(tuple(o)); uniq.append(o)
    return {'ds': rng.random() < 0.4, 'frags': frags, 'orders': uniq, 'kinds': kinds,
            'kw': gen_kw(rng) if rng.random() < 0.3 else {}}


def gen_history(rng, refs, wild):
    """operations on one Molecule object: growth by add_fragment / _add_fragment / add_molecule with get_consensus
    queries (dove_safe on/off, with_probs_and_obs on/off, repeated) in between"""
    n = rng.choice([2, 2, 3, 3, 4, 5, 6, 8, 12])
    span = rng.choice([4, 6, 10, 16])
    locus = gen_locus(rng, refs, span)
    kinds, frags = [], []
    same_strand = rng.random() < 0.6          # makes add_fragment accept most fragments
    for _ in range(n):
        for _try in range(20):
            k, f = gen_fragment(rng, refs, locus, span, wild)
            first = next(s for s in f if s is not None)
            if not same_strand or (k != 'same_strand_pair' and first['rev'] == (f[0] is None)):
                break
        kinds.append(k); frags.append(f)
    idx = list(range(n))
    if rng.random() < 0.3:
        idx += [rng.randrange(n) for _ in range(rng.randint(1, 3))]   # the same fragment object added again
    rng.shuffle(idx)
    ops, i = [], 0

    def query():
        ds, probs = rng.random() < 0.3, rng.random() < 0.25
        kw = gen_kw(rng) if rng.random() < 0.4 else {}
        ops.append(['get', ds, probs, kw])
        if rng.random() < 0.4:
            # ask again: same flags without / with other keywords, or the other dove_safe value
            kw2 = rng.choice([{}, {}, kw, gen_kw(rng), {k: v for k, v in kw.items() if k == 'only_include_refbase'}])
            ops.append(['get', ds if rng.random() < 0.7 else not ds, False, kw2])
    while i < len(idx):
        r = rng.random()
        if r < 0.4:
            ops.append(['add', idx[i]]); i += 1
        elif r < 0.55:
            ops.append(['raw', idx[i]]); i += 1
        else:
            k = rng.randint(1, 4)
            ops.append(['mol', idx[i:i + k]]); i += k
        if rng.random() < 0.6:
            query()
    ops.append(['get', False, False, {}]); ops.append(['get', True, False, {}])
    return {'frags': frags, 'ops': ops, 'kinds': kinds}


def history_model_ops(h, r):
    """the operation list as the model sees it (accept verdicts of add_fragment are inputs, see Model/C13.v)"""
    out = []
    for op, res in zip(h['ops'], r['ops']):
        if op[0] == 'add':
            out.append([0, 1 if res is True else 0, r['minput'][op[1]]])
        elif op[0] == 'raw':
            out.append([1, r['minput'][op[1]]])
        elif op[0] == 'mol':
            out.append([2, [r['minput'][i] for i in (res if isinstance(res, list) else [])]])
        else:
            out.append([3, enc_opts(op[1], op[3] if len(op) > 3 else None), int(op[2])])
    return out


def history_held(h, r, upto):
    """indices of the fragments the molecule holds before operation number `upto`"""
    held = []
    for op, res in list(zip(h['ops'], r['ops']))[:upto]:
        if op[0] == 'add' and res is True:
            held.append(op[1])
        elif op[0] == 'raw':
            held.append(op[1])
        elif op[0] == 'mol' and isinstance(res, list):
            held += res
    return held


def history_answer(op, res):
    """canonical implementation answer of a get operation, in the model's encoding"""
    if isinstance(res, dict) and 'error' in res:
        c = [ERR.get(res['error'].split(':')[0], 9), []]
        return [c, c] if op[2] else [c]
    return [[0, res['cons']], [0, res['table']]] if op[2] else [[0, res['cons']]]


def pick_cases(rng, tier):
    opts = [None] + [[ord(b), q] for b in 'ACN' for q in (0, 1, 2)]
    cases = [list(c) for n in range(0, 3 if tier == 'quick' else 4) for c in itertools.product(opts, repeat=n)]
    for _ in range(300 if tier == 'quick' else 3000):
        cases.append([rng.choice([None] + [[ord(rng.choice('ACGTN')), rng.choice([0, 1, 20, 30, 41])]] * 4)
                      for _ in range(rng.randint(0, 5))])
    return cases


# ------------------------------------------------------------------------------------------ python oracle
# which keyword reaches read_to_consensus_dict as skip_first/skip_last for each mate.  The statement says nothing about
# the skip options; the oracle therefore follows what the installed translation (coq/Gen/GenConsensus.v: regenerated from
# the source, or the pinned copy when the translator refused) says, like the model does.  /repo passes
# skip_last_n_cycles_R2 for both skip arguments of R2 (skip_first_n_cycles_R2 is unused).
FWD = {'r1_skip_first': 'skip_first_n_cycles_R1', 'r1_skip_last': 'skip_last_n_cycles_R1',
       'r2_skip_first': 'skip_last_n_cycles_R2', 'r2_skip_last': 'skip_last_n_cycles_R2'}


def load_forwarding():
    names = {'sf1': 'skip_first_n_cycles_R1', 'sl1': 'skip_last_n_cycles_R1', 'sf2': 'skip_first_n_cycles_R2', 'sl2': 'skip_last_n_cycles_R2'}
    try:
        txt = open(os.path.join(fw.COQ, 'Gen', 'GenConsensus.v')).read()
    except OSError:
        return
    for m in re.finditer(r'Definition g_(r[12]_skip_(?:first|last)) [^\n]*:=\s*(sf1|sl1|sf2|sl2)\.', txt):
        FWD[m.group(1)] = names[m.group(2)]


def spec_votes(ds, frags_minput, head=False, kw=None):
    """brute-force transcription of the theorem statement on the pysam-derived read tuples
    (refpos, base, quality, query position, reference base), for the options of THIS query:
    returns (votes: key -> {base: n}, all_keys) or None when some fragment is outside the precondition"""
    kw = kw or {}
    d1, d2 = kw.get('dove_R1_distance', 0), kw.get('dove_R2_distance', 0)
    minq, refb = kw.get('min_phred_score'), kw.get('only_include_refbase')
    # (skip_first, skip_last) per mate as get_consensus_dictionaries passes them on (FWD above)
    skips = [(kw.get(FWD['r1_skip_first']), kw.get(FWD['r1_skip_last'])),
             (kw.get(FWD['r2_skip_first']), kw.get(FWD['r2_skip_last']))]
    votes, keys = {}, set()
    for slots in frags_minput:
        if len(slots) != 2:
            return None
        r1, r2 = (s if s else None for s in slots)
        for s in (r1, r2):
            if s:
                for p, b, q, qp, rb in s[5]:
                    keys.add((s[0], p))
                    if chr(b) not in 'ACGTN':
                        return None
        if head:
            if (ds and r2 is None) or r1 is None:
                continue
        elif ds and (r1 is None or r2 is None):
            continue
        win = None
        if ds:
            if r1[3] and not r2[3]:
                win = (r2[1] + d2, r1[2] - d1 - 1)
            elif not r1[3] and r2[3]:
                win = (r1[1] + d1, r2[2] - d2 - 1)
            else:
                continue
        if (r1 and not r1[4]) or (r2 and not r2[4]):
            continue
        d = [{}, {}]
        for i, s in enumerate((r1, r2)):
            if s:
                rev, qlen = bool(s[3]), s[6]
                sf, sl = skips[i]
                for p, b, q, qp, rb in s[5]:
                    if win is not None and not (win[0] <= p <= win[1]):
                        continue
                    if minq is not None and q < minq:
                        continue
                    if sl is not None and not ((rev and qp > sl) or (not rev and qp < qlen - sl)):
                        continue
                    if sf is not None and not ((not rev and qp > sf) or (rev and qp < qlen - sf)):
                        continue
                    if refb is not None and chr(rb).upper() != refb:
                        continue
                    d[i][(s[0], p)] = (b, q)
        for k in set(d[0]) | set(d[1]):
            c1, c2 = d[0].get(k), d[1].get(k)
            if c1 and c2:
                if c1[1] > c2[1]:
                    b = c1[0]
                elif c2[1] > c1[1]:
                    b = c2[0]
                else:
                    b = c1[0] if c1[0] == c2[0] else ord('N')
            else:
                b = (c1 or c2)[0]
            if b != ord('N'):
                votes.setdefault(k, {}).setdefault(b, 0)
                votes[k][b] += 1
    return votes, keys


def spec_consensus(ds, frags_minput, head=False, kw=None):
    r = spec_votes(ds, frags_minput, head, kw)
    if r is None:
        return None
    votes, _ = r
    out = []
    for k, v in votes.items():
        for b, n in v.items():
            if all(n > m for b2, m in v.items() if b2 != b):
                out.append([k[0], k[1], b])
    return sorted(out)


def code_of(x):
    """canonical outcome of an implementation call: [0, value] or [1|2|9, []]"""
    if isinstance(x, dict) and 'error' in x:
        return [ERR.get(x['error'].split(':')[0], 9), []]
    return [0, x]


def sort_model(v):
    return [v[0], sorted(v[1])] if v[0] == 0 else v


class Prop(fw.PropBase):
    ID = 'C13'
    PROPS = 'Props/C13.v'
    TRUSTED = [
        'translator tie: tools/c13.py regen_consensus (hand-written, fail closed) regenerates coq/Gen/GenConsensus.v from the current '
        'source: the comparisons / constants / flag updates of pick_best_base_call, the orientation tests, window arithmetic and option '
        'routing of get_consensus_dictionaries, the filter of read_to_consensus_dict, slots / key union / pick_best_base_call arguments '
        'of Fragment.get_consensus, and allow_N test, skip test, no-vote test, column alphabet, increment, uniqueness mask and result '
        'alphabet of Molecule.get_consensus. The control skeleton around them (loops, try/except ValueError, defaultdict, sorted '
        'locations, vstack, which statement guards which) is matched structurally and hand-modelled in coq/Model/C13x.v',
        'modelled not verified: pysam AlignedSegment accessors (get_aligned_pairs(matches_only=True), reference_start/'
        'reference_end, is_reverse, has_tag(MD)); the model input per read is what pysam reports for the same read object',
        'modelled not verified: numpy argmax (first index of the row maximum) / equality mask on float vectors (exact for counts '
        '< 2^53), str.index, str.upper, python dict/set semantics (model: insertion-ordered association list; iteration order of the '
        'key-set union is not modelled, votes are shown to commute); the sort of the locations only fixes the iteration order of the '
        'returned dict; Fragment.has_R1/has_R2',
        'argument record of Molecule.get_consensus: dove_safe, only_include_refbase, min_phred_score, skip_first/last_n_cycles_R1/R2, '
        'dove_R1/R2_distance (opts), allow_N, with_probs_and_obs (args); the phred_scores component of with_probs_and_obs is not '
        'modelled; a keyword that get_consensus_dictionaries does not accept (TypeError) is outside the record; which skip option '
        'reaches which mate is taken from the source as generated (/repo routes skip_last_n_cycles_R2 to both skip arguments of R2, '
        'skip_first_n_cycles_R2 is unused: fixes/C13-D36.patch, outside the statement); membership of fragments in the molecule is '
        'taken as given (add_fragment verdict is an input)',
    ]
    ASSUMPTIONS = [
        'every fragment holds a two-slot reads list [R1 or None, R2 or None] (what MoleculeIterator builds); a one-element '
        'list makes Fragment.get_consensus raise IndexError - the model reproduces that, the theorems exclude it',
        'query bases are in ACGTN (another IUPAC code makes str.index raise ValueError mid-fragment and the remaining '
        'positions of that fragment are lost in set-iteration order; outside the stated quantifier)',
        'majority = strictly more fragment calls than every other base among A,C,G,T; N calls (including equal-quality '
        'mate disagreements) are no votes',
    ]
    WITNESS_D16 = {
        'ds': False, 'orders': [[0, 1, 2]], 'kinds': ['r1_only', 'r2_only', 'r2_only'],
        'frags': [[{'contig': 0, 'start': 20, 'seq': 'AAAA', 'quals': [30] * 4, 'rev': False, 'cigar': [[0, 4]], 'md': True}, None],
                  [None, {'contig': 0, 'start': 20, 'seq': 'CCCC', 'quals': [30] * 4, 'rev': True, 'cigar': [[0, 4]], 'md': True}],
                  [None, {'contig': 0, 'start': 20, 'seq': 'CCCC', 'quals': [30] * 4, 'rev': True, 'cigar': [[0, 4]], 'md': True}]]}

    def __init__(self, tier, seed):
        super().__init__(tier, seed)
        # when D16 is recorded as a known finding (instead of being repaired) the HEAD model (mode 3) is the reference
        self.head = any(str(f.get('key', '')).startswith('D16') for f in fw.load_findings('C13'))
        self.mode = 3 if self.head else 0

    # ---------------------------------------------------------------- T
    def regen(self):
        meta, self.facts = regen_consensus()
        return meta

    # ---------------------------------------------------------------- inputs
    def refs(self):
        import random
        r = random.Random(1234)
        return [''.join(r.choice(BASES) for _ in range(400)) for _ in range(2)]

    def corpus_cases(self):
        d = os.path.join(fw.VERIF, 'corpus', 'C13')
        out = []
        if os.path.isdir(d):
            for f in sorted(os.listdir(d)):
                if f.endswith('.json'):
                    j = json.load(open(os.path.join(d, f)))
                    if 'case' in j:
                        out.append(j['case'])
        return out

    def cases(self):
        quick = self.tier == 'quick'
        refs = self.refs()
        cases = self.corpus_cases() + [self.WITNESS_D16]
        n_rand = 900 if quick else 15000
        for i in range(n_rand):
            n = self.rng.choice([1, 2, 2, 3, 3, 4, 5, 6, 8, 12]) if i % 3 else self.rng.randint(1, 12)
            cases.append(gen_case(self.rng, refs, n, wild=(i % 4 == 0), tier=self.tier))
        # small exhaustive scope: 1..3 two-base fragments over calls {A,C,N} x quality {20,30}, all fragment shapes,
        # in the middle of the contig, at reference position 0 and at the last two bases of the contig
        col = []
        L = len(refs[0])

        def shapes_at(start, dove):
            sh = []
            for b1, q1, b2, q2 in itertools.product('ACN', (20, 30), 'ACN', (20, 30)):
                sh.append([self._mini(b1, q1, False, start), self._mini(b2, q2, True, start)])
            for b, q in itertools.product('ACN', (20, 30)):
                sh.append([self._mini(b, q, False, start), None])
                sh.append([None, self._mini(b, q, True, start)])
            if dove is not None:
                # dove-tailed / staggered mates: the reverse mate starts one base before (dove=-1) or after the forward mate
                for b1, q1, b2, q2 in itertools.product('AC', (20, 30), 'AC', (20, 30)):
                    f, r = (start + 1, start) if dove < 0 else (start, start + 1)
                    sh.append([self._mini(b1, q1, False, f), self._mini(b2, q2, True, r)])
                    sh.append([self._mini(b1, q1, True, r), self._mini(b2, q2, False, f)])
            return sh
        scopes = [('middle', shapes_at(30, None), 2 if quick else 3),
                  ('position 0', shapes_at(0, -1), 1 if quick else 2),
                  ('contig end', shapes_at(L - 3, -1) + shapes_at(L - 2, None)[:4], 1 if quick else 2)]
        self.n_shapes = {name: len(sh) for name, sh, _ in scopes}
        for name, pool, kmax in scopes:
            for k in range(1, kmax + 1):
                for combo in itertools.combinations_with_replacement(range(len(pool)), k):
                    for ds in (False, True):
                        col.append({'ds': ds, 'frags': [pool[i] for i in combo], 'orders': [list(range(k)), list(range(k))[::-1]],
                                    'kinds': ['mini'] * k})
        if quick:
            # pairs of edge shapes: a sample in the quick tier (complete in thorough)
            for name, pool, _ in scopes[1:]:
                for _ in range(300):
                    combo = [self.rng.randrange(len(pool)) for _ in range(2)]
                    col.append({'ds': self.rng.random() < 0.5, 'frags': [pool[i] for i in combo], 'orders': [[0, 1], [1, 0]],
                                'kinds': ['mini'] * 2})
        self.n_exh = len(col)
        return refs, cases + col

    @staticmethod
    def _mini(b, q, rev, start=30):
        return {'contig': 0, 'start': start, 'seq': b + 'G', 'quals': [q, 30], 'rev': rev, 'cigar': [[0, 2]], 'md': True}

    # ---------------------------------------------------------------- K
    def run_impl_cases(self, refs, cases, picks=(), histories=()):
        return fw.run_impl('impl_c13.py', {'refs': refs, 'cases': [{k: c.get(k) for k in ('ds', 'frags', 'orders', 'kw')} for c in cases],
                                           'picks': list(picks),
                                           'histories': [{k: h[k] for k in ('frags', 'ops')} for h in histories]})

    def histories(self):
        d = os.path.join(fw.VERIF, 'corpus', 'C13')
        out = []
        if os.path.isdir(d):
            for f in sorted(os.listdir(d)):
                if f.endswith('.json'):
                    j = json.load(open(os.path.join(d, f)))
                    if 'history' in j:
                        out.append(j['history'])
        refs = self.refs()
        hr = __import__('random').Random(self.seed * 7919 + 13)
        for i in range(350 if self.tier == 'quick' else 5000):
            out.append(gen_history(hr, refs, wild=(i % 5 == 0)))
        return out

    def history_violations(self, h, r):
        """python transcription of C13_history_query + C13_majority on the implementation's answers: every query must
        answer the strict majority over ALL fragments held at that moment"""
        out = []
        for n, (op, res) in enumerate(zip(h['ops'], r['ops'])):
            if op[0] != 'get':
                continue
            held = [r['minput'][i] for i in history_held(h, r, n)]
            kw = op[3] if len(op) > 3 else None
            exp = spec_consensus(bool(op[1]), held, head=self.head, kw=kw)
            if exp is None:
                continue
            got = history_answer(op, res)
            if got[0] != [0, exp]:
                out.append(('history-stale-or-wrong-consensus', n, got[0], exp))
            elif op[2]:
                votes, _ = spec_votes(bool(op[1]), held, head=self.head, kw=kw)
                tab = sorted([k[0], k[1]] + [v.get(ord(b), 0) for b in 'ACGT'] + [0] for k, v in votes.items())
                if got[1] != [0, tab]:
                    out.append(('history-vote-table', n, got[1], tab))
        return out

    def correspondence(self):
        load_forwarding()
        refs, cases = self.cases()
        picks = pick_cases(self.rng, self.tier)
        hists = self.histories()
        res = self.run_impl_cases(refs, cases, picks, hists)
        self.refs_, self.cases_, self.res_, self.picks_, self.hists_ = refs, cases, res, picks, hists
        rc = res['cases']
        broken_build = [(c, r) for c, r in zip(cases, rc) if 'error' in r]
        if broken_build:
            raise fw.Broken('correspondence', 'could not build a molecule from in-memory reads: %r' % (broken_build[0][1],))
        # ---- measured description of the input stream
        hist_n, hist_kind, nontrivial, ties, nonly, mate_ties, errs = {}, {}, set(), 0, 0, 0, {}
        evals = 0
        for c, r in zip(cases, rc):
            n = len(c['frags'])
            hist_n[n] = hist_n.get(n, 0) + 1
            for k in c['kinds']:
                hist_kind[k] = hist_kind.get(k, 0) + 1
            evals += len(c['orders']) + 2 + len(c['frags'])
            for o in r['outs']:
                if isinstance(o, dict):
                    errs[o['error'].split(':')[0]] = errs.get(o['error'].split(':')[0], 0) + 1
            t = r['table'] if isinstance(r['table'], list) else []
            contested = [row for row in t if sum(1 for x in row[2:6] if x > 0) >= 2]
            tie_rows = [row for row in t if sorted(row[2:7])[-1] == sorted(row[2:7])[-2]]
            ties += len(tie_rows)
            keys = set((s[0], p[0]) for f in r['minput'] for s in f if s for p in s[5])
            nonly += len(keys - set((row[0], row[1]) for row in t))
            mate_ties += sum(1 for fc in r['fragcons'] if isinstance(fc, list) for e in fc if e[2] == 78 and e[3] == 0)
            if contested:
                nontrivial.add(fw.canon_hash([enc_opts(c['ds'], c.get('kw')), r['minput']]))
        self.cov.update({
            'evaluations': evals + len(picks),
            'distinct_nontrivial': len(nontrivial),
            'rule': 'one evaluation = one call of the real Molecule.get_consensus (each insertion order / duplication of each '
                    'molecule, plus one with_probs_and_obs call for consensus + vote table and one allow_N=True call) or Fragment.get_consensus or '
                    'pick_best_base_call, compared with the model. non-trivial molecule = at least one position where two '
                    'different bases received votes; distinct by hash of (dove_safe, per-read pysam triples)',
            'molecules': len(cases), 'fragments_per_molecule': {str(k): v for k, v in sorted(hist_n.items())},
            'fragment_kinds': hist_kind, 'dove_safe_true': sum(1 for c in cases if c['ds']),
            'molecules_with_keyword_options': sum(1 for c in cases if c.get('kw')),
            'molecules_covering_reference_position_0': sum(1 for r in rc if any(s and s[1] == 0 for f in r['minput'] for s in f)),
            'molecules_covering_last_base_of_contig': sum(1 for r in rc if any(s and s[2] == len(refs[s[0]]) for f in r['minput'] for s in f)),
            'edge_reads_by_slot': {k: sum(1 for r in rc for f in r['minput'] for i, s in enumerate(f) if s and i == n and (s[1] == 0 or s[2] == len(refs[s[0]])))
                                   for k, n in (('R1', 0), ('R2', 1))},
            'orders_run': sum(len(c['orders']) for c in cases),
            'molecules_with_all_permutations': sum(1 for c in cases if len(c['orders']) >= 6 and len(c['frags']) >= 3),
            'tie_positions_seen': ties, 'positions_without_any_vote_seen': nonly, 'mate_quality_tie_calls_seen': mate_ties,
            'impl_exceptions_seen': errs, 'pick_best_cases': len(picks),
            'exhaustive': False,
            'small_scope_enumeration': {
                'scope': 'complete: every multiset of 1..%d two-base fragments over the shapes (mate calls A/C/N x quality 20/30, '
                         'pairs, R1-only, R2-only) in the middle of the contig, and of 1..%d at reference position 0 and at the '
                         'last bases of the contig (there also dove-tailed mates); dove_safe on/off, both insertion orders; '
                         'shapes per place %r%s' % (2 if self.tier == 'quick' else 3, 1 if self.tier == 'quick' else 2, self.n_shapes,
                                                    '; plus 600 sampled pairs of edge shapes' if self.tier == 'quick' else ''),
                'cases': self.n_exh},
        })
        if not self.model_ok:
            return
        # ---- model runs
        jobs, index = [], []
        for ci, (c, r) in enumerate(zip(cases, rc)):
            for oi, o in enumerate(c['orders']):
                jobs.append([enc_opts(c['ds'], c.get('kw')), [r['minput'][i] for i in o]]); index.append((ci, oi))
        mout = [sort_model(v) for v in fw.run_model('C13', self.mode, jobs)]
        ident = [[enc_opts(c['ds'], c.get('kw')), r['minput']] for c, r in zip(cases, rc)]
        pre = fw.run_model('C13', 1, ident)
        dis = []
        for (ci, oi), m in zip(index, mout):
            got = code_of(rc[ci]['outs'][oi])
            if got != m:
                dis.append({'what': 'Molecule.get_consensus', 'case': ci, 'order': cases[ci]['orders'][oi], 'model': m, 'impl': got})
        # specification evaluated on the implementation's outputs: (a) python transcription of C13_majority on every
        # output, (b) the Coq specb (mode 2, the same predicate C13_specb_sound is about) on a sample
        n_py = 0
        for ci, (c, r) in enumerate(zip(cases, rc)):
            for kind, o, g, exp in self.violations_of(c, r):
                dis.append({'what': 'python brute-force vote disagrees with implementation (%s)' % kind, 'case': ci,
                            'order': o, 'impl': g, 'expected': exp})
            if spec_consensus(c['ds'], r['minput'], head=self.head, kw=c.get('kw')) is not None:
                n_py += len(c['orders'])
        spec_jobs, spec_idx = [], []
        cand = [n for n, (ci, oi) in enumerate(index)
                if pre[ci] == 1 and not self.head and code_of(rc[ci]['outs'][oi])[0] == 0 and len(jobs[n][1]) <= 10]
        self.rng.shuffle(cand)
        for n in cand[:(500 if self.tier == 'quick' else 6000)]:
            ci, oi = index[n]
            spec_jobs.append([jobs[n], code_of(rc[ci]['outs'][oi])[1]]); spec_idx.append((ci, oi))
        sp = fw.run_model('C13', 2, spec_jobs) if spec_jobs else []
        for (ci, oi), ok in zip(spec_idx, sp):
            if ok != 1:
                dis.append({'what': 'specb(majority) false on implementation output', 'case': ci, 'order': cases[ci]['orders'][oi],
                            'impl': code_of(rc[ci]['outs'][oi])})
        # vote tables and fragment level
        if not self.head:
            mt = [sort_model(v) for v in fw.run_model('C13', 4, ident)]
            for ci, m in enumerate(mt):
                got = code_of(rc[ci]['table'])
                if got != m:
                    dis.append({'what': 'vote table (with_probs_and_obs)', 'case': ci, 'order': cases[ci]['orders'][0], 'model': m, 'impl': got})
        fjobs, fidx = [], []
        for ci, (c, r) in enumerate(zip(cases, rc)):
            for fi, f in enumerate(r['minput']):
                fjobs.append([enc_opts(c['ds'], c.get('kw')), f]); fidx.append((ci, fi))
        mf = [sort_model(v) for v in fw.run_model('C13', 6, fjobs)]
        for (ci, fi), m in zip(fidx, mf):
            got = code_of(rc[ci]['fragcons'][fi])
            if got != m:
                dis.append({'what': 'Fragment.get_consensus', 'case': ci, 'fragment': fi, 'model': m, 'impl': got})
        # the whole argument record (model mode 9): with_probs_and_obs=True must give the same dictionary plus the vote
        # table, allow_N=True must raise NotImplementedError whatever the other arguments are
        n_args = 0
        pj = aj = []
        if not self.head:
            pj = [[[enc_opts(c['ds'], c.get('kw')), 0, 1], r['minput']] for c, r in zip(cases, rc)]
            aj = [[[enc_opts(c['ds'], c.get('kw')), 1, self.rng.randint(0, 1)], r['minput']] for c, r in zip(cases, rc)]
            mp9, ma9 = fw.run_model('C13', 9, pj), fw.run_model('C13', 9, aj)
            for ci, (c, r, m1, m2) in enumerate(zip(cases, rc, mp9, ma9)):
                if isinstance(r['table'], dict):
                    got = code_of(r['table'])
                else:
                    got = [4, r.get('probs_cons'), r['table']]
                m1 = [m1[0]] + [sorted(x) for x in m1[1:]] if m1[0] == 4 else m1
                if got != m1:
                    dis.append({'what': 'get_consensus(with_probs_and_obs=True): (consensus, vote table)', 'case': ci,
                                'order': c['orders'][0], 'model': m1, 'impl': got})
                got = code_of(r.get('allow_n'))
                if got != m2:
                    dis.append({'what': 'get_consensus(allow_N=True)', 'case': ci, 'order': c['orders'][0], 'model': m2, 'impl': got})
                n_args += 2
        self.cov['argument_record'] = {'with_probs_and_obs_calls_compared': n_args // 2, 'allow_N_calls_compared': n_args // 2}
        # histories through one Molecule object
        rh = res['histories']
        bad_h = [r for r in rh if 'error' in r]
        if bad_h:
            raise fw.Broken('correspondence', 'could not run a history: %r' % (bad_h[0],))
        mh = fw.run_model('C13', 8 if self.head else 7, [history_model_ops(h, r) for h, r in zip(hists, rh)])
        n_get = n_get_after_growth = n_add = n_acc = n_mol = n_raw = n_repeat = n_kw = n_plain_after_kw = 0
        for hi, (h, r, m) in enumerate(zip(hists, rh, mh)):
            gets = [(n, op, x) for n, (op, x) in enumerate(zip(h['ops'], r['ops'])) if op[0] == 'get']
            seen_get = False
            for n, (op, x) in enumerate(zip(h['ops'], r['ops'])):
                if op[0] == 'add':
                    n_add += 1; n_acc += x is True
                elif op[0] == 'mol':
                    n_mol += 1
                elif op[0] == 'raw':
                    n_raw += 1
                else:
                    n_get += 1
                    n_get_after_growth += seen_get and h['ops'][n - 1][0] != 'get'
                    n_repeat += n > 0 and h['ops'][n - 1][0] == 'get'
                    has_kw = len(op) > 3 and bool(op[3])
                    n_kw += has_kw
                    n_plain_after_kw += (not has_kw) and any(o[0] == 'get' and len(o) > 3 and o[3] for o in h['ops'][:n])
                    seen_get = True
            if len(m) != len(gets):
                dis.append({'what': 'history: number of answers', 'history': hi, 'model': len(m), 'impl': len(gets)})
                continue
            for (n, op, x), ma in zip(gets, m):
                got = history_answer(op, x)
                if got != [sort_model(a) for a in ma]:
                    dis.append({'what': 'history: get_consensus answer number %d (operation %d)' % (gets.index((n, op, x)), n),
                                'history': hi, 'ops': h['ops'][:n + 1], 'model': [sort_model(a) for a in ma], 'impl': got})
                    break
            for kind, n, got, exp in self.history_violations(h, r):
                dis.append({'what': 'python brute-force vote over the held fragments disagrees (%s)' % kind, 'history': hi,
                            'ops': h['ops'][:n + 1], 'impl': got, 'expected': exp})
                break
        self.cov['histories'] = {'histories': len(hists), 'queries': n_get, 'queries_after_growth_following_an_earlier_query': n_get_after_growth,
                                 'repeated_queries': n_repeat, 'add_fragment': n_add, 'add_fragment_accepted': n_acc,
                                 '_add_fragment': n_raw, 'add_molecule': n_mol, 'queries_with_keyword_options': n_kw,
                                 'plain_queries_after_a_query_with_keyword_options': n_plain_after_kw}
        self.cov['evaluations'] += n_get
        mp = fw.run_model('C13', 5, [[[] if c is None else c for c in p] for p in picks])
        for p, m, g in zip(picks, mp, res['picks']):
            if m != g:
                dis.append({'what': 'pick_best_base_call', 'input': p, 'model': m, 'impl': g})
        self.cov['traces_validated_against_impl'] = len(jobs) + len(spec_jobs) + len(ident) + len(fjobs) + len(picks) + n_get + n_args
        self.cov['precondition_hit_rate'] = round(sum(pre) / max(1, len(pre)), 4)
        self.cov['specb_evaluated_on_impl_outputs'] = len(spec_jobs)
        self.cov['python_majority_oracle_evaluated_on_impl_outputs'] = n_py
        self.cov['disagreements'] = len(dis)
        k = [i for i in range(len(jobs)) if mout[i][0] == 0 and mout[i][1]]
        sample = [k[i * len(k) // 3] for i in range(3)] if len(k) >= 3 else k
        self.cov['samples'] = [{'input': jobs[i], 'impl': code_of(rc[index[i][0]]['outs'][index[i][1]]), 'model': mout[i]} for i in sample
                               if len(json.dumps(jobs[i])) < 3000][:3]
        # vm_compute cross-check of the extracted binary (small inputs first: vm_compute on Z lists is slow to parse)
        order = sorted(range(len(jobs)), key=lambda i: (len(json.dumps(jobs[i])) > 1500, self.rng.random()))[:100]
        raw = fw.run_model('C13', self.mode, [jobs[i] for i in order])
        ok, nm, log = fw.vm_crosscheck('C13', self.mode, [(jobs[i], raw[n]) for n, i in enumerate(order)],
                                         run_name='run_C13x', require='Model.C13x')
        self.cov['vm_compute_crosscheck'] = {'cases': len(order), 'mismatches': nm}
        if not ok:
            raise fw.Broken('extraction', 'vm_compute and extracted model disagree: ' + log[-800:])
        if not self.head and not getattr(self, '_vm9_done', False):
            # the argument-record entry point (mode 9) as well (once per run: extra fallback passes skip it)
            self._vm9_done = True
            both = pj + aj
            order9 = sorted(range(len(both)), key=lambda i: (len(json.dumps(both[i])) > 1500, self.rng.random()))[:40]
            raw9 = fw.run_model('C13', 9, [both[i] for i in order9])
            ok, nm9, log = fw.vm_crosscheck('C13', 9, [(both[i], raw9[n]) for n, i in enumerate(order9)],
                                            run_name='run_C13x', require='Model.C13x')
            self._vm9 = {'argument_record_cases': len(order9), 'argument_record_mismatches': nm9}
            if not ok:
                raise fw.Broken('extraction', 'vm_compute and extracted model disagree (argument record): ' + log[-800:])
        self.cov['vm_compute_crosscheck'].update(getattr(self, '_vm9', {}))
        if dis:
            self.dis = dis
            raise fw.Broken('correspondence', 'model and implementation disagree on %d evaluations; first: %s'
                            % (len(dis), json.dumps(dis[0])[:1500]))

    # ---------------------------------------------------------------- search (no model needed)
    def violations_of(self, case, r):
        """spec (python transcription of C13_majority / C13_perm / C13_double) on the implementation outputs"""
        out = []
        exp = spec_consensus(case['ds'], r['minput'], head=self.head, kw=case.get('kw'))
        if exp is None:
            return out
        exp_head = spec_consensus(case['ds'], r['minput'], head=True, kw=case.get('kw'))
        for o, got in zip(case['orders'], r['outs']):
            g = code_of(got)
            if g == [0, exp]:
                continue
            if g[0] != 0:
                kind = 'error'
            elif g[1] == exp_head and not self.head and self.d16_present():
                kind = 'D16-r2-only-fragment-not-counted'
            else:
                gk = {(a, b): c for a, b, c in g[1]}
                ek = {(a, b): c for a, b, c in exp}
                if any(k not in ek for k in gk):
                    kind = 'tie-or-unvoted-position-reported'
                elif any(k not in gk for k in ek):
                    kind = 'majority-position-missing'
                else:
                    kind = 'wrong-base'
                if code_of(r['outs'][0]) == [0, exp]:
                    kind = 'order-or-duplication-dependence'
            out.append((kind, o, g, exp))
        pc = r.get('probs_cons')
        if pc is not None and pc != exp and not out:
            out.append(('with_probs_and_obs-consensus-differs', case['orders'][0], [0, pc], exp))
        return out

    def d16_present(self):
        """does the implementation drop R2-only fragments on the canonical D16 witness (1 x R1-only A vs 2 x R2-only C)?"""
        if not hasattr(self, '_d16'):
            r = self.run_impl_cases(self.refs(), [self.WITNESS_D16])['cases'][0]
            self._d16 = code_of(r['outs'][0]) == [0, [[0, 20 + i, 65] for i in range(4)]]
        return self._d16

    def search(self):
        load_forwarding()
        res = getattr(self, 'res_', None)
        if res is None:
            self.refs_, self.cases_ = self.cases()
            self.picks_ = pick_cases(self.rng, self.tier)
            self.hists_ = self.histories()
            res = self.res_ = self.run_impl_cases(self.refs_, self.cases_, self.picks_, self.hists_)
        best = {}
        for c, r in zip(self.cases_, res['cases']):
            if 'error' in r:
                self.witnesses.append({'key': 'harness:build', 'what': 'molecule could not be built: ' + r['error'], 'input': c})
                return
            for kind, o, g, exp in self.violations_of(c, r):
                size = sum(len(json.dumps(f)) for f in c['frags']) + 20 * len(o)
                if kind not in best or size < best[kind][0]:
                    best[kind] = (size, c, o)
        for kind, (size, c, o) in sorted(best.items()):
            c2, o2, g, exp = self.shrink(c, o, kind)
            self.witnesses.append({
                'key': kind if kind.startswith('D16') else 'majority:' + kind,
                'what': 'Molecule.get_consensus(dove_safe=%s) on %d fragment(s) in insertion order %r returns %r; the strict '
                        'majority of the fragment calls is %r (entries are [contig, refpos, base code])'
                        % ('%s, **%r%s' % (c2['ds'], c2.get('kw') or {}, ', with_probs_and_obs=True' if kind.startswith('with_probs') else ''),
                           len(c2['frags']), o2, g, exp),
                'input': {'dove_safe': c2['ds'], 'kwargs': c2.get('kw') or {}, 'fragments': c2['frags'], 'order': o2, 'refs_seed': 1234},
                'impl': g, 'expected': exp})
        # histories: stale / route dependent answers
        hbest = None
        for h, r in zip(self.hists_, res.get('histories', [])):
            if 'error' in r:
                continue
            for kind, n, got, exp in self.history_violations(h, r):
                size = len(json.dumps(h['ops'][:n + 1])) + sum(len(json.dumps(f)) for f in h['frags'])
                if hbest is None or size < hbest[0]:
                    hbest = (size, kind, h, n)
                break
        if hbest:
            self.witnesses.append(self.shrink_history(*hbest[1:]))
        # pick_best_base_call against its specification
        for p, g in zip(self.picks_, res['picks']):
            calls = [c for c in p if c is not None]
            if not calls:
                exp = [78, 0]
            else:
                m = max(q for _, q in calls)
                bs = set(b for b, q in calls if q == m)
                exp = [bs.pop(), m] if len(bs) == 1 else [78, 0]
            if g != exp:
                self.witnesses.append({'key': 'pick_best', 'what': 'pick_best_base_call%r = %r, expected %r (highest quality wins, '
                                                                    'equal-quality disagreement is N)' % (tuple(p), g, exp),
                                       'input': p, 'impl': g, 'expected': exp})
                break

    def shrink(self, c, o, kind):
        """greedy: drop fragments while the same kind of violation remains"""
        cur = {'ds': c['ds'], 'kw': c.get('kw'), 'frags': [c['frags'][i] for i in o], 'kinds': [c['kinds'][i] for i in o]}
        cur['orders'] = [list(range(len(o)))]
        if kind == 'order-or-duplication-dependence':
            cur = dict(c, orders=[c['orders'][0], o])
        g = exp = None
        for _ in range(12):
            n = len(cur['frags'])
            cands = []
            if kind != 'order-or-duplication-dependence' and n > 1:
                for i in range(n):
                    cands.append({'ds': cur['ds'], 'kw': cur.get('kw'), 'frags': cur['frags'][:i] + cur['frags'][i + 1:],
                                  'kinds': cur['kinds'][:i] + cur['kinds'][i + 1:], 'orders': [list(range(n - 1))]})
            rs = self.run_impl_cases(self.refs_, [cur] + cands)['cases']
            v0 = [v for v in self.violations_of(cur, rs[0]) if v[0] == kind]
            if v0:
                g, exp = v0[-1][2], v0[-1][3]
            nxt = None
            for cand, r in zip(cands, rs[1:]):
                if 'error' not in r and any(v[0] == kind for v in self.violations_of(cand, r)):
                    nxt = cand
                    break
            if nxt is None:
                break
            cur = nxt
        return cur, cur['orders'][-1], g, exp

    def shrink_history(self, kind, h, n):
        """cut the history at the failing query, then greedily drop earlier operations while that query still fails"""
        cur = {'frags': h['frags'], 'ops': h['ops'][:n + 1]}
        got = exp = None
        for _ in range(40):
            cands = [{'frags': cur['frags'], 'ops': cur['ops'][:i] + cur['ops'][i + 1:]} for i in range(len(cur['ops']) - 1)]
            rs = self.run_impl_cases(self.refs_, [], (), [cur] + cands)['histories']
            v0 = [v for v in self.history_violations(cur, rs[0]) if v[1] == len(cur['ops']) - 1]
            if v0:
                got, exp = v0[0][2], v0[0][3]
            nxt = None
            for cand, r in zip(cands, rs[1:]):
                if 'error' not in r and any(v[1] == len(cand['ops']) - 1 and v[0] == kind for v in self.history_violations(cand, r)):
                    nxt = cand
                    break
            if nxt is None:
                break
            cur = nxt
        used = sorted(set(i for op in cur['ops'] if op[0] != 'get' for i in ([op[1]] if op[0] != 'mol' else op[1])))
        ren = {i: k for k, i in enumerate(used)}
        ops = [[op[0], ren[op[1]]] if op[0] in ('add', 'raw') else (['mol', [ren[i] for i in op[1]]] if op[0] == 'mol' else op)
               for op in cur['ops']]
        return {'key': 'history:' + kind,
                'what': 'operations %r on one Molecule object (add = add_fragment, raw = _add_fragment, mol = add_molecule of a '
                        'molecule built from those fragments, get = get_consensus(dove_safe, with_probs_and_obs, **kwargs)): the last query '
                        'returns %r; the strict majority over the fragments held at that moment is %r' % (ops, got, exp),
                'input': {'operations': ops, 'fragments': [cur['frags'][i] for i in used], 'refs_seed': 1234},
                'impl': got, 'expected': exp}

    # ---------------------------------------------------------------- known finding D16 (only if recorded instead of repaired)
    def replay_known(self, finding):
        if not str(finding.get('key', '')).startswith('D16'):
            return False
        return self.d16_present()

    def matches(self, finding, witness):
        return str(finding.get('key', '')).startswith('D16') and finding.get('key') == witness.get('key')
