"""C13 - molecule consensus is the strict majority call and never reports a tie.

K only: molecules are built from in-memory pysam reads (tools/impl_c13.py) and run through the real
Molecule.get_consensus / Fragment.get_consensus / pick_best_base_call; the model (coq/Model/C13.v) gets
the per-read (refpos, base, quality) triples that pysam reports for the very same reads."""
import itertools, json, os
import fw

BASES = 'ACGT'
ERR = {'ValueError': 1, 'IndexError': 2}
QUALS = [0, 2, 10, 20, 30, 30, 37]


# ------------------------------------------------------------------------------------------ generators
def gen_alignment(rng, ref, start, length, plain):
    """an alignment of about `length` reference bases starting at `start`: (seq, quals, cigar)"""
    cigar, seq = [], []
    pos = start
    if not plain and rng.random() < 0.25:
        n = rng.randint(1, 3)
        cigar.append([4, n]); seq += [rng.choice(BASES) for _ in range(n)]
    left = length
    first = True
    while left > 0:
        n = left if plain or rng.random() < 0.6 else rng.randint(1, left)
        cigar.append([0, n])
        seq += list(ref[pos:pos + n])
        pos += n; left -= n
        if left > 0:
            op = rng.choice([1, 2, 2, 3])
            k = rng.randint(1, 2) if op != 3 else rng.randint(2, 5)
            cigar.append([op, k])
            if op == 1:
                seq += [rng.choice(BASES) for _ in range(k)]
            else:
                pos += k
        first = False
    if not plain and rng.random() < 0.25:
        n = rng.randint(1, 3)
        cigar.append([4, n]); seq += [rng.choice(BASES) for _ in range(n)]
    return seq, cigar


def mutate(rng, seq, variant, p_mis, p_n):
    out = []
    for i, b in enumerate(seq):
        r = rng.random()
        if r < p_n:
            out.append('N')
        elif r < p_n + p_mis:
            out.append(variant if rng.random() < 0.6 and variant != b else rng.choice(BASES))
        else:
            out.append(b)
    return ''.join(out)


def gen_slot(rng, refs, contig, start, length, rev, variant, p_mis, p_n, plain, md=True, flatq=None):
    ref = refs[contig]
    # dry run to learn how much reference the alignment consumes, so that it can end flush with the contig end
    st = rng.getstate()
    _, cig0 = gen_alignment(rng, ref, 0, length, plain)
    rng.setstate(st)
    consumed = sum(n for op, n in cig0 if op in (0, 2, 3))
    start = max(0, min(start, len(ref) - consumed))       # position 0 and the last base of the contig are reachable
    seq, cigar = gen_alignment(rng, ref, start, length, plain)
    assert start + consumed <= len(ref) and [c[:] for c in cigar] == [c[:] for c in cig0]
    seq = mutate(rng, seq, variant, p_mis, p_n)
    if flatq is not None:
        quals = [flatq] * len(seq)
    else:
        quals = [rng.choice(QUALS) for _ in seq]
    return {'contig': contig, 'start': start, 'seq': seq, 'quals': quals, 'rev': rev, 'cigar': cigar, 'md': md}


def gen_fragment(rng, refs, locus, span, wild):
    """one fragment = python list of slots (None or read description); returns (kind, slots)"""
    variant = rng.choice(BASES)
    p_mis = rng.choice([0.0, 0.1, 0.3, 0.5])
    p_n = rng.choice([0.0, 0.05, 0.2])
    plain = rng.random() < 0.6
    flatq = rng.choice([None, None, 30, 20])
    L1, L2 = rng.randint(3, span), rng.randint(3, span)
    s1 = locus + rng.randint(0, span)
    r = rng.random()
    contig = 0

    def slot(start, length, rev, md=True, c=contig):
        return gen_slot(rng, refs, c, start, length, rev, variant, p_mis, p_n, plain, md, flatq)
    if wild and r < 0.03:
        return 'one_slot_list', [slot(s1, L1, False)]
    if wild and r < 0.06:
        return 'no_md', [slot(s1, L1, False, md=rng.random() < 0.5), slot(s1 + rng.randint(-2, 4), L2, True, md=False)]
    if wild and r < 0.08:
        return 'other_contig_mate', [slot(s1, L1, False), slot(s1, L2, True, c=1)]
    if r < 0.22:
        return 'r1_only', [slot(s1, L1, rng.random() < 0.5), None]
    if r < 0.36:
        return 'r2_only', [None, slot(s1, L2, rng.random() < 0.5)]
    if r < 0.42:
        rev = rng.random() < 0.5
        return 'same_strand_pair', [slot(s1, L1, rev), slot(s1 + rng.randint(-3, 3), L2, rev)]
    # inward facing pair; overlap / gap / dove-tail chosen by the offset of the reverse mate
    off = rng.choice([rng.randint(-L2, L1 + 3), rng.randint(-3, 3), rng.randint(0, L1)])
    if rng.random() < 0.5:
        kind = 'pair_fr' + ('_dovetail' if off < 0 else '')
        return kind, [slot(s1, L1, False), slot(s1 + off, L2, True)]
    kind = 'pair_rf' + ('_dovetail' if off < 0 else '')
    return kind, [slot(s1 + off, L1, True), slot(s1, L2, False)]


KW_NAMES = ['only_include_refbase', 'min_phred_score', 'skip_first_n_cycles_R1', 'skip_last_n_cycles_R1',
            'skip_first_n_cycles_R2', 'skip_last_n_cycles_R2', 'dove_R1_distance', 'dove_R2_distance']


def gen_kw(rng):
    """keyword arguments of Molecule.get_consensus that reach read_to_consensus_dict / get_consensus_dictionaries"""
    kw = {}
    for name in KW_NAMES:
        if rng.random() < 0.3:
            if name == 'only_include_refbase':
                kw[name] = rng.choice(BASES)
            elif name == 'min_phred_score':
                kw[name] = rng.choice([0, 3, 10, 20, 25, 30, 31, 37])
            elif name.startswith('skip'):
                kw[name] = rng.choice([0, 1, 2, 3, 5])
            else:
                kw[name] = rng.choice([0, 1, 2, 3, -1])
    if not kw:
        kw['min_phred_score'] = rng.choice([10, 20, 25, 30])
    return kw


def enc_opts(ds, kw):
    """model encoding of the option record; no keyword -> the bare dove_safe flag (Model dec_opts)"""
    if not kw:
        return int(bool(ds))
    o = lambda k: [] if kw.get(k) is None else [kw[k]]
    rb = kw.get('only_include_refbase')
    return [int(bool(ds)), [] if rb is None else [ord(rb)], o('min_phred_score'), o('skip_first_n_cycles_R1'),
            o('skip_last_n_cycles_R1'), o('skip_first_n_cycles_R2'), o('skip_last_n_cycles_R2'),
            kw.get('dove_R1_distance', 0), kw.get('dove_R2_distance', 0)]


def gen_locus(rng, refs, span):
    """mostly inside the contig; 15% hugging position 0 and 12% hugging the last base (starts are clamped to the contig)"""
    r = rng.random()
    if r < 0.15:
        return rng.randint(-span - 2, 0)
    if r < 0.27:
        return len(refs[0]) - rng.randint(2, span + 4)
    return rng.randint(5, 150)


def gen_case(rng, refs, n, wild, tier):
    span = rng.choice([4, 6, 10, 16])
    locus = gen_locus(rng, refs, span)
    kinds, frags = [], []
    for _ in range(n):
        k, f = gen_fragment(rng, refs, locus, span, wild)
        kinds.append(k); frags.append(f)
    ident = list(range(n))
    orders = [ident]
    if n <= (4 if tier == 'quick' else 5) and rng.random() < (0.35 if tier == 'quick' else 0.6):
        orders = [list(p) for p in itertools.permutations(ident)]
    else:
        orders.append(ident[::-1])
        for _ in range(2):
            p = ident[:]; rng.shuffle(p); orders.append(p)
    orders.append(ident + ident)                       # every fragment duplicated
    d = ident + ident; rng.shuffle(d); orders.append(d)
    seen, uniq = set(), []
    for o in orders:
        if tuple(o) not in seen:
            seen.add(tuple(o)); uniq.append(o)
    return {'ds': rng.random() < 0.4, 'frags': frags, 'orders': uniq, 'kinds': kinds,
            'kw': gen_kw(rng) if rng.random() < 0.3 else {}}


def gen_history(rng, refs, wild):
    """operations on one Molecule object: growth by add_fragment / _add_fragment / add_molecule with get_consensus
    queries (dove_safe on/off, with_probs_and_obs on/off, repeated) in between"""
    n = rng.choice([2, 2, 3, 3, 4, 5, 6, 8, 12])
    span = rng.choice([4, 6, 10, 16])
    locus = gen_locus(rng, refs, span)
    kinds, frags = [], []
    same_strand = rng.random() < 0.6          # makes add_fragment accept most fragments
    for _ in range(n):
        for _try in range(20):
            k, f = gen_fragment(rng, refs, locus, span, wild)
            first = next(s for s in f if s is not None)
            if not same_strand or (k != 'same_strand_pair' and first['rev'] == (f[0] is None)):
                break
        kinds.append(k); frags.append(f)
    idx = list(range(n))
    if rng.random() < 0.3:
        idx += [rng.randrange(n) for _ in range(rng.randint(1, 3))]   # the same fragment object added again
    rng.shuffle(idx)
    ops, i = [], 0

    def query():
        ds, probs = rng.random() < 0.3, rng.random() < 0.25
        kw = gen_kw(rng) if rng.random() < 0.4 else {}
        ops.append(['get', ds, probs, kw])
        if rng.random() < 0.4:
            # ask again: same flags without / with other keywords, or the other dove_safe value
            kw2 = rng.choice([{}, {}, kw, gen_kw(rng), {k: v for k, v in kw.items() if k == 'only_include_refbase'}])
            ops.append(['get', ds if rng.random() < 0.7 else not ds, False, kw2])
    while i < len(idx):
        r = rng.random()
        if r < 0.4:
            ops.append(['add', idx[i]]); i += 1
        elif r < 0.55:
            ops.append(['raw', idx[i]]); i += 1
        else:
            k = rng.randint(1, 4)
            ops.append(['mol', idx[i:i + k]]); i += k
        if rng.random() < 0.6:
            query()
    ops.append(['get', False, False, {}]); ops.append(['get', True, False, {}])
    return {'frags': frags, 'ops': ops, 'kinds': kinds}


def history_model_ops(h, r):
    """the operation list as the model sees it (accept verdicts of add_fragment are inputs, see Model/C13.v)"""
    out = []
    for op, res in zip(h['ops'], r['ops']):
        if op[0] == 'add':
            out.append([0, 1 if res is True else 0, r['minput'][op[1]]])
        elif op[0] == 'raw':
            out.append([1, r['minput'][op[1]]])
        elif op[0] == 'mol':
            out.append([2, [r['minput'][i] for i in (res if isinstance(res, list) else [])]])
        else:
            out.append([3, enc_opts(op[1], op[3] if len(op) > 3 else None), int(op[2])])
    return out


def history_held(h, r, upto):
    """indices of the fragments the molecule holds before operation number `upto`"""
    held = []
    for op, res in list(zip(h['ops'], r['ops']))[:upto]:
        if op[0] == 'add' and res is True:
            held.append(op[1])
        elif op[0] == 'raw':
            held.append(op[1])
        elif op[0] == 'mol' and isinstance(res, list):
            held += res
    return held


def history_answer(op, res):
    """canonical implementation answer of a get operation, in the model's encoding"""
    if isinstance(res, dict) and 'error' in res:
        c = [ERR.get(res['error'].split(':')[0], 9), []]
        return [c, c] if op[2] else [c]
    return [[0, res['cons']], [0, res['table']]] if op[2] else [[0, res['cons']]]


def pick_cases(rng, tier):
    opts = [None] + [[ord(b), q] for b in 'ACN' for q in (0, 1, 2)]
    cases = [list(c) for n in range(0, 3 if tier == 'quick' else 4) for c in itertools.product(opts, repeat=n)]
    for _ in range(300 if tier == 'quick' else 3000):
        cases.append([rng.choice([None] + [[ord(rng.choice('ACGTN')), rng.choice([0, 1, 20, 30, 41])]] * 4)
                      for _ in range(rng.randint(0, 5))])
    return cases


# ------------------------------------------------------------------------------------------ python oracle
def spec_votes(ds, frags_minput, head=False, kw=None):
    """brute-force transcription of the theorem statement on the pysam-derived read tuples
    (refpos, base, quality, query position, reference base), for the options of THIS query:
    returns (votes: key -> {base: n}, all_keys) or None when some fragment is outside the precondition"""
    kw = kw or {}
    d1, d2 = kw.get('dove_R1_distance', 0), kw.get('dove_R2_distance', 0)
    minq, refb = kw.get('min_phred_score'), kw.get('only_include_refbase')
    # (skip_first, skip_last) per mate as get_consensus_dictionaries passes them on: for R2 the code passes
    # skip_last_n_cycles_R2 as skip_first as well (skip_first_n_cycles_R2 is unused) - the model does the same
    skips = [(kw.get('skip_first_n_cycles_R1'), kw.get('skip_last_n_cycles_R1')),
             (kw.get('skip_last_n_cycles_R2'), kw.get('skip_last_n_cycles_R2'))]
    votes, keys = {}, set()
    for slots in frags_minput:
        if len(slots) != 2:
            return None
        r1, r2 = (s if s else None for s in slots)
        for s in (r1, r2):
            if s:
                for p, b, q, qp, rb in s[5]:
                    keys.add((s[0], p))
                    if chr(b) not in 'ACGTN':
                        return None
        if head:
            if (ds and r2 is None) or r1 is None:
                continue
        elif ds and (r1 is None or r2 is None):
            continue
        win = None
        if ds:
            if r1[3] and not r2[3]:
                win = (r2[1] + d2, r1[2] - d1 - 1)
            elif not r1[3] and r2[3]:
                win = (r1[1] + d1, r2[2] - d2 - 1)
            else:
                continue
        if (r1 and not r1[4]) or (r2 and not r2[4]):
            continue
        d = [{}, {}]
        for i, s in enumerate((r1, r2)):
            if s:
                rev, qlen = bool(s[3]), s[6]
                sf, sl = skips[i]
                for p, b, q, qp, rb in s[5]:
                    if win is not None and not (win[0] <= p <= win[1]):
                        continue
                    if minq is not None and q < minq:
                        continue
                    if sl is not None and not ((rev and qp > sl) or (not rev and qp < qlen - sl)):
                        continue
                    if sf is not None and not ((not rev and qp > sf) or (rev and qp < qlen - sf)):
                        continue
                    if refb is not None and chr(rb).upper() != refb:
                        continue
                    d[i][(s[0], p)] = (b, q)
        for k in set(d[0]) | set(d[1]):
            c1, c2 = d[0].get(k), d[1].get(k)
            if c1 and c2:
                if c1[1] > c2[1]:
                    b = c1[0]
                elif c2[1] > c1[1]:
                    b = c2[0]
                else:
                    b = c1[0] if c1[0] == c2[0] else ord('N')
            else:
                b = (c1 or c2)[0]
            if b != ord('N'):
                votes.setdefault(k, {}).setdefault(b, 0)
                votes[k][b] += 1
    return votes, keys


def spec_consensus(ds, frags_minput, head=False, kw=None):
    r = spec_votes(ds, frags_minput, head, kw)
    if r is None:
        return None
    votes, _ = r
    out = []
    for k, v in votes.items():
        for b, n in v.items():
            if all(n > m for b2, m in v.items() if b2 != b):
                out.append([k[0], k[1], b])
    return sorted(out)


def code_of(x):
    """canonical outcome of an implementation call: [0, value] or [1|2|9, []]"""
    if isinstance(x, dict) and 'error' in x:
        return [ERR.get(x['error'].split(':')[0], 9), []]
    return [0, x]


def sort_model(v):
    return [v[0], sorted(v[1])] if v[0] == 0 else v


class Prop(fw.PropBase):
    ID = 'C13'
    PROPS = 'Props/C13.v'
    TRUSTED = [
        'modelled not verified: pysam AlignedSegment accessors (get_aligned_pairs(matches_only=True), reference_start/'
        'reference_end, is_reverse, has_tag(MD)); the model input per read is what pysam reports for the same read object',
        'modelled not verified: numpy argmax/equality mask on float vectors (exact for counts < 2^53), python dict/set '
        'semantics (model: insertion-ordered association list; iteration order of the key-set union is not modelled, '
        'votes are shown to commute); the sort of the locations only fixes the iteration order of the returned dict',
        'keyword options of get_consensus are modelled as the record opts (dove_safe, only_include_refbase, min_phred_score, '
        'skip_first/last_n_cycles_R1/R2, dove_R1/R2_distance; allow_N False); the code passes skip_last_n_cycles_R2 also as '
        'skip_first for R2 (skip_first_n_cycles_R2 is unused) - modelled as is; membership of fragments in the molecule is '
        'taken as given (add_fragment verdict is an input)',
    ]
    ASSUMPTIONS = [
        'every fragment holds a two-slot reads list [R1 or None, R2 or None] (what MoleculeIterator builds); a one-element '
        'list makes Fragment.get_consensus raise IndexError - the model reproduces that, the theorems exclude it',
        'query bases are in ACGTN (another IUPAC code makes str.index raise ValueError mid-fragment and the remaining '
        'positions of that fragment are lost in set-iteration order; outside the stated quantifier)',
        'majority = strictly more fragment calls than every other base among A,C,G,T; N calls (including equal-quality '
        'mate disagreements) are no votes',
    ]
    WITNESS_D16 = {
        'ds': False, 'orders': [[0, 1, 2]], 'kinds': ['r1_only', 'r2_only', 'r2_only'],
        'frags': [[{'contig': 0, 'start': 20, 'seq': 'AAAA', 'quals': [30] * 4, 'rev': False, 'cigar': [[0, 4]], 'md': True}, None],
                  [None, {'contig': 0, 'start': 20, 'seq': 'CCCC', 'quals': [30] * 4, 'rev': True, 'cigar': [[0, 4]], 'md': True}],
                  [None, {'contig': 0, 'start': 20, 'seq': 'CCCC', 'quals': [30] * 4, 'rev': True, 'cigar': [[0, 4]], 'md': True}]]}

    def __init__(self, tier, seed):
        super().__init__(tier, seed)
        # when D16 is recorded as a known finding (instead of being repaired) the HEAD model (mode 3) is the reference
        self.head = any(str(f.get('key', '')).startswith('D16') for f in fw.load_findings('C13'))
        self.mode = 3 if self.head else 0

    # ---------------------------------------------------------------- inputs
    def refs(self):
        import random
        r = random.Random(1234)
        return [''.join(r.choice(BASES) for _ in range(400)) for _ in range(2)]

    def corpus_cases(self):
        d = os.path.join(fw.VERIF, 'corpus', 'C13')
        out = []
        if os.path.isdir(d):
            for f in sorted(os.listdir(d)):
                if f.endswith('.json'):
                    j = json.load(open(os.path.join(d, f)))
                    if 'case' in j:
                        out.append(j['case'])
        return out

    def cases(self):
        quick = self.tier == 'quick'
        refs = self.refs()
        cases = self.corpus_cases() + [self.WITNESS_D16]
        n_rand = 900 if quick else 15000
        for i in range(n_rand):
            n = self.rng.choice([1, 2, 2, 3, 3, 4, 5, 6, 8, 12]) if i % 3 else self.rng.randint(1, 12)
            cases.append(gen_case(self.rng, refs, n, wild=(i % 4 == 0), tier=self.tier))
        # small exhaustive scope: 1..3 two-base fragments over calls {A,C,N} x quality {20,30}, all fragment shapes,
        # in the middle of the contig, at reference position 0 and at the last two bases of the contig
        col = []
        L = len(refs[0])

        def shapes_at(start, dove):
            sh = []
            for b1, q1, b2, q2 in itertools.product('ACN', (20, 30), 'ACN', (20, 30)):
                sh.append([self._mini(b1, q1, False, start), self._mini(b2, q2, True, start)])
            for b, q in itertools.product('ACN', (20, 30)):
                sh.append([self._mini(b, q, False, start), None])
                sh.append([None, self._mini(b, q, True, start)])
            if dove is not None:
                # dove-tailed / staggered mates: the reverse mate starts one base before (dove=-1) or after the forward mate
                for b1, q1, b2, q2 in itertools.product('AC', (20, 30), 'AC', (20, 30)):
                    f, r = (start + 1, start) if dove < 0 else (start, start + 1)
                    sh.append([self._mini(b1, q1, False, f), self._mini(b2, q2, True, r)])
                    sh.append([self._mini(b1, q1, True, r), self._mini(b2, q2, False, f)])
            return sh
        scopes = [('middle', shapes_at(30, None), 2 if quick else 3),
                  ('position 0', shapes_at(0, -1), 1 if quick else 2),
                  ('contig end', shapes_at(L - 3, -1) + shapes_at(L - 2, None)[:4], 1 if quick else 2)]
        self.n_shapes = {name: len(sh) for name, sh, _ in scopes}
        for name, pool, kmax in scopes:
            for k in range(1, kmax + 1):
                for combo in itertools.combinations_with_replacement(range(len(pool)), k):
                    for ds in (False, True):
                        col.append({'ds': ds, 'frags': [pool[i] for i in combo], 'orders': [list(range(k)), list(range(k))[::-1]],
                                    'kinds': ['mini'] * k})
        if quick:
            # pairs of edge shapes: a sample in the quick tier (complete in thorough)
            for name, pool, _ in scopes[1:]:
                for _ in range(300):
                    combo = [self.rng.randrange(len(pool)) for _ in range(2)]
                    col.append({'ds': self.rng.random() < 0.5, 'frags': [pool[i] for i in combo], 'orders': [[0, 1], [1, 0]],
                                'kinds': ['mini'] * 2})
        self.n_exh = len(col)
        return refs, cases + col

    @staticmethod
    def _mini(b, q, rev, start=30):
        return {'contig': 0, 'start': start, 'seq': b + 'G', 'quals': [q, 30], 'rev': rev, 'cigar': [[0, 2]], 'md': True}

    # ---------------------------------------------------------------- K
    def run_impl_cases(self, refs, cases, picks=(), histories=()):
        return fw.run_impl('impl_c13.py', {'refs': refs, 'cases': [{k: c.get(k) for k in ('ds', 'frags', 'orders', 'kw')} for c in cases],
                                           'picks': list(picks),
                                           'histories': [{k: h[k] for k in ('frags', 'ops')} for h in histories]})

    def histories(self):
        d = os.path.join(fw.VERIF, 'corpus', 'C13')
        out = []
        if os.path.isdir(d):
            for f in sorted(os.listdir(d)):
                if f.endswith('.json'):
                    j = json.load(open(os.path.join(d, f)))
                    if 'history' in j:
                        out.append(j['history'])
        refs = self.refs()
        hr = __import__('random').Random(self.seed * 7919 + 13)
        for i in range(350 if self.tier == 'quick' else 5000):
            out.append(gen_history(hr, refs, wild=(i % 5 == 0)))
        return out

    def history_violations(self, h, r):
        """python transcription of C13_history_query + C13_majority on the implementation's answers: every query must
        answer the strict majority over ALL fragments held at that moment"""
        out = []
        for n, (op, res) in enumerate(zip(h['ops'], r['ops'])):
            if op[0] != 'get':
                continue
            held = [r['minput'][i] for i in history_held(h, r, n)]
            kw = op[3] if len(op) > 3 else None
            exp = spec_consensus(bool(op[1]), held, head=self.head, kw=kw)
            if exp is None:
                continue
            got = history_answer(op, res)
            if got[0] != [0, exp]:
                out.append(('history-stale-or-wrong-consensus', n, got[0], exp))
            elif op[2]:
                votes, _ = spec_votes(bool(op[1]), held, head=self.head, kw=kw)
                tab = sorted([k[0], k[1]] + [v.get(ord(b), 0) for b in 'ACGT'] + [0] for k, v in votes.items())
                if got[1] != [0, tab]:
                    out.append(('history-vote-table', n, got[1], tab))
        return out

    def correspondence(self):
        refs, cases = self.cases()
        picks = pick_cases(self.rng, self.tier)
        hists = self.histories()
        res = self.run_impl_cases(refs, cases, picks, hists)
        self.refs_, self.cases_, self.res_, self.picks_, self.hists_ = refs, cases, res, picks, hists
        rc = res['cases']
        broken_build = [(c, r) for c, r in zip(cases, rc) if 'error' in r]
        if broken_build:
            raise fw.Broken('correspondence', 'could not build a molecule from in-memory reads: %r' % (broken_build[0][1],))
        # ---- measured description of the input stream
        hist_n, hist_kind, nontrivial, ties, nonly, mate_ties, errs = {}, {}, set(), 0, 0, 0, {}
        evals = 0
        for c, r in zip(cases, rc):
            n = len(c['frags'])
            hist_n[n] = hist_n.get(n, 0) + 1
            for k in c['kinds']:
                hist_kind[k] = hist_kind.get(k, 0) + 1
            evals += len(c['orders']) + 1 + len(c['frags'])
            for o in r['outs']:
                if isinstance(o, dict):
                    errs[o['error'].split(':')[0]] = errs.get(o['error'].split(':')[0], 0) + 1
            t = r['table'] if isinstance(r['table'], list) else []
            contested = [row for row in t if sum(1 for x in row[2:6] if x > 0) >= 2]
            tie_rows = [row for row in t if sorted(row[2:7])[-1] == sorted(row[2:7])[-2]]
            ties += len(tie_rows)
            keys = set((s[0], p[0]) for f in r['minput'] for s in f if s for p in s[5])
            nonly += len(keys - set((row[0], row[1]) for row in t))
            mate_ties += sum(1 for fc in r['fragcons'] if isinstance(fc, list) for e in fc if e[2] == 78 and e[3] == 0)
            if contested:
                nontrivial.add(fw.canon_hash([enc_opts(c['ds'], c.get('kw')), r['minput']]))
        self.cov.update({
            'evaluations': evals + len(picks),
            'distinct_nontrivial': len(nontrivial),
            'rule': 'one evaluation = one call of the real Molecule.get_consensus (each insertion order / duplication of each '
                    'molecule, plus one with_probs_and_obs call for the vote table) or Fragment.get_consensus or '
                    'pick_best_base_call, compared with the model. non-trivial molecule = at least one position where two '
                    'different bases received votes; distinct by hash of (dove_safe, per-read pysam triples)',
            'molecules': len(cases), 'fragments_per_molecule': {str(k): v for k, v in sorted(hist_n.items())},
            'fragment_kinds': hist_kind, 'dove_safe_true': sum(1 for c in cases if c['ds']),
            'molecules_with_keyword_options': sum(1 for c in cases if c.get('kw')),
            'molecules_covering_reference_position_0': sum(1 for r in rc if any(s and s[1] == 0 for f in r['minput'] for s in f)),
            'molecules_covering_last_base_of_contig': sum(1 for r in rc if any(s and s[2] == len(refs[s[0]]) for f in r['minput'] for s in f)),
            'edge_reads_by_slot': {k: sum(1 for r in rc for f in r['minput'] for i, s in enumerate(f) if s and i == n and (s[1] == 0 or s[2] == len(refs[s[0]])))
                                   for k, n in (('R1', 0), ('R2', 1))},
            'orders_run': sum(len(c['orders']) for c in cases),
            'molecules_with_all_permutations': sum(1 for c in cases if len(c['orders']) >= 6 and len(c['frags']) >= 3),
            'tie_positions_seen': ties, 'positions_without_any_vote_seen': nonly, 'mate_quality_tie_calls_seen': mate_ties,
            'impl_exceptions_seen': errs, 'pick_best_cases': len(picks),
            'exhaustive': False,
            'small_scope_enumeration': {
                'scope': 'complete: every multiset of 1..%d two-base fragments over the shapes (mate calls A/C/N x quality 20/30, '
                         'pairs, R1-only, R2-only) in the middle of the contig, and of 1..%d at reference position 0 and at the '
                         'last bases of the contig (there also dove-tailed mates); dove_safe on/off, both insertion orders; '
                         'shapes per place %r%s' % (2 if self.tier == 'quick' else 3, 1 if self.tier == 'quick' else 2, self.n_shapes,
                                                    '; plus 600 sampled pairs of edge shapes' if self.tier == 'quick' else ''),
                'cases': self.n_exh},
        })
        if not self.model_ok:
            return
        # ---- model runs
        jobs, index = [], []
        for ci, (c, r) in enumerate(zip(cases, rc)):
            for oi, o in enumerate(c['orders']):
                jobs.append([enc_opts(c['ds'], c.get('kw')), [r['minput'][i] for i in o]]); index.append((ci, oi))
        mout = [sort_model(v) for v in fw.run_model('C13', self.mode, jobs)]
        ident = [[enc_opts(c['ds'], c.get('kw')), r['minput']] for c, r in zip(cases, rc)]
        pre = fw.run_model('C13', 1, ident)
        dis = []
        for (ci, oi), m in zip(index, mout):
            got = code_of(rc[ci]['outs'][oi])
            if got != m:
                dis.append({'what': 'Molecule.get_consensus', 'case': ci, 'order': cases[ci]['orders'][oi], 'model': m, 'impl': got})
        # specification evaluated on the implementation's outputs: (a) python transcription of C13_majority on every
        # output, (b) the Coq specb (mode 2, the same predicate C13_specb_sound is about) on a sample
        n_py = 0
        for ci, (c, r) in enumerate(zip(cases, rc)):
            for kind, o, g, exp in self.violations_of(c, r):
                dis.append({'what': 'python brute-force vote disagrees with implementation (%s)' % kind, 'case': ci,
                            'order': o, 'impl': g, 'expected': exp})
            if spec_consensus(c['ds'], r['minput'], head=self.head, kw=c.get('kw')) is not None:
                n_py += len(c['orders'])
        spec_jobs, spec_idx = [], []
        cand = [n for n, (ci, oi) in enumerate(index)
                if pre[ci] == 1 and not self.head and code_of(rc[ci]['outs'][oi])[0] == 0 and len(jobs[n][1]) <= 10]
        self.rng.shuffle(cand)
        for n in cand[:(500 if self.tier == 'quick' else 6000)]:
            ci, oi = index[n]
            spec_jobs.append([jobs[n], code_of(rc[ci]['outs'][oi])[1]]); spec_idx.append((ci, oi))
        sp = fw.run_model('C13', 2, spec_jobs) if spec_jobs else []
        for (ci, oi), ok in zip(spec_idx, sp):
            if ok != 1:
                dis.append({'what': 'specb(majority) false on implementation output', 'case': ci, 'order': cases[ci]['orders'][oi],
                            'impl': code_of(rc[ci]['outs'][oi])})
        # vote tables and fragment level
        if not self.head:
            mt = [sort_model(v) for v in fw.run_model('C13', 4, ident)]
            for ci, m in enumerate(mt):
                got = code_of(rc[ci]['table'])
                if got != m:
                    dis.append({'what': 'vote table (with_probs_and_obs)', 'case': ci, 'order': cases[ci]['orders'][0], 'model': m, 'impl': got})
        fjobs, fidx = [], []
        for ci, (c, r) in enumerate(zip(cases, rc)):
            for fi, f in enumerate(r['minput']):
                fjobs.append([enc_opts(c['ds'], c.get('kw')), f]); fidx.append((ci, fi))
        mf = [sort_model(v) for v in fw.run_model('C13', 6, fjobs)]
        for (ci, fi), m in zip(fidx, mf):
            got = code_of(rc[ci]['fragcons'][fi])
            if got != m:
                dis.append({'what': 'Fragment.get_consensus', 'case': ci, 'fragment': fi, 'model': m, 'impl': got})
        # histories through one Molecule object
        rh = res['histories']
        bad_h = [r for r in rh if 'error' in r]
        if bad_h:
            raise fw.Broken('correspondence', 'could not run a history: %r' % (bad_h[0],))
        mh = fw.run_model('C13', 8 if self.head else 7, [history_model_ops(h, r) for h, r in zip(hists, rh)])
        n_get = n_get_after_growth = n_add = n_acc = n_mol = n_raw = n_repeat = n_kw = n_plain_after_kw = 0
        for hi, (h, r, m) in enumerate(zip(hists, rh, mh)):
            gets = [(n, op, x) for n, (op, x) in enumerate(zip(h['ops'], r['ops'])) if op[0] == 'get']
            seen_get = False
            for n, (op, x) in enumerate(zip(h['ops'], r['ops'])):
                if op[0] == 'add':
                    n_add += 1; n_acc += x is True
                elif op[0] == 'mol':
                    n_mol += 1
                elif op[0] == 'raw':
                    n_raw += 1
                else:
                    n_get += 1
                    n_get_after_growth += seen_get and h['ops'][n - 1][0] != 'get'
                    n_repeat += n > 0 and h['ops'][n - 1][0] == 'get'
                    has_kw = len(op) > 3 and bool(op[3])
                    n_kw += has_kw
                    n_plain_after_kw += (not has_kw) and any(o[0] == 'get' and len(o) > 3 and o[3] for o in h['ops'][:n])
                    seen_get = True
            if len(m) != len(gets):
                dis.append({'what': 'history: number of answers', 'history': hi, 'model': len(m), 'impl': len(gets)})
                continue
            for (n, op, x), ma in zip(gets, m):
                got = history_answer(op, x)
                if got != [sort_model(a) for a in ma]:
                    dis.append({'what': 'history: get_consensus answer number %d (operation %d)' % (gets.index((n, op, x)), n),
                                'history': hi, 'ops': h['ops'][:n + 1], 'model': [sort_model(a) for a in ma], 'impl': got})
                    break
            for kind, n, got, exp in self.history_violations(h, r):
                dis.append({'what': 'python brute-force vote over the held fragments disagrees (%s)' % kind, 'history': hi,
                            'ops': h['ops'][:n + 1], 'impl': got, 'expected': exp})
                break
        self.cov['histories'] = {'histories': len(hists), 'queries': n_get, 'queries_after_growth_following_an_earlier_query': n_get_after_growth,
                                 'repeated_queries': n_repeat, 'add_fragment': n_add, 'add_fragment_accepted': n_acc,
                                 '_add_fragment': n_raw, 'add_molecule': n_mol, 'queries_with_keyword_options': n_kw,
                                 'plain_queries_after_a_query_with_keyword_options': n_plain_after_kw}
        self.cov['evaluations'] += n_get
        mp = fw.run_model('C13', 5, [[[] if c is None else c for c in p] for p in picks])
        for p, m, g in zip(picks, mp, res['picks']):
            if m != g:
                dis.append({'what': 'pick_best_base_call', 'input': p, 'model': m, 'impl': g})
        self.cov['traces_validated_against_impl'] = len(jobs) + len(spec_jobs) + len(ident) + len(fjobs) + len(picks) + n_get
        self.cov['precondition_hit_rate'] = round(sum(pre) / max(1, len(pre)), 4)
        self.cov['specb_evaluated_on_impl_outputs'] = len(spec_jobs)
        self.cov['python_majority_oracle_evaluated_on_impl_outputs'] = n_py
        self.cov['disagreements'] = len(dis)
        k = [i for i in range(len(jobs)) if mout[i][0] == 0 and mout[i][1]]
        sample = [k[i * len(k) // 3] for i in range(3)] if len(k) >= 3 else k
        self.cov['samples'] = [{'input': jobs[i], 'impl': code_of(rc[index[i][0]]['outs'][index[i][1]]), 'model': mout[i]} for i in sample
                               if len(json.dumps(jobs[i])) < 3000][:3]
        # vm_compute cross-check of the extracted binary (small inputs first: vm_compute on Z lists is slow to parse)
        order = sorted(range(len(jobs)), key=lambda i: (len(json.dumps(jobs[i])) > 1500, self.rng.random()))[:100]
        raw = fw.run_model('C13', self.mode, [jobs[i] for i in order])
        ok, nm, log = fw.vm_crosscheck('C13', self.mode, [(jobs[i], raw[n]) for n, i in enumerate(order)])
        self.cov['vm_compute_crosscheck'] = {'cases': len(order), 'mismatches': nm}
        if not ok:
            raise fw.Broken('extraction', 'vm_compute and extracted model disagree: ' + log[-800:])
        if dis:
            self.dis = dis
            raise fw.Broken('correspondence', 'model and implementation disagree on %d evaluations; first: %s'
                            % (len(dis), json.dumps(dis[0])[:1500]))

    # ---------------------------------------------------------------- search (no model needed)
    def violations_of(self, case, r):
        """spec (python transcription of C13_majority / C13_perm / C13_double) on the implementation outputs"""
        out = []
        exp = spec_consensus(case['ds'], r['minput'], head=self.head, kw=case.get('kw'))
        if exp is None:
            return out
        exp_head = spec_consensus(case['ds'], r['minput'], head=True, kw=case.get('kw'))
        for o, got in zip(case['orders'], r['outs']):
            g = code_of(got)
            if g == [0, exp]:
                continue
            if g[0] != 0:
                kind = 'error'
            elif g[1] == exp_head and not self.head and self.d16_present():
                kind = 'D16-r2-only-fragment-not-counted'
            else:
                gk = {(a, b): c for a, b, c in g[1]}
                ek = {(a, b): c for a, b, c in exp}
                if any(k not in ek for k in gk):
                    kind = 'tie-or-unvoted-position-reported'
                elif any(k not in gk for k in ek):
                    kind = 'majority-position-missing'
                else:
                    kind = 'wrong-base'
                if code_of(r['outs'][0]) == [0, exp]:
                    kind = 'order-or-duplication-dependence'
            out.append((kind, o, g, exp))
        return out

    def d16_present(self):
        """does the implementation drop R2-only fragments on the canonical D16 witness (1 x R1-only A vs 2 x R2-only C)?"""
        if not hasattr(self, '_d16'):
            r = self.run_impl_cases(self.refs(), [self.WITNESS_D16])['cases'][0]
            self._d16 = code_of(r['outs'][0]) == [0, [[0, 20 + i, 65] for i in range(4)]]
        return self._d16

    def search(self):
        res = getattr(self, 'res_', None)
        if res is None:
            self.refs_, self.cases_ = self.cases()
            self.picks_ = pick_cases(self.rng, self.tier)
            self.hists_ = self.histories()
            res = self.res_ = self.run_impl_cases(self.refs_, self.cases_, self.picks_, self.hists_)
        best = {}
        for c, r in zip(self.cases_, res['cases']):
            if 'error' in r:
                self.witnesses.append({'key': 'harness:build', 'what': 'molecule could not be built: ' + r['error'], 'input': c})
                return
            for kind, o, g, exp in self.violations_of(c, r):
                size = sum(len(json.dumps(f)) for f in c['frags']) + 20 * len(o)
                if kind not in best or size < best[kind][0]:
                    best[kind] = (size, c, o)
        for kind, (size, c, o) in sorted(best.items()):
            c2, o2, g, exp = self.shrink(c, o, kind)
            self.witnesses.append({
                'key': kind if kind.startswith('D16') else 'majority:' + kind,
                'what': 'Molecule.get_consensus(dove_safe=%s) on %d fragment(s) in insertion order %r returns %r; the strict '
                        'majority of the fragment calls is %r (entries are [contig, refpos, base code])'
                        % ('%s, **%r' % (c2['ds'], c2.get('kw') or {}), len(c2['frags']), o2, g, exp),
                'input': {'dove_safe': c2['ds'], 'kwargs': c2.get('kw') or {}, 'fragments': c2['frags'], 'order': o2, 'refs_seed': 1234},
                'impl': g, 'expected': exp})
        # histories: stale / route dependent answers
        hbest = None
        for h, r in zip(self.hists_, res.get('histories', [])):
            if 'error' in r:
                continue
            for kind, n, got, exp in self.history_violations(h, r):
                size = len(json.dumps(h['ops'][:n + 1])) + sum(len(json.dumps(f)) for f in h['frags'])
                if hbest is None or size < hbest[0]:
                    hbest = (size, kind, h, n)
                break
        if hbest:
            self.witnesses.append(self.shrink_history(*hbest[1:]))
        # pick_best_base_call against its specification
        for p, g in zip(self.picks_, res['picks']):
            calls = [c for c in p if c is not None]
            if not calls:
                exp = [78, 0]
            else:
                m = max(q for _, q in calls)
                bs = set(b for b, q in calls if q == m)
                exp = [bs.pop(), m] if len(bs) == 1 else [78, 0]
            if g != exp:
                self.witnesses.append({'key': 'pick_best', 'what': 'pick_best_base_call%r = %r, expected %r (highest quality wins, '
                                                                    'equal-quality disagreement is N)' % (tuple(p), g, exp),
                                       'input': p, 'impl': g, 'expected': exp})
                break

    def shrink(self, c, o, kind):
        """greedy: drop fragments while the same kind of violation remains"""
        cur = {'ds': c['ds'], 'kw': c.get('kw'), 'frags': [c['frags'][i] for i in o], 'kinds': [c['kinds'][i] for i in o]}
        cur['orders'] = [list(range(len(o)))]
        if kind == 'order-or-duplication-dependence':
            cur = dict(c, orders=[c['orders'][0], o])
        g = exp = None
        for _ in range(12):
            n = len(cur['frags'])
            cands = []
            if kind != 'order-or-duplication-dependence' and n > 1:
                for i in range(n):
                    cands.append({'ds': cur['ds'], 'kw': cur.get('kw'), 'frags': cur['frags'][:i] + cur['frags'][i + 1:],
                                  'kinds': cur['kinds'][:i] + cur['kinds'][i + 1:], 'orders': [list(range(n - 1))]})
            rs = self.run_impl_cases(self.refs_, [cur] + cands)['cases']
            v0 = [v for v in self.violations_of(cur, rs[0]) if v[0] == kind]
            if v0:
                g, exp = v0[-1][2], v0[-1][3]
            nxt = None
            for cand, r in zip(cands, rs[1:]):
                if 'error' not in r and any(v[0] == kind for v in self.violations_of(cand, r)):
                    nxt = cand
                    break
            if nxt is None:
                break
            cur = nxt
        return cur, cur['orders'][-1], g, exp

    def shrink_history(self, kind, h, n):
        """cut the history at the failing query, then greedily drop earlier operations while that query still fails"""
        cur = {'frags': h['frags'], 'ops': h['ops'][:n + 1]}
        got = exp = None
        for _ in range(40):
            cands = [{'frags': cur['frags'], 'ops': cur['ops'][:i] + cur['ops'][i + 1:]} for i in range(len(cur['ops']) - 1)]
            rs = self.run_impl_cases(self.refs_, [], (), [cur] + cands)['histories']
            v0 = [v for v in self.history_violations(cur, rs[0]) if v[1] == len(cur['ops']) - 1]
            if v0:
                got, exp = v0[0][2], v0[0][3]
            nxt = None
            for cand, r in zip(cands, rs[1:]):
                if 'error' not in r and any(v[1] == len(cand['ops']) - 1 and v[0] == kind for v in self.history_violations(cand, r)):
                    nxt = cand
                    break
            if nxt is None:
                break
            cur = nxt
        used = sorted(set(i for op in cur['ops'] if op[0] != 'get' for i in ([op[1]] if op[0] != 'mol' else op[1])))
        ren = {i: k for k, i in enumerate(used)}
        ops = [[op[0], ren[op[1]]] if op[0] in ('add', 'raw') else (['mol', [ren[i] for i in op[1]]] if op[0] == 'mol' else op)
               for op in cur['ops']]
        return {'key': 'history:' + kind,
                'what': 'operations %r on one Molecule object (add = add_fragment, raw = _add_fragment, mol = add_molecule of a '
                        'molecule built from those fragments, get = get_consensus(dove_safe, with_probs_and_obs, **kwargs)): the last query '
                        'returns %r; the strict majority over the fragments held at that moment is %r' % (ops, got, exp),
                'input': {'operations': ops, 'fragments': [cur['frags'][i] for i in used], 'refs_seed': 1234},
                'impl': got, 'expected': exp}

    # ---------------------------------------------------------------- known finding D16 (only if recorded instead of repaired)
    def replay_known(self, finding):
        if not str(finding.get('key', '')).startswith('D16'):
            return False
        return self.d16_present()

    def matches(self, finding, witness):
        return str(finding.get('key', '')).startswith('D16') and finding.get('key') == witness.get('key')
